#!/usr/bin/env python3
"""seedtest.py <dir with patch.diff, demo_test.go, meta.json> <ID> --demo-dir core/state [--pkgs ./core/state/...] [--name slug]

Confirms a seeded change in a fresh scratch worktree of /repo (HEAD) and runs the check <ID> against it:
  1. demo passes on the clean tree, 2. patch applies and builds, 3. demo fails with the patch,
  4. the existing tests of the given packages still pass with the patch, 5. `VERIF_REPO=<wt> bin/check <ID>` (quick; --thorough too).
With --keep the change is stored as /verif/seeded/<name>/ (patch.diff, demo, meta.json with what was run and the outcome).
The worktree is removed at the end.
"""
import argparse
import json
import os
import shutil
import subprocess
import sys
import time

ENV = dict(os.environ, GOFLAGS="-mod=mod", GOPROXY="off", GOSUMDB="off", GOTOOLCHAIN="local")


def sh(cmd, cwd=None, env=None, timeout=3600):
    p = subprocess.run(cmd, shell=True, cwd=cwd, env=env or ENV, stdout=subprocess.PIPE, stderr=subprocess.STDOUT, text=True,
                       timeout=timeout)
    return p.returncode, p.stdout


def main():
    ap = argparse.ArgumentParser()
    ap.add_argument("src")
    ap.add_argument("id")
    ap.add_argument("--demo-dir", required=True)
    ap.add_argument("--demo-name", default="verif_seed_demo_test.go")
    ap.add_argument("--pkgs", default="")
    ap.add_argument("--name")
    ap.add_argument("--keep", action="store_true", default=True)  # stored by default (a forgotten --keep lost a whole wave once)
    ap.add_argument("--thorough", action="store_true")
    ap.add_argument("--skip-tests", action="store_true")
    ap.add_argument("--checks", default="")
    ap.add_argument("--no-check", action="store_true", help="only confirm demo/tests; merge the outcome into an existing seeded/<name>/meta.json")
    a = ap.parse_args()
    name = a.name or (a.id + "_" + os.path.basename(os.path.abspath(a.src)))
    wt = "/tmp/seed_wt_%s_%d" % (name, os.getpid())
    res = {"name": name, "property": a.id, "steps": []}

    def step(what, ok, out=""):
        res["steps"].append({"what": what, "ok": ok, "out": out[-1500:]})
        print("%-60s %s" % (what, "ok" if ok else "FAILED"), flush=True)
        return ok

    sh("git -C /repo worktree add -q %s HEAD" % wt)
    # instrumentation files not committed yet (builders still at work) are part of the tree the checks build against
    rc, out = sh("git -C /repo ls-files --others --exclude-standard")
    for f in out.split():
        if os.path.basename(f).startswith("verif_") and f.endswith(".go"):
            os.makedirs(os.path.dirname(os.path.join(wt, f)), exist_ok=True)
            shutil.copy(os.path.join("/repo", f), os.path.join(wt, f))
    try:
        demo_src = os.path.join(a.src, "demo_test.go")
        if not os.path.exists(demo_src) and os.path.exists(demo_src + ".txt"):
            demo_src += ".txt"   # stored form under /verif/seeded
        demo_dst = os.path.join(wt, a.demo_dir, a.demo_name)
        run = None
        if os.path.exists(demo_src):
            shutil.copy(demo_src, demo_dst)
            run = "go test -vet=off -count=1 -run 'Demo|demo|Seed' ./%s/" % a.demo_dir
            rc, out = sh(run, cwd=wt)
            step("demo passes on the clean tree", rc == 0, out)
        rc, out = sh("git apply --exclude='out/*' %s" % os.path.join(os.path.abspath(a.src), "patch.diff"), cwd=wt)
        if not step("patch applies", rc == 0, out):
            return finish(a, res, wt, None)
        rc, out = sh("go build ./... && go build -tags verif ./...", cwd=wt)
        step("tree builds with the patch (with and without tag verif)", rc == 0, out)
        if run:
            rc, out = sh(run, cwd=wt)
            step("demo fails with the patch", rc != 0, out)
            os.remove(demo_dst)
        if a.pkgs and not a.skip_tests:
            FLAKY = ("TestTransactionPoolUnderpricing", "TestTable_closest", "Test_Server")  # flaky in BASELINE.json
            for attempt in range(3):
                rc, out = sh("go test -vet=off -count=1 %s" % a.pkgs, cwd=wt)
                fails = [l.split()[2] for l in out.splitlines() if l.startswith("--- FAIL:")]
                if rc == 0 or not fails or any(f not in FLAKY for f in fails):
                    break
            step("existing tests pass with the patch: %s%s" % (a.pkgs, " (after retrying a baseline-flaky test)" if attempt else ""), rc == 0, out)
        verdicts = {}
        if a.no_check:
            d = os.path.join("/verif/seeded", name, "meta.json")
            if os.path.exists(d):
                meta = json.load(open(d))
                meta["confirmed_by_lead"] = res["steps"]
                json.dump(meta, open(d, "w"), indent=1)
            print("CONFIRMED %s: %s" % (name, all(s["ok"] for s in res["steps"])))
            return 0
        for cid in [a.id] + [c for c in a.checks.split(",") if c]:
            for tier in ["quick"] + (["thorough"] if a.thorough else []):
                t = time.time()
                env = dict(ENV, VERIF_REPO=wt, VERIF_WORK="/verif/.work/seedruns", VERIF_EVIDENCE="/verif/.work/seedruns/evidence")
                rc, out = sh("python3 /verif/bin/check %s --tier %s" % (cid, tier), cwd="/verif", env=env, timeout=7200)
                lines = [l for l in out.splitlines() if l.startswith(("VIOLATION", "OK ", "UNDECIDED", "KNOWN-FINDING", "DRIFT"))]
                verdicts["%s/%s" % (cid, tier)] = {"rc": rc, "wall_s": round(time.time() - t, 1), "lines": [l[:300] for l in lines[:8]]}
                print("check %s %s: rc=%d  %s" % (cid, tier, rc, " | ".join(l[:160] for l in lines[:4])), flush=True)
                if rc == 1:
                    break
        res["verdicts"] = verdicts
        return finish(a, res, wt, verdicts)
    finally:
        sh("git -C /repo worktree remove --force %s" % wt)
        # evidence files were rewritten by runs against the scratch tree: they are transient


def finish(a, res, wt, verdicts):
    detected = bool(verdicts) and any(v["rc"] == 1 for v in verdicts.values())
    res["detected"] = detected
    print("RESULT %s detected=%s" % (res["name"], detected))
    if a.keep:
        d = os.path.join("/verif/seeded", res["name"])
        os.makedirs(d, exist_ok=True)
        for f in ("patch.diff", "demo_test.go"):
            dst = os.path.join(d, f if f != "demo_test.go" else "demo_test.go.txt")
            if os.path.exists(os.path.join(a.src, f)) and os.path.abspath(os.path.join(a.src, f)) != os.path.abspath(dst):
                shutil.copy(os.path.join(a.src, f), dst)
        meta = {}
        if os.path.exists(os.path.join(a.src, "meta.json")):
            try:
                meta = json.load(open(os.path.join(a.src, "meta.json")))
            except Exception:
                meta = {}
        meta.update({"property": a.id, "demo_dir": a.demo_dir, "confirmed_by_lead": res["steps"], "check_verdicts": verdicts,
                     "detected": detected, "repo_head": subprocess.run("git -C /repo rev-parse --short HEAD", shell=True,
                                                                         stdout=subprocess.PIPE, text=True).stdout.strip()})
        with open(os.path.join(d, "meta.json"), "w") as fh:
            json.dump(meta, fh, indent=1)
    return 0 if detected else 1


if __name__ == "__main__":
    sys.exit(main())
