#!/usr/bin/env python3
"""Regenerates /verif/MANIFEST.json from the table below (one entry per registered property)."""
import json
import os
import subprocess

HERE = os.path.dirname(os.path.dirname(os.path.abspath(__file__)))

TRUST = "Trusted: TLC/SANY and the Json community module, the Go toolchain, the projection functions of the harness (getters and guarded read-only accessors)."

CHECKS = json.load(open(os.path.join(HERE, "bin", "checks_meta.json")))

NOT_YET = "check not built yet (work in progress in this session; see DESIGN.md section 7 for the intended design)"

ALL = ["C%02d" % i for i in range(1, 21)]


def hook_commits():
    out = subprocess.run(["git", "-C", "/repo", "log", "--format=%h %s"], stdout=subprocess.PIPE, text=True).stdout
    return [l.split()[0] for l in out.splitlines() if l.split(" ", 1)[1].startswith("verif:")]


def main():
    checks = []
    for pid in ALL:
        if pid not in CHECKS:
            continue
        c = CHECKS[pid]
        checks.append({
            "property_id": pid,
            "quick_cmd": "bin/check %s --tier quick" % pid,
            "thorough_cmd": "bin/check %s --tier thorough" % pid,
            "evidence_file": "/verif/evidence/%s.json" % pid,
            "replay_cmd_template": "bin/check %s --replay {path}" % pid,
            "engine": "tlc+vdrive",
            "level_claimed": {"category": c.get("category", "model_checking"), "text": c["text"], "design_ref": c["design_ref"]},
            "level_note": c["note"],
            "technique": c["technique"],
        })
    na = []
    reasons = json.load(open(os.path.join(HERE, "bin", "not_applicable.json"))) if os.path.exists(os.path.join(HERE, "bin", "not_applicable.json")) else {}
    for pid in ALL:
        if pid not in CHECKS:
            na.append({"property_id": pid, "reason": reasons.get(pid, NOT_YET)})
    m = {
        "version": 1,
        "setup_cmd": "bin/check --setup",
        "hooks": {
            "guard": "verif",
            "enable": "go build -tags verif (the harness under /verif/harness is built with the tag; `replace` points at /repo)",
            "baseline_off_cmd": "cd /repo && go test -mod=mod -vet=off -count=1 -timeout 25m ./...",
            "source_commits": hook_commits(),
            "add_only": True,
        },
        "engines": [
            {"name": "tlc+vdrive", "path": "/verif/bin/check",
             "serves_properties": sorted(CHECKS),
             "kind_free_text": "TLA+ specifications under /verif/spec checked with TLC (exhaustive, behaviour generation, trace monitoring/conformance), "
                               "bound to the code by the Go harness /verif/harness (vdrive) built with -tags verif against /repo's working tree"}],
        "checks": checks,
        "not_applicable": na,
        "notes": "Exit codes: 0 held (KNOWN-FINDING lines possible), 1 VIOLATION, 2 undecided (never a violation). Known findings and fixed defects: /verif/known_findings.json.",
    }
    with open(os.path.join(HERE, "MANIFEST.json"), "w") as fh:
        json.dump(m, fh, indent=1)
        fh.write("\n")


if __name__ == "__main__":
    main()
