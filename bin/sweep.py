#!/usr/bin/env python3
"""sweep.py [--tier quick] [--seeds 1,2,3] [--ids C01,C02] : runs registered checks sequentially, prints one line per run.
Evidence files are rewritten by the runs (use only on the unchanged tree)."""
import argparse, json, os, subprocess, sys, time
HERE = os.path.dirname(os.path.dirname(os.path.abspath(__file__)))
ap = argparse.ArgumentParser()
ap.add_argument("--tier", default="quick")
ap.add_argument("--seeds", default="1,2,3")
ap.add_argument("--ids", default="")
a = ap.parse_args()
man = json.load(open(os.path.join(HERE, "MANIFEST.json")))
ids = [c["property_id"] for c in man["checks"]]
if a.ids:
    ids = [i for i in ids if i in a.ids.split(",")]
bad = 0
for seed in a.seeds.split(","):
    for pid in ids:
        t = time.time()
        env = dict(os.environ, VERIF_SEED=seed)
        p = subprocess.run(["python3", os.path.join(HERE, "bin", "check"), pid, "--tier", a.tier], cwd=HERE, env=env, stdout=subprocess.PIPE,
                           stderr=subprocess.STDOUT, text=True)
        last = [l for l in p.stdout.splitlines() if l.startswith(("OK ", "VIOLATION", "UNDECIDED", "DRIFT"))]
        kf = sum(1 for l in p.stdout.splitlines() if l.startswith("KNOWN-FINDING"))
        print("%s seed=%s tier=%s rc=%d wall=%.0fs known=%d %s" % (pid, seed, a.tier, p.returncode, time.time() - t, kf,
              " | ".join(l[:140] for l in last[:3])), flush=True)
        if p.returncode != 0:
            bad += 1
            open("/tmp/sweep_fail_%s_%s.log" % (pid, seed), "w").write(p.stdout)
print("SWEEP DONE bad=%d" % bad)
sys.exit(1 if bad else 0)
