#!/usr/bin/env python3
"""Prints a markdown table of the seeded changes under /verif/seeded (for DESIGN.md 13.5)."""
import glob, json, os
rows = []
for d in sorted(glob.glob('/verif/seeded/*/meta.json')):
    m = json.load(open(d))
    name = os.path.basename(os.path.dirname(d))
    v = m.get('check_verdicts') or {}
    det = [k for k, x in v.items() if x.get('rc') == 1]
    lines = []
    for k, x in v.items():
        if x.get('rc') == 1:
            lines += [l.split('replay=')[0].strip() for l in x['lines'] if l.startswith('VIOLATION')][:1]
    sigs = []
    for k, x in v.items():
        for l in x.get('lines', []):
            if 'replays/' in l:
                s = l.split('replays/')[1].split('_t')[0]
                sigs.append(s)
    summ = (m.get('summary') or '').replace('\n', ' ').replace('|', '/')
    rows.append((name, m.get('property'), summ[:160], 'yes (%s)' % ', '.join(det) if det else 'NO', '; '.join(sorted(set(sigs)))[:120]))
print('| seeded change | property | what it does | reported as VIOLATION | failing clause(s) |')
print('|---|---|---|---|---|')
for r in rows:
    print('| %s | %s | %s | %s | %s |' % r)
