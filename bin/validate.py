#!/usr/bin/env python3
"""Validate MANIFEST.json and every evidence file against the schemas (uses the tooling venv's jsonschema)."""
import json, glob, sys
import jsonschema
ok = True
try:
    jsonschema.validate(json.load(open('/verif/MANIFEST.json')), json.load(open('/root/.vp/MANIFEST.schema.json')))
    print("MANIFEST ok")
except Exception as e:
    ok = False; print("MANIFEST INVALID", str(e)[:500])
sch = json.load(open('/root/.vp/EVIDENCE.schema.json'))
for f in sorted(glob.glob('/verif/evidence/*.json')):
    try:
        jsonschema.validate(json.load(open(f)), sch); print(f, "ok")
    except Exception as e:
        ok = False; print(f, "INVALID", str(e)[:500])
sys.exit(0 if ok else 1)
