#!/usr/bin/env python3
"""Regenerates known_findings.json["known"] from the per-property fragments findings/known_<ID>.json (the fragments are
what the builders edit; known_findings.json is the single committed list the checks' interface names)."""
import glob, json, os
HERE = os.path.dirname(os.path.dirname(os.path.abspath(__file__)))
p = os.path.join(HERE, "known_findings.json")
d = json.load(open(p))
known = []
for f in sorted(glob.glob(os.path.join(HERE, "findings", "known_*.json"))):
    for k in json.load(open(f)):
        known.append(k)
d["known"] = known
json.dump(d, open(p, "w"), indent=1)
print("known findings:", len(known), "fixed:", len(d["fixed"]))
