#!/usr/bin/env python3
"""confirmtests.py [--lanes N] -- for every stored seed whose meta.json has no record of the lead's own run of the existing tests with the
patch applied, run them now (fresh scratch worktree of /repo HEAD, patch applied, `go test -vet=off -count=1 <packages of the property>`,
baseline-flaky tests retried) and record the outcome in meta.json (existing_tests_confirmed_by_lead)."""
import concurrent.futures, json, os, subprocess, sys
sys.path.insert(0, '/verif/bin')
from mutprompt import PK
V = '/verif'
ENV = dict(os.environ, GOFLAGS='-mod=mod', GOPROXY='off', GOSUMDB='off', GOTOOLCHAIN='local')
FLAKY = ("TestTransactionPoolUnderpricing", "TestTable_closest", "Test_Server")

def sh(cmd, cwd=None):
    p = subprocess.run(cmd, shell=True, cwd=cwd, env=ENV, stdout=subprocess.PIPE, stderr=subprocess.STDOUT, text=True)
    return p.returncode, p.stdout

def one(n):
    mp = os.path.join(V, 'seeded', n, 'meta.json')
    m = json.load(open(mp))
    pkgs = PK[m['property']][0]
    wt = '/tmp/ct_wt_%s' % n
    sh('git -C /repo worktree add -q --detach %s HEAD' % wt)
    try:
        rc, out = sh("git apply --exclude='out/*' %s" % os.path.join(V, 'seeded', n, 'patch.diff'), cwd=wt)
        if rc != 0:
            return n, False, 'patch does not apply'
        for attempt in range(3):
            rc, out = sh('go test -vet=off -count=1 %s' % pkgs, cwd=wt)
            fails = [l.split()[2] for l in out.splitlines() if l.startswith('--- FAIL:')]
            if rc == 0 or not fails or any(f not in FLAKY for f in fails):
                break
        ok = rc == 0
        m['existing_tests_confirmed_by_lead'] = 'existing tests pass with the patch: %s%s%s' % (
            pkgs, ' (after retrying a baseline-flaky test)' if attempt and ok else '', '' if ok else ' -- FAILED: ' + ','.join(fails)[:200])
        json.dump(m, open(mp, 'w'), indent=1)
        return n, ok, ''
    finally:
        sh('git -C /repo worktree remove --force %s' % wt)

if __name__ == '__main__':
    lanes = int(sys.argv[sys.argv.index('--lanes') + 1]) if '--lanes' in sys.argv else 5
    todo = []
    for n in sorted(os.listdir(os.path.join(V, 'seeded'))):
        mp = os.path.join(V, 'seeded', n, 'meta.json')
        if os.path.exists(mp) and 'existing_tests_confirmed_by_lead' not in json.load(open(mp)):
            todo.append(n)
    print('to confirm:', len(todo), flush=True)
    with concurrent.futures.ThreadPoolExecutor(max_workers=lanes) as ex:
        for n, ok, why in ex.map(one, todo):
            print(n, 'ok' if ok else 'FAILED ' + why, flush=True)
