#!/usr/bin/env python3
"""reseed.py [--ids C01,C02] [--lanes 6] [--only-missed] -- re-run every stored seeded change (seeded/<name>/) against the current checks.
One lane per property (runs of the same check ID never overlap), several lanes in parallel.  Uses bin/seedtest.py (scratch worktree of
/repo HEAD, own work/evidence directories), so /repo and /verif/evidence are not touched.  Prints one line per seed and a summary."""
import argparse
import concurrent.futures
import json
import os
import subprocess
import sys

V = "/verif"


def main():
    ap = argparse.ArgumentParser()
    ap.add_argument("--ids", default="")
    ap.add_argument("--lanes", type=int, default=6)
    ap.add_argument("--only-missed", action="store_true")
    a = ap.parse_args()
    ids = [x for x in a.ids.split(",") if x]
    groups = {}
    for name in sorted(os.listdir(os.path.join(V, "seeded"))):
        mp = os.path.join(V, "seeded", name, "meta.json")
        if not os.path.exists(mp):
            continue
        m = json.load(open(mp))
        pid = m.get("property") or name.split("_")[0]
        if ids and pid not in ids:
            continue
        if a.only_missed and m.get("detected"):
            continue
        # the property's own check plus any other check recorded as the detecting one
        checks = sorted({k.split("/")[0] for k, v in (m.get("check_verdicts") or {}).items() if v.get("rc") == 1} - {pid})
        groups.setdefault(pid, []).append((name, m.get("demo_dir") or "", checks))
    os.makedirs(os.path.join(V, ".work", "seedlogs"), exist_ok=True)

    def lane(pid):
        out = []
        for name, dd, checks in groups[pid]:
            cmd = ["python3", os.path.join(V, "bin", "seedtest.py"), os.path.join(V, "seeded", name), pid, "--demo-dir", dd.split()[0].strip("/") or ".",
                   "--skip-tests", "--name", name]
            if checks:
                cmd += ["--checks", ",".join(checks)]
            log = os.path.join(V, ".work", "seedlogs", name + ".re.log")
            with open(log, "w") as fh:
                subprocess.run(cmd, stdout=fh, stderr=subprocess.STDOUT, cwd=V)
            txt = open(log).read()
            det = "detected=True" in txt
            bad = [l for l in txt.splitlines() if l.rstrip().endswith("FAILED")]
            print("%-10s %s%s" % (name, "detected" if det else "MISSED", ("  [" + "; ".join(b.strip() for b in bad) + "]") if bad else ""), flush=True)
            out.append((name, det, bad))
        return out

    res = []
    with concurrent.futures.ThreadPoolExecutor(max_workers=a.lanes) as ex:
        for r in ex.map(lane, sorted(groups)):
            res += r
    miss = [n for n, d, b in res if not d]
    print("RESEED DONE total=%d detected=%d missed=%s" % (len(res), len(res) - len(miss), ",".join(miss) or "-"))
    return 0


if __name__ == "__main__":
    sys.exit(main())
