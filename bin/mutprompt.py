#!/usr/bin/env python3
"""mutprompt.py <ID> <worktree> [focus text] -> writes .work/mutprompts/<ID>[_tag].txt: the brief for an independent sub-agent that
seeds a property-breaking change (it gets only the property text and its scratch worktree; nothing else from /verif)."""
import json
import os
import sys

props = {json.loads(l)['id']: json.loads(l) for l in open('/verif/properties.jsonl')}
PK = {'C12': ('./core/', 'core'), 'C13': ('./trie/... ./core/state/... ./core/types/...', 'trie'), 'C15': ('./core/vm/...', 'core/vm'),
      'C18': ('./you/downloader/...', 'you/downloader'), 'C20': ('./core/', 'core'),
      'C14': ('./rlp/... ./core/types/... ./core/state/... ./staking/... ./consensus/ucon/...', '(the package of the changed decoder/encoder)'),
      'C01': ('./consensus/ucon/...', 'consensus/ucon'), 'C02': ('./consensus/ucon/...', 'consensus/ucon'),
      'C03': ('./consensus/ucon/...', 'consensus/ucon'), 'C04': ('./consensus/ucon/...', 'consensus/ucon'),
      'C05': ('./staking/... ./core/state/...', 'staking'), 'C06': ('./core/ ./staking/... ./miner/...', 'core or staking'),
      'C07': ('./staking/... ./core/ ./core/state/...', 'staking'), 'C08': ('./core/state/... ./staking/...', 'core/state'),
      'C09': ('./core/state/... ./core/vm/... ./staking/...', 'core/state'),
      'C10': ('./core/state/... ./trie/...', 'core/state'), 'C11': ('./core/ ./core/rawdb/...', 'core'),
      'C16': ('./core/vm/... ./core/state/...', 'core/vm/runtime'), 'C17': ('./core/ ./core/types/... ./staking/...', 'core'),
      'C19': ('./trie/... ./core/state/... ./you/downloader/...', 'trie or core/state')}


def prompt(pid, wt, focus=""):
    p = props[pid]
    pk, dd = PK[pid]
    mech = "; ".join("%s (%s)" % (m['name'], m['where']) for m in p['anchors'].get('mechanism', []))
    return f'''You are testing how well a (hidden) verification suite detects regressions in the Go repository youchainhq/go-youchain (a go-ethereum-derived blockchain node with its own BFT consensus "ucon", staking state, EVM, trie, p2p sync, RLP). Work ONLY inside your scratch git worktree {wt} (a checkout of the repository). Do not read or write anything under /verif or /repo. No network: run `export GOFLAGS=-mod=mod GOPROXY=off GOSUMDB=off GOTOOLCHAIN=local` before go commands. The machine is shared and busy: run only the tests named below, not the whole repository.

The property under study ({pid}): "{p['title']}. {p['statement']}" — it must hold {p['quantifier']['text']}. The mechanism lives in: {mech}. Files: {", ".join(p['anchors'].get('files', []))}.

Your task: produce THREE different, independent changes to the repository's non-test source code, each of which BREAKS this property while the code still compiles (`go build ./...`) and the existing tests of the affected packages still pass (`go test -vet=off -count=1 {pk}` — run it for each change). {focus}Make the changes realistic — the kind of slip a maintainer could make in a refactoring or an "optimisation" — and SUBTLE: each must need something specific to manifest (a particular interleaving or multi-step sequence of operations, a crash or fault at a particular point, an unusual or boundary input, a particular configuration, or two cooperating sites that each look fine alone), NOT something ordinary use would expose at once. Spread the three changes over different parts of the mechanism. Do not add obviously malicious code; do not change test files, build tags or go.mod. Files named verif_*.go are test instrumentation: leave them alone.

For each change i = 1..3 deliver in {wt}/out/<i>/ : `patch.diff` (unified diff against the worktree HEAD produced with `git diff`; afterwards restore the tree with `git checkout -- .`), a demonstration `demo_test.go` — a Go test file (test function names must contain the word "Demo") to be placed in the directory {dd} (state the exact directory and package name in meta.json as "demo_dir") that FAILS with the change and PASSES without it — and `meta.json` {{"property":"{pid}","summary":…,"needs_to_manifest":…,"files":[…],"demo_dir":…,"ran":[commands you ran and their outcomes]}}. Verify all of it yourself: the demo passes on the clean tree and fails with the patch; the existing tests named above pass with the patch. Leave the worktree clean (no patch applied; your files only under out/). Final message: a short summary of the three changes.'''


if __name__ == "__main__":
    pid, wt = sys.argv[1], sys.argv[2]
    focus = (sys.argv[3] + " ") if len(sys.argv) > 3 else ""
    os.makedirs('/verif/.work/mutprompts', exist_ok=True)
    out = '/verif/.work/mutprompts/%s_%s.txt' % (pid, os.path.basename(wt))
    open(out, 'w').write(prompt(pid, wt, focus))
    print(out)
