------------------------- MODULE VersionChain_Trace -------------------------
(***************************************************************************)
(* Conformance of the real core.BlockChain to the design layer of          *)
(* VersionChain.tla: every recorded action is executed by the model        *)
(* (ImportRes / SetHeadRes / Answers) and the model's head, canonical      *)
(* chain, acceptance of the segment and answers must equal the recorded    *)
(* ones; the tree event must describe the model's constant tree.  A        *)
(* mismatch is DRIFT, never a violation.                                   *)
(***************************************************************************)
EXTENDS VersionChain

TraceLog == ndJsonDeserialize("trace.ndjson")
VARIABLE l
tvars == <<vars, l>>

SameChain(o, st) == /\ o.head = st.head /\ o.hn = Num[st.head]
                    /\ \A n \in 0..o.hn : o.chain[n + 1] = Anc(st.head)[n + 1] /\ o.index[n + 1] = st.canon[n]
TreeOk(e) == /\ \A b \in Names : b \in DOMAIN e.num /\ e.num[b] = Num[b] /\ e.par[b] = Par[b] /\ e.ver[b] = Ver[b]
             /\ e.P = PP /\ e.lookback = Lookback

TStep ==
   /\ l <= Len(TraceLog)
   /\ l' = l + 1
   /\ LET e == TraceLog[l] IN
      CASE e.ev \in {"reset", "abort"} -> s' = S0
        [] e.ev = "tree" -> TreeOk(e) /\ UNCHANGED s
        [] e.ev = "import" ->
             LET t == ImportRes(s, e.seg) IN
             /\ (e.err = "") = (Verified(s, e.seg) /\ \A i \in DOMAIN e.seg : e.seg[i] \in t.blk)
             \* (after a rewind the real header cache may still hold a deleted parent: no comparison when the model's parent is gone)
             /\ (PureFirstRejected(s, e.seg) = -2 \/ e.pure = PureFirstRejected(s, e.seg))
             /\ SameChain(e.obs, t) /\ s' = t
        [] e.ev = "sethead" ->
             LET t == IF e.err = "noop" THEN s ELSE SetHeadRes(s, e.k) IN SameChain(e.obs, t) /\ s' = t
        [] e.ev = "query" ->
             /\ e.lo = QLo /\ e.ans = Answers(s) /\ SameChain(e.obs, s) /\ UNCHANGED s
        [] e.ev = "probe" ->       \* the real pure verifier and the model accept the same candidates on top of this parent
             /\ LET p == HdOf(e.p) IN
                { e.cands[k + 1] : k \in { e.pure[i] : i \in DOMAIN e.pure } }
                   = { e.cands[j] : j \in { i \in DOMAIN e.cands : Verify(PP, KK, p, Hdr(p.n + 1, e.cands[i][1], e.cands[i][2], e.cands[i][3], e.cands[i][4], e.cands[i][5]), FALSE) = "ok" } }
             /\ UNCHANGED s
        [] OTHER -> UNCHANGED s
   /\ UNCHANGED <<ps, ans, hist>>

TInit == Init /\ l = 1 /\ TLCSet(1, 0)
TSpec == TInit /\ [][TStep]_tvars
HighWater == /\ TLCSet(1, IF TLCGet(1) < l THEN l ELSE TLCGet(1))
             /\ ((l = Len(TraceLog) + 1) => PrintT("@@J " \o ToJson([kind |-> "ACCEPTED", events |-> Len(TraceLog)])))
Accepted == IF TLCGet(1) = Len(TraceLog) + 1 THEN TRUE
            ELSE PrintT("@@J " \o ToJson([kind |-> "REJECTED", line |-> TLCGet(1), event |-> TraceLog[TLCGet(1)]]))
=============================================================================
