---------------------------- MODULE TrieSync_Mon ----------------------------
(***************************************************************************)
(* C19 property monitor over traces recorded from the real trie.Sync /     *)
(* state.NewStateSync.  It never rejects; failing clauses are accumulated.  *)
(* The node DAG (module Dag, generated from the real source) is the only    *)
(* thing it knows; everything else is what the real code did.               *)
(*                                                                         *)
(*  CompleteWhenDone -- "yields, once it reports completion, a database     *)
(*     from which the identical content and root can be read, regardless of *)
(*     the order, batching, duplication or delay of responses"              *)
(*  CorruptRejected -- "data that does not hash to what was requested is    *)
(*     rejected" (Process returns an error at or before the corrupted item; *)
(*     nothing foreign is ever written to the destination)                  *)
(*  InterruptedNeverLooksComplete -- "an interrupted sync never presents a  *)
(*     partially filled trie as complete"                                   *)
(*  AnsweredSyncCompletes -- "Synchronising ... from any responder yields   *)
(*     ... regardless of the order, batching, duplication or delay of       *)
(*     responses": once every request has been answered with the genuine    *)
(*     bytes (event Finish: an honest responder answers whatever is asked   *)
(*     until nothing is pending) the sync reports completion.  Requests     *)
(*     that are NEVER answered leave it incomplete, which is the other      *)
(*     outcome the statement allows; that case is not judged here.          *)
(*  ParentAfterChildren -- the mechanism behind the previous clause: at     *)
(*     every observation of the destination database every entry present    *)
(*     has all the entries it references                                    *)
(***************************************************************************)
EXTENDS Integers, Sequences, FiniteSets, TLC, Json, Dag

TraceLog == ndJsonDeserialize("trace.ndjson")

VARIABLES l, dg, kind, dagok, viol, fired
mvars == <<l, dg, kind, dagok, viol, fired>>

ClauseNames == {"CompleteWhenDone", "CorruptRejected", "InterruptedNeverLooksComplete", "ParentAfterChildren", "AnsweredSyncCompletes"}
Has(e, f) == f \in DOMAIN e
SetOf(q) == { q[i] : i \in DOMAIN q }
Nodes == 1..DagTable[dg].n
Kids(n) == DagTable[dg].kids[n]
Dest(e) == SetOf(e.dest)
Verified(e) == Has(e, "walk") /\ e.walk = "ok" /\ e.dig = e.srcdig /\ ~Has(e, "rooterr")
CorruptIdx(e) == { i \in DOMAIN e.args.batch : e.args.batch[i].c # 0 }
HasCorrupt(e) == e.ev = "Process" /\ Has(e.args, "batch") /\ CorruptIdx(e) # {}

Applies(cl, e) ==
   CASE cl = "ParentAfterChildren" -> Has(e, "dest")
     [] cl = "CompleteWhenDone" -> Has(e, "panic") \/ (e.ev \in {"Commit", "Finish"} /\ Has(e, "pending") /\ e.pending = 0)
     [] cl = "InterruptedNeverLooksComplete" -> e.ev \in {"Interrupt", "CommitCrash"} /\ Has(e, "dest")
     [] cl = "CorruptRejected" -> HasCorrupt(e) \/ Has(e, "dest")
     [] cl = "AnsweredSyncCompletes" -> e.ev = "Finish"

Holds(cl, e) ==
   CASE cl = "ParentAfterChildren" -> \A n \in Dest(e) \ {0} : Kids(n) \subseteq Dest(e)
     [] cl = "CompleteWhenDone" -> /\ (Has(e, "panic") => HasCorrupt(e))
                                   /\ (~Has(e, "panic") => (Nodes \subseteq Dest(e) /\ Verified(e)))
     [] cl = "InterruptedNeverLooksComplete" ->
           (1 \in Dest(e) \/ e.pending = 0) => (Nodes \subseteq Dest(e) /\ (e.pending = 0 => Verified(e)))
     [] cl = "CorruptRejected" ->
           /\ (Has(e, "dest") => 0 \notin Dest(e))
           /\ (HasCorrupt(e) => (~Has(e, "panic") /\ e.err # ""
                                 /\ \E i \in CorruptIdx(e) : (\A j \in CorruptIdx(e) : i <= j) /\ e.errIdx + 1 <= i))
     [] cl = "AnsweredSyncCompletes" -> ~Has(e, "panic") /\ ~Has(e, "err") /\ e.pending = 0

\* the DAG the driver rebuilt is the DAG the schedules were generated for
DagAgrees(e) == /\ e.dag \in DOMAIN DagTable
                /\ e.size = DagTable[e.dag].n
                /\ \A n \in 1..e.size : SetOf(e.kids[n]) = DagTable[e.dag].kids[n]
                /\ SetOf(e.raw) = DagTable[e.dag].raw

Init == l = 1 /\ dg = 1 /\ kind = "trie" /\ dagok = TRUE /\ viol = {} /\ fired = [c \in ClauseNames |-> 0]

Step ==
   /\ l <= Len(TraceLog)
   /\ l' = l + 1
   /\ LET e == TraceLog[l] IN
      CASE e.ev = "Begin" ->
              /\ dagok' = (dagok /\ DagAgrees(e))
              /\ dg' = (IF e.dag \in DOMAIN DagTable THEN e.dag ELSE dg)
              /\ kind' = (IF e.state THEN "state" ELSE "trie")
              /\ UNCHANGED <<viol, fired>>
        [] e.ev \in {"Missing", "Process", "Commit", "CommitFail", "CommitCrash", "Interrupt", "Finish"} ->
              LET app == { cl \in ClauseNames : Applies(cl, e) }
                  bad == { cl \in app : ~Holds(cl, e) } IN
              /\ fired' = [cl \in ClauseNames |-> fired[cl] + (IF cl \in app THEN 1 ELSE 0)]
              \* never stops early, but keeps at most ~200 failures (the verdict needs one)
              /\ viol' = IF Cardinality(viol) >= 200 THEN viol ELSE viol \cup { <<cl, {e.ev, kind}, l>> : cl \in bad }
              /\ UNCHANGED <<dg, kind, dagok>>
        [] OTHER -> UNCHANGED <<dg, kind, dagok, viol, fired>>

MonSpec == Init /\ [][Step]_mvars

Done == (l = Len(TraceLog) + 1) =>
          PrintT("@@J " \o ToJson([kind |-> "RESULT", events |-> Len(TraceLog), viol |-> viol, fired |-> fired, dagok |-> dagok]))
=============================================================================
