--------------------------- MODULE VoteCount_Mon ---------------------------
(***************************************************************************)
(* C03 property-layer monitor over traces recorded from the real ucon      *)
(* engine (driver `votecount`).  It cannot reject a trace.  Observables,   *)
(* fed only by what was delivered to and what left the real node:          *)
(*   dl   [index][kind][peer] -> blocks of the vote messages delivered     *)
(*        with a VALID credential (the driver knows how it built them)     *)
(*   dln  the same without the CERTIFICATE votes delivered while their     *)
(*        index was still in the node's future -- the handler does not     *)
(*        cache those (only used for the discriminator)                    *)
(*   ownv the node's own votes (decoded SendMessageEvents)                 *)
(* Clauses, one per sentence of the statement:                             *)
(*  PrecommitOnlyAfterPrevoteQuorum  "A validator precommits a block in a  *)
(*     round index only after it has counted prevotes for exactly that     *)
(*     block, from distinct committee members with verified credentials,   *)
(*     reaching the quorum"                                                *)
(*  CommitOnlyAfterQuorums  "it announces a commit only after precommits   *)
(*     (and, in certificate rounds, certificate votes) for that block      *)
(*     reach their quorums"                                                *)
(*  EquivocatorWeightless  "A sender that voted for two different blocks   *)
(*     in the same step contributes no weight" -- also built into the      *)
(*     recomputed quorums; here: the vote set packed at commit contains    *)
(*     only senders entitled by the delivered votes                        *)
(*  CommitVerifies  "the vote set attached to a commit always yields a     *)
(*     header that every verifier accepts" -- the recorded verdict of the  *)
(*     real VerifySeal on the header sealed by the real Server.commit      *)
(* Quorum = floor(0.685*T) in exact arithmetic (interpretation note in     *)
(* DESIGN.md section 9); certificate rounds do not occur in these traces.  *)
(***************************************************************************)
EXTENDS Integers, Sequences, FiniteSets, TLC, Json

TraceLog == ndJsonDeserialize("trace.ndjson")
MaxIdx == 4
Peers == 1..4
K3 == {"Prevote", "Precommit", "Cert"}

VARIABLES l, cur, wts, tot, dl, dln, ownv, viol, fired
vars == <<l, cur, wts, tot, dl, dln, ownv, viol, fired>>

Empty == [ii \in 1..MaxIdx |-> [k \in K3 |-> [s \in Peers |-> {}]]]
ZeroFired == [PrecommitOnlyAfterPrevoteQuorum |-> 0, CommitOnlyAfterQuorums |-> 0, EquivocatorWeightless |-> 0, CommitVerifies |-> 0]
Init == l = 1 /\ cur = 1 /\ wts = <<0, 0, 0, 0, 0>> /\ tot = 0 /\ dl = Empty /\ dln = Empty /\ ownv = {} /\ viol = {} /\ fired = ZeroFired

Q(k) == IF k = "Cert" THEN (585 * tot) \div 1000 ELSE (685 * tot) \div 1000
Wt(s) == wts[s + 1]
Sum(S) == LET RECURSIVE F(_) F(X) == IF X = {} THEN 0 ELSE LET x == CHOOSE y \in X : TRUE IN Wt(x) + F(X \ {x}) IN F(S)
Entitled(d, o, ii, k, b) == { s \in Peers : d[ii][k][s] = {b} } \cup (IF <<ii, k, b>> \in o THEN {0} ELSE {})
DQ(d, o, ii, k, b) == Sum(Entitled(d, o, ii, k, b))
Disc(strict, lenient) == IF strict THEN {} ELSE IF lenient THEN {{"equivocator_future_vote"}} ELSE {{"no_quorum"}}
SetOf(q) == { q[n] : n \in DOMAIN q }

Step ==
   /\ l <= Len(TraceLog)
   /\ l' = l + 1
   /\ LET e == TraceLog[l] IN
      IF e.ev \in {"reset", "abort"}
      THEN /\ cur' = 1 /\ dl' = Empty /\ dln' = Empty /\ ownv' = {} /\ UNCHANGED <<wts, tot, viol, fired>>
      ELSE
      LET ok  == e.ev = "Recv" /\ e.cred = "ok" /\ e.k \in K3 /\ e.i \in 1..MaxIdx
          d   == IF ok THEN [dl EXCEPT ![e.i][e.k][e.s] = @ \cup {e.b}] ELSE dl
          dn  == IF ok /\ (e.i <= cur \/ e.k # "Cert") THEN [dln EXCEPT ![e.i][e.k][e.s] = @ \cup {e.b}] ELSE dln
          own == ownv \cup { <<x.i, x.k, x.b>> : x \in SetOf(e.sent) }
          pcs == { x \in SetOf(e.sent) : x.k = "Precommit" }
          cms == SetOf(e.commits)
          v1 == UNION { { <<"PrecommitOnlyAfterPrevoteQuorum", dd, l>> :
                            dd \in Disc(DQ(d, own, x.i, "Prevote", x.b) >= Q("Prevote"), DQ(dn, own, x.i, "Prevote", x.b) >= Q("Prevote")) } : x \in pcs }
          v2 == UNION { { <<"CommitOnlyAfterQuorums", dd, l>> :
                            dd \in Disc(DQ(d, own, c.i, "Precommit", c.b) >= Q("Precommit"), DQ(dn, own, c.i, "Precommit", c.b) >= Q("Precommit")) } : c \in cms }
          v3 == UNION { { <<"EquivocatorWeightless", dd, l>> :
                            dd \in Disc(SetOf(c.pre) \subseteq Entitled(d, own, c.i, "Precommit", c.b),
                                        SetOf(c.pre) \subseteq Entitled(dn, own, c.i, "Precommit", c.b)) } : c \in cms }
          v4 == { <<"CommitVerifies", IF c.sealed THEN {"verifier_rejects"} ELSE {"not_sealed"}, l>> : c \in { x \in cms : ~x.verifies } }
      IN /\ dl' = d /\ dln' = dn /\ ownv' = own
         /\ viol' = viol \cup v1 \cup v2 \cup v3 \cup v4
         /\ fired' = [fired EXCEPT !.PrecommitOnlyAfterPrevoteQuorum = @ + Cardinality(pcs),
                                   !.CommitOnlyAfterQuorums = @ + Cardinality(cms),
                                   !.EquivocatorWeightless = @ + Cardinality(cms),
                                   !.CommitVerifies = @ + Cardinality(cms)]
         /\ cur' = e.obs.i
         /\ IF e.ev = "Cfg" THEN wts' = e.w /\ tot' = e.T ELSE UNCHANGED <<wts, tot>>

Spec == Init /\ [][Step]_vars

Done == (l = Len(TraceLog) + 1) =>
          PrintT("@@J " \o ToJson([kind |-> "RESULT", events |-> Len(TraceLog), viol |-> viol, fired |-> fired]))
=============================================================================
