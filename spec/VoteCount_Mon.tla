--------------------------- MODULE VoteCount_Mon ---------------------------
(***************************************************************************)
(* C03 property-layer monitor over traces recorded from the real ucon      *)
(* engine (driver `votecount`).  It cannot reject a trace.  Observables,   *)
(* fed only by what was delivered to and what left the real node:          *)
(*   dl   [index][kind][peer] -> blocks of the vote messages delivered     *)
(*        with a VALID credential (the driver knows how it built them)     *)
(*   dln  the same without the CERTIFICATE votes delivered while their     *)
(*        index was still in the node's future -- the handler does not     *)
(*        cache those (only used for the discriminator)                    *)
(*   ownv the node's own votes (decoded SendMessageEvents)                 *)
(* Clauses, one per sentence of the statement:                             *)
(*  PrecommitOnlyAfterPrevoteQuorum  "A validator precommits a block in a  *)
(*     round index only after it has counted prevotes for exactly that     *)
(*     block, from distinct committee members with verified credentials,   *)
(*     reaching the quorum"                                                *)
(*  CertOnlyAfterPrecommitQuorum  (certificate rounds) the node's own      *)
(*     certificate vote for a block needs the precommit quorum for it      *)
(*  CommitOnlyAfterQuorums  "it announces a commit only after precommits   *)
(*     (and, in certificate rounds, certificate votes) for that block      *)
(*     reach their quorums"                                                *)
(*  EquivocatorWeightless  "A sender that voted for two different blocks   *)
(*     in the same step contributes no weight" -- also built into the      *)
(*     recomputed quorums; here: the vote set packed at commit contains    *)
(*     only senders entitled by the delivered votes                        *)
(*  CommitVerifies  "the vote set attached to a commit always yields a     *)
(*     header that every verifier accepts" -- the recorded verdict of the  *)
(*     real VerifySeal on the header sealed by the real Server.commit      *)
(* Quorum = floor(0.685*T) in exact arithmetic (interpretation note in     *)
(* DESIGN.md section 9).  Certificate rounds occur only in the traces of   *)
(* the voter-level stages (driver votecert).  Its plain world has no        *)
(* verifier: CommitVerifies is not evaluated there (no "verifies" field);  *)
(* its BLS world records the verdict of Server.verifyVotes on the packed   *)
(* precommit and certificate sets, and for every emitted vote whether a    *)
(* peer's real voter accepts it (clause OwnVoteVerifiesAtPeer).  A vote labelled *)
(* msgSame whose index is not the voter's (field as = "same") is dropped   *)
(* by the voter and cached by nobody: it counts as a lost message.         *)
(***************************************************************************)
EXTENDS Integers, Sequences, FiniteSets, TLC, Json

TraceLog == ndJsonDeserialize("trace.ndjson")
MaxIdx == 6
Peers == 1..4
K3 == {"Prevote", "Precommit", "Cert"}

VARIABLES l, cur, wts, tot, cert, dl, dln, df, ownv, viol, fired
vars == <<l, cur, wts, tot, cert, dl, dln, df, ownv, viol, fired>>

Empty == [ii \in 1..MaxIdx |-> [k \in K3 |-> [s \in Peers |-> {}]]]
Nil == "nil"
EmptyF == [ii \in 1..MaxIdx |-> [k \in K3 |-> [s \in Peers |-> Nil]]]
AsSets(f) == [ii \in 1..MaxIdx |-> [k \in K3 |-> [s \in Peers |-> IF f[ii][k][s] = Nil THEN {} ELSE {f[ii][k][s]}]]]
ZeroFired == [PrecommitOnlyAfterPrevoteQuorum |-> 0, CertOnlyAfterPrecommitQuorum |-> 0, CommitOnlyAfterQuorums |-> 0,
              EquivocatorWeightless |-> 0, CommitVerifies |-> 0, OwnVoteVerifiesAtPeer |-> 0]
Init == /\ l = 1 /\ cur = 1 /\ wts = <<0, 0, 0, 0, 0>> /\ tot = 0 /\ cert = FALSE /\ dl = Empty /\ dln = Empty /\ df = EmptyF
        /\ ownv = {} /\ viol = {} /\ fired = ZeroFired

Q(k) == IF k = "Cert" THEN (585 * tot) \div 1000 ELSE (685 * tot) \div 1000
Wt(s) == wts[s + 1]
Sum(S) == LET RECURSIVE F(_) F(X) == IF X = {} THEN 0 ELSE LET x == CHOOSE y \in X : TRUE IN Wt(x) + F(X \ {x}) IN F(S)
Entitled(d, o, ii, k, b) == { s \in Peers : d[ii][k][s] = {b} } \cup (IF <<ii, k, b>> \in o THEN {0} ELSE {})
DQ(d, o, ii, k, b) == Sum(Entitled(d, o, ii, k, b))
\* equivocator_future_vote: the quorum exists without the certificate votes delivered while their index was in the future;
\* equivocation_after_quorum: it exists when every sender counts with its FIRST delivered vote (it was complete once and a
\* sender voted for a second block afterwards); no_quorum: otherwise
Disc(strict, lenient, firsts) == IF strict THEN {} ELSE IF lenient THEN {{"equivocator_future_vote"}}
                                 ELSE IF firsts THEN {{"equivocation_after_quorum"}} ELSE {{"no_quorum"}}
SetOf(q) == { q[n] : n \in DOMAIN q }

Step ==
   /\ l <= Len(TraceLog)
   /\ l' = l + 1
   /\ LET e == TraceLog[l] IN
      IF e.ev \in {"reset", "abort"}
      THEN /\ cur' = 1 /\ dl' = Empty /\ dln' = Empty /\ df' = EmptyF /\ ownv' = {} /\ cert' = FALSE /\ UNCHANGED <<wts, tot, viol, fired>>
      ELSE
      LET as  == IF "as" \in DOMAIN e THEN e.as ELSE "judged"
          \* a vote labelled msgSame for another index than the voter's is dropped and cached by nobody: a lost message
          ok  == e.ev = "Recv" /\ e.cred = "ok" /\ e.k \in K3 /\ e.i \in 1..MaxIdx /\ ~(as = "same" /\ e.i # cur)
          d   == IF ok THEN [dl EXCEPT ![e.i][e.k][e.s] = @ \cup {e.b}] ELSE dl
          dn  == IF ok /\ (e.i <= cur \/ e.k # "Cert") THEN [dln EXCEPT ![e.i][e.k][e.s] = @ \cup {e.b}] ELSE dln
          f   == IF ok /\ df[e.i][e.k][e.s] = Nil THEN [df EXCEPT ![e.i][e.k][e.s] = e.b] ELSE df
          fs  == AsSets(f)
          own == ownv \cup { <<x.i, x.k, x.b>> : x \in SetOf(e.sent) }
          pcs == { x \in SetOf(e.sent) : x.k = "Precommit" }
          cts == { x \in SetOf(e.sent) : x.k = "Cert" }
          cms == SetOf(e.commits)
          isCert == IF e.ev = "Cfg" THEN e.cert ELSE cert
          QP(x, c) == DQ(x, own, c.i, "Precommit", c.b) >= Q("Precommit") /\ (isCert => DQ(x, own, c.i, "Cert", c.b) >= Q("Cert"))
          PK(x, c) == /\ SetOf(c.pre) \subseteq Entitled(x, own, c.i, "Precommit", c.b)
                      /\ (isCert => SetOf(c.cert) \subseteq Entitled(x, own, c.i, "Cert", c.b))
          v1 == UNION { { <<"PrecommitOnlyAfterPrevoteQuorum", dd, l>> :
                            dd \in Disc(DQ(d, own, x.i, "Prevote", x.b) >= Q("Prevote"), DQ(dn, own, x.i, "Prevote", x.b) >= Q("Prevote"),
                                        DQ(fs, own, x.i, "Prevote", x.b) >= Q("Prevote")) } : x \in pcs }
          v5 == UNION { { <<"CertOnlyAfterPrecommitQuorum", dd, l>> :
                            dd \in Disc(DQ(d, own, x.i, "Precommit", x.b) >= Q("Precommit"), DQ(dn, own, x.i, "Precommit", x.b) >= Q("Precommit"),
                                        DQ(fs, own, x.i, "Precommit", x.b) >= Q("Precommit")) } : x \in cts }
          v2 == UNION { { <<"CommitOnlyAfterQuorums", dd, l>> : dd \in Disc(QP(d, c), QP(dn, c), QP(fs, c)) } : c \in cms }
          v3 == UNION { { <<"EquivocatorWeightless", dd, l>> : dd \in Disc(PK(d, c), PK(dn, c), PK(fs, c)) } : c \in cms }
          \* the verifier's verdict; when the recomputed quorums fail too, their discriminator is attached (known findings)
          v4 == UNION { { <<"CommitVerifies", (IF c.sealed THEN {"verifier_rejects"} ELSE {"not_sealed"}) \cup dd, l>> :
                            dd \in (IF QP(d, c) THEN {{}} ELSE Disc(QP(d, c), QP(dn, c), QP(fs, c))) } :
                        c \in { x \in cms : "verifies" \in DOMAIN x /\ ~x.verifies } }
          \* BLS stage: every vote the node emits is accepted by a peer's real voter (signer recovered through the look-back
          \* set of the vote's kind, signature, credential) -- a vote nobody can attribute to the node cannot be part of a
          \* vote set "that every verifier accepts"
          pvs == { x \in SetOf(e.sent) : "peer" \in DOMAIN x }
          v6 == { <<"OwnVoteVerifiesAtPeer", {x.k}, l>> : x \in { y \in pvs : ~y.peer } }
      IN /\ dl' = d /\ dln' = dn /\ df' = f /\ ownv' = own /\ cert' = isCert
         /\ viol' = viol \cup v1 \cup v2 \cup v3 \cup v4 \cup v5 \cup v6
         /\ fired' = [fired EXCEPT !.PrecommitOnlyAfterPrevoteQuorum = @ + Cardinality(pcs),
                                   !.CertOnlyAfterPrecommitQuorum = @ + Cardinality(cts),
                                   !.CommitOnlyAfterQuorums = @ + Cardinality(cms),
                                   !.EquivocatorWeightless = @ + Cardinality(cms),
                                   !.CommitVerifies = @ + Cardinality({ x \in cms : "verifies" \in DOMAIN x }),
                                   !.OwnVoteVerifiesAtPeer = @ + Cardinality(pvs)]
         /\ cur' = e.obs.i
         /\ IF e.ev = "Cfg" THEN wts' = e.w /\ tot' = e.T ELSE UNCHANGED <<wts, tot>>

Spec == Init /\ [][Step]_vars

Done == (l = Len(TraceLog) + 1) =>
          PrintT("@@J " \o ToJson([kind |-> "RESULT", events |-> Len(TraceLog), viol |-> viol, fired |-> fired]))
=============================================================================
