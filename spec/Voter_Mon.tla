----------------------------- MODULE Voter_Mon -----------------------------
(***************************************************************************)
(* C02 property-layer monitor over traces recorded from the real           *)
(* ucon.Voter (driver `voter`).  It cannot reject a trace: it folds the    *)
(* votes that actually left the node (decoded SendMessageEvent payloads:   *)
(* kind, round, index, block hash) into the observable `sentSet` and       *)
(* evaluates one named clause per sentence of the statement at every vote: *)
(*                                                                         *)
(*   "For any round and round index, a validator running this software     *)
(*    emits at most one prevote [OnePrevote], at most one precommit        *)
(*    [OnePrecommit] and at most one certificate vote [OneCertificate]     *)
(*    (and at most two next-index votes [AtMostTwoNext]), so it never      *)
(*    signs two different block hashes for the same vote kind in the same  *)
(*    round/index.  This holds ... no matter where the process is killed   *)
(*    and restarted on the same database."                                 *)
(*                                                                         *)
(* Votes are compared as a set of (kind, round, index, hash): the same     *)
(* hash signed again is the same vote; two next-index votes are allowed    *)
(* and may carry different hashes.                                         *)
(*                                                                         *)
(* Discriminators (class of the failing history, for known findings):      *)
(*   same_process      the conflicting votes were emitted without a        *)
(*                     restart in between                                  *)
(*   after_restart     every vote the new one conflicts with was emitted   *)
(*                     by an earlier incarnation of the process            *)
(*   context_went_back the last restart put the engine at a (round, index) *)
(*                     below one the node had already visited              *)
(*   replay_from_older at the last restart the first record NewVoteDB      *)
(*                     replays (prevote, precommit, next 1, next 2) was    *)
(*                     older than the (round, index) of the failing vote   *)
(***************************************************************************)
EXTENDS Integers, Sequences, FiniteSets, TLC, Json

TraceLog == ndJsonDeserialize("trace.ndjson")

VARIABLES l,        \* next line
          sentSet,  \* set of [k, r, i, b, e]: votes that left the node, e = incarnation that sent it
          epoch,    \* number of restarts so far
          maxCtx,   \* highest (round, index) visited by any incarnation
          back,     \* the last restart went below maxCtx
          first,    \* first record in replay order found on disk at the last restart
          viol,     \* set of <<clause, discriminators, line>>
          fired     \* votes judged, per clause
vars == <<l, sentSet, epoch, maxCtx, back, first, viol, fired>>

Lt(a, b) == a[1] < b[1] \/ (a[1] = b[1] /\ a[2] < b[2])
MaxC(a, b) == IF Lt(a, b) THEN b ELSE a
None == <<0, 0>>
Clause == [Prevote |-> "OnePrevote", Precommit |-> "OnePrecommit", Cert |-> "OneCertificate", Next |-> "AtMostTwoNext"]
Limit(k) == IF k = "Next" THEN 2 ELSE 1
Order == <<"Prevote1", "Precommit1", "Next1", "Next2">>
Pair(x) == <<x[1], x[2]>>
FirstRec(d) == LET ns == { n \in 1..4 : Pair(d[Order[n]]) # None } IN
               IF ns = {} THEN None ELSE Pair(d[Order[CHOOSE n \in ns : \A m \in ns : n <= m]])

ZeroFired == [OnePrevote |-> 0, OnePrecommit |-> 0, OneCertificate |-> 0, AtMostTwoNext |-> 0]

Init == l = 1 /\ sentSet = {} /\ epoch = 0 /\ maxCtx = None /\ back = FALSE /\ first = None /\ viol = {} /\ fired = ZeroFired

\* fold the votes of one event, in order, into [S, V, F]
RECURSIVE Fold(_, _, _)
Fold(votes, acc, line) ==
   IF votes = <<>> THEN acc
   ELSE LET v == Head(votes) IN
        IF v.k \notin DOMAIN Clause THEN Fold(Tail(votes), acc, line)
        ELSE
        LET same == { x \in acc.S : x.k = v.k /\ x.r = v.r /\ x.i = v.i }
            old  == { x.b : x \in same }
            mine == { x.b : x \in { y \in same : y.e = epoch } }
            fails == v.b \notin old /\ Cardinality(old \cup {v.b}) > Limit(v.k)
            disc == IF Cardinality(mine \cup {v.b}) > Limit(v.k) THEN {"same_process"}
                    ELSE {"after_restart"} \cup (IF back THEN {"context_went_back"} ELSE {})
                                           \cup (IF first # None /\ Lt(first, <<v.r, v.i>>) THEN {"replay_from_older"} ELSE {})
        IN Fold(Tail(votes),
                [S |-> acc.S \cup {[k |-> v.k, r |-> v.r, i |-> v.i, b |-> v.b, e |-> epoch]},
                 V |-> IF fails THEN acc.V \cup {<<Clause[v.k], disc, line>>} ELSE acc.V,
                 F |-> [acc.F EXCEPT ![Clause[v.k]] = @ + 1]], line)

Step ==
   /\ l <= Len(TraceLog)
   /\ l' = l + 1
   /\ LET e == TraceLog[l] IN
      IF e.ev \in {"reset", "abort"}
      THEN /\ sentSet' = {} /\ epoch' = 0 /\ maxCtx' = None /\ back' = FALSE /\ first' = None
           /\ UNCHANGED <<viol, fired>>
      ELSE LET acc == IF "sent" \in DOMAIN e THEN Fold(e.sent, [S |-> sentSet, V |-> viol, F |-> fired], l)
                      ELSE [S |-> sentSet, V |-> viol, F |-> fired]
           IN /\ sentSet' = acc.S /\ viol' = acc.V /\ fired' = acc.F
              /\ CASE e.ev = "Restart" -> /\ epoch' = epoch + 1
                                          /\ back' = Lt(<<e.r, 1>>, maxCtx)
                                          /\ first' = FirstRec(e.disk)
                                          /\ maxCtx' = MaxC(maxCtx, <<e.r, 1>>)
                   [] e.ev = "Start"   -> /\ maxCtx' = MaxC(maxCtx, <<e.r, 1>>) /\ UNCHANGED <<epoch, back, first>>
                   [] e.ev = "Ctx"     -> /\ maxCtx' = MaxC(maxCtx, <<e.r, e.i>>) /\ UNCHANGED <<epoch, back, first>>
                   [] OTHER            -> UNCHANGED <<epoch, maxCtx, back, first>>

Spec == Init /\ [][Step]_vars

Done == (l = Len(TraceLog) + 1) =>
          PrintT("@@J " \o ToJson([kind |-> "RESULT", events |-> Len(TraceLog), viol |-> viol, fired |-> fired]))
=============================================================================
