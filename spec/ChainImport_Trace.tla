-------------------------- MODULE ChainImport_Trace --------------------------
(***************************************************************************)
(* Conformance of the real core.BlockChain to the design layer of          *)
(* ChainImport.tla.  For every recorded InsertChain call ("import") the    *)
(* model executes the same segment from its own state and requires         *)
(*  - the real sequence of database writes (trie-node batches left out) to *)
(*    be the model's write plan, write by write;                           *)
(*  - the observation after the call to be the model's;                    *)
(*  - the extend / reorg classification to agree.                          *)
(* For every "restart" (database frozen after write j of that call) the    *)
(* model applies the corresponding prefix of its plan, then loadLastState  *)
(* + repair, and requires the observation of the restarted chain to match. *)
(* A mismatch is DRIFT, never a violation.                                 *)
(***************************************************************************)
EXTENDS ChainImport

TraceLog == ndJsonDeserialize("trace.ndjson")
VARIABLES l,     \* next line
          eng,   \* engine of the current behaviour (from its tree event): TRUE = ucon header dispatch
          P,     \* model state before the last import
          O,     \* the model's write plan of the last import
          W      \* the real writes of the last import
tvars == <<vars, l, eng, P, O, W>>

OpRec(o) == [k |-> o.op, b |-> IF o.op = "deltx" THEN "" ELSE o.b, t |-> IF o.op = "txl" THEN o.t ELSE "",
             txs |-> IF o.op = "batch" THEN Txs(o.b) ELSE IF o.op = "deltx" THEN o.txs ELSE {}]
WRec(w) == [k |-> w.k, b |-> w.b, t |-> w.t, txs |-> { w.txs[i] : i \in DOMAIN w.txs }]
Silent(w) == w.k \in {"trie", "other"}
RealSeq(ws) == LET q == SelectSeq(ws, LAMBDA w : ~Silent(w)) IN [i \in DOMAIN q |-> WRec(q[i])]
PlanSeq(ops) == LET q == SelectSeq(ops, LAMBDA o : o.op \notin {"st", "panic"}) IN [i \in DOMAIN q |-> OpRec(q[i])]

\* plan operations left after the real writes ws: the first trie batch completes a pending "st"
RECURSIVE Consume(_, _)
Consume(ws, ops) ==
   IF ws = <<>> \/ ops = <<>> THEN ops
   ELSE IF Silent(Head(ws)) THEN (IF Head(ops).op = "st" THEN Consume(Tail(ws), Tail(ops)) ELSE Consume(Tail(ws), ops))
   ELSE IF Head(ops).op = "st" THEN Consume(ws, Tail(ops))
   ELSE Consume(Tail(ws), Tail(ops))

ObsOf(s) == [head |-> s.cur, hn |-> NumOf(s.cur, "G"), canon |-> [n \in 1..(MaxN + 1) |-> s.canon[n - 1]],
             txl |-> s.txl, st |-> HasState(s, s.cur, "G")]
SameObs(o, s) == LET m == ObsOf(s) IN
   /\ o.head = m.head /\ o.hn = m.hn /\ o.st = m.st
   /\ \A n \in 1..(MaxN + 1) : o.canon[n] = m.canon[n]
   /\ \A t \in AllTx : o.txl[t] = m.txl[t]

TStep ==
   /\ l <= Len(TraceLog)
   /\ l' = l + 1
   /\ LET e == TraceLog[l] IN
      CASE e.ev \in {"reset", "abort"} -> S' = S0 /\ P' = S0 /\ O' = <<>> /\ W' = <<>> /\ UNCHANGED eng
        [] e.ev = "tree" -> eng' = (e.engine = "ucon") /\ UNCHANGED <<S, P, O, W>>
        [] e.ev = "import" ->
             LET ops == CallOps(S, e.seg, TRUE, "G", eng, 3)
                 s2 == RunOps(S, ops, "G") IN
             /\ RealSeq(e.writes) = PlanSeq(ops)
             /\ SameObs(e.obs, s2)
             /\ e.mode = ModeOfOps(S, ops, "G")
             /\ S' = s2 /\ P' = S /\ O' = ops /\ W' = e.writes /\ UNCHANGED eng
        [] e.ev = "restart" ->
             LET left == Consume(SubSeq(W, 1, e.j + 1), O)
                 sj == RunOps(P, SubSeq(O, 1, Len(O) - Len(left)), "G")
                 h == Repair(sj, sj.headB, "G") IN
             /\ e.ok
             /\ SameObs(e.obs, [sj EXCEPT !.cur = h, !.headH = h])
             /\ UNCHANGED <<S, P, O, W, eng>>
        [] OTHER -> UNCHANGED <<S, P, O, W, eng>>
   /\ UNCHANGED <<todo, seg, phase, mode, rmode, cm, wrote, lastop, moves, inmove, cw, crashes, fp, refHead, pruned, hist>>

TInit == Init /\ l = 1 /\ eng = FALSE /\ P = S0 /\ O = <<>> /\ W = <<>> /\ TLCSet(1, 0)
TSpec == TInit /\ [][TStep]_tvars

HighWater == /\ TLCSet(1, IF TLCGet(1) < l THEN l ELSE TLCGet(1))
             /\ ((l = Len(TraceLog) + 1) => PrintT("@@J " \o ToJson([kind |-> "ACCEPTED", events |-> Len(TraceLog)])))
Accepted == IF TLCGet(1) = Len(TraceLog) + 1 THEN TRUE
            ELSE PrintT("@@J " \o ToJson([kind |-> "REJECTED", line |-> TLCGet(1), event |-> TraceLog[TLCGet(1)]]))
=============================================================================
