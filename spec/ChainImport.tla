----------------------------- MODULE ChainImport -----------------------------
(***************************************************************************)
(* C11 -- block import, reorganisation, crash and restart of               *)
(* core.BlockChain (blockchain.go InsertChain / insertChain /              *)
(* WriteBlockWithState / reorg / insert / loadLastState / repair;          *)
(* block_validator.go ValidateBody; rawdb accessors) with the solo engine. *)
(*                                                                         *)
(* Design layer (implementation shaped): the database is a record of the   *)
(* key families the code writes; InsertChain(segment) is executed as the   *)
(* code's sequence of individual database writes (`todo`), one micro-step  *)
(* per Put / Delete / Batch.Write in the code's order, with the error      *)
(* dispatch of insertChain (known block, unknown ancestor, invalid block). *)
(* The process may die after any write (Crash); Restart is loadLastState + *)
(* repair.  After a restart the interrupted segment is offered again and   *)
(* then one further valid block F (a child of the head of the run that     *)
(* never crashed).                                                         *)
(*                                                                         *)
(* Block tree (constant): G - A1(t1) - A2(t2) - A3(t4) - A4,  G - B1(t1) - *)
(* B2(t4) - B3(t3) - B4,  t1 is shared by A1 and B1, t4 by A3 and B2.  Invalid blocks: X (child of   *)
(* A1) and S2 (child of B1): wrong state root; R3 (child of B2): wrong     *)
(* receipt root; U4 (child of B3): wrong gas used; T2 (child of B1) and V4 *)
(* (child of B3): header.TxHash does not match the body -- T2 executes     *)
(* fine and has the descendants T3, T4 (invalid only through T2).          *)
(* Engine "ucon" (constant Ucon): the header dispatch of ucon's            *)
(* verifyHeader (ErrUnknownAncestor; ErrExistCanonical for a header whose  *)
(* height has another canonical block), hence insertSidechain,             *)
(* verifyAllSideChainBlocks, the re-import of the longer side chain and    *)
(* the ErrPrunedAncestor path.  A block  *)
(* without transactions has its parent's state root (solo engine: no       *)
(* rewards), so "state of b available" is "the set of transactions applied *)
(* up to b is a stored root".                                              *)
(*                                                                         *)
(* Property layer: the clauses of ChainImportProp over the observation of  *)
(* the chain at rest, RestartSucceeds and NotWedged.  Confirmed defects    *)
(* are named deviations (known_c11.json): TLC searches past them.          *)
(***************************************************************************)
EXTENDS ChainImportProp, TLC, Json

CONSTANTS MaxOffers,   \* number of InsertChain calls in a behaviour
          MaxCrash,    \* 0 (generation), 1, 2
          Atomic,      \* TRUE: the proposed repair -- lookups, canonical hashes, stale-lookup deletions and head markers of a
                       \*       WriteBlockWithState (reorg included) go into ONE database batch
          Ucon,        \* TRUE: engine with ucon's header dispatch (side-chain path reachable); FALSE: solo engine
          GenMode      \* "none" | "leaf"

KnownF == JsonDeserialize("known_c11.json")

Static == {"G", "A1", "A2", "A3", "A4", "B1", "B2", "B3", "B4", "X", "S2", "R3", "U4", "T2", "T3", "T4", "V4"}
AllBlocks == Static \cup {"F"}
SPar == [b \in Static |-> CASE b = "A2" -> "A1" [] b = "A3" -> "A2" [] b = "A4" -> "A3" [] b = "B2" -> "B1" [] b = "B3" -> "B2" [] b = "B4" -> "B3"
                            [] b = "X" -> "A1" [] b = "S2" -> "B1" [] b = "R3" -> "B2" [] b = "U4" -> "B3"
                            [] b = "T2" -> "B1" [] b = "T3" -> "T2" [] b = "T4" -> "T3" [] b = "V4" -> "B3" [] OTHER -> "G"]
SNum == [b \in Static |-> CASE b = "G" -> 0 [] b \in {"A1", "B1"} -> 1 [] b \in {"A2", "B2", "X", "S2", "T2"} -> 2
                            [] b \in {"A3", "B3", "R3", "T3"} -> 3 [] OTHER -> 4]
\* t1 is shared by A1 and B1 (same height); t4 by B2 and A3 (A3 lies above a head B2, and is not the tip when A4 is imported)
Txs(b) == CASE b = "A1" -> {"t1"} [] b = "A2" -> {"t2"} [] b = "A3" -> {"t4"} [] b = "B1" -> {"t1"} [] b = "B2" -> {"t4"}
            [] b = "B3" -> {"t3"} [] OTHER -> {}
AllTx == {"t1", "t2", "t3", "t4"}
\* what is wrong with a block (its own defect)
Kind(b) == CASE b \in {"X", "S2"} -> "stateroot" [] b = "R3" -> "receipt" [] b = "U4" -> "gas" [] b \in {"T2", "V4"} -> "txroot" [] OTHER -> "ok"
ExecBad(b) == Kind(b) \in {"stateroot", "receipt", "gas"}     \* rejected by Process + ValidateState
BodyBad(b) == Kind(b) = "txroot"                                \* rejected by ValidateBody only
Invalid == {"X", "S2", "R3", "U4", "T2", "T3", "T4", "V4"}      \* invalid blocks and their descendants
MaxN == 5
SegsSolo == { <<"A1">>, <<"A2">>, <<"A3">>, <<"A1", "A2">>, <<"A2", "A3">>, <<"A1", "A2", "A3">>,
              <<"B1">>, <<"B2">>, <<"B3">>, <<"B1", "B2">>, <<"B2", "B3">>, <<"B1", "B2", "B3">>,
              <<"X">>, <<"A1", "X">>, <<"A4">>, <<"A3", "A4">> }
SegsUcon == { <<"A1">>, <<"A1", "A2">>, <<"A1", "A2", "A3">>, <<"A2", "A3">>, <<"A3">>, <<"A4">>,
              <<"B1">>, <<"B1", "B2">>, <<"B1", "B2", "B3", "B4">>, <<"B2", "B3", "B4">>, <<"B3", "B4">>,
              <<"B1", "T2", "T3", "T4">>, <<"T2", "T3", "T4">>, <<"B1", "B2", "B3", "V4">>, <<"B3", "V4">>,
              <<"B1", "S2">>, <<"B1", "B2", "R3">>, <<"B1", "B2", "B3", "U4">>, <<"A1", "X">>, <<"X">> }
Segs == IF Ucon THEN SegsUcon ELSE SegsSolo

VARIABLES S,        \* [bod, blk, roots, canon, headB, headH, txl, cur]: database keys + the in-memory head; bod = blocks whose body
                    \* is stored (BlockChain.HasBlock looks at the body only), blk = blocks whose header is stored too (GetBlock)
          todo,     \* remaining database writes of the running InsertChain call
          seg,      \* the segment of the running / interrupted call
          phase,    \* "normal" | "crashed" | "restarted" | "recovering" | "further" | "done" | "dead" (the process panicked)
          mode,     \* "none" | "extend" | "reorg": how the first block written by the (interrupted) call relates to the head
          rmode,    \* the same for the call that imports the interrupted blocks again
          cm,       \* the modes of the calls that were interrupted so far (with two crashes an inconsistency left by the first one
                    \* may be observed after the second: the discriminator carries both)
          wrote,    \* database writes done in the current call
          lastop,   \* kind of the last completed write of the running call that is not a state (trie) write:
                    \* hnum | hdr | body | headH | canon | headB | lookup | lookupbatch | delbatch | atomic
          moves,    \* complete head moves (headH, canon, headB) of the running call
          inmove,   \* a head move has begun (headH written) and is not complete (headB not yet)
          cw,       \* WHERE the crashes fell: {"last_<kind>", "inside_move" | "after_complete_move" | "before_moves"} of each crash
          crashes,
          fp,       \* parent of the further block F
          refHead,  \* head of the run that never crashed, after the interrupted call
          pruned,   \* solo engine: the ErrPrunedAncestor dispatch was reached (assumed unreachable, see NoPrunedDispatch)
          hist      \* the offered segments (generation)
vars == <<S, todo, seg, phase, mode, rmode, cm, wrote, lastop, moves, inmove, cw, crashes, fp, refHead, pruned, hist>>

\* ---------------------------------------------------------------- the tree with the dynamic block F
Par(b, f) == IF b = "F" THEN f ELSE SPar[b]
NumOf(b, f) == IF b = "F" THEN SNum[f] + 1 ELSE SNum[b]
RECURSIVE Anc(_, _)     \* ancestors of b including b, excluding G, oldest first
Anc(b, f) == IF b = "G" THEN <<>> ELSE Append(Anc(Par(b, f), f), b)
AncSet(b, f) == { Anc(b, f)[i] : i \in DOMAIN Anc(b, f) } \cup {"G"}
RootOf(b, f) == IF ExecBad(b) THEN {"bad"} ELSE UNION { Txs(x) : x \in AncSet(b, f) }
HasState(s, b, f) == RootOf(b, f) \in s.roots
Tree(f) == [par |-> [b \in AllBlocks |-> Par(b, f)], num |-> [b \in AllBlocks |-> NumOf(b, f)], inv |-> Invalid,
            txs |-> [b \in AllBlocks |-> Txs(b)]]

\* ---------------------------------------------------------------- the code's write sequences
RECURSIVE Flat(_)
Flat(ss) == IF ss = <<>> THEN <<>> ELSE Head(ss) \o Flat(Tail(ss))
SetSeq(T) == LET RECURSIVE F(_) F(U) == IF U = {} THEN <<>> ELSE LET x == CHOOSE x \in U : TRUE IN <<x>> \o F(U \ {x}) IN F(T)
\* BlockChain.insert: hc.SetCurrentHeader, WriteCanonicalHash, WriteHeadBlockHash (three separate Puts), then currentBlock.Store
InsertOps(x) == << [op |-> "headH", b |-> x], [op |-> "canon", b |-> x], [op |-> "headB", b |-> x] >>
\* rawdb.WriteTxLookupEntries directly on the database: one Put per transaction
TxlOps(x) == [k \in 1..Cardinality(Txs(x)) |-> [op |-> "txl", b |-> x, t |-> SetSeq(Txs(x))[k]]]
\* rawdb.WriteBlock: body, hash->number, header
\* rawdb.WriteBlock: header (hash->number, header) first, then the body (since /repo commit 91974b7; body first before)
StoreOps(b) == << [op |-> "hnum", b |-> b], [op |-> "hdr", b |-> b], [op |-> "body", b |-> b] >>

\* WriteBlockWithState(b) with the current head s.cur
Plan(s, b, f) ==
   LET newChain == SelectSeq(Anc(b, f), LAMBDA x : x \notin AncSet(s.cur, f))    \* oldest first, includes b
       oldOnly  == AncSet(s.cur, f) \ AncSet(b, f)
       added    == UNION { Txs(newChain[i]) : i \in DOMAIN newChain }
       deleted  == UNION { Txs(x) : x \in oldOnly }
       diff     == deleted \ added
       reorg    == IF Par(b, f) = s.cur THEN <<>>
                   ELSE Flat([i \in DOMAIN newChain |-> InsertOps(newChain[i]) \o TxlOps(newChain[i])])
                        \o (IF diff = {} THEN <<>> ELSE << [op |-> "deltx", b |-> b, txs |-> diff] >>)
       index == reorg \o (IF Txs(b) = {} THEN <<>> ELSE << [op |-> "batch", b |-> b] >>)        \* receipts + lookups, one batch
                      \o InsertOps(b)
   IN StoreOps(b)                                                                               \* rawdb.WriteBlock
      \o (IF HasState(s, b, f) THEN <<>> ELSE << [op |-> "st", b |-> b] >>)                     \* trie commits (nothing new: no write)
      \o (IF Atomic THEN << [op |-> "atomic", b |-> b, ops |-> index] >> ELSE index)

RECURSIVE ApplyOp(_, _, _), RunOps(_, _, _)
ApplyOp(s, o, f) ==
   CASE o.op = "atomic" -> RunOps(s, o.ops, f)
     [] o.op = "body"  -> [s EXCEPT !.bod = @ \cup {o.b}]
     [] o.op = "hdr"   -> [s EXCEPT !.blk = @ \cup {o.b}]
     [] o.op = "st"    -> [s EXCEPT !.roots = @ \cup {RootOf(o.b, f)}]
     [] o.op = "headH" -> [s EXCEPT !.headH = o.b]
     [] o.op = "canon" -> [s EXCEPT !.canon[NumOf(o.b, f)] = o.b]
     [] o.op = "headB" -> [s EXCEPT !.headB = o.b, !.cur = o.b]
     [] o.op = "txl"   -> [s EXCEPT !.txl[o.t] = o.b]
     [] o.op = "batch" -> [s EXCEPT !.txl = [t \in AllTx |-> IF t \in Txs(o.b) THEN o.b ELSE @[t]]]
     [] o.op = "deltx" -> [s EXCEPT !.txl = [t \in AllTx |-> IF t \in o.txs THEN "-" ELSE @[t]]]
     [] OTHER -> s      \* hnum, panic: the block is not visible before its header is stored
RunOps(s, ops, f) == IF ops = <<>> THEN s ELSE RunOps(ApplyOp(s, Head(ops), f), Tail(ops), f)

\* ValidateBody: ErrKnownBlock
Known(s, b, f) == b \in s.blk /\ HasState(s, b, f) /\ s.canon[NumOf(b, f)] = b
\* ucon's verifyCascadingFields: another block is canonical at the header's height
Exist(s, b, f) == s.canon[NumOf(b, f)] \notin {"-", b}

\* insertSidechain, ancestor collection: back from the tip to the first canonical block with state (included)
StopAt(s, p, f) == p = "G" \/ (s.canon[NumOf(p, f)] = p /\ HasState(s, p, f))
RECURSIVE Collect(_, _, _), CollectOk(_, _, _)
Collect(s, p, f) == IF StopAt(s, p, f) THEN <<p>> ELSE Append(Collect(s, Par(p, f), f), p)
\* the walk reads every header with GetHeader and dereferences the result unchecked: a block without header = nil pointer
CollectOk(s, p, f) == p \in s.blk /\ (StopAt(s, p, f) \/ CollectOk(s, Par(p, f), f))
\* ValidateBody: the parent is there with its state; otherwise HasBlock (body only) decides between pruned and unknown ancestor
ParentOk(s, b, f) == Par(b, f) \in s.blk /\ HasState(s, Par(b, f), f)
RECURSIVE Strip(_, _, _)
Strip(s, c, f) == IF c # <<>> /\ s.canon[NumOf(Head(c), f)] = Head(c) THEN Strip(s, Tail(c), f) ELSE c

\* every database write of one InsertChain(bs) call, in the code's order.  first: bs[1] is index 0 of the running insertChain
\* invocation; ucon: engine; d bounds the nesting insertChain -> insertSidechain -> insertChain
RECURSIVE CallOps(_, _, _, _, _, _), SideOps(_, _, _, _, _)
CallOps(s, bs, first, f, ucon, d) ==
   IF bs = <<>> THEN <<>>
   ELSE LET b == Head(bs)
            write == LET p == Plan(s, b, f) IN p \o CallOps(RunOps(s, p, f), Tail(bs), FALSE, f, ucon, d)
        IN
        IF ~ucon
        THEN IF Known(s, b, f) THEN CallOps(s, Tail(bs), FALSE, f, ucon, d)                  \* ErrKnownBlock: next block
             ELSE IF ~ParentOk(s, b, f) THEN <<>>               \* ErrUnknownAncestor / ErrPrunedAncestor (see NoPrunedDispatch)
             ELSE IF BodyBad(b) \/ ExecBad(b) THEN <<>>                                        \* nothing written
             ELSE write
        ELSE IF first /\ Par(b, f) \notin s.blk THEN <<>>                                     \* engine: ErrUnknownAncestor
             ELSE IF Exist(s, b, f)
                  THEN IF first THEN SideOps(s, bs, f, ucon, d)                               \* ErrExistCanonical, i = 0
                       \* ErrExistCanonical, i > 0: VerifySeal, ValidateBody, then the block is processed and written
                       ELSE IF ~ParentOk(s, b, f) \/ BodyBad(b) \/ ExecBad(b) THEN <<>>
                       ELSE write
             ELSE IF Known(s, b, f) THEN CallOps(s, Tail(bs), FALSE, f, ucon, d)
             ELSE IF ~ParentOk(s, b, f)
                  THEN IF Par(b, f) \in s.bod THEN SideOps(s, bs, f, ucon, d)                  \* ErrPrunedAncestor
                       ELSE <<>>                                                               \* ErrUnknownAncestor
             ELSE IF BodyBad(b) \/ ExecBad(b) THEN <<>>
             ELSE write
\* insertSidechain(chain): verifyAllSideChainBlocks (executes every block, does NOT compare header.TxHash with the body), store
\* the blocks without state, and if the side chain is longer than the canonical one re-import it from the common ancestor
SideOps(s, chain, f, ucon, d) ==
   LET c == Strip(s, chain, f) IN
   IF c = <<>> THEN <<>>
   ELSE IF Par(c[1], f) \notin s.blk \/ ~HasState(s, Par(c[1], f), f) THEN <<>>
   ELSE IF \E i \in DOMAIN c : ExecBad(c[i]) THEN <<>>
   ELSE LET store == Flat([i \in DOMAIN c |-> IF c[i] \in s.bod THEN <<>> ELSE StoreOps(c[i])])     \* if !bc.HasBlock(...)
            s2 == RunOps(s, store, f)
            tip == c[Len(c)]
        IN IF NumOf(tip, f) <= NumOf(s2.cur, f) \/ d = 0 THEN store
           ELSE IF ~CollectOk(s2, tip, f) THEN Append(store, [op |-> "panic", b |-> tip])
           ELSE store \o CallOps(s2, Collect(s2, tip, f), TRUE, f, ucon, d - 1)

\* solo engine: is the ErrPrunedAncestor dispatch reached by this call?
RECURSIVE PrunedIn(_, _, _)
PrunedIn(s, bs, f) ==
   IF bs = <<>> THEN FALSE
   ELSE LET b == Head(bs) IN
        IF Known(s, b, f) THEN PrunedIn(s, Tail(bs), f)
        ELSE IF ~ParentOk(s, b, f) THEN Par(b, f) \in s.bod
        ELSE IF BodyBad(b) \/ ExecBad(b) THEN FALSE
        ELSE PrunedIn(RunOps(s, Plan(s, b, f), f), Tail(bs), f)

\* how the first block written by the call relates to the head before the call
ModeOfOps(s, ops, f) == LET q == SelectSeq(ops, LAMBDA o : o.op = "body") IN
                        IF q = <<>> THEN "none" ELSE IF Par(q[1].b, f) = s.cur THEN "extend" ELSE "reorg"

\* loadLastState + repair
RECURSIVE Repair(_, _, _)
Repair(s, b, f) == IF HasState(s, b, f) \/ b = "G" THEN b ELSE Repair(s, Par(b, f), f)

\* ---------------------------------------------------------------- the machine
S0 == [bod |-> {"G"}, blk |-> {"G"}, roots |-> {{}}, canon |-> [n \in 0..MaxN |-> IF n = 0 THEN "G" ELSE "-"],
       headB |-> "G", headH |-> "G", txl |-> [t \in AllTx |-> "-"], cur |-> "G"]

Init == /\ S = S0 /\ todo = <<>> /\ seg = <<>> /\ phase = "normal" /\ mode = "none" /\ rmode = "none" /\ cm = {} /\ wrote = 0
        /\ lastop = "-" /\ moves = 0 /\ inmove = FALSE /\ cw = {} /\ crashes = 0 /\ fp = "G" /\ refHead = "G" /\ pruned = FALSE /\ hist = <<>>

Idle == todo = <<>>
Call(sg, f) == CallOps(S, sg, TRUE, f, Ucon, 3)

Offer(sg) == /\ phase = "normal" /\ Idle /\ Len(hist) < MaxOffers
             /\ todo' = Call(sg, fp) /\ seg' = sg /\ mode' = ModeOfOps(S, Call(sg, fp), fp) /\ wrote' = 0 /\ lastop' = "-" /\ moves' = 0 /\ inmove' = FALSE
             /\ pruned' = (pruned \/ (~Ucon /\ PrunedIn(S, sg, fp)))
             /\ hist' = Append(hist, sg)
             /\ UNCHANGED <<S, phase, crashes, fp, refHead, rmode, cm, cw>>

Write == \* one database write
   /\ phase \in {"normal", "recovering", "further"} /\ todo # <<>>
   /\ S' = ApplyOp(S, Head(todo), fp)
   /\ todo' = Tail(todo) /\ wrote' = wrote + 1
   /\ LET k == Head(todo).op IN
      /\ lastop' = CASE k \in {"st", "panic"} -> lastop [] k = "txl" -> "lookup" [] k = "batch" -> "lookupbatch" [] k = "deltx" -> "delbatch"
                      [] OTHER -> k
      /\ inmove' = IF k = "headH" THEN TRUE ELSE IF k \in {"headB", "atomic"} THEN FALSE ELSE inmove
      /\ moves' = IF k \in {"headB", "atomic"} THEN moves + 1 ELSE moves
   /\ phase' = IF Head(todo).op = "panic" THEN "dead" ELSE phase       \* nil pointer dereference in insertSidechain
   /\ UNCHANGED <<seg, mode, rmode, cm, cw, crashes, fp, refHead, pruned, hist>>

Crash == \* the process dies after a write of the running call
   /\ phase \in (IF MaxCrash > 1 THEN {"normal", "recovering"} ELSE {"normal"})
   /\ crashes < MaxCrash /\ wrote > 0 /\ seg # <<>>
   /\ refHead' = IF phase = "normal" THEN RunOps(S, todo, fp).cur ELSE refHead
   /\ S' = [S EXCEPT !.cur = "-"]
   /\ todo' = <<>> /\ phase' = "crashed" /\ crashes' = crashes + 1
   /\ cm' = cm \cup {IF phase = "recovering" THEN rmode ELSE mode}
   /\ cw' = cw \cup {"last_" \o lastop, IF inmove THEN "inside_move" ELSE IF moves > 0 THEN "after_complete_move" ELSE "before_moves"}
   /\ UNCHANGED <<seg, mode, rmode, wrote, lastop, moves, inmove, fp, pruned, hist>>

Restart == \* NewBlockChain on the same database: loadLastState (+ repair); SetCurrentHeader writes the head header hash
   /\ phase = "crashed"
   /\ LET h == Repair(S, S.headB, fp) IN S' = [S EXCEPT !.cur = h, !.headH = h]
   /\ phase' = "restarted"
   /\ UNCHANGED <<todo, seg, mode, rmode, cm, wrote, lastop, moves, inmove, cw, crashes, fp, refHead, pruned, hist>>

ReOffer == \* "the interrupted blocks ... are imported again"
   /\ phase = "restarted"
   /\ todo' = Call(seg, fp) /\ phase' = "recovering" /\ wrote' = 0 /\ rmode' = ModeOfOps(S, Call(seg, fp), fp)
   /\ lastop' = "-" /\ moves' = 0 /\ inmove' = FALSE
   /\ pruned' = (pruned \/ (~Ucon /\ PrunedIn(S, seg, fp)))
   /\ UNCHANGED <<S, seg, mode, cm, cw, crashes, fp, refHead, hist>>

Further == \* "... and any one further valid block": a child of the head of the run that never crashed
   /\ phase = "recovering" /\ Idle
   /\ fp' = refHead /\ todo' = Call(<<"F">>, refHead) /\ phase' = "further"
   /\ pruned' = (pruned \/ (~Ucon /\ PrunedIn(S, <<"F">>, refHead)))
   /\ UNCHANGED <<S, seg, mode, rmode, cm, cw, wrote, lastop, moves, inmove, crashes, refHead, hist>>

Finish == /\ phase = "further" /\ Idle /\ phase' = "done"
          /\ UNCHANGED <<S, todo, seg, mode, rmode, cm, cw, wrote, lastop, moves, inmove, crashes, fp, refHead, pruned, hist>>

Next == (\E sg \in Segs : Offer(sg)) \/ Write \/ Crash \/ Restart \/ ReOffer \/ Further \/ Finish
Spec == Init /\ [][Next]_vars

\* ---------------------------------------------------------------- property layer
Obs == [head |-> S.cur, hn |-> NumOf(S.cur, fp), canon |-> [n \in 1..(MaxN + 1) |-> S.canon[n - 1]],
        txl |-> S.txl, st |-> HasState(S, S.cur, fp)]
AtRest == Idle /\ phase \in {"normal", "restarted", "done"}
PhaseDisc == CASE phase = "normal" -> "nocrash" [] phase = "restarted" -> "crash" [] OTHER -> "recovered"
ModeDisc == IF crashes = 0 THEN {mode} ELSE cm \cup cw
Disc(name) == Class(name, Tree(fp), Obs) \cup {PhaseDisc} \cup ModeDisc

Cex(name) == PrintT("@@J " \o ToJson([kind |-> "CEX", clause |-> name, disc |-> Disc(name), h |-> hist])) /\ FALSE

\* the four consistency clauses, whenever the chain is at rest (after a call, after a restart, after the recovery)
Consistent == AtRest => \A name \in Failing(Tree(fp), Obs) : IsKnown(KnownF, name, Disc(name)) \/ Cex(name)
\* "it has the same head and state as a node that never crashed" (whose head is F)
WedgedDisc == {IF phase = "dead" THEN "panic_in_recovery" ELSE IF S.cur # "F" THEN "different_head" ELSE "state_unavailable",
               "recovered"} \cup ModeDisc
NotWedged == phase \in {"done", "dead"} =>
                \/ (phase = "done" /\ S.cur = "F" /\ HasState(S, "F", fp))
                \/ IsKnown(KnownF, "NotWedged", WedgedDisc)
                \/ (PrintT("@@J " \o ToJson([kind |-> "CEX", clause |-> "NotWedged", disc |-> WedgedDisc, h |-> hist])) /\ FALSE)
\* the solo engine never takes the side-chain path in this tree, crashes included
NoPrunedDispatch == ~pruned

\* ---------------------------------------------------------------- generation
Leaf == (GenMode = "leaf" /\ Len(hist) = MaxOffers /\ Idle /\ phase = "normal") => PrintT("@@J " \o ToJson([kind |-> "B", h |-> hist]))
View == <<S, todo, seg, phase, mode, rmode, cm, wrote, lastop, moves, inmove, cw, crashes, fp, refHead, pruned, Len(hist)>>
=============================================================================
