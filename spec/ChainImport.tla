----------------------------- MODULE ChainImport -----------------------------
(***************************************************************************)
(* C11 -- block import, reorganisation, crash and restart of               *)
(* core.BlockChain (blockchain.go InsertChain / insertChain /              *)
(* WriteBlockWithState / reorg / insert / loadLastState / repair;          *)
(* block_validator.go ValidateBody; rawdb accessors) with the solo engine. *)
(*                                                                         *)
(* Design layer (implementation shaped): the database is a record of the   *)
(* key families the code writes; InsertChain(segment) is executed as the   *)
(* code's sequence of individual database writes (`todo`), one micro-step  *)
(* per Put / Delete / Batch.Write in the code's order, with the error      *)
(* dispatch of insertChain (known block, unknown ancestor, invalid block). *)
(* The process may die after any write (Crash); Restart is loadLastState + *)
(* repair.  After a restart the interrupted segment is offered again and   *)
(* then one further valid block F (a child of the head of the run that     *)
(* never crashed).                                                         *)
(*                                                                         *)
(* Block tree (constant): G - A1(t1) - A2(t2) - A3,  G - B1(t1) - B2 -     *)
(* B3(t3),  X = invalid child of A1.  t1 is shared by A1 and B1.  A block  *)
(* without transactions has its parent's state root (solo engine: no       *)
(* rewards), so "state of b available" is "the set of transactions applied *)
(* up to b is a stored root".                                              *)
(*                                                                         *)
(* Property layer: the clauses of ChainImportProp over the observation of  *)
(* the chain at rest, RestartSucceeds and NotWedged.  Confirmed defects    *)
(* are named deviations (known_c11.json): TLC searches past them.          *)
(***************************************************************************)
EXTENDS ChainImportProp, TLC, Json

CONSTANTS MaxOffers,   \* number of InsertChain calls in a behaviour
          MaxCrash,    \* 0 (generation), 1, 2
          Atomic,      \* TRUE: the proposed repair -- lookups, canonical hashes, stale-lookup deletions and head markers of a
                       \*       WriteBlockWithState (reorg included) go into ONE database batch
          GenMode      \* "none" | "leaf"

KnownF == JsonDeserialize("known_c11.json")

Static == {"G", "A1", "A2", "A3", "B1", "B2", "B3", "X"}
AllBlocks == Static \cup {"F"}
SPar == [b \in Static |-> CASE b = "A2" -> "A1" [] b = "A3" -> "A2" [] b = "B2" -> "B1" [] b = "B3" -> "B2" [] b = "X" -> "A1" [] OTHER -> "G"]
SNum == [b \in Static |-> CASE b = "G" -> 0 [] b \in {"A1", "B1"} -> 1 [] b \in {"A2", "B2", "X"} -> 2 [] OTHER -> 3]
Txs(b) == CASE b = "A1" -> {"t1"} [] b = "A2" -> {"t2"} [] b = "B1" -> {"t1"} [] b = "B3" -> {"t3"} [] OTHER -> {}
AllTx == {"t1", "t2", "t3"}
Invalid == {"X"}
MaxN == 4
Segs == { <<"A1">>, <<"A2">>, <<"A3">>, <<"A1", "A2">>, <<"A2", "A3">>, <<"A1", "A2", "A3">>,
          <<"B1">>, <<"B2">>, <<"B3">>, <<"B1", "B2">>, <<"B2", "B3">>, <<"B1", "B2", "B3">>,
          <<"X">>, <<"A1", "X">> }

VARIABLES S,        \* [blk, roots, canon, headB, headH, txl, cur]: database keys + the in-memory head
          todo,     \* remaining database writes of the block being written
          pend,     \* remaining blocks of the running InsertChain call
          seg,      \* the segment of the running / interrupted call
          phase,    \* "normal" | "crashed" | "restarted" | "recovering" | "further" | "done"
          mode,     \* "none" | "extend" | "reorg": how the first written block of the call relates to the head
          wrote,    \* database writes done in the current call
          lastop,   \* kind of the last write
          crashes,
          fp,       \* parent of the further block F
          refHead,  \* head of the run that never crashed, after the interrupted call
          hist      \* the offered segments (generation)
vars == <<S, todo, pend, seg, phase, mode, wrote, lastop, crashes, fp, refHead, hist>>

\* ---------------------------------------------------------------- the tree with the dynamic block F
Par(b, f) == IF b = "F" THEN f ELSE SPar[b]
NumOf(b, f) == IF b = "F" THEN SNum[f] + 1 ELSE SNum[b]
RECURSIVE Anc(_, _)     \* ancestors of b including b, excluding G, oldest first
Anc(b, f) == IF b = "G" THEN <<>> ELSE Append(Anc(Par(b, f), f), b)
AncSet(b, f) == { Anc(b, f)[i] : i \in DOMAIN Anc(b, f) } \cup {"G"}
RootOf(b, f) == IF b \in Invalid THEN {"bad"} ELSE UNION { Txs(x) : x \in AncSet(b, f) }
HasState(s, b, f) == RootOf(b, f) \in s.roots
Tree(f) == [par |-> [b \in AllBlocks |-> Par(b, f)], num |-> [b \in AllBlocks |-> NumOf(b, f)], inv |-> Invalid]

\* ---------------------------------------------------------------- the code's write sequences
RECURSIVE Flat(_)
Flat(ss) == IF ss = <<>> THEN <<>> ELSE Head(ss) \o Flat(Tail(ss))
SetSeq(T) == LET RECURSIVE F(_) F(U) == IF U = {} THEN <<>> ELSE LET x == CHOOSE x \in U : TRUE IN <<x>> \o F(U \ {x}) IN F(T)
\* BlockChain.insert: hc.SetCurrentHeader, WriteCanonicalHash, WriteHeadBlockHash (three separate Puts), then currentBlock.Store
InsertOps(x) == << [op |-> "headH", b |-> x], [op |-> "canon", b |-> x], [op |-> "headB", b |-> x] >>
\* rawdb.WriteTxLookupEntries directly on the database: one Put per transaction
TxlOps(x) == [k \in 1..Cardinality(Txs(x)) |-> [op |-> "txl", b |-> x, t |-> SetSeq(Txs(x))[k]]]

\* WriteBlockWithState(b) with the current head s.cur
Plan(s, b, f) ==
   LET newChain == SelectSeq(Anc(b, f), LAMBDA x : x \notin AncSet(s.cur, f))    \* oldest first, includes b
       oldOnly  == AncSet(s.cur, f) \ AncSet(b, f)
       added    == UNION { Txs(newChain[i]) : i \in DOMAIN newChain }
       deleted  == UNION { Txs(x) : x \in oldOnly }
       diff     == deleted \ added
       reorg    == IF Par(b, f) = s.cur THEN <<>>
                   ELSE Flat([i \in DOMAIN newChain |-> InsertOps(newChain[i]) \o TxlOps(newChain[i])])
                        \o (IF diff = {} THEN <<>> ELSE << [op |-> "deltx", b |-> b, txs |-> diff] >>)
       index == reorg \o (IF Txs(b) = {} THEN <<>> ELSE << [op |-> "batch", b |-> b] >>)        \* receipts + lookups, one batch
                      \o InsertOps(b)
   IN << [op |-> "body", b |-> b], [op |-> "hnum", b |-> b], [op |-> "hdr", b |-> b] >>      \* rawdb.WriteBlock
      \o (IF HasState(s, b, f) THEN <<>> ELSE << [op |-> "st", b |-> b] >>)                     \* trie commits (nothing new: no write)
      \o (IF Atomic THEN << [op |-> "atomic", b |-> b, ops |-> index] >> ELSE index)

RECURSIVE ApplyOp(_, _, _), RunOps(_, _, _)
ApplyOp(s, o, f) ==
   CASE o.op = "atomic" -> RunOps(s, o.ops, f)
     [] o.op = "hdr"   -> [s EXCEPT !.blk = @ \cup {o.b}]
     [] o.op = "st"    -> [s EXCEPT !.roots = @ \cup {RootOf(o.b, f)}]
     [] o.op = "headH" -> [s EXCEPT !.headH = o.b]
     [] o.op = "canon" -> [s EXCEPT !.canon[NumOf(o.b, f)] = o.b]
     [] o.op = "headB" -> [s EXCEPT !.headB = o.b, !.cur = o.b]
     [] o.op = "txl"   -> [s EXCEPT !.txl[o.t] = o.b]
     [] o.op = "batch" -> [s EXCEPT !.txl = [t \in AllTx |-> IF t \in Txs(o.b) THEN o.b ELSE @[t]]]
     [] o.op = "deltx" -> [s EXCEPT !.txl = [t \in AllTx |-> IF t \in o.txs THEN "-" ELSE @[t]]]
     [] OTHER -> s      \* body, hnum: the block is not visible before its header is stored

\* insertChain's dispatch for one block (ValidateBody, Process + ValidateState)
Dispatch(s, b, f) ==
   IF b \in s.blk /\ HasState(s, b, f) /\ s.canon[NumOf(b, f)] = b THEN "skip"       \* ErrKnownBlock
   ELSE IF Par(b, f) \notin s.blk THEN "stop"                                          \* ErrUnknownAncestor
   ELSE IF ~HasState(s, Par(b, f), f) THEN "pruned"                                    \* ErrPrunedAncestor => insertSidechain
   ELSE IF b \in Invalid THEN "stop"                                                   \* ValidateState fails, nothing written
   ELSE "write"

RunOps(s, ops, f) == IF ops = <<>> THEN s ELSE RunOps(ApplyOp(s, Head(ops), f), Tail(ops), f)
RECURSIVE RunSeg(_, _, _)
RunSeg(s, bs, f) ==
   IF bs = <<>> THEN s
   ELSE LET d == Dispatch(s, Head(bs), f) IN
        IF d = "skip" THEN RunSeg(s, Tail(bs), f)
        ELSE IF d = "write" THEN RunSeg(RunOps(s, Plan(s, Head(bs), f), f), Tail(bs), f)
        ELSE s

\* loadLastState + repair
RECURSIVE Repair(_, _, _)
Repair(s, b, f) == IF HasState(s, b, f) \/ b = "G" THEN b ELSE Repair(s, Par(b, f), f)

\* ---------------------------------------------------------------- the machine
S0 == [blk |-> {"G"}, roots |-> {{}}, canon |-> [n \in 0..MaxN |-> IF n = 0 THEN "G" ELSE "-"],
       headB |-> "G", headH |-> "G", txl |-> [t \in AllTx |-> "-"], cur |-> "G"]

Init == /\ S = S0 /\ todo = <<>> /\ pend = <<>> /\ seg = <<>> /\ phase = "normal" /\ mode = "none" /\ wrote = 0
        /\ lastop = "-" /\ crashes = 0 /\ fp = "G" /\ refHead = "G" /\ hist = <<>>

Idle == todo = <<>> /\ pend = <<>>

Offer(sg) == /\ phase = "normal" /\ Idle /\ Len(hist) < MaxOffers
             /\ pend' = sg /\ seg' = sg /\ mode' = "none" /\ wrote' = 0 /\ lastop' = "-"
             /\ hist' = Append(hist, sg)
             /\ UNCHANGED <<S, todo, phase, crashes, fp, refHead>>

Next1 == \* dispatch of the next block of the running call
   /\ phase \in {"normal", "recovering", "further"} /\ todo = <<>> /\ pend # <<>>
   /\ LET b == Head(pend)  d == Dispatch(S, b, fp) IN
      /\ pend' = IF d \in {"skip", "write"} THEN Tail(pend) ELSE <<>>
      /\ todo' = IF d = "write" THEN Plan(S, b, fp) ELSE <<>>
      /\ mode' = IF d = "write" /\ mode = "none" THEN (IF Par(b, fp) = S.cur THEN "extend" ELSE "reorg") ELSE mode
   /\ UNCHANGED <<S, seg, phase, wrote, lastop, crashes, fp, refHead, hist>>

Write == \* one database write
   /\ phase \in {"normal", "recovering", "further"} /\ todo # <<>>
   /\ S' = ApplyOp(S, Head(todo), fp)
   /\ todo' = Tail(todo) /\ wrote' = wrote + 1 /\ lastop' = Head(todo).op
   /\ UNCHANGED <<pend, seg, phase, mode, crashes, fp, refHead, hist>>

Crash == \* the process dies after a write of the running call
   /\ phase \in (IF MaxCrash > 1 THEN {"normal", "recovering"} ELSE {"normal"})
   /\ crashes < MaxCrash /\ wrote > 0 /\ seg # <<>>
   /\ refHead' = IF phase = "normal" THEN RunSeg(RunOps(S, todo, fp), pend, fp).cur ELSE refHead
   /\ S' = [S EXCEPT !.cur = "-"]
   /\ todo' = <<>> /\ pend' = <<>> /\ phase' = "crashed" /\ crashes' = crashes + 1
   /\ UNCHANGED <<seg, mode, wrote, lastop, fp, hist>>

Restart == \* NewBlockChain on the same database: loadLastState (+ repair); SetCurrentHeader writes the head header hash
   /\ phase = "crashed"
   /\ LET h == Repair(S, S.headB, fp) IN S' = [S EXCEPT !.cur = h, !.headH = h]
   /\ phase' = "restarted"
   /\ UNCHANGED <<todo, pend, seg, mode, wrote, lastop, crashes, fp, refHead, hist>>

ReOffer == \* "the interrupted blocks ... are imported again"
   /\ phase = "restarted"
   /\ pend' = seg /\ phase' = "recovering" /\ wrote' = 0
   /\ UNCHANGED <<S, todo, seg, mode, lastop, crashes, fp, refHead, hist>>

Further == \* "... and any one further valid block": a child of the head of the run that never crashed
   /\ phase = "recovering" /\ Idle
   /\ fp' = refHead /\ pend' = <<"F">> /\ phase' = "further"
   /\ UNCHANGED <<S, todo, seg, mode, wrote, lastop, crashes, refHead, hist>>

Finish == /\ phase = "further" /\ Idle /\ phase' = "done"
          /\ UNCHANGED <<S, todo, pend, seg, mode, wrote, lastop, crashes, fp, refHead, hist>>

Next == (\E sg \in Segs : Offer(sg)) \/ Next1 \/ Write \/ Crash \/ Restart \/ ReOffer \/ Further \/ Finish
Spec == Init /\ [][Next]_vars

\* ---------------------------------------------------------------- property layer
Obs == [head |-> S.cur, hn |-> NumOf(S.cur, fp), canon |-> [n \in 1..(MaxN + 1) |-> S.canon[n - 1]],
        txl |-> S.txl, st |-> HasState(S, S.cur, fp)]
AtRest == Idle /\ phase \in {"normal", "restarted", "done"}
PhaseDisc == CASE phase = "normal" -> "nocrash" [] phase = "restarted" -> "crash" [] OTHER -> "recovered"
Disc(name) == Class(name, Tree(fp), Obs) \cup {PhaseDisc, mode}

Cex(name) == PrintT("@@J " \o ToJson([kind |-> "CEX", clause |-> name, disc |-> Disc(name), h |-> hist])) /\ FALSE

\* the four consistency clauses, whenever the chain is at rest (after a call, after a restart, after the recovery)
Consistent == AtRest => \A name \in Failing(Tree(fp), Obs) : IsKnown(KnownF, name, Disc(name)) \/ Cex(name)
\* "it has the same head and state as a node that never crashed" (whose head is F)
NotWedged == phase = "done" => ((S.cur = "F" /\ HasState(S, "F", fp)) \/ IsKnown(KnownF, "NotWedged", Disc("NotWedged")) \/ Cex("NotWedged"))
\* the solo engine never takes the side-chain path in this tree, crashes included
NoPrunedDispatch == (todo = <<>> /\ pend # <<>>) => Dispatch(S, Head(pend), fp) # "pruned"

\* ---------------------------------------------------------------- generation
Leaf == (GenMode = "leaf" /\ Len(hist) = MaxOffers /\ Idle /\ phase = "normal") => PrintT("@@J " \o ToJson([kind |-> "B", h |-> hist]))
View == <<S, todo, pend, seg, phase, mode, wrote, lastop, crashes, fp, refHead, Len(hist)>>
=============================================================================
