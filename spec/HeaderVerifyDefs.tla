-------------------------- MODULE HeaderVerifyDefs --------------------------
(***************************************************************************)
(* C01 -- constant-level definitions shared by HeaderVerify (forging state *)
(* machine: M, G1), HeaderVerify_Mon (verdict) and HeaderVerify_Trace      *)
(* (conformance).                                                          *)
(*                                                                         *)
(* A fixture F (one element of fixtures.json, written by the driver) is    *)
(*   vals   : sequence of [kind, on, stake]   look-back validator set      *)
(*   protoV, protoP : ValidatorThreshold / ProposerThreshold of the        *)
(*            protocol version in force                                    *)
(*   ths    : the threshold alphabet a forger may declare                  *)
(*   seat[v][t][i][s][d] : the REAL sortition result of member v under     *)
(*            threshold ths[t] for (round index i, step s, seed d);        *)
(*            -1 = the real sortition panics (threshold > online stake)    *)
(*   voters, prop : the honest header's committee and proposer             *)
(*                                                                         *)
(* A header description h is                                               *)
(*   declV, declP : thresholds declared in header.Consensus                *)
(*   pidx, vidx   : round index of the consensus data / of the vote list   *)
(*   prop  : [p, ci, cs, cd, pb, j, prio]   proposer credential presented  *)
(*   votes : sequence of [v, ci, cs, cd, pb, j, sb, sr, si]                *)
(*           v = claimed voter (NV+1 = index outside the list); the proof  *)
(*           was made for message (seed cd, step cs, index ci) with the    *)
(*           voter's key (pb = "ok"), another member's key ("foreign") or  *)
(*           has a flipped byte ("corrupt"); j = claimed weight; the BLS   *)
(*           signature joining the aggregate covers (block sb, round sr,   *)
(*           index si), sb = 0: no signature of this entry in the aggregate*)
(*   agg   : "ok" = the aggregate is the sum of those signatures,          *)
(*           "flip" / "unrelated" = corrupted / a stranger's signature     *)
(***************************************************************************)
EXTENDS Integers, Sequences, FiniteSets, TLC, Json

StepProposal  == 1
StepPrevote   == 2
StepPrecommit == 3

NV(F) == Len(F.vals)
Member(F, v) == v \in 1..NV(F)
ThIdx(F, T) == CHOOSE t \in 1..Len(F.ths) : F.ths[t] = T
Seat(F, v, T, i, s, d) == F.seat[v][ThIdx(F, T)][i][s][d]
Max0(x) == IF x < 0 THEN 0 ELSE x

\* floor(0.685 T) in exact arithmetic (DESIGN section 9, "Quorum")
Quorum(T) == (T * 685) \div 1000

RECURSIVE SumSeq(_)
SumSeq(s) == IF s = <<>> THEN 0 ELSE Head(s) + SumSeq(Tail(s))

(***************************************************************************)
(* DESIGN LAYER: what consensus.go does (verifyConsensusFieldMain,         *)
(* verifyVotes, BLS path), step by step.                                   *)
(***************************************************************************)
\* VrfVerifyPriority: ProofToHash binds key and message MakeM(seed, role, index) with index = consensusData.RoundIndex;
\* j is recomputed with the DECLARED ProposerThreshold; j = 0 is not refused; the priority must be the maximum.
CodeProposer(F, h) ==
   /\ Member(F, h.prop.p)                                             \* GetValidatorByMainAddr # nil ("illegal proposer")
   /\ h.prop.pb = "ok" /\ h.prop.ci = h.pidx /\ h.prop.cs = StepProposal /\ h.prop.cd = 1
   /\ Seat(F, h.prop.p, h.declP, h.pidx, StepProposal, 1) = h.prop.j  \* -1: choose() panics inside the verifier
   /\ h.prop.prio = "ok"

\* the loop of verifyVotes: result [ok, count, pubs]
RECURSIVE Scan(_, _, _, _, _, _)
Scan(F, h, n, seen, count, pubs) ==
   IF n > Len(h.votes) THEN [ok |-> TRUE, count |-> count, pubs |-> pubs]
   ELSE LET x == h.votes[n] IN
        IF ~Member(F, x.v) THEN [ok |-> FALSE, count |-> 0, pubs |-> <<>>]         \* RecoverSignerInfo: invalid voter index
        ELSE IF x.v \in seen THEN Scan(F, h, n + 1, seen, count, pubs)             \* staData[addr]: already counted, key not added
        ELSE LET pubs2 == Append(pubs, x.v)                                        \* key joins the aggregate check BEFORE the sortition check
                 binds == x.pb = "ok" /\ x.ci = h.vidx /\ x.cs = StepPrecommit /\ x.cd = 1
                 jc    == Seat(F, x.v, h.declV, h.vidx, StepPrecommit, 1) IN       \* no test of kind or status; DECLARED threshold
             IF binds /\ jc = -1 THEN [ok |-> FALSE, count |-> 0, pubs |-> <<>>]   \* panic in choose()
             ELSE IF binds /\ jc > 0 /\ jc = x.j
                  THEN Scan(F, h, n + 1, seen \cup {x.v}, count + x.j, pubs2)
                  ELSE Scan(F, h, n + 1, seen, count, pubs2)                       \* skipped, not marked

\* VerifyAggregatedOne(pubs, payload(this hash, round, vidx), sig): equality of two sums of signatures = equality of bags
SigBag(h) == [n \in { m \in DOMAIN h.votes : h.votes[m].sb # 0 } |-> <<h.votes[n].v, h.votes[n].sb, h.votes[n].sr, h.votes[n].si>>]
Occ(f, t) == Cardinality({ n \in DOMAIN f : f[n] = t })
AggVerifies(h, pubs) ==
   LET sb == SigBag(h)
       need == [n \in DOMAIN pubs |-> <<pubs[n], 1, 1, h.vidx>>]
       elems == { sb[n] : n \in DOMAIN sb } \cup { need[n] : n \in DOMAIN need } IN
   /\ h.agg = "ok"
   /\ Len(pubs) > 0 /\ DOMAIN sb # {}     \* the pairing library dereferences nil on the neutral element (no keys / the
                                         \* encoding of the point at infinity as aggregate): the verifier PANICS -- no acceptance
   /\ \A t \in elems : Occ(sb, t) = Occ(need, t)

CodeVotes(F, h) ==
   LET r == Scan(F, h, 1, {}, 0, <<>>) IN
   /\ r.ok
   /\ r.count >= Quorum(h.declV)           \* OverThreshold(count, consensusData.ValidatorThreshold, true)
   /\ AggVerifies(h, r.pubs)

CodeAccepts(F, h) == CodeProposer(F, h) /\ CodeVotes(F, h)

(***************************************************************************)
(* PROPERTY LAYER: written from the statement of C01 only.                 *)
(*                                                                         *)
(* "accepts ... only if distinct online members of the chamber in the      *)
(*  look-back validator set, each with a valid sortition proof for that    *)
(*  round/index/step and a valid signature over that block's hash, carry   *)
(*  vote weight of at least the quorum fraction of the committee size      *)
(*  fixed by the protocol version in force (never a size chosen by the     *)
(*  block's author), and only if its proposer credential verifies under    *)
(*  the protocol's proposer threshold.  Duplicated, replayed, non-member,  *)
(*  offline, wrong-step, wrong-block or weight-inflated votes contribute   *)
(*  nothing."                                                              *)
(*                                                                         *)
(* Every way in which a listed vote is not entitled is a CLASS; the class  *)
(* names are the discriminators of the monitor's signatures.               *)
(***************************************************************************)
ClauseOf(c) ==
   CASE c \in {"non_member", "offline_member", "house_member"} -> "VotersEntitled"
     [] c = "duplicate" -> "DistinctVoters"
     [] c \in {"wrong_index", "wrong_step", "wrong_round", "foreign_proof", "corrupt_proof", "inflated_j"} -> "CredentialBinds"
     [] c \in {"wrong_block", "wrong_round_sig", "wrong_index_sig", "unsigned", "bad_aggregate"} -> "SignatureOverBlock"
     [] c = "declared_threshold" -> "CommitteeSizeFromProtocol"
     [] c = "short" -> "QuorumReached"
     [] OTHER -> "Unclassified"
VoteClauses == {"VotersEntitled", "DistinctVoters", "CredentialBinds", "SignatureOverBlock", "CommitteeSizeFromProtocol", "QuorumReached"}

\* the aggregate contains voter v's signature over this block's hash, this round and the list's round index
SignedOK(h, v) == /\ h.agg = "ok"
                  /\ \E m \in DOMAIN h.votes : h.votes[m].v = v /\ h.votes[m].sb = 1 /\ h.votes[m].sr = 1 /\ h.votes[m].si = h.vidx

\* classes of vote entry n (all but "duplicate", which is a class of the list)
VLab(F, h, n) ==
   LET x == h.votes[n] IN
   (IF ~Member(F, x.v) THEN {"non_member"}
    ELSE (IF F.vals[x.v].kind # "chamber" THEN {"house_member"} ELSE {})               \* "members of the chamber"
         \cup (IF ~F.vals[x.v].on THEN {"offline_member"} ELSE {})                     \* "online"
         \* "weight-inflated": the weight is the seat count under the committee size of the protocol version in force
         \cup (IF x.j = Seat(F, x.v, F.protoV, h.vidx, StepPrecommit, 1) THEN {}
               ELSE IF h.declV # F.protoV /\ x.j = Seat(F, x.v, h.declV, h.vidx, StepPrecommit, 1) THEN {"declared_threshold"}
               ELSE {"inflated_j"}))
   \cup (IF x.pb = "foreign" THEN {"foreign_proof"} ELSE IF x.pb # "ok" THEN {"corrupt_proof"} ELSE {})   \* "valid sortition proof"
   \cup (IF x.ci # h.vidx THEN {"wrong_index"} ELSE {})                                \* "for that round/index/step"
   \cup (IF x.cs # StepPrecommit THEN {"wrong_step"} ELSE {})
   \cup (IF x.cd # 1 THEN {"wrong_round"} ELSE {})
   \cup (IF h.agg # "ok" THEN {"bad_aggregate"}                                        \* "a valid signature over that block's hash"
         ELSE IF SignedOK(h, x.v) THEN {}                                              \* (of the voter, whichever entry carries it)
         ELSE IF x.sb = 0 THEN {"unsigned"}
         ELSE (IF x.sb # 1 THEN {"wrong_block"} ELSE {})
              \cup (IF x.sr # 1 THEN {"wrong_round_sig"} ELSE {})
              \cup (IF x.si # h.vidx THEN {"wrong_index_sig"} ELSE {}))

HasDup(h) == \E m, n \in DOMAIN h.votes : m < n /\ h.votes[m].v = h.votes[n].v
Present(F, h) == UNION { VLab(F, h, n) : n \in DOMAIN h.votes }
                 \cup (IF HasDup(h) THEN {"duplicate"} ELSE {})
                 \cup (IF h.declV # F.protoV THEN {"declared_threshold"} ELSE {})

\* weight carried when exactly the classes in C are tolerated (C = {} is the statement itself)
WeightC(F, h, C) ==
   LET ok(n) == VLab(F, h, n) \subseteq C IN
   IF "duplicate" \in C
   THEN SumSeq([n \in DOMAIN h.votes |-> IF ok(n) THEN h.votes[n].j ELSE 0])
   ELSE SumSeq([v \in 1..NV(F) + 1 |->                                    \* "distinct": each voter once, with its best valid entry
                  LET js == { h.votes[n].j : n \in { m \in DOMAIN h.votes : h.votes[m].v = v /\ ok(m) } } IN
                  IF js = {} THEN 0 ELSE CHOOSE j \in js : \A k \in js : k <= j])
QuorumC(F, h, C) == IF "declared_threshold" \in C THEN Quorum(h.declV) ELSE Quorum(F.protoV)
Explains(F, h, C) == WeightC(F, h, C) >= QuorumC(F, h, C)

VotesEntitled(F, h) == Explains(F, h, {})

\* the proposer credential "verifies under the protocol's proposer threshold"
PLab(F, h) ==
   LET p == h.prop IN
   (IF ~Member(F, p.p) THEN {"non_member"}
    ELSE IF p.j = Seat(F, p.p, F.protoP, h.pidx, StepProposal, 1) THEN {}
    ELSE IF h.declP # F.protoP /\ p.j = Seat(F, p.p, h.declP, h.pidx, StepProposal, 1) THEN {"declared_threshold"}
    ELSE {"inflated_j"})
   \cup (IF p.pb = "foreign" THEN {"foreign_proof"} ELSE IF p.pb # "ok" THEN {"corrupt_proof"} ELSE {})
   \cup (IF p.ci # h.pidx THEN {"wrong_index"} ELSE {})
   \cup (IF p.cs # StepProposal THEN {"wrong_step"} ELSE {})
   \cup (IF p.cd # 1 THEN {"wrong_round"} ELSE {})
   \cup (IF p.prio # "ok" THEN {"bad_priority"} ELSE {})

Entitled(F, h) == VotesEntitled(F, h) /\ PLab(F, h) = {}

(***************************************************************************)
(* Which clauses does an ACCEPTED header fail?  For the proposer: every    *)
(* class of its credential.  For the votes: when the entitled weight is    *)
(* short, the set of classes that had to be tolerated for the listed votes *)
(* to reach a quorum -- a minimal explanation; among several minimal       *)
(* explanations one made of known classes (K) is preferred, so that a      *)
(* header accepted because of a known defect is not blamed on an unrelated *)
(* class that merely occurs in it.  If nothing explains the acceptance the *)
(* header was accepted although even the claimed weight is short.          *)
(***************************************************************************)
SigOf(c) == "C01/" \o ClauseOf(c) \o "/" \o c
Expl(F, h) == { C \in SUBSET Present(F, h) : Explains(F, h, C) }
MinExpl(F, h) == LET E == Expl(F, h) IN { C \in E : \A D \in E : (D \subseteq C) => (D = C) }
Blamed(F, h, K) ==
   IF VotesEntitled(F, h) THEN {}
   ELSE LET M == MinExpl(F, h) IN
        IF M = {} THEN {"short"}
        ELSE IF \E C \in M : \A c \in C : SigOf(c) \in K
             THEN CHOOSE C \in M : \A c \in C : SigOf(c) \in K
             ELSE CHOOSE C \in M : TRUE
\* set of <<clause, discriminator>>
Fail(F, h, K) == { <<ClauseOf(c), c>> : c \in Blamed(F, h, K) } \cup { <<"ProposerCredential", c>> : c \in PLab(F, h) }
FailSig(f) == "C01/" \o f[1] \o "/" \o f[2]

\* total claimed weight of the list, whatever it is worth (used by the generator to rank "tempting" forgeries)
Claimed(h) == SumSeq([n \in DOMAIN h.votes |-> h.votes[n].j])
=============================================================================
