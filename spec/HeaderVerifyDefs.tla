-------------------------- MODULE HeaderVerifyDefs --------------------------
(***************************************************************************)
(* C01 -- constant-level definitions shared by HeaderVerify (forging state *)
(* machine: M, G1), HeaderVerify_Mon (verdict) and HeaderVerify_Trace      *)
(* (conformance).                                                          *)
(*                                                                         *)
(* A fixture F (one element of fixtures.json, written by the driver) is    *)
(*   vals   : sequence of [kind, on, stake]   stake look-back validator set*)
(*   cvals  : the same identities in the CERTIFICATE look-back set         *)
(*   protoV, protoP, protoC : ValidatorThreshold / ProposerThreshold /     *)
(*            CertValThreshold of the protocol version in force            *)
(*   ths    : the threshold alphabet a forger may declare                  *)
(*   seat[v][t][i][s][d]  : the REAL sortition result of member v under    *)
(*            threshold ths[t] for (round index i, step s, seed d) with    *)
(*            the stake / total stake of the stake look-back set;          *)
(*   cseat[v][t][i][s][d] : ... of the certificate look-back set;          *)
(*            -1 = the real sortition panics (threshold > online stake);   *)
(*            steps: 1 proposal, 3 precommit, 5 certificate; seeds: 1 the  *)
(*            look-back seed of the round, 3 the certificate look-back     *)
(*            seed, 2 another one                                          *)
(*   sidx, cidx : position of validator v in the sorted stake / certificate*)
(*            look-back list; cpos: the validator at a certificate position*)
(*   certRound : the header is at a multiple of ACoCHTFrequency            *)
(*   voters, cvoters, prop : the honest header's committees and proposer   *)
(*                                                                         *)
(* A header description h is                                               *)
(*   declV, declP : thresholds declared in header.Consensus                *)
(*   declC  : CertValThreshold declared by the certificate look-back       *)
(*            header of the chain (author-declared when it was accepted)   *)
(*   pidx, vidx   : round index of the consensus data / of the vote list   *)
(*   prop   : [p, ci, cs, cd, pb, j, prio]   proposer credential presented *)
(*   votes  : sequence of [v, ci, cs, cd, pb, j, sb, sr, si]  precommits   *)
(*            v = the validator whose keys made the entry (NV+1 = a        *)
(*            stranger, listed with an index outside the list); the proof  *)
(*            was made for message (seed cd, step cs, index ci) with v's   *)
(*            key (pb = "ok"), another member's key ("foreign") or has a   *)
(*            flipped byte ("corrupt"); j = claimed weight; the BLS        *)
(*            signature of v joining the aggregate covers (block sb, round *)
(*            sr, index si), sb = 0: no signature of this entry; bk = 1:   *)
(*            the signature was made with the BLS key the validator has in *)
(*            the SIBLING configuration (another epoch of the same chain:  *)
(*            same main key, re-registered BLS key), not the registered one*)
(*   agg    : "ok" = the aggregate is the sum of those signatures,         *)
(*            "flip" / "unrelated" = corrupted / a stranger's signature    *)
(*   cf     : header.Certificate -- "list": cvotes / cagg / cfidx below;   *)
(*            "absent": zero bytes; "std": the empty list honest plain     *)
(*            blocks carry; "junk": arbitrary bytes                        *)
(*   cvotes : certificate votes, as votes plus ls = the list the entry's   *)
(*            VoterIdx was taken from (1 certificate set, 2 stake set)     *)
(*   cfidx  : RoundIndex inside the Certificate field                      *)
(*   lb     : 1 = the look-back validator trie cannot be read on this node *)
(*            (pruned / fast-synced): the chain-based entry points must    *)
(*            refuse the header, never measure it against another set      *)
(* Further fixture fields: bls (FALSE: a protocol version with EnableBls = *)
(* false: every vote carries its own ECDSA signature, the voter is the key *)
(* recovered from it, there is no aggregate); hasCurrent / useat / uidx /  *)
(* spos: the CURRENT validator set of the chain (the look-back members     *)
(* plus a newcomer, validator NV+1, registered after the look-back block)  *)
(* with its seat table and list positions; precommit entries with ls = 3   *)
(* were built against that current set.                                    *)
(***************************************************************************)
EXTENDS Integers, Sequences, FiniteSets, TLC, Json

StepProposal  == 1
StepPrevote   == 2
StepPrecommit == 3
StepCert      == 5

NV(F) == Len(F.vals)
Member(F, v) == v \in 1..NV(F)
ThIdx(F, T) == CHOOSE t \in 1..Len(F.ths) : F.ths[t] = T
Seat(F, v, T, i, s, d) == F.seat[v][ThIdx(F, T)][i][s][d]
Max0(x) == IF x < 0 THEN 0 ELSE x

RECURSIVE SumSeq(_)
SumSeq(s) == IF s = <<>> THEN 0 ELSE Head(s) + SumSeq(Tail(s))

(***************************************************************************)
(* A vote-set context X: everything verifyVotes is called with.            *)
(*   "pre"  : the precommits of header.Validator (step Precommit, stake    *)
(*            look-back set and seed, declared ValidatorThreshold, 0.685)  *)
(*   "cert" : the certificates of header.Certificate as the FULL verifier  *)
(*            checks them (step Certificate, certificate look-back set and *)
(*            seed, CertValThreshold declared by the certificate look-back *)
(*            header, 0.585; round index of header.VALIDATOR)              *)
(*   "ac"   : the same as VerifyAcHeader checks them (round index of the   *)
(*            Certificate field itself)                                    *)
(***************************************************************************)
CertVotes(h) == IF h.cf = "list" THEN h.cvotes ELSE <<>>
VX(F, h, kind) ==
   IF kind = "pre"
   THEN [votes |-> h.votes, cert |-> FALSE, step |-> StepPrecommit, sd |-> 1, idx |-> h.vidx, decl |-> h.declV, proto |-> F.protoV,
         frac |-> 685, agg |-> h.agg]
   ELSE [votes |-> CertVotes(h), cert |-> TRUE, step |-> StepCert, sd |-> 3, idx |-> IF kind = "ac" THEN h.cfidx ELSE h.vidx,
         decl |-> h.declC, proto |-> F.protoC, frac |-> 585, agg |-> h.cagg]
\* floor(0.685 T) / floor(0.585 T) in exact arithmetic (DESIGN section 9, "Quorum")
QuorumX(X, T) == (T * X.frac) \div 1000
Quorum(T) == (T * 685) \div 1000
SeatX(F, X, v, T, i, s, d) == IF X.cert THEN F.cseat[v][ThIdx(F, T)][i][s][d] ELSE F.seat[v][ThIdx(F, T)][i][s][d]
ValsX(F, X) == IF X.cert THEN F.cvals ELSE F.vals
\* the validator the entry NAMES: the one at the listed index of the look-back list of this vote set (0: index outside the list)
Named(F, X, x) == IF ~X.cert /\ x.ls = 3          \* index taken from the CURRENT set's list: whoever sits there in the look-back list
                  THEN (LET p == F.uidx[x.v] IN IF p <= NV(F) THEN F.spos[p] ELSE 0)
                  ELSE IF ~Member(F, x.v) THEN 0
                  ELSE IF ~X.cert THEN x.v
                  ELSE F.cpos[IF x.ls = 2 THEN F.sidx[x.v] ELSE F.cidx[x.v]]
\* whose key made the proof
Prover(F, x) == IF x.pb = "foreign" THEN (x.v % NV(F)) + 1 ELSE x.v

\* the header fields that the header HASH covers are those of the honest header of the fixture (the hash does not cover
\* header.Validator, header.Signature, header.Certificate): proposer credential, round index and declared thresholds
HonestPropOf(G, p, T, i) == [p |-> p, ci |-> i, cs |-> StepProposal, cd |-> 1, pb |-> "ok",
                             j |-> IF Member(G, p) THEN Max0(Seat(G, p, T, i, StepProposal, 1)) ELSE 1, prio |-> "ok"]
SameHash(F, h) == h.prop = HonestPropOf(F, F.prop, F.protoP, 1) /\ h.pidx = 1 /\ h.declV = F.protoV /\ h.declP = F.protoP

(***************************************************************************)
(* DESIGN LAYER: what consensus.go does (verifyConsensusFieldMain,         *)
(* verifyVotes BLS path, VerifyAcHeader), step by step.                    *)
(***************************************************************************)
\* VrfVerifyPriority: ProofToHash binds key and message MakeM(seed, role, index) with index = consensusData.RoundIndex;
\* j is recomputed with the DECLARED ProposerThreshold; j = 0 is not refused; the priority must be the maximum.
CodeProposer(F, h) ==
   /\ Member(F, h.prop.p)                                             \* GetValidatorByMainAddr # nil ("illegal proposer")
   /\ h.prop.pb = "ok" /\ h.prop.ci = h.pidx /\ h.prop.cs = StepProposal /\ h.prop.cd = 1
   /\ Seat(F, h.prop.p, h.declP, h.pidx, StepProposal, 1) = h.prop.j  \* -1: choose() panics inside the verifier
   /\ h.prop.prio = "ok"

\* the loop of verifyVotes: result [ok, count, pubs]
RECURSIVE Scan(_, _, _, _, _, _)
Scan(F, X, n, seen, count, pubs) ==
   IF n > Len(X.votes) THEN [ok |-> TRUE, count |-> count, pubs |-> pubs]
   ELSE LET x == X.votes[n]
            u == Named(F, X, x) IN
        IF u = 0 THEN [ok |-> FALSE, count |-> 0, pubs |-> <<>>]                   \* RecoverSignerInfo: invalid voter index
        ELSE IF u \in seen THEN Scan(F, X, n + 1, seen, count, pubs)               \* staData[addr]: already counted, key not added
        ELSE LET pubs2 == Append(pubs, u)                                          \* key joins the aggregate check BEFORE the sortition check
                 binds == /\ x.pb # "corrupt" /\ Prover(F, x) = u                  \* ProofToHash under the NAMED validator's key
                          /\ x.ci = X.idx /\ x.cs = X.step /\ x.cd = X.sd
                 jc    == SeatX(F, X, u, X.decl, X.idx, X.step, X.sd) IN           \* no test of kind or status; DECLARED threshold
             IF binds /\ jc = -1 THEN [ok |-> FALSE, count |-> 0, pubs |-> <<>>]   \* panic in choose()
             ELSE IF binds /\ jc > 0 /\ jc = x.j
                  THEN Scan(F, X, n + 1, seen \cup {u}, count + x.j, pubs2)
                  ELSE Scan(F, X, n + 1, seen, count, pubs2)                       \* skipped, not marked

\* VerifyAggregatedOne(pubs, payload(this hash, round, X.idx), sig): equality of two sums of signatures = equality of bags
SigBag(X) == [n \in { m \in DOMAIN X.votes : X.votes[m].sb # 0 } |-> <<X.votes[n].v, X.votes[n].sb, X.votes[n].sr, X.votes[n].si, X.votes[n].bk>>]
Occ(f, t) == Cardinality({ n \in DOMAIN f : f[n] = t })
AggVerifies(X, pubs) ==
   LET sb == SigBag(X)
       need == [n \in DOMAIN pubs |-> <<pubs[n], 1, 1, X.idx, 0>>]      \* under the BLS key registered in the look-back set
       elems == { sb[n] : n \in DOMAIN sb } \cup { need[n] : n \in DOMAIN need } IN
   /\ X.agg = "ok"
   /\ Len(pubs) > 0 /\ DOMAIN sb # {}     \* the pairing library dereferences nil on the neutral element (no keys / the
                                         \* encoding of the point at infinity as aggregate): the verifier PANICS -- no acceptance
   /\ \A t \in elems : Occ(sb, t) = Occ(need, t)

\* the loop of verifyVotes when the protocol version has EnableBls = FALSE: the voter is the key RECOVERED from the entry's ECDSA
\* signature over this payload; an empty signature is skipped; a recovered address that is no validator gives validator = nil and
\* validator.Stake is dereferenced (PANIC); duplicates are suppressed by address; there is no aggregate
RECURSIVE ScanE(_, _, _, _, _)
ScanE(F, X, n, seen, count) ==
   IF n > Len(X.votes) THEN [ok |-> TRUE, count |-> count]
   ELSE LET x == X.votes[n] IN
        IF x.sb = 0 THEN ScanE(F, X, n + 1, seen, count)
        ELSE LET u == IF x.sb = 1 /\ x.sr = 1 /\ x.si = X.idx /\ Member(F, x.v) THEN x.v ELSE 0 IN
             IF u = 0 THEN [ok |-> FALSE, count |-> 0]
             ELSE IF u \in seen THEN ScanE(F, X, n + 1, seen, count)
             ELSE LET binds == x.pb # "corrupt" /\ Prover(F, x) = u /\ x.ci = X.idx /\ x.cs = X.step /\ x.cd = X.sd
                      jc    == SeatX(F, X, u, X.decl, X.idx, X.step, X.sd) IN
                  IF binds /\ jc = -1 THEN [ok |-> FALSE, count |-> 0]
                  ELSE IF binds /\ jc > 0 /\ jc = x.j THEN ScanE(F, X, n + 1, seen \cup {u}, count + x.j)
                  ELSE ScanE(F, X, n + 1, seen, count)

CodeVotes(F, X) ==
   IF F.bls
   THEN LET r == Scan(F, X, 1, {}, 0, <<>>) IN
        /\ r.ok
        /\ r.count >= QuorumX(X, X.decl)        \* OverThreshold(count, declared threshold, isPos)
        /\ AggVerifies(X, r.pubs)
   ELSE LET r == ScanE(F, X, 1, {}, 0) IN
        r.ok /\ r.count >= QuorumX(X, X.decl)

\* the certificate branch: only at certificate rounds; header.Certificate must decode
CodeCert(F, h, kind) == h.cf = "list" /\ CodeVotes(F, VX(F, h, kind))

\* verifyConsensusFieldMain (what VerifySideChainHeader runs with the readers its caller hands over)
CodeAcceptsCore(F, h) == /\ CodeProposer(F, h)
                         /\ CodeVotes(F, VX(F, h, "pre"))
                         /\ F.certRound => CodeCert(F, h, "cert")       \* otherwise header.Certificate is not consulted at all
\* VerifySeal / VerifyHeader / VerifyHeaders: getLookBackValReader must be able to open the look-back validator trie
\* (ErrUnknownLookBackValidators otherwise)
CodeAccepts(F, h) == h.lb = 0 /\ CodeAcceptsCore(F, h)
\* VerifyHeader / VerifyHeaders when the chain already stores the honest header at this number: verifyCascadingFields refuses a
\* header with another hash (ErrExistCanonical); a header with the SAME hash (only fields outside the hash differ) is verified in full
CodeAcceptsKnown(F, h) == CodeAccepts(F, h) /\ SameHash(F, h)
\* VerifyAcHeader: the CHT certificates only
CodeAcceptsAC(F, h) == F.certRound /\ CodeCert(F, h, "ac")

(***************************************************************************)
(* PROPERTY LAYER: written from the statement of C01 only.                 *)
(*                                                                         *)
(* "accepts ... only if distinct online members of the chamber in the      *)
(*  look-back validator set, each with a valid sortition proof for that    *)
(*  round/index/step and a valid signature over that block's hash, carry   *)
(*  vote weight of at least the quorum fraction of the committee size      *)
(*  fixed by the protocol version in force (never a size chosen by the     *)
(*  block's author), and only if its proposer credential verifies under    *)
(*  the protocol's proposer threshold.  Duplicated, replayed, non-member,  *)
(*  offline, wrong-step, wrong-block or weight-inflated votes contribute   *)
(*  nothing."  Certificate clause (certificate rounds): distinct online    *)
(*  chamber members of the CERTIFICATE look-back set with valid            *)
(*  credentials for the certificate step and valid signatures over this    *)
(*  block carry at least floor(0.585 * CertValThreshold(version in force)).*)
(*                                                                         *)
(* Every way in which a listed vote is not entitled is a CLASS; the class  *)
(* names are the discriminators of the monitor's signatures.               *)
(***************************************************************************)
ClauseOf(c) ==
   CASE c \in {"non_member", "offline_member", "house_member"} -> "VotersEntitled"
     [] c = "duplicate" -> "DistinctVoters"
     [] c \in {"wrong_index", "wrong_step", "wrong_round", "foreign_proof", "corrupt_proof", "inflated_j"} -> "CredentialBinds"
     [] c \in {"wrong_block", "wrong_round_sig", "wrong_index_sig", "unsigned", "bad_aggregate", "retired_key"} -> "SignatureOverBlock"
     [] c = "declared_threshold" -> "CommitteeSizeFromProtocol"
     [] c = "short" -> "QuorumReached"
     [] OTHER -> "Unclassified"
VoteClauses == {"VotersEntitled", "DistinctVoters", "CredentialBinds", "SignatureOverBlock", "CommitteeSizeFromProtocol", "QuorumReached"}
\* all classes of the certificate vote set are reported under one clause, with the class as discriminator
ClauseX(kind, c) == IF kind = "pre" THEN ClauseOf(c) ELSE IF kind = "cert" THEN "CertificateQuorum" ELSE "AcCertificateQuorum"

\* the aggregate contains validator u's signature over this block's hash, this round and the round index of the vote set
SignedOK(F, X, u) == /\ X.agg = "ok" \/ ~F.bls            \* without BLS there is no aggregate: each entry carries its own signature
                  /\ \E m \in DOMAIN X.votes : X.votes[m].v = u /\ X.votes[m].sb = 1 /\ X.votes[m].sr = 1 /\ X.votes[m].si = X.idx /\ X.votes[m].bk = 0

\* classes of vote entry n (all but "duplicate", which is a class of the list), judged for the validator the entry NAMES
VLab(F, X, n) ==
   LET x == X.votes[n]
       u == Named(F, X, x)
       vs == ValsX(F, X) IN
   (IF u = 0 THEN {"non_member"}
    ELSE (IF vs[u].kind # "chamber" THEN {"house_member"} ELSE {})                     \* "members of the chamber"
         \cup (IF ~vs[u].on THEN {"offline_member"} ELSE {})                           \* "online"
         \* "weight-inflated": the weight is the seat count under the committee size of the protocol version in force
         \cup (IF x.j = SeatX(F, X, u, X.proto, X.idx, X.step, X.sd) THEN {}
               ELSE IF X.decl # X.proto /\ x.j = SeatX(F, X, u, X.decl, X.idx, X.step, X.sd) THEN {"declared_threshold"}
               ELSE {"inflated_j"})
         \cup (IF x.pb # "corrupt" /\ Prover(F, x) # u THEN {"foreign_proof"} ELSE {}))   \* "valid sortition proof" (of that validator)
   \cup (IF x.pb = "corrupt" THEN {"corrupt_proof"} ELSE {})
   \cup (IF x.ci # X.idx THEN {"wrong_index"} ELSE {})                                 \* "for that round/index/step"
   \cup (IF x.cs # X.step THEN {"wrong_step"} ELSE {})
   \cup (IF x.cd # X.sd THEN {"wrong_round"} ELSE {})
   \cup (IF X.agg # "ok" /\ F.bls THEN {"bad_aggregate"}                                        \* "a valid signature over that block's hash"
         ELSE IF SignedOK(F, X, IF u = 0 THEN x.v ELSE u) THEN {}                         \* (of that validator, whichever entry carries it)
         ELSE IF x.sb = 0 \/ (u # 0 /\ x.v # u) THEN {"unsigned"}
         ELSE (IF x.sb # 1 THEN {"wrong_block"} ELSE {})
              \cup (IF x.bk # 0 THEN {"retired_key"} ELSE {})
              \cup (IF x.sr # 1 THEN {"wrong_round_sig"} ELSE {})
              \cup (IF x.si # X.idx THEN {"wrong_index_sig"} ELSE {}))

NamedOf(F, X, n) == Named(F, X, X.votes[n])
HasDup(F, X) == \E m, n \in DOMAIN X.votes : m < n /\ NamedOf(F, X, m) = NamedOf(F, X, n)
Present(F, X) == UNION { VLab(F, X, n) : n \in DOMAIN X.votes }
                 \cup (IF HasDup(F, X) THEN {"duplicate"} ELSE {})
                 \cup (IF X.decl # X.proto THEN {"declared_threshold"} ELSE {})

\* weight carried when exactly the classes in C are tolerated (C = {} is the statement itself)
WeightC(F, X, C) ==
   LET ok(n) == VLab(F, X, n) \subseteq C IN
   IF "duplicate" \in C
   THEN SumSeq([n \in DOMAIN X.votes |-> IF ok(n) THEN X.votes[n].j ELSE 0])
   ELSE SumSeq([w \in 1..NV(F) + 1 |->                                    \* "distinct": each validator once, with its best valid entry
                  LET u == w - 1
                      js == { X.votes[n].j : n \in { m \in DOMAIN X.votes : NamedOf(F, X, m) = u /\ ok(m) } } IN
                  IF js = {} THEN 0 ELSE CHOOSE j \in js : \A k \in js : k <= j])
QuorumC(X, C) == IF "declared_threshold" \in C THEN QuorumX(X, X.decl) ELSE QuorumX(X, X.proto)
Explains(F, X, C) == WeightC(F, X, C) >= QuorumC(X, C)

VotesEntitledX(F, X) == Explains(F, X, {})
VotesEntitled(F, h) == VotesEntitledX(F, VX(F, h, "pre"))
CertEntitled(F, h) == VotesEntitledX(F, VX(F, h, "cert"))
AcEntitled(F, h) == VotesEntitledX(F, VX(F, h, "ac"))

\* the proposer credential "verifies under the protocol's proposer threshold"
PLab(F, h) ==
   LET p == h.prop IN
   (IF ~Member(F, p.p) THEN {"non_member"}
    ELSE IF p.j = Seat(F, p.p, F.protoP, h.pidx, StepProposal, 1) THEN {}
    ELSE IF h.declP # F.protoP /\ p.j = Seat(F, p.p, h.declP, h.pidx, StepProposal, 1) THEN {"declared_threshold"}
    ELSE {"inflated_j"})
   \cup (IF p.pb = "foreign" THEN {"foreign_proof"} ELSE IF p.pb # "ok" THEN {"corrupt_proof"} ELSE {})
   \cup (IF p.ci # h.pidx THEN {"wrong_index"} ELSE {})
   \cup (IF p.cs # StepProposal THEN {"wrong_step"} ELSE {})
   \cup (IF p.cd # 1 THEN {"wrong_round"} ELSE {})
   \cup (IF p.prio # "ok" THEN {"bad_priority"} ELSE {})

Entitled(F, h) == VotesEntitled(F, h) /\ PLab(F, h) = {} /\ (F.certRound => CertEntitled(F, h))

(***************************************************************************)
(* Which clauses does an ACCEPTED header fail?  For the proposer: every    *)
(* class of its credential.  For a vote set: when the entitled weight is   *)
(* short, the set of classes that had to be tolerated for the listed votes *)
(* to reach a quorum -- a minimal explanation; among several minimal       *)
(* explanations one made of known classes (K) is preferred, so that a      *)
(* header accepted because of a known defect is not blamed on an unrelated *)
(* class that merely occurs in it.  If nothing explains the acceptance the *)
(* header was accepted although even the claimed weight is short.          *)
(***************************************************************************)
SigX(kind, c) == "C01/" \o ClauseX(kind, c) \o "/" \o c
Expl(F, X) == { C \in SUBSET Present(F, X) : Explains(F, X, C) }
MinExpl(F, X) == LET E == Expl(F, X) IN { C \in E : \A D \in E : (D \subseteq C) => (D = C) }
Blamed(F, X, kind, K) ==
   IF VotesEntitledX(F, X) THEN {}
   ELSE LET M == MinExpl(F, X) IN
        IF M = {} THEN {"short"}
        ELSE IF \E C \in M : \A c \in C : SigX(kind, c) \in K
             THEN CHOOSE C \in M : \A c \in C : SigX(kind, c) \in K
             ELSE CHOOSE C \in M : TRUE
FailX(F, h, kind, K) == { <<ClauseX(kind, c), c>> : c \in Blamed(F, VX(F, h, kind), kind, K) }
\* set of <<clause, discriminator>> for a header accepted by the full verifier / by VerifyAcHeader
Fail(F, h, K) == FailX(F, h, "pre", K)
                 \cup (IF F.certRound THEN FailX(F, h, "cert", K) ELSE {})
                 \cup { <<"ProposerCredential", c>> : c \in PLab(F, h) }
FailAC(F, h, K) == FailX(F, h, "ac", K)
FailSig(f) == "C01/" \o f[1] \o "/" \o f[2]

\* total claimed weight of a list, whatever it is worth (used by the generator to rank "tempting" forgeries)
ClaimedX(X) == SumSeq([n \in DOMAIN X.votes |-> X.votes[n].j])
MinQ(X) == IF QuorumX(X, X.decl) < QuorumX(X, X.proto) THEN QuorumX(X, X.decl) ELSE QuorumX(X, X.proto)
TemptingX(X) == ClaimedX(X) >= MinQ(X)
=============================================================================
