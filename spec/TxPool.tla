------------------------------- MODULE TxPool -------------------------------
(***************************************************************************)
(* C20 -- the transaction pool of core/tx_pool.go (with tx_list.go and     *)
(* tx_noncer.go): pending / queue / all / locals / pendingNonces under     *)
(* submissions, the batched reorg step, head resets, re-pricing and        *)
(* lifetime eviction.                                                      *)
(*                                                                         *)
(* Design layer (implementation shaped).  The pool is one record `s`; every*)
(* critical section of the code is a function on it:                       *)
(*   AddF        TxPool.add (validateTx, the full-pool discard through the *)
(*               price heap, replacement in pending, enqueueTx)            *)
(*   RemoveTxF   TxPool.removeTx (demotes the pending tail into the queue) *)
(*   PromoteF    promoteExecutables for one account                        *)
(*   DemoteF     demoteUnexecutables for one account                       *)
(*   TruncPendF  truncatePending      TruncQueueS  truncateQueue           *)
(*   ReorgS      runReorg = [reset;] promote; [demote;] truncate; nonces   *)
(* Submission and the reorg step are separate actions in the design-level  *)
(* run (Add ... Add, RunReorg: the code batches promotion in a goroutine); *)
(* the generation alphabet glues them the way the synchronous entry points *)
(* do (AddRemotesSync / AddLocals with a batch, requestReset + wait).      *)
(* Where the code's choice depends on map iteration or heap ties (which    *)
(* equally cheap transaction the full pool discards, which account         *)
(* truncateQueue empties first) the function returns the SET of outcomes.  *)
(*                                                                         *)
(* A transaction is [a, n, p, v]: account, nonce, gas price, value class;  *)
(* cost = p + v in units of one minimal fee (21000 LU).                    *)
(***************************************************************************)
EXTENDS Integers, Sequences, FiniteSets, TLC, Json

CONSTANTS Accts,      \* account ids, e.g. {1, 2}
          MaxNonce,   \* nonces 0..MaxNonce
          Prices,     \* e.g. {1, 2}
          Vals,       \* value classes, e.g. {0, 2}
          Bals,       \* balances a reset may install, e.g. {1, 4}
          AS, GS, AQ, GQ,   \* AccountSlots, GlobalSlots, AccountQueue, GlobalQueue
          Bump,       \* PriceBump (percent)
          MaxOps,     \* bound on the number of operations
          GenMode,    \* "none" | "leaf"
          Mode,       \* "split" (Add and RunReorg separate: design run) | "sync" (glued: generation)
          Alpha,      \* "full" | "small": the alphabet of the synchronous actions (bounded-exhaustive generation uses "small")
          Slim,       \* TRUE: only account 1 uses the whole transaction alphabet (smaller design runs)
          Strict,     \* TRUE: the invariants are not weakened by the known-finding classes
          Goal,       \* "none" | "fullreplace" | "tailremove" | "holefilter": see the section "goals"
          HoleRepair  \* TRUE = demoteUnexecutables also postpones everything above a hole (repaired code, findings/C20_proposed_repair.patch)

VARIABLES s,          \* the pool: [pend, que, all, loc, pn, sn, sb, gp]
          work,       \* reorg work requested and not yet run: [dirty: set of accounts, reset: <<>> or <<newsn, newsb, reinject>>]
          last,       \* the block the head was last advanced by: <<>> or <<a, txs, prev nonce, prev balance>>
          goal,       \* goal-directed generation: TRUE once the behaviour has reached the situation named by the constant Goal
          arr,        \* goal "tailremove" only: the singly submitted transactions in arrival order (part of the view, unlike hist)
          dem,        \* observation for the known-finding class: [acc: accounts whose queue overflow began with a demotion, glob: same for the global queue limit]
          nops,
          hist
vars == <<s, work, last, dem, goal, arr, nops, hist>>

Nonces == 0..MaxNonce
TxAll == [a : Accts, n : Nonces, p : Prices, v : Vals]
MinP == CHOOSE p \in Prices : \A q \in Prices : p <= q
MinV == CHOOSE v \in Vals : \A u \in Vals : v <= u
Tx == IF Slim THEN { t \in TxAll : t.a = 1 \/ (t.p = MinP /\ t.v = MinV) } ELSE TxAll
Cost(t) == t.p + t.v
NoWork == [dirty |-> {}, reset |-> <<>>]

Init == /\ s = [pend |-> [a \in Accts |-> {}], que |-> [a \in Accts |-> {}], all |-> {}, loc |-> {},
                pn |-> [a \in Accts |-> -1], sn |-> [a \in Accts |-> 0], sb |-> [a \in Accts |-> 4], gp |-> 1]
        /\ work = NoWork /\ last = <<>> /\ nops = 0 /\ goal = FALSE /\ arr = <<>> /\ dem = [acc |-> {}, glob |-> FALSE, gap |-> {}]
        /\ hist = <<[op |-> "Init", accts |-> Accts, as |-> AS, gs |-> GS, aq |-> AQ, gq |-> GQ, bump |-> Bump]>>

Tick(rec) == /\ nops < MaxOps /\ nops' = nops + 1
             /\ arr' = IF Goal = "tailremove" /\ rec.op = "AddSync" /\ Len(rec.ts) = 1 THEN Append(arr, rec.ts[1]) ELSE arr
             /\ hist' = Append(hist, rec)

\* ---------------------------------------------------------------- helpers
Max(S) == CHOOSE x \in S : \A y \in S : y <= x
Min(S) == CHOOSE x \in S : \A y \in S : x <= y
NoncesOf(L) == { t.n : t \in L }
At(L, n) == { t \in L : t.n = n }                       \* the transaction of list L at nonce n (set of size <= 1)
\* txNoncer.get: the tracked nonce, falling back to the state the pool was last reset to
PN(st, a) == IF st.pn[a] = -1 THEN st.sn[a] ELSE st.pn[a]
SetIfLower(st, a, n) == [st EXCEPT !.pn[a] = IF PN(st, a) <= n THEN PN(st, a) ELSE n]
\* txList.Add: a transaction replaces one of the same nonce only with the price bump
CanReplace(old, new) == ~(old.p >= new.p \/ ((old.p * (100 + Bump)) \div 100) > new.p)
\* priceHeap order: cheaper first, then the higher nonce
Worse(t, u) == t.p < u.p \/ (t.p = u.p /\ t.n > u.n)      \* t is popped strictly before u
NoBetter(t, u) == ~Worse(u, t)                          \* t may be popped before u

\* enqueueTx: returns [st, ok]
EnqueueF(st, t) ==
   LET old == At(st.que[t.a], t.n) IN
   IF old # {} /\ ~CanReplace(CHOOSE o \in old : TRUE, t) THEN [st |-> st, ok |-> FALSE, replaced |-> FALSE]
   ELSE [st |-> [st EXCEPT !.que[t.a] = (@ \ old) \cup {t}, !.all = (@ \ old) \cup {t}], ok |-> TRUE, replaced |-> old # {}]

RECURSIVE EnqueueAll(_, _)
EnqueueAll(st, T) == IF T = {} THEN st ELSE LET t == CHOOSE x \in T : TRUE IN EnqueueAll(EnqueueF(st, t).st, T \ {t})

\* removeTx
RemoveTxF(st, t) ==
   IF t \notin st.all THEN st
   ELSE LET s1 == [st EXCEPT !.all = @ \ {t}] IN
        IF t \in s1.pend[t.a]
        THEN LET inv == { u \in s1.pend[t.a] : u.n > t.n }
                 s2  == [s1 EXCEPT !.pend[t.a] = { u \in @ : u.n < t.n }] IN
             SetIfLower(EnqueueAll(s2, inv), t.a, t.n)
        ELSE [s1 EXCEPT !.que[t.a] = @ \ {t}]

RECURSIVE RemoveAll(_, _)
RemoveAll(st, T) ==
   IF T = {} THEN st
   ELSE LET t == CHOOSE x \in T : \A y \in T : NoBetter(x, y) IN RemoveAll(RemoveTxF(st, t), T \ {t})   \* heap order; the result does not depend on it

\* ---------------------------------------------------------------- add
Remote(st) == { t \in st.all : t.a \notin st.loc }
\* the sets of k transactions txPricedList.Discard may return (ties are arbitrary)
DiscardChoices(st, k) ==
   LET R == Remote(st) IN
   IF Cardinality(R) <= k THEN {R}
   ELSE { D \in SUBSET R : Cardinality(D) = k /\ \A t \in D, u \in R \ D : NoBetter(t, u) }

\* the set of outcomes [st, err, dirty] of TxPool.add(tx, local)
AddS(st, t, local) ==
   LET isLocal == local \/ t.a \in st.loc IN
   IF t \in st.all THEN {[st |-> st, err |-> "known", dirty |-> FALSE]}
   ELSE IF ~isLocal /\ st.gp > t.p THEN {[st |-> st, err |-> "underpriced", dirty |-> FALSE]}
   ELSE IF st.sn[t.a] > t.n THEN {[st |-> st, err |-> "nonce", dirty |-> FALSE]}
   ELSE IF st.sb[t.a] < Cost(t) THEN {[st |-> st, err |-> "funds", dirty |-> FALSE]}
   ELSE LET full == Cardinality(st.all) >= GS + GQ
            \* txPricedList.Underpriced: never for an account already local; otherwise against the cheapest of all
            under == full /\ ~local /\ t.a \notin st.loc /\ st.all # {} /\ (\E c \in st.all : (\A u \in st.all : NoBetter(c, u)) /\ c.p >= t.p)
        IN
        IF under THEN {[st |-> st, err |-> "underpriced", dirty |-> FALSE]}
        ELSE LET starts == IF full THEN { RemoveAll(st, D) : D \in DiscardChoices(st, Cardinality(st.all) - (GS + GQ - 1)) }
                           ELSE {st} IN
             { LET old == At(s1.pend[t.a], t.n) IN
               IF old # {}
               THEN (IF ~CanReplace(CHOOSE o \in old : TRUE, t) THEN [st |-> s1, err |-> "replace", dirty |-> FALSE]
                     ELSE [st |-> [s1 EXCEPT !.pend[t.a] = (@ \ old) \cup {t}, !.all = (@ \ old) \cup {t}], err |-> "ok", dirty |-> FALSE])
               ELSE LET e == EnqueueF(s1, t) IN
                    IF ~e.ok THEN [st |-> s1, err |-> "replace", dirty |-> FALSE]
                    ELSE [st |-> [e.st EXCEPT !.loc = IF local THEN @ \cup {t.a} ELSE @], err |-> "ok", dirty |-> ~e.replaced]
               : s1 \in starts }

\* ---------------------------------------------------------------- promoteExecutables (one account)
RECURSIVE Run(_, _)
Run(L, n) == IF At(L, n) = {} THEN {} ELSE At(L, n) \cup Run(L, n + 1)     \* consecutive nonces from n

\* promoteTx
PromoteTxF(st, t) ==
   LET old == At(st.pend[t.a], t.n) IN
   IF old # {} /\ ~CanReplace(CHOOSE o \in old : TRUE, t) THEN [st EXCEPT !.all = @ \ {t}]
   ELSE [st EXCEPT !.pend[t.a] = (@ \ old) \cup {t}, !.all = (@ \ old) \cup {t}, !.pn[t.a] = t.n + 1]

RECURSIVE PromoteSeq(_, _, _)
PromoteSeq(st, R, n) == IF At(R, n) = {} THEN st ELSE PromoteSeq(PromoteTxF(st, CHOOSE t \in At(R, n) : TRUE), R, n + 1)

PromoteF(st, a) ==
   IF st.que[a] = {} THEN st
   ELSE LET fw == { t \in st.que[a] : t.n < st.sn[a] }                    \* Forward
            dr == { t \in st.que[a] \ fw : Cost(t) > st.sb[a] }           \* Filter
            q1 == st.que[a] \ (fw \cup dr)
            s1 == [st EXCEPT !.que[a] = q1, !.all = @ \ (fw \cup dr)]
            rd == IF q1 = {} \/ Min(NoncesOf(q1)) > PN(s1, a) THEN {} ELSE Run(q1, Min(NoncesOf(q1)))     \* Ready
            s2 == IF rd = {} THEN s1 ELSE PromoteSeq([s1 EXCEPT !.que[a] = @ \ rd], rd, Min(NoncesOf(rd)))
            q2 == s2.que[a]
            cp == IF a \in s2.loc \/ Cardinality(q2) <= AQ THEN {}
                  ELSE { t \in q2 : Cardinality({ u \in q2 : u.n < t.n }) >= AQ }                            \* Cap
        IN [s2 EXCEPT !.que[a] = @ \ cp, !.all = @ \ cp]

RECURSIVE PromoteAll(_, _)
PromoteAll(st, A) == IF A = {} THEN st ELSE LET a == CHOOSE x \in A : TRUE IN PromoteAll(PromoteF(st, a), A \ {a})

\* ---------------------------------------------------------------- demoteUnexecutables (one account)
DemoteF(st, a) ==
   IF st.pend[a] = {} THEN st
   ELSE LET olds == { t \in st.pend[a] : t.n < st.sn[a] }
            l1   == st.pend[a] \ olds
            dr   == { t \in l1 : Cost(t) > st.sb[a] }
            inv  == IF dr = {} THEN {} ELSE { t \in l1 \ dr : t.n > Min(NoncesOf(dr)) }
            l2   == l1 \ (dr \cup inv)
            s1   == EnqueueAll([st EXCEPT !.pend[a] = l2, !.all = @ \ (olds \cup dr)], inv)
            s2   == IF l2 # {} /\ At(l2, st.sn[a]) = {}
                    THEN EnqueueAll([s1 EXCEPT !.pend[a] = {}], l2)       \* a gap in front: postpone everything
                    ELSE s1
            l3   == s2.pend[a]
            keep == IF l3 = {} THEN {} ELSE Run(l3, Min(NoncesOf(l3)))    \* the contiguous prefix
        IN IF HoleRepair /\ keep # l3 THEN EnqueueAll([s2 EXCEPT !.pend[a] = keep], l3 \ keep) ELSE s2

RECURSIVE DemoteAll(_, _)
DemoteAll(st, A) == IF A = {} THEN st ELSE LET a == CHOOSE x \in A : TRUE IN DemoteAll(DemoteF(st, a), A \ {a})

\* ---------------------------------------------------------------- truncatePending
PendCount(st) == Cardinality(UNION { st.pend[a] : a \in Accts })
QueCount(st) == Cardinality(UNION { st.que[a] : a \in Accts })
PLen(st, a) == Cardinality(st.pend[a])
\* list.Cap(list.Len()-1): drop the highest nonce; all.Remove; pendingNonces.setIfLower
CapOne(st, a) == LET t == CHOOSE x \in st.pend[a] : \A y \in st.pend[a] : y.n <= x.n IN
                 SetIfLower([st EXCEPT !.pend[a] = @ \ {t}, !.all = @ \ {t}], a, t.n)
RECURSIVE CapEach(_, _, _, _)
CapEach(st, offs, i, k) == IF i > k THEN st ELSE CapEach(CapOne(st, offs[i]), offs, i + 1, k)     \* offenders 1..k lose one each

\* the spammers in the order the priority queue pops them: longest list first
RECURSIVE SortOff(_, _)
SortOff(st, A) == IF A = {} THEN <<>>
                  ELSE LET a == CHOOSE x \in A : \A y \in A : PLen(st, x) > PLen(st, y) \/ (PLen(st, x) = PLen(st, y) /\ x <= y)
                       IN <<a>> \o SortOff(st, A \ {a})

RECURSIVE Equalize(_, _, _, _, _)
Equalize(st, cnt, offs, k, th) ==      \* offenders 1..k-1 are reduced towards the length of the k-th
   IF cnt > GS /\ PLen(st, offs[k - 1]) > th THEN Equalize(CapEach(st, offs, 1, k - 1), cnt - (k - 1), offs, k, th)
   ELSE [st |-> st, cnt |-> cnt]

RECURSIVE Phase1(_, _, _, _)
Phase1(st, cnt, offs, k) ==            \* k offenders popped so far
   IF cnt <= GS \/ k = Len(offs) THEN [st |-> st, cnt |-> cnt, k |-> k]
   ELSE IF k + 1 > 1
        THEN LET e == Equalize(st, cnt, offs, k + 1, PLen(st, offs[k + 1])) IN Phase1(e.st, e.cnt, offs, k + 1)
        ELSE Phase1(st, cnt, offs, k + 1)

RECURSIVE Phase2(_, _, _, _)
Phase2(st, cnt, offs, k) ==
   IF cnt > GS /\ k > 0 /\ PLen(st, offs[k]) > AS THEN Phase2(CapEach(st, offs, 1, k), cnt - k, offs, k) ELSE st

TruncPendF(st) ==
   IF PendCount(st) <= GS THEN st
   ELSE LET offs == SortOff(st, { a \in Accts : a \notin st.loc /\ PLen(st, a) > AS })
            p1   == Phase1(st, PendCount(st), offs, 0)
        IN Phase2(p1.st, p1.cnt, offs, p1.k)

\* ---------------------------------------------------------------- truncateQueue (accounts in heartbeat order: any order here)
HighestK(L, k) == { t \in L : Cardinality({ u \in L : u.n > t.n }) < k }
RECURSIVE TQ(_, _, _)
TQ(st, drop, A) ==
   IF drop <= 0 \/ A = {} THEN {st}
   ELSE UNION { LET size == Cardinality(st.que[a]) IN
                IF size <= drop THEN TQ(RemoveAll(st, st.que[a]), drop - size, A \ {a})
                ELSE { RemoveAll(st, HighestK(st.que[a], drop)) }
                : a \in A }
TruncQueueS(st) == IF QueCount(st) <= GQ THEN {st}
                   ELSE TQ(st, QueCount(st) - GQ, { a \in Accts : a \notin st.loc /\ st.que[a] # {} })

\* ---------------------------------------------------------------- reset + runReorg
\* re-injection: addTxsLocked(reinject, false) in block order, errors ignored
RECURSIVE ReinjS(_, _, _)
ReinjS(S, R, n) == IF n > MaxNonce THEN S
                   ELSE IF At(R, n) = {} THEN ReinjS(S, R, n + 1)
                   ELSE ReinjS(UNION { { o.st : o \in AddS(st, CHOOSE t \in At(R, n) : TRUE, FALSE) } : st \in S }, R, n + 1)

\* reset = <<account, new nonce, new balance, transactions to re-inject>>
ResetS(st, r) == ReinjS({[st EXCEPT !.sn[r[1]] = r[2], !.sb[r[1]] = r[3], !.pn = [a \in Accts |-> -1]]}, r[4], 0)

FinalNonces(st) == [st EXCEPT !.pn = [a \in Accts |-> IF st.pend[a] = {} THEN st.pn[a] ELSE Max(NoncesOf(st.pend[a])) + 1]]

ReorgS(st, dirty, reset) ==
   LET S0 == IF reset = <<>> THEN {st} ELSE ResetS(st, reset) IN
   UNION { LET addrs == IF reset = <<>> THEN dirty ELSE { a \in Accts : s0.que[a] # {} }
               s1 == PromoteAll(s0, addrs)
               s2 == IF reset = <<>> THEN s1 ELSE DemoteAll(s1, Accts)
               s3 == TruncPendF(s2)
           IN { FinalNonces(s4) : s4 \in TruncQueueS(s3) }
           : s0 \in S0 }

\* ---------------------------------------------------------------- actions
Quiet == work = NoWork

\* Demotions (pending transactions pushed back into the queue by removeTx / demoteUnexecutables) are not followed by the
\* per-account cap, and re-pricing is not followed by a reorg step at all: an overflow of a queue limit that starts with a
\* demotion is the known-finding class "demoted"; it is remembered while the overflow lasts.
DemotedIn(st, st2) == { a \in Accts : st.pend[a] \cap st2.que[a] # {} }
\* A reset re-injects the transactions of the abandoned block; one of them may be refused (price floor raised since, pool
\* full, ...) while later nonces of the account are still in its pending list: promotion then leaves a hole that
\* demoteUnexecutables (which only looks for a gap in front) does not see.  Known-finding class "reinject_dropped".
GapFreeAt(st, a) == /\ NoncesOf(st.pend[a]) = st.sn[a]..(st.sn[a] + Cardinality(st.pend[a]) - 1)
                    /\ Cardinality(NoncesOf(st.pend[a])) = Cardinality(st.pend[a])
NewDemR(st, st2, reinj) ==
   [acc  |-> { a \in Accts : Cardinality(st2.que[a]) > AQ /\ (a \in dem.acc \/ a \in DemotedIn(st, st2)) },
    glob |-> QueCount(st2) > GQ /\ (dem.glob \/ DemotedIn(st, st2) # {}),
    gap  |-> { a \in Accts : ~GapFreeAt(st2, a) /\ (a \in dem.gap \/ \E t \in reinj : t.a = a /\ t \notin st2.all) }]
NewDem(st, st2) == NewDemR(st, st2, {})

\* ---------------------------------------------------------------- goals (goal-directed generation)
\* Situations that are rare under random simulation and too deep for bounded-exhaustive generation are reached by model
\* checking: the invariant NoGoal fails in the first state in which the behaviour has produced the situation, and the
\* counterexample is the behaviour that is then replayed on the real pool.
\* "fullreplace": a remote price bump of the sender's only pending transaction arrives at an exactly full pool, and making
\* room may evict that very transaction.
GoalFullReplace(st, t) ==
   LET old == At(st.pend[t.a], t.n) IN
   /\ t \notin st.all /\ t.a \notin st.loc /\ st.gp <= t.p /\ st.sn[t.a] <= t.n /\ st.sb[t.a] >= Cost(t)
   /\ Cardinality(st.all) >= GS + GQ
   /\ old # {} /\ Cardinality(st.pend[t.a]) = 1 /\ CanReplace(CHOOSE o \in old : TRUE, t)
   /\ \A D \in DiscardChoices(st, Cardinality(st.all) - (GS + GQ - 1)) : old \subseteq D        \* whichever way ties are broken
\* "tailremove": an account has at least three queued transactions, the one that ARRIVED last (single submissions, in the
\* order of the history) does not carry the highest nonce, and re-pricing removes exactly that one of them.
LastArrived(Q) ==
   LET I == { i \in DOMAIN arr : arr[i] \in Q } IN
   IF I = {} THEN {} ELSE {arr[Max(I)]}
GoalTailRemove(st, p) ==
   \E a \in Accts \ st.loc :
      LET Q == st.que[a]
          R == { t \in Q : t.p < p } IN
      /\ Cardinality(Q) >= 3 /\ Cardinality(R) = 1 /\ R = LastArrived(Q)
      /\ \E u \in Q \ R : \A t \in R : u.n > t.n
      /\ \A t \in Q : \E i \in DOMAIN arr : arr[i] = t
\* <goal-holefilter>  (checks/C20.py replaces this block by a stub in the -coverage run: TLC's cost model exhausts the heap on it)
\* "holefilter": a reorg whose re-injection leaves a hole in a pending list while the balance it restores makes a pending
\* transaction ABOVE the hole unpayable, with followers, and a payable one in between.
GoalHoleFilter(st, r) ==
   \E s0 \in ResetS(st, r) :
      LET s1 == PromoteAll(s0, { a \in Accts : s0.que[a] # {} }) IN
      \E a \in Accts :
         LET l1  == { t \in s1.pend[a] : t.n >= s1.sn[a] }
             dr  == { t \in l1 : Cost(t) > s1.sb[a] }
             inv == IF dr = {} THEN {} ELSE { t \in l1 \ dr : t.n > Min(NoncesOf(dr)) }
             l2  == l1 \ (dr \cup inv) IN
         /\ dr # {} /\ inv # {} /\ l2 # {} /\ At(l2, s1.sn[a]) # {}
         /\ Run(l2, Min(NoncesOf(l2))) # l2
\* </goal-holefilter>

\* one submission (split mode): the transaction is added under the lock, promotion is requested
Add(t, local) ==
   /\ Mode = "split"
   /\ Tick([op |-> "Add", t |-> t, local |-> local])
   /\ \E o \in AddS(s, t, local) :
         /\ s' = o.st
         /\ work' = [work EXCEPT !.dirty = IF o.dirty THEN @ \cup {t.a} ELSE @]
   /\ dem' = NewDem(s, s')
   /\ UNCHANGED <<last, goal>>

\* the head moved (split mode): a reset is requested; the pool's own state changes only when the reorg step runs
\* the block that advances the nonce of a to n: the pool's pending transactions where it has them (what a miner takes),
\* transactions the pool never saw (cheapest kind) for the other nonces
Mined(a, n) == { IF At(s.pend[a], k) # {} THEN CHOOSE t \in At(s.pend[a], k) : TRUE ELSE [a |-> a, n |-> k, p |-> MinP, v |-> MinV]
                 : k \in s.sn[a]..(n - 1) }
HeadChange(a, n, b) ==
   /\ Mode = "split" /\ work.reset = <<>>
   /\ (n # s.sn[a] \/ b # s.sb[a])
   /\ Tick([op |-> "HeadChange", a |-> a, n |-> n, b |-> b])
   /\ work' = [work EXCEPT !.reset = <<a, n, b, {}>>]
   /\ last' = IF n > s.sn[a] THEN <<a, Mined(a, n), s.sn[a], s.sb[a]>> ELSE <<>>
   /\ UNCHANGED <<s, dem, goal>>

HeadBack ==
   /\ Mode = "split" /\ work.reset = <<>> /\ last # <<>>
   /\ Tick([op |-> "HeadBack"])
   /\ work' = [work EXCEPT !.reset = <<last[1], last[3], last[4], last[2]>>]
   /\ last' = <<>>
   /\ UNCHANGED <<s, dem, goal>>

RunReorg ==
   /\ Mode = "split" /\ ~Quiet
   /\ Tick([op |-> "RunReorg"])
   /\ s' \in ReorgS(s, work.dirty, work.reset)
   /\ dem' = NewDemR(s, s', IF work.reset = <<>> THEN {} ELSE work.reset[4])
   /\ work' = NoWork
   /\ UNCHANGED <<last, goal>>

\* the synchronous entry points (sync mode): a batch is added, then the reorg step runs before the call returns
RECURSIVE AddSeqS(_, _, _, _)
AddSeqS(S, ts, i, local) ==       \* S: set of [st, dirty]
   IF i > Len(ts) THEN S
   ELSE AddSeqS(UNION { { [st |-> o.st, dirty |-> IF o.dirty THEN x.dirty \cup {ts[i].a} ELSE x.dirty] : o \in AddS(x.st, ts[i], local) } : x \in S },
                ts, i + 1, local)

AddSync(ts, local) ==
   /\ Mode = "sync"
   /\ Tick([op |-> "AddSync", ts |-> ts, local |-> local])
   /\ \E x \in AddSeqS({[st |-> s, dirty |-> {}]}, ts, 1, local) : s' \in ReorgS(x.st, x.dirty, <<>>)
   /\ dem' = NewDem(s, s')
   /\ goal' = (goal \/ (Goal = "fullreplace" /\ Len(ts) = 1 /\ ~local /\ GoalFullReplace(s, ts[1])))
   /\ UNCHANGED <<work, last>>

ResetSync(a, n, b) ==
   /\ Mode = "sync"
   /\ (n # s.sn[a] \/ b # s.sb[a])
   /\ Tick([op |-> "ResetSync", a |-> a, n |-> n, b |-> b])
   /\ s' \in ReorgS(s, {}, <<a, n, b, {}>>)
   /\ dem' = NewDem(s, s')
   /\ last' = IF n > s.sn[a] THEN <<a, Mined(a, n), s.sn[a], s.sb[a]>> ELSE <<>>
   /\ UNCHANGED <<work, goal>>

ResetBack ==
   /\ Mode = "sync" /\ last # <<>>
   /\ Tick([op |-> "ResetBack"])
   /\ s' \in ReorgS(s, {}, <<last[1], last[3], last[4], last[2]>>)
   /\ dem' = NewDemR(s, s', last[2])
   /\ goal' = (goal \/ (Goal = "holefilter" /\ GoalHoleFilter(s, <<last[1], last[3], last[4], last[2]>>)))
   /\ last' = <<>>
   /\ UNCHANGED work

SetGasPrice(p) ==
   /\ p # s.gp
   /\ Tick([op |-> "SetGasPrice", p |-> p])
   /\ s' = RemoveAll([s EXCEPT !.gp = p], { t \in Remote(s) : t.p < p })
   /\ dem' = NewDem(s, s')
   /\ goal' = (goal \/ (Goal = "tailremove" /\ GoalTailRemove(s, p)))
   /\ UNCHANGED <<work, last>>

\* the eviction tick after every heartbeat has become older than the lifetime
Evict ==
   /\ Tick([op |-> "Evict"])
   /\ s' = RemoveAll(s, UNION { s.que[a] : a \in Accts \ s.loc })
   /\ dem' = NewDem(s, s')
   /\ UNCHANGED <<work, last, goal>>

\* the small alphabet: expensive transactions only at the lowest price, local submissions only of the plainest kind,
\* batches of two only from one account at one price
SmallTx == { t \in Tx : t.v = MinV \/ t.p = MinP }
Plain(t) == t.p = MinP /\ t.v = MinV

NextSplit ==
   \/ \E t \in Tx, local \in BOOLEAN : Add(t, local)
   \/ \E a \in Accts, n \in 0..(MaxNonce + 1), b \in Bals : HeadChange(a, n, b)
   \/ HeadBack \/ RunReorg

\* the alphabet of the goal runs: single remote submissions, head changes, re-pricing
NextGoal ==
   \/ \E t \in Tx : AddSync(<<t>>, FALSE)
   \/ \E a \in Accts, n \in 0..(MaxNonce + 1), b \in Bals : ResetSync(a, n, b)
   \/ ResetBack

NextSync ==
   IF Alpha = "goal" THEN NextGoal
   ELSE IF Alpha = "small"
   THEN \/ \E t \in SmallTx, local \in BOOLEAN : (local => Plain(t)) /\ AddSync(<<t>>, local)
        \/ \E t, u \in SmallTx : t.a = u.a /\ t.n < u.n /\ t.p = u.p /\ t.v = MinV /\ u.v = MinV /\ AddSync(<<t, u>>, FALSE)
        \/ \E a \in Accts, n \in 0..(MaxNonce + 1), b \in Bals : ResetSync(a, n, b)
        \/ ResetBack
   ELSE \/ \E t \in Tx, local \in BOOLEAN : AddSync(<<t>>, local)
        \/ \E t, u \in Tx, local \in BOOLEAN : ((t.a = u.a /\ t.n < u.n) \/ (t.a < u.a /\ t.v = MinV /\ u.v = MinV)) /\ AddSync(<<t, u>>, local)
        \/ \E a \in Accts, n \in 0..(MaxNonce + 1), b \in Bals : ResetSync(a, n, b)
        \/ ResetBack

Next ==
   \/ (Mode = "split" /\ NextSplit)
   \/ (Mode = "sync" /\ NextSync)
   \/ \E p \in Prices : SetGasPrice(p)
   \/ Evict
Spec == Init /\ [][Next]_vars

\* ---------------------------------------------------------------- property layer
AllPend == UNION { s.pend[a] : a \in Accts }
AllQue  == UNION { s.que[a] : a \in Accts }

\* "each pooled transaction is either pending or queued but not both"
PendingQueueDisjoint == AllPend \cap AllQue = {}
\* "pending transactions of an account form a gap-free nonce sequence starting at the account's current nonce"
PendingGapFreeFromStateNonce == \A a \in Accts : GapFreeAt(s, a) \/ (~Strict /\ a \in dem.gap)
\* "and are affordable" (each transaction's own cost, see DESIGN section 9)
PendingAffordable == \A a \in Accts : \A t \in s.pend[a] : Cost(t) <= s.sb[a]
\* "queued ones lie strictly above"
QueuedStrictlyAbove ==
   \A a \in Accts : \A t \in s.que[a] : t.n >= s.sn[a] /\ (s.pend[a] # {} => t.n > Max(NoncesOf(s.pend[a])))
\* "per-account and global limits are respected" -- promised once the reorg step has run; accounts the pool treats as
\* local are exempt by configuration; AccountSlots is the guaranteed minimum the global limit may not cut into
\* (the known-finding class -- queue overflow that began with a demotion -- is set aside unless Strict, so that the search goes on)
LimitsRespected ==
   Quiet => /\ \A a \in Accts \ s.loc : Cardinality(s.que[a]) <= AQ \/ (~Strict /\ a \in dem.acc)
            /\ (PendCount(s) <= GS \/ \A a \in Accts \ s.loc : Cardinality(s.pend[a]) <= AS)
            /\ (QueCount(s) <= GQ \/ (~Strict /\ dem.glob) \/ \A a \in Accts \ s.loc : s.que[a] = {})
\* the lookup table is exactly pending + queued
AllIsUnion == s.all = AllPend \cup AllQue
\* design sanity: the virtual nonce is the next nonce after the pending list
NonceTracksPending == Quiet => \A a \in Accts : s.pend[a] # {} => PN(s, a) = Max(NoncesOf(s.pend[a])) + 1

\* design-level counterexamples are exported as behaviours and replayed on the real pool
Cex(name) == PrintT("@@J " \o ToJson([kind |-> "CEX", clause |-> name, h |-> hist])) /\ FALSE
I_Disjoint == PendingQueueDisjoint \/ Cex("PendingQueueDisjoint")
I_GapFree  == PendingGapFreeFromStateNonce \/ Cex("PendingGapFreeFromStateNonce")
I_Afford   == PendingAffordable \/ Cex("PendingAffordable")
I_Above    == QueuedStrictlyAbove \/ Cex("QueuedStrictlyAbove")
I_Limits   == LimitsRespected \/ Cex("LimitsRespected")
I_Union    == AllIsUnion \/ Cex("AllIsUnion")
I_Nonce    == NonceTracksPending \/ Cex("NonceTracksPending")

NoGoal == ~goal \/ Cex("goal:" \o Goal)
\* the goal predicates are replaced by this one in runs with -coverage (TLC's cost model exhausts the heap on them)
False2(x, y) == FALSE

\* ---------------------------------------------------------------- generation
Leaf == (GenMode = "leaf" /\ nops = MaxOps) => PrintT("@@J " \o ToJson([kind |-> "B", h |-> hist]))
View == <<s, work, last, dem, goal, arr, nops>>
=============================================================================
