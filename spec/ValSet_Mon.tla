----------------------------- MODULE ValSet_Mon -----------------------------
(***************************************************************************)
(* C08 property-layer monitor over traces recorded from the real StateDB.  *)
(* Every event carries `obs`, the projection of the real state read        *)
(* through getters after the operation (on the live object, on a copy      *)
(* after "Copy", on the reopened state after "Reload").  The monitor       *)
(* RECOMPUTES every total from the projected validator records -- it uses  *)
(* neither the code's statistics nor the design model's -- and evaluates   *)
(* one named clause per sentence of the statement:                         *)
(*                                                                         *)
(*  StatEqualsRecompute   "the aggregate statistics (online/offline stake, *)
(*      tokens and counts per role and kind) always equal what one gets by *)
(*      summing the current validator records"         subject: the group  *)
(*  TotalsEqualSelfPlusDelegations  "each validator's total tokens and     *)
(*      stake equal its own plus its delegations'"     subject: validator  *)
(*  StakeIsTokenDivUnit   "every stake equals the token amount divided by  *)
(*      the stake unit" (each INDIVIDUAL stake: self and each delegation;  *)
(*      interpretation note "Stake vs token")          subject: validator  *)
(*  IndexEqualsDomain     "the address index lists exactly the existing    *)
(*      validators" (also the lists GetValidatorsForUpdate / GetValidators *)
(*      derive from the index, when the behaviour reads them)              *)
(*  DelegationLinksAgree  "delegator accounts and validators agree on who  *)
(*      delegates to whom"                             subject: account    *)
(*  DelegationBalanceAgrees  the delegator's recorded delegation balance   *)
(*      is the sum of its delegations' tokens (the amount side of the same *)
(*      sentence; kept as a separate clause)           subject: account    *)
(*  Readable              the observables can be read at all (a panic of   *)
(*      the operation or of a getter)                                      *)
(*                                                                         *)
(* A clause is reported when it STARTS to fail for a subject (transition   *)
(* holding -> failing); the discriminator is computed from the failing     *)
(* event and the recorded history (see Disc).  The search never stops.     *)
(***************************************************************************)
EXTENDS Integers, Sequences, FiniteSets, TLC, Json

CONSTANT Unit

TraceLog == ndJsonDeserialize("trace.ndjson")

VARIABLES ohist,  \* <<tx, blk, unc, gone>> of the other side of the last Copy
          l,      \* next line
          bad,    \* set of <<clause, subject>> failing after the previous event of this behaviour
          tx,     \* operation kinds since the last transaction boundary
          blk,    \* operation kinds since the last root computation
          unc,    \* operation kinds since the last commit
          gone,   \* validators seen to disappear at a root computation of the current object (a removed record may linger in memory)
          prev,   \* <<obs of the previous event>> or <<>>
          viol, fired
vars == <<ohist, l, bad, tx, blk, unc, gone, prev, viol, fired>>

Groups == {"all", "chamber", "house", "c", "s", "h"}
InGroup(role, g) == \/ g = "all" \/ g = role
                    \/ (g = "chamber" /\ role \in {"c", "s"})
                    \/ (g = "house" /\ role = "h")

RECURSIVE SumF(_, _)
SumF(f, S) == IF S = {} THEN 0 ELSE LET x == CHOOSE y \in S : TRUE IN f[x] + SumF(f, S \ {x})
Range(q) == { q[i] : i \in DOMAIN q }
VName(i) == "v" \o ToString(i)
AName(a) == "a" \o ToString(a)

NVals(o) == Len(o.v)
Existing(o) == { i \in 1..NVals(o) : o.v[i].ex }

\* ---- recomputation from the records
Expected(o, g) ==
   LET M   == { i \in Existing(o) : InGroup(o.v[i].role, g) }
       On  == { i \in M : o.v[i].on }
       Off == M \ On IN
   << SumF([i \in On |-> o.v[i].stk], On),   SumF([i \in On |-> o.v[i].tok], On),   Cardinality(On),
      SumF([i \in Off |-> o.v[i].stk], Off), SumF([i \in Off |-> o.v[i].tok], Off), Cardinality(Off) >>

StatOK(o, g) == o.st[g] = Expected(o, g)

DlSum(v, f) == LET D == DOMAIN v.dl IN SumF([k \in D |-> IF f = "t" THEN v.dl[k].t ELSE v.dl[k].s], D)
TotalsOK(v) == v.ex => (v.tok = v.st + DlSum(v, "t") /\ v.stk = v.ss + DlSum(v, "s"))
StakeOK(v)  == v.ex => (/\ v.st >= 0 /\ v.ss = v.st \div Unit
                        /\ \A k \in DOMAIN v.dl : v.dl[k].t >= 0 /\ v.dl[k].s = v.dl[k].t \div Unit)
IndexOK(o, i) == (i \in Range(o.ix)) <=> o.v[i].ex
Delegates(o, a, i) == o.v[i].ex /\ \E k \in DOMAIN o.v[i].dl : o.v[i].dl[k].a = a
LinksOK(o, a) == \A i \in 1..NVals(o) : (i \in Range(o.a[a].to)) <=> Delegates(o, a, i)
DlgTok(o, a, i) == IF ~o.v[i].ex THEN 0
                   ELSE LET D == { k \in DOMAIN o.v[i].dl : o.v[i].dl[k].a = a } IN SumF([k \in D |-> o.v[i].dl[k].t], D)
DbalOK(o, a) == o.a[a].dbal = SumF([i \in 1..NVals(o) |-> DlgTok(o, a, i)], 1..NVals(o))

\* the set of <<clause, subject>> failing on the projection o of one object
FailingObs(o) ==
      { <<"StatEqualsRecompute", g>> : g \in { h \in Groups : ~StatOK(o, h) } }
   \cup { <<"TotalsEqualSelfPlusDelegations", VName(i)>> : i \in { j \in 1..NVals(o) : ~TotalsOK(o.v[j]) } }
   \cup { <<"StakeIsTokenDivUnit", VName(i)>> : i \in { j \in 1..NVals(o) : ~StakeOK(o.v[j]) } }
   \cup { <<"IndexEqualsDomain", VName(i)>> : i \in { j \in 1..NVals(o) : ~IndexOK(o, j) } }
   \cup { <<"DelegationLinksAgree", AName(a)>> : a \in { b \in DOMAIN o.a : ~LinksOK(o, b) } }
   \cup { <<"DelegationBalanceAgrees", AName(a)>> : a \in { b \in DOMAIN o.a : ~DbalOK(o, b) } }

\* ... on event e: the object operated on (obs, with the lists the behaviour read), side "m", and -- after a Copy -- the OTHER
\* side of the copy (oobs), side "o": "for every sequence of ... copies" both states keep matching their own records
Failing(e) ==
   LET o == e.obs IN
   { <<f[1], f[2], "m">> : f \in FailingObs(o)
   \cup (IF "fu" \in DOMAIN e /\ Range(e.fu) # Existing(o) THEN { <<"IndexEqualsDomain", "forUpdate">> } ELSE {})
   \cup (IF "gv" \in DOMAIN e /\ Range(e.gv) # Existing(o) THEN { <<"IndexEqualsDomain", "getValidators">> } ELSE {}) }
   \cup (IF "oobs" \in DOMAIN e THEN { <<f[1], f[2], "o">> : f \in FailingObs(e.oobs) } ELSE {})
\* what was failing before, seen from the sides as they are AFTER event e: Copy makes the original the other side (it inherits
\* the failures of the object that was operated on); Swap exchanges the sides
Flip(x) == IF x = "m" THEN "o" ELSE "m"
BadBefore(e) ==
   CASE e.ev = "Copy" -> { b \in bad : b[3] = "m" } \cup { <<b[1], b[2], "o">> : b \in { c \in bad : c[3] = "m" } }
     [] e.ev = "Swap" -> { <<b[1], b[2], Flip(b[3])>> : b \in bad }
     [] OTHER -> bad

\* ---- discriminators
Norm(op) == IF op \in {"Root", "Commit", "Reload"} THEN "Root" ELSE op
Ghosts(f) == { i \in gone : f[2] = VName(i) /\ f[3] = "m" }
Disc(e, f) ==
   LET op == Norm(e.ev) IN
      {op}
   \cup (IF op = "Revert" THEN { "tx:" \o o : o \in tx \cap {"Create", "Penalise", "Remove", "ForUpdate", "ForcedOffline"} } ELSE {})
   \cup (IF op = "Root" THEN { "blk:" \o o : o \in blk \cap {"Remove"} } ELSE {})
   \cup (IF op = "Copy" /\ unc \cap {"Delegate", "Undelegate"} # {} THEN {"unc:Delegation"} ELSE {})
   \cup (IF Ghosts(f) # {} THEN {"ghost"} ELSE {})
   \cup (IF f[3] = "o" THEN {"other"} ELSE {})
   \cup (IF f[1] = "Readable" THEN { "after:" \o b[1] : b \in bad } ELSE {})

TxEnd(op)  == op \in {"Finalise", "Root", "Commit", "Reload", "Copy"}
BlkEnd(op) == op \in {"Root", "Commit", "Reload"}
UncEnd(op) == op \in {"Commit", "Reload"}

\* only the first occurrence of a signature (clause, discriminator) is kept with its line; `fired.Failures` counts them all
Fresh(cands) == { c \in cands : ~\E x \in viol : x[1] = c[1] /\ x[2] = c[2] }

ZeroFired == [Stat |-> 0, Totals |-> 0, StakeDiv |-> 0, Index |-> 0, Links |-> 0, Dbal |-> 0, Events |-> 0, WithDelegations |-> 0, Reopened |-> 0, Copies |-> 0,
              OtherSide |-> 0, Failures |-> 0]

Init == /\ ohist = <<{}, {}, {}, {}>> /\ l = 1 /\ bad = {} /\ tx = {} /\ blk = {} /\ unc = {} /\ gone = {} /\ prev = <<>>
        /\ viol = {} /\ fired = ZeroFired

Count(e) ==
   LET o == e.obs
       nd == SumF([i \in Existing(o) |-> Len(o.v[i].dl)], Existing(o)) IN
   [fired EXCEPT !.Stat = @ + 6, !.Totals = @ + Cardinality(Existing(o)), !.StakeDiv = @ + Cardinality(Existing(o)) + nd,
                 !.Index = @ + NVals(o), !.Links = @ + Len(o.a), !.Dbal = @ + Len(o.a), !.Events = @ + 1,
                 !.WithDelegations = @ + (IF nd > 0 THEN 1 ELSE 0),
                 !.Reopened = @ + (IF e.ev = "Reload" THEN 1 ELSE 0), !.Copies = @ + (IF e.ev = "Copy" THEN 1 ELSE 0)]

Step ==
   /\ l <= Len(TraceLog)
   /\ l' = l + 1
   /\ LET e == TraceLog[l] IN
      IF e.ev \in {"reset", "abort"}
      THEN /\ bad' = {} /\ tx' = {} /\ blk' = {} /\ unc' = {} /\ gone' = {} /\ prev' = <<>> /\ ohist' = <<{}, {}, {}, {}>>
           /\ UNCHANGED <<viol, fired>>
      ELSE
        /\ tx'  = IF e.ev = "Swap" THEN ohist[1] ELSE IF TxEnd(e.ev)  THEN {} ELSE tx \cup {e.ev} \cup (IF "forced" \in DOMAIN e THEN {"ForcedOffline"} ELSE {})
        /\ blk' = IF e.ev = "Swap" THEN ohist[2] ELSE IF BlkEnd(e.ev) THEN {} ELSE blk \cup {e.ev}
        /\ unc' = IF e.ev = "Swap" THEN ohist[3] ELSE IF UncEnd(e.ev) THEN {} ELSE unc \cup {e.ev}
        /\ ohist' = IF e.ev \in {"Swap", "Copy"} THEN <<tx, blk, unc, gone>> ELSE ohist
        /\ IF "blind" \in DOMAIN e
           THEN \* the driver was told not to read the state after this operation (reads fill lazy caches): nothing to judge
                (IF e.ev \in {"Swap", "Copy"} THEN bad' = BadBefore(e) /\ gone' = (IF e.ev = "Swap" THEN ohist[4] ELSE {}) /\ prev' = <<>> /\ UNCHANGED <<viol, fired>>
                                 ELSE UNCHANGED <<bad, gone, prev, viol, fired>>)
           ELSE IF "obs" \notin DOMAIN e
           THEN \* the operation or a getter panicked: nothing can be read any more (the driver ends the behaviour here)
                /\ viol' = viol \cup Fresh({ <<"Readable", Disc(e, <<"Readable", "state", "m">>), l>> })
                /\ fired' = [fired EXCEPT !.Failures = @ + 1]
                /\ UNCHANGED <<bad, gone, prev>>
           ELSE LET F == Failing(e) IN
                /\ viol' = viol \cup Fresh({ <<f[1], Disc(e, f), l>> : f \in F \ BadBefore(e) })
                /\ bad' = F
                /\ fired' = [Count(e) EXCEPT !.Failures = @ + Cardinality(F \ BadBefore(e)),
                                             !.OtherSide = @ + (IF "oobs" \in DOMAIN e THEN 1 ELSE 0)]
                /\ prev' = IF e.ev = "Swap" THEN <<>> ELSE <<e.obs>>
                /\ gone' = IF e.ev = "Swap" THEN ohist[4] ELSE IF e.ev \in {"Reload", "Copy"} THEN {}
                           ELSE IF Norm(e.ev) = "Root" /\ prev # <<>>
                                THEN gone \cup { i \in 1..NVals(e.obs) : /\ (prev[1].v[i].ex \/ i \in Range(prev[1].ix))
                                                                        /\ ~e.obs.v[i].ex /\ i \notin Range(e.obs.ix) }
                                ELSE gone

\* the monitor is one deterministic path: the line number identifies the state (keeps fingerprinting cheap)
MonView == l
Spec == Init /\ [][Step]_vars

Done == (l = Len(TraceLog) + 1) =>
          PrintT("@@J " \o ToJson([kind |-> "RESULT", events |-> Len(TraceLog), viol |-> viol, fired |-> fired]))
=============================================================================
