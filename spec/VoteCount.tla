----------------------------- MODULE VoteCount -----------------------------
(***************************************************************************)
(* C03 -- votes escalate and blocks commit only on a counted quorum;       *)
(* commits always verify.                                                  *)
(*                                                                         *)
(* DESIGN LAYER (implementation shaped): the counting part of              *)
(* consensus/ucon/voter.go (processVoteMsg :508 with the message status    *)
(* judged by msg_handler.go, judgeVoteCount :282, vote :389 for the node's *)
(* own votes, commit :711) over the tallies of votes_mgr.go (one wrapper   *)
(* per (round, index): first vote per sender and kind, equivocators lose   *)
(* their weight, addrVoteInfo :95 / newVote :65), for ONE round with       *)
(* indices 1..MaxI.  An event is processed under v.lock: one atomic run    *)
(* computed functionally, yielding the sequence `out` of what leaves the   *)
(* voter (own votes V, CommitEvents C with the packed vote sets, header    *)
(* updates U).  The credential check follows sortition_verifier.go :205:   *)
(* an INVALID credential is let through when the vote's index is behind    *)
(* the engine's (as coded).  Votes of a future index are cached by the     *)
(* message handler (msg_cache.go) and replayed to the voter when the index *)
(* starts (msg_handler.go processCachedMsgs, at the step-0 context event): *)
(* prevotes and precommits -- certificate votes are not cached.  The       *)
(* engine posts the replayed messages asynchronously; the model (and the   *)
(* driver) uses the order prevotes, precommits, each in order of arrival.  *)
(*                                                                         *)
(* PROPERTY LAYER: written from the statement only.  `dl` records the      *)
(* votes DELIVERED with a valid credential (whatever the code did with     *)
(* them), `ownv` the node's own votes; quorums are recomputed from these   *)
(* (distinct senders, one block per sender: a sender seen with two blocks  *)
(* in a step contributes nothing) and compared with floor(0.685*T)         *)
(* (floor(0.585*T) for certificate votes).                                 *)
(***************************************************************************)
EXTENDS Integers, Sequences, FiniteSets, TLC, Json

CONSTANTS WSel,       \* row of the weight table below
          Blocks,     \* proposals
          MaxI,       \* round indices 1..MaxI
          MaxMsgs,    \* number of delivered vote messages
          CertRound,  \* the round requires certificate votes
          Creds,      \* {"ok"} or {"ok", "bad"}
          Known,      \* discriminators tolerated by the invariants (classes listed as known findings)
          Replay,     \* vote kinds whose future-index messages the handler caches AND replays when the index starts:
                      \* {"Prevote", "Precommit"} since commit 1d1ac7a ({} before it); certificate votes are never cached
          Skew,       \* how the handler labels a delivered vote: {"judged"} = by comparing with the voter's context (same / old index /
                      \* future); with "same" also votes of ANOTHER index labelled msgSame (the handler judged against a context the
                      \* voter has already left or not yet reached, or a cached vote released late) -- the voter drops those
          KSet,       \* vote kinds the peers send (a subset of K3, to focus a generation run)
          GVFocus,    \* mode GV prints: "recv" = every state a delivered vote produced; "commit" = every state an announced commit produced
          Ring,       \* params.MaxVoteCacheCount (4): the voter keeps the tallies of the last Ring (round, index) contexts; the
                      \* oldest tally object is cleared and reused for a new context (votes_mgr.go NewWrapper :377)
          MaxLost,    \* number of such mislabelled deliveries per behaviour
          FutureJudged, \* FALSE: correctly labelled future votes are not generated (stage without a message handler)
          Mode, MaxOps

\* weights: first the node itself, then the peers (sortition weight = stake in the fixture); T = committee size
\* (ValidatorThreshold = CertValThreshold = total stake).  Row a: quorum 13 is hit exactly by 3+4+6 and 2+5+6, 3+4+5 is one short.
Tables == [a |-> <<2, 3, 4, 5, 6>>, b |-> <<1, 2, 2, 3, 3>>, c |-> <<4, 1, 1, 1, 1>>,
           g |-> <<2, 2, 2>>]       \* T = 6: quorum 4 = own vote + one peer, certificate quorum 3 = two votes
W == Tables[WSel]
T == LET RECURSIVE S(_) S(n) == IF n = 0 THEN 0 ELSE W[n] + S(n - 1) IN S(Len(W))
Peers == 1..(Len(W) - 1)
Wt(s) == W[s + 1]
K3 == {"Prevote", "Precommit", "Cert"}
Nil == "nil"
Q(k) == IF k = "Cert" THEN (585 * T) \div 1000 ELSE (685 * T) \div 1000      \* OverThreshold :747 in exact arithmetic

EmptyWrapper == [ first |-> [k \in K3 |-> [s \in 0..(Len(W) - 1) |-> Nil]],  \* addressVotes[addr].Hash
                  dbl   |-> [k \in K3 |-> {}],                               \* addressVotes[addr].DoubleVoted
                  cnt   |-> [k \in K3 |-> [b \in Blocks |-> 0]],             \* voteCounts
                  inv   |-> {} ]                                             \* <<kind, sender>> counted with an invalid credential

VARIABLES v,       \* the voter: i, step, pc, cd, cm, over, wr, out
          dl,      \* observable: [index][kind][peer] -> set of blocks delivered with a valid credential
          dln,     \* the same, restricted to votes delivered when their index was NOT in the node's future
          df,      \* [index][kind][peer] -> the FIRST block delivered with a valid credential (or nil): discriminator only
          ownv,    \* observable: own votes <<index, kind, block>>
          flags,   \* property layer: failed clauses <<clause, discriminator>>
          nmsg, nlost, justc, hist
vars == <<v, dl, dln, df, ownv, flags, nmsg, nlost, justc, hist>>
View == <<v, dl, dln, df, ownv, flags, nmsg, nlost, justc>>
ViewV == <<v, dl, dln, df, ownv, flags, nlost, justc>>     \* mode GV: a delivery that changes nothing is not a new state

Sum(S) == LET RECURSIVE F(_) F(X) == IF X = {} THEN 0 ELSE LET x == CHOOSE y \in X : TRUE IN Wt(x) + F(X \ {x}) IN F(S)

(***************************** tallies (votes_mgr.go) *****************************)
\* addrVoteInfo + newVote for a peer's vote; result: [w, res, count]
Tally(w, k, s, b, valid) ==
   LET f == w.first[k][s] IN
   IF f = Nil THEN LET w1 == [w EXCEPT !.first[k][s] = b, !.cnt[k][b] = @ + Wt(s), !.inv = IF valid THEN @ ELSE @ \cup {<<k, s>>}]
                   IN [w |-> w1, res |-> "new", count |-> w1.cnt[k][b]]
   ELSE IF s \in w.dbl[k] THEN [w |-> w, res |-> "dbl", count |-> 0]
   ELSE IF f = b THEN [w |-> w, res |-> "exist", count |-> 0]
   ELSE [w |-> [w EXCEPT !.dbl[k] = @ \cup {s}, !.cnt[k][f] = @ - Wt(s)], res |-> "diff", count |-> 0]   \* the first vote's weight is removed
\* the votes stored for a block: votesInfo[hash] (entries of double voters are deleted)
Stored(w, k, b) == { s \in 0..(Len(W) - 1) : w.first[k][s] = b /\ s \notin w.dbl[k] }

(***************************** voter.go *****************************)
RECURSIVE OwnVote(_, _, _), Judge(_, _, _, _)

Commit(x, b) == [x EXCEPT !.cm = TRUE,
                          !.out = Append(@, [t |-> "C", i |-> x.i, b |-> b, pre |-> Stored(x.wr[x.i], "Precommit", b),
                                             cert |-> IF CertRound THEN Stored(x.wr[x.i], "Cert", b) ELSE {},
                                             inv |-> x.wr[x.i].inv])]

\* judgeVoteCount :282
Judge(x, k, b, count) ==
   IF count < Q(k) \/ x.cm THEN x
   ELSE LET x0 == IF k \in {"Precommit", "Cert"} THEN [x EXCEPT !.over = @ \cup {<<k, b>>}] ELSE x IN
   CASE k = "Prevote" -> IF x0.pc THEN x0 ELSE [OwnVote(x0, "Precommit", b) EXCEPT !.pc = TRUE]
     [] k = "Precommit" -> IF ~CertRound THEN Commit(x0, b)
                           ELSE IF ~x0.cd THEN [OwnVote(x0, "Cert", b) EXCEPT !.cd = TRUE]
                           ELSE IF <<"Cert", b>> \in x0.over THEN Commit(x0, b) ELSE x0
     [] k = "Cert" -> IF <<"Precommit", b>> \in x0.over THEN Commit(x0, b) ELSE x0

\* vote :389 -- the node's own vote enters the tally without a credential check and is judged
OwnVote(x, k, b) ==
   LET w == x.wr[x.i]
       w1 == IF w.first[k][0] = Nil THEN [w EXCEPT !.first[k][0] = b, !.cnt[k][b] = @ + Wt(0)] ELSE w
       x1 == [x EXCEPT !.wr[x.i] = w1, !.out = Append(@, [t |-> "V", k |-> k, i |-> x.i, b |-> b])]
   IN Judge(x1, k, b, w1.cnt[k][b])

\* processVoteMsg :508 for a vote of peer s with the message status the handler computes
Recv(x, s, k, b, ii, cred) ==
   IF ii = x.i THEN                                           \* msgSame
        IF cred = "bad" THEN x                                \* verifySortition fails: rejected
        ELSE LET r == Tally(x.wr[ii], k, s, b, TRUE)
                 x1 == [x EXCEPT !.wr[ii] = r.w]
             IN IF r.res = "new" THEN Judge(x1, k, b, r.count) ELSE x1
   ELSE IF ii > x.i THEN                                      \* msgFuture: verified, not counted; cached by the handler (codes <= msgNext)
        IF cred = "ok" /\ k \in Replay THEN [x EXCEPT !.cache[ii] = Append(@, [k |-> k, s |-> s, b |-> b])] ELSE x
   ELSE                                                       \* msgOldRoundIndex: an invalid credential passes (as coded :213)
        IF k # "Precommit" \/ ii + Ring <= x.i THEN x          \* (no wrapper any more for a context that left the ring)
        ELSE LET r == Tally(x.wr[ii], k, s, b, cred = "ok")
                 x1 == [x EXCEPT !.wr[ii] = r.w]
             IN IF r.res = "new" /\ r.count >= Q("Cert")       \* OverThreshold(totalCount, threshold, false) :587
                THEN [x1 EXCEPT !.out = Append(@, [t |-> "U", i |-> ii, b |-> b, pre |-> Stored(r.w, "Precommit", b), inv |-> r.w.inv])]
                ELSE x1

\* updateContext :203 at a new round index: latches reset, a new wrapper -- beyond Ring contexts the oldest one, cleared
Advance(x) == LET ni == x.i + 1 IN
              [x EXCEPT !.i = ni, !.step = 0, !.pc = FALSE, !.cd = FALSE, !.cm = FALSE, !.over = {},
                        !.wr = IF ni > Ring THEN [@ EXCEPT ![ni - Ring] = EmptyWrapper] ELSE @,
                        \* what `clear` has to reset when the object is recycled: the first votes, the double-voter marks, the
                        \* counts AND the stored vote sets of the old context.  Kept in the state so that behaviours are
                        \* distinguished by what the recycled tally object held (the code under test may forget part of it)
                        !.gone = IF ni > Ring THEN [@ EXCEPT ![ni - Ring] = x.wr[ni - Ring]] ELSE @]

\* processVoteMsg :515-519: a vote labelled msgSame whose (round, index) is not the voter's is dropped
RecvAs(x, s, k, b, ii, cred, as) == IF as = "same" /\ ii # x.i THEN x ELSE Recv(x, s, k, b, ii, cred)

\* processCachedMsgs at the start of index x.i: the cached prevotes, then the cached precommits, each as a msgSame vote
RECURSIVE ReplaySeq(_, _)
ReplaySeq(x, q) == IF q = <<>> THEN x ELSE ReplaySeq(Recv(x, Head(q).s, Head(q).k, Head(q).b, x.i, "ok"), Tail(q))
OfKind(q, k) == SelectSeq(q, LAMBDA m : m.k = k)
ReplayCached(x) == LET q == x.cache[x.i] IN
                   ReplaySeq([x EXCEPT !.cache[x.i] = <<>>], OfKind(q, "Prevote") \o OfKind(q, "Precommit"))

(***************************** property layer *****************************)
\* weight of the valid-credential votes delivered for exactly block b by senders seen with no other block
DQ(d, o, ii, k, b) == Sum({ s \in Peers : d[ii][k][s] = {b} }) + (IF <<ii, k, b>> \in o THEN Wt(0) ELSE 0)
Entitled(d, o, ii, k, b) == { s \in Peers : d[ii][k][s] = {b} } \cup (IF <<ii, k, b>> \in o THEN {0} ELSE {})

\* Discriminator of a failed quorum clause:
\*  "equivocator_future_vote"   the quorum exists once the votes that were delivered while their index was still in the
\*                              node's future AND that the node drops (kinds not in Replay: certificate votes) are disregarded
\*  "equivocation_after_quorum" the quorum exists when every sender counts with its FIRST delivered vote: it was complete
\*                              at some moment and a sender voted for a second block afterwards
\*  "no_quorum"                 otherwise
Disc(strict, lenient, firsts) == IF strict THEN {} ELSE IF lenient THEN {"equivocator_future_vote"}
                                 ELSE IF firsts THEN {"equivocation_after_quorum"} ELSE {"no_quorum"}
Flag(c, strict, lenient, firsts) == { <<c, x>> : x \in Disc(strict, lenient, firsts) }
\* df as a "delivered" observable: exactly the first block of every sender
AsSets(f) == [ii \in 1..MaxI |-> [k \in K3 |-> [s \in Peers |-> IF f[ii][k][s] = Nil THEN {} ELSE {f[ii][k][s]}]]]

\* fold the outputs of one run, in order, into [o (own votes), f (flags)]
RECURSIVE Check(_, _, _, _, _)
Check(out, d, dn, dfs, acc) ==
   IF out = <<>> THEN acc
   ELSE LET e == Head(out) IN
        IF e.t = "V" THEN
           LET bad == CASE e.k = "Precommit" -> Flag("PrecommitOnlyAfterPrevoteQuorum", DQ(d, acc.o, e.i, "Prevote", e.b) >= Q("Prevote"),
                                                                                      DQ(dn, acc.o, e.i, "Prevote", e.b) >= Q("Prevote"),
                                                                                      DQ(dfs, acc.o, e.i, "Prevote", e.b) >= Q("Prevote"))
                        [] e.k = "Cert"      -> Flag("CertOnlyAfterPrecommitQuorum", DQ(d, acc.o, e.i, "Precommit", e.b) >= Q("Precommit"),
                                                                                   DQ(dn, acc.o, e.i, "Precommit", e.b) >= Q("Precommit"),
                                                                                   DQ(dfs, acc.o, e.i, "Precommit", e.b) >= Q("Precommit"))
                        [] OTHER -> {}
           IN Check(Tail(out), d, dn, dfs, [o |-> acc.o \cup {<<e.i, e.k, e.b>>}, f |-> acc.f \cup bad])
        ELSE IF e.t = "C" THEN
           LET qs(x) == DQ(x, acc.o, e.i, "Precommit", e.b) >= Q("Precommit") /\ (CertRound => DQ(x, acc.o, e.i, "Cert", e.b) >= Q("Cert"))
               pk(x) == e.pre \subseteq Entitled(x, acc.o, e.i, "Precommit", e.b) /\ e.cert \subseteq Entitled(x, acc.o, e.i, "Cert", e.b)
               \* what every verifier computes from the packed sets (consensus.go verifyVotes)
               vf == Sum(e.pre \ { s \in e.pre : <<"Precommit", s>> \in e.inv }) >= Q("Precommit")
                     /\ (CertRound => Sum(e.cert) >= Q("Cert"))
           IN Check(Tail(out), d, dn, dfs, [acc EXCEPT !.f = @ \cup Flag("CommitOnlyAfterQuorums", qs(d), qs(dn), qs(dfs))
                                                                \cup Flag("EquivocatorWeightless", pk(d), pk(dn), pk(dfs))
                                                                \cup Flag("CommitVerifies", vf, qs(dn), qs(dfs))])
        ELSE Check(Tail(out), d, dn, dfs, acc)

(***************************** actions *****************************)
Tick(rec) == /\ (Mode = "G" => Len(hist) < MaxOps)
             /\ hist' = Append(hist, rec)

ApplyF(x, d, dn, f) == LET c == Check(x.out, d, dn, AsSets(f), [o |-> ownv, f |-> flags]) IN
                   /\ v' = [x EXCEPT !.out = <<>>] /\ dl' = d /\ dln' = dn /\ df' = f /\ ownv' = c.o /\ flags' = c.f
                   /\ justc' = (\E n \in DOMAIN x.out : x.out[n].t = "C")      \* the event announced a commit
Apply(x, d, dn) == ApplyF(x, d, dn, df)

Step2 == \E best \in Blocks :
           /\ v.step < 2 /\ Tick([op |-> "Step", st |-> 2, best |-> best])
           /\ Apply(OwnVote([v EXCEPT !.step = 2], "Prevote", best), dl, dln) /\ UNCHANGED <<nmsg, nlost>>
Step4 == /\ v.step < 4 /\ Mode # "GV"      \* the step has no effect on the counting part: not explored in mode GV
         /\ Tick([op |-> "Step", st |-> 4, best |-> Nil])
         /\ Apply([v EXCEPT !.step = 4], dl, dln) /\ UNCHANGED <<nmsg, nlost>>
NextIdx == /\ v.i < MaxI /\ Tick([op |-> "NextIdx"])
           /\ Apply(ReplayCached(Advance(v)), dl, dln)
           /\ UNCHANGED <<nmsg, nlost>>
Deliver == \E s \in Peers, k \in KSet \cap (IF CertRound THEN K3 ELSE K3 \ {"Cert"}), b \in Blocks, ii \in 1..MaxI, cred \in Creds, as \in Skew :
             /\ nmsg < MaxMsgs /\ nmsg' = nmsg + 1
             /\ (as = "same") => (ii # v.i /\ cred = "ok" /\ nlost < MaxLost)
             /\ nlost' = IF as = "same" THEN nlost + 1 ELSE nlost
             /\ (~FutureJudged) => (ii <= v.i \/ as = "same")
             /\ Tick([op |-> "Recv", s |-> s, k |-> k, b |-> b, i |-> ii, cred |-> cred, as |-> as])
             /\ LET lost == as = "same" /\ ii # v.i IN       \* dropped by the voter and not cached by anybody: a lost message
                ApplyF(RecvAs(v, s, k, b, ii, cred, as),
                      IF cred = "ok" /\ ~lost THEN [dl EXCEPT ![ii][k][s] = @ \cup {b}] ELSE dl,
                      IF cred = "ok" /\ ~lost /\ (ii <= v.i \/ k \in Replay) THEN [dln EXCEPT ![ii][k][s] = @ \cup {b}] ELSE dln,
                      IF cred = "ok" /\ ~lost /\ df[ii][k][s] = Nil THEN [df EXCEPT ![ii][k][s] = b] ELSE df)

Init == /\ v = [i |-> 1, step |-> 0, pc |-> FALSE, cd |-> FALSE, cm |-> FALSE, over |-> {},
                wr |-> [ii \in 1..MaxI |-> EmptyWrapper], gone |-> [ii \in 1..MaxI |-> EmptyWrapper],
                cache |-> [ii \in 1..MaxI |-> <<>>], out |-> <<>>]
        /\ dl = [ii \in 1..MaxI |-> [k \in K3 |-> [s \in Peers |-> {}]]] /\ dln = dl
        /\ df = [ii \in 1..MaxI |-> [k \in K3 |-> [s \in Peers |-> Nil]]]
        /\ ownv = {} /\ flags = {} /\ nmsg = 0 /\ nlost = 0 /\ justc = FALSE
        /\ hist = <<[op |-> "Cfg", cert |-> CertRound, w |-> WSel]>>
Next == Step2 \/ Step4 \/ NextIdx \/ Deliver
Spec == Init /\ [][Next]_vars

Cex(name) == PrintT("@@J " \o ToJson([kind |-> "CEX", clause |-> name, h |-> hist])) /\ FALSE
NoFlag(c) == (\A f \in flags : f[1] # c \/ f[2] \in Known) \/ Cex(c)
PrecommitOnlyAfterPrevoteQuorum == NoFlag("PrecommitOnlyAfterPrevoteQuorum")
CertOnlyAfterPrecommitQuorum    == NoFlag("CertOnlyAfterPrecommitQuorum")
CommitOnlyAfterQuorums          == NoFlag("CommitOnlyAfterQuorums")
EquivocatorWeightless           == NoFlag("EquivocatorWeightless")
CommitVerifies                  == NoFlag("CommitVerifies")

Leaf == (Mode = "G" /\ Len(hist) >= MaxOps) => PrintT("@@J " \o ToJson([kind |-> "B", h |-> hist]))
\* Mode "GV" (used as an INVARIANT with VIEW View: evaluated once per distinct state): one shortest behaviour into every
\* distinct design state that a delivered vote has just produced
LeafV == (Mode = "GV" /\ (IF GVFocus = "commit" THEN justc ELSE hist[Len(hist)].op = "Recv")) => PrintT("@@J " \o ToJson([kind |-> "B", h |-> hist]))
=============================================================================
