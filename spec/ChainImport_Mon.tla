--------------------------- MODULE ChainImport_Mon ---------------------------
(***************************************************************************)
(* C11 property-layer monitor over observations of the REAL                *)
(* core.BlockChain (driver `chainimport`).  It cannot reject a trace.      *)
(* Events:                                                                 *)
(*   tree      : parents / heights / invalid blocks of the real block tree *)
(*   import    : observation after a completed InsertChain call            *)
(*   ref       : observation of the node that never crashed, after the     *)
(*               same calls and one further valid block                    *)
(*   restart   : NewBlockChain on the database frozen after one write of   *)
(*               the call: ok?, observation of the restarted chain         *)
(*   recovered : after importing the interrupted call again and the        *)
(*               further block: observation, and the reference's           *)
(* Clauses (ChainImportProp): CanonLinked, HeadStateAvailable,             *)
(* LookupsCanonical, InvalidNeverCanonical at every observation;           *)
(* RestartSucceeds at every restart; NotWedged at every recovered.         *)
(* Discriminator = class of the failing observation + phase (nocrash /     *)
(* crash / recovered) + how the interrupted call related to the head       *)
(* (extend / reorg / none).                                                *)
(***************************************************************************)
EXTENDS ChainImportProp, TLC, Json

TraceLog == ndJsonDeserialize("trace.ndjson")

VARIABLES l, T, viol, fired
vars == <<l, T, viol, fired>>

NoTree == [par |-> [x \in {} |-> ""], num |-> [x \in {} |-> 0], inv |-> {}, txs |-> [x \in {} |-> {}]]
AddNew(vs, new) == vs \cup { v \in new : ~\E w \in vs : w[1] = v[1] /\ w[2] = v[2] }

\* extra = WHERE the crash fell (restart / recovered events): {"last_<kind of the last completed write>", position w.r.t. head moves}
ObsViol(o, phase, mode, extra, line) == { <<name, Class(name, T, o) \cup {phase, mode} \cup extra, line>> : name \in Failing(T, o) }
Where(e) == { e.where[i] : i \in DOMAIN e.where }

\* "it has the same head and state as a node that never crashed"
NotWedged(e) == "panic" \notin DOMAIN e /\ e.err2 = "" /\ e.obs.head = e.ref.head /\ e.obs.root = e.ref.root /\ e.obs.st
WedgedClass(e) == IF "panic" \in DOMAIN e THEN "panic_in_recovery"     \* the process dies while importing the blocks again
                  ELSE IF e.err2 # "" THEN "further_block_rejected"
                  ELSE IF e.obs.head # e.ref.head THEN "different_head"
                  ELSE IF ~e.obs.st THEN "state_unavailable" ELSE "different_state"

Zero == [Imports |-> 0, Reorgs |-> 0, Rejected |-> 0, Restarts |-> 0, Recovered |-> 0, Lookups |-> 0]
HasLookup(o) == \E t \in DOMAIN o.txl : o.txl[t] # "-"

Init == l = 1 /\ T = NoTree /\ viol = {} /\ fired = Zero

Step ==
   /\ l <= Len(TraceLog)
   /\ l' = l + 1
   /\ LET e == TraceLog[l] IN
      CASE e.ev = "tree" ->
             /\ T' = [par |-> e.par, num |-> e.num, inv |-> { e.inv[i] : i \in DOMAIN e.inv },
                       txs |-> [b \in DOMAIN e.txs |-> { e.txs[b][i] : i \in DOMAIN e.txs[b] }]]
             /\ UNCHANGED <<viol, fired>>
        [] e.ev = "import" ->
             /\ viol' = AddNew(viol, ObsViol(e.obs, "nocrash", e.mode, {}, l))
             /\ fired' = [fired EXCEPT !.Imports = @ + 1, !.Reorgs = @ + (IF e.mode = "reorg" THEN 1 ELSE 0),
                                       !.Rejected = @ + (IF e.err # "" THEN 1 ELSE 0),
                                       !.Lookups = @ + (IF HasLookup(e.obs) THEN 1 ELSE 0)]
             /\ UNCHANGED T
        [] e.ev = "ref" ->
             /\ viol' = AddNew(viol, ObsViol(e.obs, "nocrash", "extend", {}, l))
             /\ UNCHANGED <<T, fired>>
        [] e.ev = "restart" ->
             /\ viol' = AddNew(viol, IF e.ok THEN ObsViol(e.obs, "crash", e.mode, Where(e), l)
                                     ELSE { <<"RestartSucceeds", {"error", e.mode} \cup Where(e), l>> })
             /\ fired' = [fired EXCEPT !.Restarts = @ + 1]
             /\ UNCHANGED T
        [] e.ev = "recovered" ->
             /\ viol' = AddNew(viol, (IF "panic" \in DOMAIN e THEN {} ELSE ObsViol(e.obs, "recovered", e.mode, Where(e), l))
                                     \cup (IF NotWedged(e) THEN {} ELSE { <<"NotWedged", {WedgedClass(e), "recovered", e.mode} \cup Where(e), l>> }))
             /\ fired' = [fired EXCEPT !.Recovered = @ + 1]
             /\ UNCHANGED T
        [] OTHER -> UNCHANGED <<T, viol, fired>>

Spec == Init /\ [][Step]_vars

Done == (l = Len(TraceLog) + 1) =>
          PrintT("@@J " \o ToJson([kind |-> "RESULT", events |-> Len(TraceLog), viol |-> viol, fired |-> fired]))
=============================================================================
