SPECIFICATION TSpec
CONSTRAINT HighWater
POSTCONDITION Accepted
CHECK_DEADLOCK FALSE
