SPECIFICATION TSpec
CONSTANTS
  WSel = "g"
  Blocks = {"A", "B"}
  MaxI = 4
  MaxMsgs = 1000000
  CertRound = TRUE
  Creds = {"ok", "bad"}
  Known = {}
  Replay = {}
  Skew = {"judged", "same"}
  MaxLost = 1000000
  FutureJudged = FALSE
  Mode = "G"
  MaxOps = 1000000
CONSTRAINT HighWater
POSTCONDITION Accepted
CHECK_DEADLOCK FALSE
