--------------------------- MODULE TxApply_Trace ---------------------------
(***************************************************************************)
(* Conformance of the real ApplyTransaction to the design layer of         *)
(* TxApply.tla (drift measure, never a verdict).  Every recorded Apply is  *)
(* re-executed as the model action with the logged concrete transaction;   *)
(* the model must predict the kind of outcome (refused and why / error and *)
(* why / applied) from ITS state, the logged execution outcome (gas used,  *)
(* failed, refund derived from the sender's charge) must be one the design *)
(* layer allows, and the model's next state must equal the logged nonces,  *)
(* balances, pool and header counters.                                     *)
(***************************************************************************)
EXTENDS TxApply

TraceLog == ndJsonDeserialize("trace.ndjson")
VARIABLE l
tvars == <<vars, l>>

IsEvent(name) == l <= Len(TraceLog) /\ TraceLog[l].ev = name /\ l' = l + 1

TReset == /\ (IsEvent("reset") \/ IsEvent("abort") \/ IsEvent("Sender"))
          /\ UNCHANGED vars

TBegin == /\ IsEvent("Init")
          /\ LET e == TraceLog[l] IN
             /\ nonce' = <<e.st.nonce[1], e.st.nonce[2]>> /\ bal' = <<e.st.bal[1], e.st.bal[2]>>
             /\ pool' = e.pool /\ gu' = 0 /\ gr' = 0 /\ mode' = e.mode /\ dead' = FALSE
             /\ last' = [kind |-> "none"] /\ hist' = <<>> /\ ver' = e.ver /\ UNCHANGED sig

ConcOf(e) == [s |-> e.tx.s, nonce |-> e.tx.nonce, price |-> e.tx.price, limit |-> e.tx.limit, value |-> e.tx.value,
              to |-> e.tx.to, pay |-> e.tx.pay, intr |-> Intrinsic(e.tx.to, e.tx.nz, e.tx.z), mv |-> e.tx.mv]

\* the logged execution outcome; the refund is what the sender was not charged
OutOf(e) == LET failed == e.rc.status = 0
                moved == IF failed THEN 0 ELSE e.tx.mv
                paid == e.pre.bal[e.tx.s] - e.post.bal[e.tx.s] - moved
                consumed == IF e.tx.to = "staking" /\ failed /\ ver < 4 THEN Intrinsic(e.tx.to, e.tx.nz, e.tx.z) ELSE e.rc.gas IN
            [g |-> e.rc.gas, failed |-> failed, r |-> consumed - (paid \div e.tx.price)]

KindOf(e) == CASE e.err = "" -> "applied"
               [] e.err \in {"nonce_low", "nonce_high", "gas_funds", "gas_pool"} -> "refused"
               [] OTHER -> "error"
ReasonOf(e) == CASE e.err \in {"nonce_low", "nonce_high"} -> "nonce" [] e.err = "gas_funds" -> "funds" [] e.err = "gas_pool" -> "pool"
                 [] OTHER -> e.err

TApply == /\ IsEvent("Apply")
          /\ LET e == TraceLog[l]  t == ConcOf(e) IN
             /\ mode = e.mode /\ ver = e.ver
             /\ IF e.err = "" THEN OutcomeAllowed(t, OutOf(e)) /\ ApplyWith(t, e.cls, {OutOf(e)})
                ELSE ApplyWith(t, e.cls, {})
             /\ last'.kind = KindOf(e)
             /\ (KindOf(e) # "applied") => last'.reason = ReasonOf(e)
             /\ nonce' = <<e.post.nonce[1], e.post.nonce[2]>>
             /\ bal' = <<e.post.bal[1], e.post.bal[2]>>
             /\ pool' = e.pool[2] /\ gu' = e.hdr[2] /\ gr' = e.hdr[4]

\* signature part: one decoded object resolved under a sequence of signers; the model (cache keyed by signer equality)
\* must predict whether the answer is the key holder
TResolve == /\ IsEvent("Resolve")
            /\ LET e == TraceLog[l]
                   s0 == IF e.step = 1 THEN NewObject(e.cls, e.mut) ELSE sig
                   s1 == ResolveOn(s0, e.signer) IN
               /\ sig' = s1
               /\ (s1.res[Len(s1.res)].ans = "same") <=> (e.res = "same")
               /\ (s1.res[Len(s1.res)].ans = "err") => (e.res = "err")
            /\ UNCHANGED <<nonce, bal, pool, gu, gr, mode, dead, last, hist, ver>>

\* object re-use: every operation on the object is replayed on the model's object (sender cache, hash cache, decoders as coded)
TObj == /\ IsEvent("Obj")
        /\ LET e == TraceLog[l]
               s0 == IF e.step = 1 THEN NewObject(e.cls, "none") ELSE sig
               s1 == OpOn(s0, e.op)
               a0 == s1.res[Len(s1.res)].ans
               a == IF a0 = "same" THEN "A" ELSE a0 IN                       \* "same": the holder of key 1, i.e. A's signer
           /\ sig' = s1
           /\ e.op \notin Decoders => ((a = "A") <=> (e.res = "A")) /\ ((a = "B") <=> (e.res = "B")) /\ ((a = "err") => (e.res = "err"))
        /\ UNCHANGED <<nonce, bal, pool, gu, gr, mode, dead, last, hist, ver>>

\* V sweep: the answer for every presented V is the one YouSigner.Sender's rule gives
TSenderV == /\ IsEvent("SenderV")
            /\ LET e == TraceLog[l]  a == RecoverV(e.net, e.v, e.orig) IN
               /\ (a = "same") <=> (e.res = "same")
               /\ (a = "err") => (e.res = "err")
            /\ UNCHANGED vars

\* big-number stage: the class decides the kind of outcome
TApplyBig == /\ IsEvent("ApplyBig")
             /\ LET e == TraceLog[l] IN
                BigExpect(e.cls) = (CASE e.err = "" -> "applied" [] e.err = "gas_funds" -> "refused_funds"
                                      [] e.err = "transfer" -> "error_transfer" [] OTHER -> e.err)
             /\ UNCHANGED vars

TInit == Init /\ l = 1 /\ TLCSet(1, 0)
TNext == TReset \/ TBegin \/ TApply \/ TResolve \/ TSenderV \/ TApplyBig \/ TObj
TSpec == TInit /\ [][TNext]_tvars

HighWater == /\ TLCSet(1, IF TLCGet(1) < l THEN l ELSE TLCGet(1))
             /\ ((l = Len(TraceLog) + 1) => PrintT("@@J " \o ToJson([kind |-> "ACCEPTED", events |-> Len(TraceLog)])))
Accepted == IF TLCGet(1) = Len(TraceLog) + 1 THEN TRUE
            ELSE PrintT("@@J " \o ToJson([kind |-> "REJECTED", line |-> TLCGet(1), event |-> TraceLog[TLCGet(1)]]))
=============================================================================
