-------------------------- MODULE StateCommit_Trace --------------------------
(***************************************************************************)
(* Conformance of the real StateDB to the design layer of StateCommit.tla: *)
(* every recorded event is re-executed as the model action of the same     *)
(* name; at every control point the model's live content must equal the    *)
(* dump of the real live object (`live` at Root/Commit/Reload, `orig` at   *)
(* Copy/CopySwap, the first of `enddumps` at End), and an unreadable copy  *)
(* must be predicted.  A rejection is DRIFT, never a violation.            *)
(***************************************************************************)
EXTENDS StateCommit

TraceLog == ndJsonDeserialize("trace.ndjson")
VARIABLE l
tvars == <<vars, l>>

RangeOf(q) == { q[i] : i \in DOMAIN q }

AccMatches(d, r) == /\ d[1] = r.bal /\ d[2] = r.nonce /\ d[3] = r.code /\ d[4] = r.s1 /\ d[5] = r.s2 /\ d[6] = r.dbal
                    /\ RangeOf(d[7]) = r.to
ValMatches(d, r) ==
   IF ~r.ex THEN d[1] = 0
   ELSE /\ d[1] = 1 /\ d[2] = r.st + r.dl /\ d[3] = (r.st \div Unit) + (r.dl \div Unit) /\ d[4] = r.st /\ d[5] = r.st \div Unit
        /\ d[6] = r.dl /\ d[7] = r.dl \div Unit /\ d[8] = (IF r.dl > 0 THEN 1 ELSE 0)
\* statistics and index are derived: every validator of this fixture is offline; 1 = chamber, 2 = house
Tok(r) == IF r.ex THEN r.st + r.dl ELSE 0
Stk(r) == IF r.ex THEN (r.st \div Unit) + (r.dl \div Unit) ELSE 0
Cnt(r) == IF r.ex THEN 1 ELSE 0
StatOf(f) == <<0, 0, 0, Stk(f[1]) + Stk(f[2]), Tok(f[1]) + Tok(f[2]), Cnt(f[1]) + Cnt(f[2]),
               0, 0, 0, Stk(f[1]), Tok(f[1]), Cnt(f[1]),
               0, 0, 0, Stk(f[2]), Tok(f[2]), Cnt(f[2])>>

\* dump d = <<accounts, validators, stat, index, queue, records, relations, error>> against the model's content
DumpMatches(d, A, V, Q, R, L) ==
   /\ d[8] = ""
   /\ \A a \in Accts : AccMatches(d[1][a], A[a])
   /\ \A v \in Vals : ValMatches(d[2][v], V[v])
   /\ d[3] = StatOf(V)
   /\ RangeOf(d[4]) = { v \in Vals : V[v].ex }
   /\ d[5] = Q
   /\ { <<d[6][k][1], d[6][k][2], d[6][k][3], d[6][k][4]>> : k \in DOMAIN d[6] }
        = { <<k[1], k[2], R[k].val, R[k].tx>> : k \in { j \in RecKeys : R[j].ex } }
   /\ { <<d[7][k][1], d[7][k][2]>> : k \in DOMAIN d[7] } = L

IsEvent(name) == l <= Len(TraceLog) /\ TraceLog[l].ev = name /\ l' = l + 1

TReset == /\ (IsEvent("reset") \/ IsEvent("abort"))
          /\ acc' = [a \in Accts |-> ZeroAcc] /\ val' = [v \in Vals |-> NoVal] /\ wq' = <<>>
          /\ rec' = [k \in RecKeys |-> NoRec] /\ rel' = {}
          /\ tacc' = [a \in Accts |-> ZeroAcc] /\ tval' = [v \in Vals |-> NoVal] /\ twq' = <<>>
          /\ trec' = [k \in RecKeys |-> NoRec] /\ trel' = {}
          /\ blobs' = [code |-> {}, dl |-> {}, st |-> {}]
          /\ dAcc' = {} /\ oDirty' = {} /\ dCode' = {} /\ dDl' = {} /\ dVal' = {} /\ dRec' = {} /\ dRel' = FALSE /\ jd' = {} /\ unex' = {} /\ nod' = {} /\ zomb' = {}
          /\ dsk' = [tr |-> <<[a \in Accts |-> ZeroAcc], [v \in Vals |-> NoVal], <<>>, [k \in RecKeys |-> NoRec], {}>>,
                     blobs |-> [code |-> {}, dl |-> {}, st |-> {}]]
          /\ cacc' = [a \in Accts |-> ZeroAcc] /\ fl' = TRUE /\ garb' = FALSE /\ fo' = FALSE
          /\ ch' = <<>> /\ orec' = [k \in RecKeys |-> NoRec] /\ hasOther' = FALSE
          /\ clean' = "commit" /\ copyOk' = TRUE /\ failed' = FALSE /\ hist' = <<>>

Act(e) == LET a == e.args IN
   CASE e.ev = "AddBalance" -> AddBalance(a.a, a.d)
     [] e.ev = "SubBalance" -> SubBalance(a.a, a.d)
     [] e.ev = "SetNonce"   -> SetNonce(a.a, a.d)
     [] e.ev = "SetCode"    -> SetCode(a.a, a.d)
     [] e.ev = "SetState"   -> SetState(a.a, a.s, a.d)
     [] e.ev = "CreateValidator" -> CreateValidator(a.v, a.d)
     [] e.ev = "Deposit"    -> Deposit(a.v, a.d)
     [] e.ev = "WithdrawAll" -> WithdrawAll(a.v)
     [] e.ev = "Delegate"   -> Delegate(a.v, a.d)
     [] e.ev = "AddWithdraw" -> AddWithdraw(a.r)
     [] e.ev = "RemoveWithdraw" -> RemoveWithdraw(a.r)
     [] e.ev = "AddRecord"  -> AddRecord(a.a, a.v, a.h, a.d)
     [] e.ev = "AddRel"     -> AddRel(a.a, a.v)
     [] e.ev = "Finalise"   -> Finalise
     [] e.ev = "Root"       -> Root /\ DumpMatches(e.live, acc', val', wq', rec', rel')
     [] e.ev = "Commit"     -> Commit /\ DumpMatches(e.live, acc', val', wq', rec', rel')
     [] e.ev = "Reload" /\ "blind" \in DOMAIN e -> Reload /\ DumpMatches(e.re, acc', val', wq', rec', rel')
     [] e.ev = "CopySwap" /\ "blind" \in DOMAIN e -> CopyStep("CopySwap")
     [] e.ev = "Reload"     -> Reload /\ DumpMatches(e.live, acc', val', wq', rec', rel')
     [] e.ev = "Copy"       -> CopyStep("Copy") /\ DumpMatches(e.orig, acc, val, wq, rec, rel) /\ (copyOk' <=> e.copy = e.orig)
     [] e.ev = "CopySwap"   -> CopyStep("CopySwap") /\ DumpMatches(e.orig, acc, val, wq, rec, rel) /\ (copyOk' <=> e.copy = e.orig)
     [] e.ev = "Flush"      -> Flush /\ DumpMatches(e.disk, acc, val, wq, rec, rel)
     [] e.ev = "GC"         -> GC
     [] e.ev = "ReadComp"   -> ReadComp(a.d)
     [] e.ev = "ResetStaking" -> ResetStaking
     [] e.ev = "ReadRecord" -> ReadRecord(a.a, a.v)
     [] e.ev = "Restart"    -> Restart /\ DumpMatches(e.live, acc', val', wq', rec', rel')
     [] e.ev = "ReloadOld"  -> ReloadOld(a.d) /\ LET c == ch[Len(ch) - a.d + 1] IN DumpMatches(e.re, c[1], c[2], c[3], c[4], c[5])
     [] e.ev = "AddRecordOther" -> /\ AddRecordOther(a.a, a.v, a.h, a.d)
                                   /\ LET d == e.fz[Len(e.fz)] IN
                                      { <<d[6][k][1], d[6][k][2], d[6][k][3], d[6][k][4]>> : k \in DOMAIN d[6] }
                                        = { <<k[1], k[2], orec'[k].val, orec'[k].tx>> : k \in { j \in RecKeys : orec'[j].ex } }
     [] OTHER -> FALSE

\* the end marker of a behaviour: the main object's final dump (after a last root computation) against the model
TEnd == /\ IsEvent("End")
        /\ LET e == TraceLog[l] IN
           failed \/ "enddumps" \notin DOMAIN e
             \/ DumpMatches(e.enddumps[1], NormAcc(acc, jd), NormVal(val, dVal), wq, rec, rel)
        /\ UNCHANGED vars

TStep == /\ l <= Len(TraceLog)
         /\ TraceLog[l].ev \notin {"reset", "abort", "End"}
         /\ l' = l + 1
         /\ "panic" \notin DOMAIN TraceLog[l]
         /\ Act(TraceLog[l])

TInit == Init /\ l = 1 /\ TLCSet(1, 0)
TNext == TReset \/ TStep \/ TEnd
TSpec == TInit /\ [][TNext]_tvars

HighWater == /\ TLCSet(1, IF TLCGet(1) < l THEN l ELSE TLCGet(1))
             /\ ((l = Len(TraceLog) + 1) => PrintT("@@J " \o ToJson([kind |-> "ACCEPTED", events |-> Len(TraceLog)])))
Accepted == IF TLCGet(1) = Len(TraceLog) + 1 THEN TRUE
            ELSE PrintT("@@J " \o ToJson([kind |-> "REJECTED", line |-> TLCGet(1), event |-> TraceLog[TLCGet(1)]]))
=============================================================================
