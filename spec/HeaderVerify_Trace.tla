------------------------- MODULE HeaderVerify_Trace -------------------------
(***************************************************************************)
(* C01 conformance (drift): the verdict of the real verifier on every      *)
(* recorded header description equals CodeAccepts, the design layer        *)
(* transcribed from consensus.go (HeaderVerifyDefs); the three entry       *)
(* points agree.  A mismatch is reported as DRIFT, never as a violation.   *)
(***************************************************************************)
EXTENDS HeaderVerifyDefs

TraceLog == ndJsonDeserialize("trace.ndjson")
Fixtures == JsonDeserialize("fixtures.json")
VARIABLE l

Conforms(e) ==
   LET c == CodeAccepts(Fixtures[e.desc.cfg], e.desc)
       core == CodeAcceptsCore(Fixtures[e.desc.cfg], e.desc) IN
   /\ e.seal = c
   /\ ("hdr" \in DOMAIN e) => (e.hdr = c)
   /\ ("side" \in DOMAIN e) => (e.side = core)          \* its caller hands over the readers: the chain is not asked
   /\ ("hdrs" \in DOMAIN e) => (e.hdrs = c)
   \* the same entry points when the stub chain already stores the honest header of this number
   /\ ("sealK" \in DOMAIN e) => (e.sealK = c)
   /\ ("sideK" \in DOMAIN e) => (e.sideK = core)
   /\ ("hdrK" \in DOMAIN e) => (e.hdrK = CodeAcceptsKnown(Fixtures[e.desc.cfg], e.desc))
   /\ ("hdrsK" \in DOMAIN e) => (e.hdrsK = CodeAcceptsKnown(Fixtures[e.desc.cfg], e.desc))
   /\ ("acK" \in DOMAIN e) => (e.acK = CodeAcceptsAC(Fixtures[e.desc.cfg], e.desc))
   /\ ("ac" \in DOMAIN e) => (e.ac = CodeAcceptsAC(Fixtures[e.desc.cfg], e.desc))

TInit == l = 1 /\ TLCSet(1, 0)
TNext == /\ l <= Len(TraceLog)
         /\ l' = l + 1
         /\ LET e == TraceLog[l] IN (e.ev = "Verify" /\ "skip" \notin DOMAIN e) => Conforms(e)
TSpec == TInit /\ [][TNext]_l

HighWater == /\ TLCSet(1, IF TLCGet(1) < l THEN l ELSE TLCGet(1))
             /\ ((l = Len(TraceLog) + 1) => PrintT("@@J " \o ToJson([kind |-> "ACCEPTED", events |-> Len(TraceLog)])))
Accepted == IF TLCGet(1) = Len(TraceLog) + 1 THEN TRUE
            ELSE PrintT("@@J " \o ToJson([kind |-> "REJECTED", line |-> TLCGet(1), event |-> TraceLog[TLCGet(1)],
                                          model |-> CodeAccepts(Fixtures[TraceLog[TLCGet(1)].desc.cfg], TraceLog[TLCGet(1)].desc)]))
=============================================================================
