-------------------------- MODULE HeaderVerify_Mon --------------------------
(***************************************************************************)
(* C01 property-layer monitor (the verdict) over traces recorded from the  *)
(* real header verifier.  One "Verify" line = one header description that  *)
(* the driver built with real keys and handed to VerifySeal / VerifyHeader *)
(* / VerifySideChainHeader; `accept` is true when any of them returned nil.*)
(* The monitor cannot reject a trace.  For every ACCEPTED header it        *)
(* evaluates, from the description alone (HeaderVerifyDefs, property       *)
(* layer), the clauses of the statement:                                   *)
(*   VotersEntitled, DistinctVoters, CredentialBinds, SignatureOverBlock,  *)
(*   CommitteeSizeFromProtocol, QuorumReached   realAccept => clause       *)
(*   ProposerCredential                          realAccept => clause      *)
(* and accumulates <<clause, class, line>> for every failing one.          *)
(* (CertificateQuorum: round 1 of the fixture is not a certificate round;  *)
(* not reachable in this fixture.)                                         *)
(***************************************************************************)
EXTENDS HeaderVerifyDefs

TraceLog == ndJsonDeserialize("trace.ndjson")
Fixtures == JsonDeserialize("fixtures.json")
KnownJson == JsonDeserialize("known.json")
K == { KnownJson[i].signature : i \in DOMAIN KnownJson }

VARIABLES l, viol, fired
vars == <<l, viol, fired>>

Clauses == VoteClauses \cup {"ProposerCredential"}
\* fired[clause]     = headers presented to the real verifier in which a class of the clause occurs (accepted or not)
\* fired[acc_clause] = ... of them accepted (the clause's antecedent held on a header it has something to say about)
Keys == {"Accepted", "Rejected", "Panicked"} \cup Clauses \cup { "acc_" \o c : c \in Clauses }

Touched(F, h) == { ClauseOf(c) : c \in Present(F, h) }
                 \cup (IF PLab(F, h) # {} THEN {"ProposerCredential"} ELSE {})
                 \cup (IF ~VotesEntitled(F, h) THEN {"QuorumReached"} ELSE {})

Init == l = 1 /\ viol = {} /\ fired = [k \in Keys |-> 0]

Step ==
   /\ l <= Len(TraceLog)
   /\ l' = l + 1
   /\ LET e == TraceLog[l] IN
      IF e.ev # "Verify" \/ "skip" \in DOMAIN e THEN UNCHANGED <<viol, fired>>
      ELSE LET F == Fixtures[e.desc.cfg]
               h == e.desc
               t == Touched(F, h)
               hit == t \cup (IF e.accept THEN { "acc_" \o c : c \in t } \cup {"Accepted"}
                              ELSE {"Rejected"} \cup (IF "panic" \in DOMAIN e THEN {"Panicked"} ELSE {})) IN
           /\ fired' = [k \in Keys |-> fired[k] + (IF k \in hit THEN 1 ELSE 0)]
           /\ viol' = IF e.accept THEN viol \cup { <<f[1], f[2], l>> : f \in Fail(F, h, K) } ELSE viol

Spec == Init /\ [][Step]_vars

Done == (l = Len(TraceLog) + 1) =>
          PrintT("@@J " \o ToJson([kind |-> "RESULT", events |-> Len(TraceLog), viol |-> viol, fired |-> fired]))
=============================================================================
