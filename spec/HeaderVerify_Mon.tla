-------------------------- MODULE HeaderVerify_Mon --------------------------
(***************************************************************************)
(* C01 property-layer monitor (the verdict) over traces recorded from the  *)
(* real header verifier.  One "Verify" line = one header description that  *)
(* the driver built with real keys and handed to VerifySeal / VerifyHeader *)
(* / VerifySideChainHeader; `accept` is true when any of them returned nil.*)
(* The monitor cannot reject a trace.  For every ACCEPTED header it        *)
(* evaluates, from the description alone (HeaderVerifyDefs, property       *)
(* layer), the clauses of the statement:                                   *)
(*   VotersEntitled, DistinctVoters, CredentialBinds, SignatureOverBlock,  *)
(*   CommitteeSizeFromProtocol, QuorumReached   realAccept => clause       *)
(*   ProposerCredential                          realAccept => clause      *)
(* and accumulates <<clause, class, line>> for every failing one.          *)
(*   CertificateQuorum (certificate rounds)      realAccept => clause      *)
(*   AcCertificateQuorum    acAccept (VerifyAcHeader) => clause            *)
(***************************************************************************)
EXTENDS HeaderVerifyDefs

TraceLog == ndJsonDeserialize("trace.ndjson")
Fixtures == JsonDeserialize("fixtures.json")
KnownJson == JsonDeserialize("known.json")
K == { KnownJson[i].signature : i \in DOMAIN KnownJson }

VARIABLES l, viol, fired
vars == <<l, viol, fired>>

Clauses == VoteClauses \cup {"ProposerCredential", "CertificateQuorum", "AcCertificateQuorum"}
\* fired[clause]     = headers presented to the real verifier in which a class of the clause occurs (accepted or not)
\* fired[acc_clause] = ... of them accepted (the clause's antecedent held on a header it has something to say about)
Keys == {"Accepted", "Rejected", "Panicked", "AcAccepted", "AcRejected"} \cup Clauses \cup { "acc_" \o c : c \in Clauses }

Touched(F, h) == { ClauseOf(c) : c \in Present(F, VX(F, h, "pre")) }
                 \cup (IF PLab(F, h) # {} THEN {"ProposerCredential"} ELSE {})
                 \cup (IF ~VotesEntitled(F, h) THEN {"QuorumReached"} ELSE {})
                 \cup (IF F.certRound /\ (~CertEntitled(F, h) \/ Present(F, VX(F, h, "cert")) # {}) THEN {"CertificateQuorum"} ELSE {})
TouchedAC(F, h) == IF F.certRound /\ (~AcEntitled(F, h) \/ Present(F, VX(F, h, "ac")) # {}) THEN {"AcCertificateQuorum"} ELSE {}

Init == l = 1 /\ viol = {} /\ fired = [k \in Keys |-> 0]

\* realAccept => clause, for the full verifier (VerifySeal / VerifyHeader / VerifySideChainHeader) and, at certificate rounds,
\* acAccept => AcCertificateQuorum for the light-client path VerifyAcHeader (which verifies the CHT certificates only)
Step ==
   /\ l <= Len(TraceLog)
   /\ l' = l + 1
   /\ LET e == TraceLog[l] IN
      IF e.ev # "Verify" \/ "skip" \in DOMAIN e THEN UNCHANGED <<viol, fired>>
      ELSE LET F == Fixtures[e.desc.cfg]
               h == e.desc
               t == Touched(F, h)
               hasAc == "ac" \in DOMAIN e
               tac == IF hasAc THEN TouchedAC(F, h) ELSE {}
               hit == t \cup (IF e.accept THEN { "acc_" \o c : c \in t } \cup {"Accepted"}
                              ELSE {"Rejected"} \cup (IF "panic" \in DOMAIN e THEN {"Panicked"} ELSE {}))
                        \cup tac \cup (IF hasAc THEN (IF e.ac THEN { "acc_" \o c : c \in tac } \cup {"AcAccepted"} ELSE {"AcRejected"}) ELSE {}) IN
           /\ fired' = [k \in Keys |-> fired[k] + (IF k \in hit THEN 1 ELSE 0)]
           /\ viol' = viol \cup (IF e.accept THEN { <<f[1], f[2], l>> : f \in Fail(F, h, K) } ELSE {})
                            \cup (IF hasAc /\ e.ac THEN { <<f[1], f[2], l>> : f \in FailAC(F, h, K) } ELSE {})

Spec == Init /\ [][Step]_vars

Done == (l = Len(TraceLog) + 1) =>
          PrintT("@@J " \o ToJson([kind |-> "RESULT", events |-> Len(TraceLog), viol |-> viol, fired |-> fired]))
=============================================================================
