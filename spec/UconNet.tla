------------------------------ MODULE UconNet ------------------------------
(***************************************************************************)
(* Growth beyond the listed properties (DESIGN.md section 6): the          *)
(* composition of several honest ucon voters, Byzantine senders and an     *)
(* unreliable network, for ONE consensus round.                            *)
(*                                                                         *)
(* Each honest node is the design layer of Voter.tla / VoteCount.tla in an *)
(* abstracted form: round index, step, the latches precommitted /          *)
(* committed, the marked blocks curMarked / nextMarked / nextVoted with    *)
(* setMarkedBlock as coded (nextVoted is set when the next-index vote      *)
(* FAILED, voter.go:688; Lock = "carry" models the presumably intended     *)
(* reading), at most two next-index votes per index (VoteDB), and the      *)
(* tallies of the current index: first vote per sender and kind, a sender  *)
(* seen with two blocks loses its weight (votes_mgr.go:95), quorum =       *)
(* floor(QNum/1000 * T) with the weights of a table (sortition weight =    *)
(* stake as in the degenerate fixture).  Prevote quorum -> own precommit,  *)
(* precommit quorum -> commit (judgeVoteCount, no certificate round).      *)
(*                                                                         *)
(* Network: `msgs` is the set of all votes honest nodes have sent; a       *)
(* message can be delivered to any node at any time, any number of times,  *)
(* or never (loss, reordering, duplication).  Only votes of the receiver's *)
(* current index act (older ones only update headers, future ones are      *)
(* cached and replayed when the index starts -- subsumed by reordering).   *)
(* Byzantine senders: any vote (kind, index, block) from a member of Byz   *)
(* can be delivered to any node at any time (equivocation, selective       *)
(* delivery).  Proposals: any block may become a candidate of any node at  *)
(* any index (adversarial proposers); a node prevotes its locked block or  *)
(* the candidate with the highest priority.  An index ends by timeout.     *)
(*                                                                         *)
(* Sync = TRUE is the partially synchronous period (from the start: the    *)
(* global stabilisation time has passed): a node prevotes only when all    *)
(* proposals have arrived and times out only when the index is quiescent   *)
(* (every honest node at the index has taken its steps and every vote sent *)
(* at the index was delivered to all of them); with weak fairness of the   *)
(* steps and of every delivery this is the liveness configuration.         *)
(***************************************************************************)
EXTENDS Integers, FiniteSets, TLC

CONSTANTS Honest, Byz,   \* node numbers 1..N, disjoint
          WSel,          \* row of the weight table
          QNum,          \* quorum fraction in thousandths (685 in the code)
          Blocks, MaxI,
          Lock,          \* "asCoded" | "carry"
          ByzMode,       \* "explicit": Byzantine votes are delivered and tallied like any other vote;
                         \* "help": they are not stored -- the adversary lends the Byzantine weight to a (kind, block) at a node
                         \* whenever that completes a quorum (exact here: a node reacts at most once per kind and index, and an
                         \* equivocating Byzantine sender never helps itself by being caught)
          TimerOrder,    \* TRUE: an index ends only after the node's own step Precommit (the local timer order: the timeout of an
                         \* index is longer than its steps); FALSE: also at any earlier moment (index change by a quorum of other
                         \* nodes' next-index votes, RoundIndexChangeEvent)
          Sync           \* partially synchronous period (liveness configuration)

Nodes == Honest \cup Byz
Tables == [ safe  |-> <<3, 3, 3, 1>>,    \* T = 10, quorum 6: two quorums share weight 2 > Byzantine weight 1
            byz   |-> <<2, 2, 5>>,       \* T = 9, quorum 6: {1,3} and {2,3} are quorums that share only the Byzantine node 3
            equal |-> <<1, 1, 1, 1>>,    \* with QNum = 500: quorum 2, disjoint honest quorums exist
            three |-> <<1, 1, 1>> ]
W == Tables[WSel]
Sum(S) == LET RECURSIVE F(_) F(X) == IF X = {} THEN 0 ELSE LET x == CHOOSE y \in X : TRUE IN W[x] + F(X \ {x}) IN F(S)
T == Sum(Nodes)
Q == (QNum * T) \div 1000
K2 == {"Prevote", "Precommit"}
Nil == "nil"
E == "E"
Pri == [b \in Blocks |-> IF b = "A" THEN 1 ELSE IF b = "B" THEN 2 ELSE 3]     \* proposal priorities

VARIABLES nd,     \* honest nodes: records, see FreshNode
          msgs,   \* votes sent by honest nodes: [from, k, i, b]
          dlv     \* Sync only: votes delivered, per node
vars == <<nd, msgs, dlv>>

FreshTally == [k \in K2 |-> [s \in Nodes |-> Nil]]
FreshNode == [ idx |-> 1, step |-> 0, pc |-> FALSE, cm |-> Nil, cmI |-> 0,
               cur |-> Nil, nm |-> Nil, nv |-> Nil, nc |-> 0,          \* curMarked, nextMarked, nextVoted, next-index votes cast
               first |-> FreshTally, dbl |-> [k \in K2 |-> {}],          \* tallies of the current index
               out |-> {} ]

Weight(x, k, b) == Sum({ s \in Nodes : x.first[k][s] = b /\ s \notin x.dbl[k] })

\* vote(NextIndex): refused by the VoteDB after two; setMarkedBlock :651
SetMarked(x, b) ==
   IF x.idx = MaxI THEN x            \* reduction: the marks are only read when the next index starts
   ELSE IF x.nv # Nil /\ (x.nv # E \/ x.nv = b \/ b = E) THEN x
   ELSE IF x.step < 4 THEN (IF x.nm = Nil /\ b # E THEN [x EXCEPT !.nm = b] ELSE x)
   ELSE IF x.nc < 2 THEN [x EXCEPT !.nc = @ + 1, !.nv = IF Lock = "carry" THEN b ELSE @]
   ELSE [x EXCEPT !.nv = IF Lock = "carry" THEN @ ELSE b]

\* judgeVoteCount :282, precommit quorum: commit
JudgePrecommit(x, b, extra) ==
   IF x.cm = Nil /\ Weight(x, "Precommit", b) + extra >= Q THEN [x EXCEPT !.cm = b, !.cmI = x.idx] ELSE x
\* judgeVoteCount, prevote quorum: own precommit (once), which enters the own tally
JudgePrevote(x, n, b, extra) ==
   IF x.cm = Nil /\ ~x.pc /\ Weight(x, "Prevote", b) + extra >= Q
   THEN LET x1 == [x EXCEPT !.pc = TRUE,
                            !.first["Precommit"][n] = IF @ = Nil THEN b ELSE @,
                            !.out = @ \cup {[from |-> n, k |-> "Precommit", i |-> x.idx, b |-> b]}]
        IN SetMarked(JudgePrecommit(x1, b, 0), b)
   ELSE x

\* processVoteMsg :508 for a vote of the current index (addrVoteInfo / newVote)
Receive(x, n, m) ==
   LET f == x.first[m.k][m.from] IN
   IF m.k = "Prevote" /\ x.pc THEN x     \* reduction: the prevote tally is not read any more once the node has precommitted
   ELSE IF f = Nil THEN LET x1 == [x EXCEPT !.first[m.k][m.from] = m.b] IN
                   IF m.k = "Prevote" THEN JudgePrevote(x1, n, m.b, 0) ELSE JudgePrecommit(x1, m.b, 0)
   ELSE IF f = m.b \/ m.from \in x.dbl[m.k] THEN x
   ELSE [x EXCEPT !.dbl[m.k] = @ \cup {m.from}]            \* equivocator: its first vote no longer counts

Best(S) == CHOOSE b \in S : \A c \in S : Pri[c] <= Pri[b]

Put(n, x) == /\ nd' = [nd EXCEPT ![n] = [x EXCEPT !.out = {}]]
             /\ msgs' = msgs \cup x.out

ByzVotes == IF ByzMode = "explicit" THEN [from : Byz, k : K2, i : 1..MaxI, b : Blocks] ELSE {}
\* the adversary completes a quorum for (k, b) at node n with the Byzantine members' votes
ByzHelp(n, k, b) == LET x == nd[n] IN
   /\ ByzMode = "help" /\ Byz # {} /\ x.cm = Nil
   /\ Weight(x, k, b) < Q /\ Weight(x, k, b) + Sum(Byz) >= Q
   /\ (k = "Prevote") => ~x.pc
   /\ Put(n, IF k = "Prevote" THEN JudgePrevote(x, n, b, Sum(Byz)) ELSE JudgePrecommit(x, b, Sum(Byz)))
   /\ UNCHANGED dlv
AtIndex(i) == { m \in Honest : nd[m].idx = i /\ nd[m].cm = Nil }
Quiescent(i) == \A m \in AtIndex(i) : /\ nd[m].step = 4
                                      /\ \A v \in msgs : (v.i = i /\ v.from # m) => v \in dlv[m]

\* updateContext, step Prevote :251
\* S = the proposals that have reached the node when the step fires (any subset; all of them in the synchronous period)
Step2(n, S) == LET x == nd[n] IN
   /\ x.cm = Nil /\ x.step = 0
   /\ Sync => S = Blocks
   /\ (x.cur \notin {Nil, E}) => S = Blocks             \* a locked node does not read the proposals: one representative
   /\ LET b == IF x.cur \notin {Nil, E} THEN x.cur ELSE IF S = {} THEN Nil ELSE Best(S) IN
      IF b = Nil THEN Put(n, [x EXCEPT !.step = 2])
      ELSE Put(n, JudgePrevote([x EXCEPT !.step = 2, !.first["Prevote"][n] = b,
                                        !.out = {[from |-> n, k |-> "Prevote", i |-> x.idx, b |-> b]}], n, b, 0))
   /\ UNCHANGED dlv

\* updateContext, step Precommit/Certificate :267 -- next-index vote for the marked block or the empty hash
Step4(n) == LET x == nd[n] IN
   /\ x.cm = Nil /\ x.step < 4 /\ (Sync => x.step = 2)
   /\ (x.idx = MaxI) => Sync        \* reduction: at the last index the step only matters for the quiescence test
   /\ Put(n, SetMarked([x EXCEPT !.step = 4], IF x.nm = Nil THEN E ELSE x.nm))
   /\ UNCHANGED dlv

Deliver(n, m) == LET x == nd[n] IN
   /\ x.cm = Nil /\ m.i = x.idx /\ m.from # n
   /\ Sync => m \notin dlv[n]
   /\ Put(n, Receive(x, n, m))
   /\ dlv' = IF Sync /\ m.from \in Honest THEN [dlv EXCEPT ![n] = @ \cup {m}] ELSE dlv

\* processTimeout / NextRound :385 and the voter's reset at a new index :203
Timeout(n) == LET x == nd[n] IN
   /\ x.cm = Nil /\ x.idx < MaxI
   /\ TimerOrder => x.step = 4
   /\ Sync => Quiescent(x.idx)
   /\ nd' = [nd EXCEPT ![n] = [FreshNode EXCEPT !.idx = x.idx + 1, !.cur = x.nv]]
   /\ UNCHANGED <<msgs, dlv>>

Init == nd = [n \in Honest |-> FreshNode] /\ msgs = {} /\ dlv = [n \in Honest |-> {}]
Next == \E n \in Honest : \/ Step4(n) \/ Timeout(n)
                          \/ \E S \in SUBSET Blocks : Step2(n, S)
                          \/ \E m \in msgs \cup ByzVotes : Deliver(n, m)
                          \/ \E k \in K2, b \in Blocks : ByzHelp(n, k, b)
Spec == Init /\ [][Next]_vars

\* liveness configuration: weak fairness of every honest step and of the delivery of every honest vote
HonestVotes == [from : Honest, k : K2, i : 1..MaxI, b : Blocks]
Fair == /\ \A n \in Honest : WF_vars(Step2(n, Blocks)) /\ WF_vars(Step4(n)) /\ WF_vars(Timeout(n))
        /\ \A n \in Honest, m \in HonestVotes : WF_vars(m \in msgs /\ Deliver(n, m))
LiveSpec == Spec /\ Fair

(***************************** properties *****************************)
\* no two honest nodes commit different blocks in the round
Agreement == \A n, m \in Honest : (nd[n].cm # Nil /\ nd[m].cm # Nil) => nd[n].cm = nd[m].cm
\* a committed block has a precommit quorum among the votes actually sent (Byzantine members may have sent anything)
CommitHasQuorum == \A n \in Honest : nd[n].cm # Nil =>
                      Sum({ s \in Honest : [from |-> s, k |-> "Precommit", i |-> nd[n].cmI, b |-> nd[n].cm] \in msgs } \cup Byz) >= Q
\* an honest node never sends two different blocks for the same kind and index
HonestNoDoubleVote == \A a, c \in msgs : (a.from = c.from /\ a.k = c.k /\ a.i = c.i) => a.b = c.b
\* an honest node precommits only a block with a prevote quorum among the votes actually sent
PrecommitHasPrevoteQuorum == \A v \in msgs : v.k = "Precommit" =>
                      Sum({ s \in Honest : [from |-> s, k |-> "Prevote", i |-> v.i, b |-> v.b] \in msgs } \cup Byz) >= Q
AllHonestCommitted == \A n \in Honest : nd[n].cm # Nil
Live == <>AllHonestCommitted
=============================================================================
