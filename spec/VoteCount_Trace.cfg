SPECIFICATION TSpec
CONSTANTS
  WSel = "a"
  Blocks = {"A", "B"}
  MaxI = 4
  MaxMsgs = 1000000
  CertRound = FALSE
  Creds = {"ok", "bad"}
  Known = {}
  Replay = {"Prevote", "Precommit"}
  Mode = "G"
  MaxOps = 1000000
CONSTRAINT HighWater
POSTCONDITION Accepted
CHECK_DEADLOCK FALSE
