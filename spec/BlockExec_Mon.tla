--------------------------- MODULE BlockExec_Mon ---------------------------
(***************************************************************************)
(* C06 monitor over traces recorded by harness/drive/blockexec.  The       *)
(* property is an equivalence between runs of the real code, so the        *)
(* comparison of the recorded result records IS the monitor:               *)
(*                                                                         *)
(*  Deterministic     "Executing the same block on the same parent state   *)
(*                     always produces the same state, validator and       *)
(*                     staking roots, receipts, gas used and logs,         *)
(*                     independent of process, map iteration order or      *)
(*                     cache contents": all Rerun(n, k) records of a block *)
(*                     are equal                                           *)
(*  BuilderAccepted   "Every block assembled by the block-building path    *)
(*                     ... is accepted unchanged by the block-import path  *)
(*                     of another node": Imported(n) has no error and      *)
(*                     chain B's head is the block                         *)
(*  ImportReproduces  the import executor reproduces what the builder      *)
(*                     committed to: every Rerun(n, k) and what chain B    *)
(*                     stored equal the Built(n) record                    *)
(*                                                                         *)
(* Events: Built(blk, root, vroot, sroot, rcpt, bloom, gas, gr, sub,       *)
(* slash, logs, stat, nev, nev0, nslash), Rerun(blk, k, on, err, errc,     *)
(* same result fields), Imported(blk, err, errc, head, rcpt, logs, stat).  *)
(* Failures are accumulated with the line and a discriminator; the search  *)
(* never stops early.                                                      *)
(***************************************************************************)
EXTENDS Integers, Sequences, FiniteSets, TLC, Json

TraceLog == ndJsonDeserialize("trace.ndjson")

VARIABLES l, haveB, built, haveR, first, fk, viol, fired
vars == <<l, haveB, built, haveR, first, fk, viol, fired>>
\* fk: since the last Built the importing node was switched to a sibling branch (event Fork, switched): importing the
\* builder's block then makes it switch back and re-adopt the blocks the branch had replaced

\* lidx: the transaction index every log carries (stored with the receipts, not committed to by the receipt trie)
Fields == {"root", "vroot", "sroot", "rcpt", "bloom", "gas", "logs", "stat", "lidx"}
StoredFields == {"rcpt", "logs", "stat", "lidx"}
DiffOn(a, b, fs) == { f \in fs : a[f] # b[f] }

\* the builder's local list accused more validators about the parent round (nev0) than header.SlashData lists (nslash)
Unlisted(b) == (IF b.nev0 > b.nslash THEN {"unlisted_evidence"} ELSE {})
               \* the builder's state object reported a database error (a trie update failed) while the roots were computed
               \cup (IF b.dberr # "" THEN {b.dberr} ELSE {})

\* ---------------------------------------------------------------- blocks assembled by the real miner (Built.miner)
\*  MinerIncludesOnlyExecutable  "a transaction the miner dropped as failed leaves no trace in the block's state" at block
\*  level: what the block contains was offered by the pool; every account's nonce advanced by exactly the number of its
\*  included transactions and these carry the consecutive nonces from the parent state's nonce on; the block holds one
\*  receipt per included transaction plus the staking module's; the header's gas used is the sum of the receipts' and
\*  within the limit; the coinbase is the proposer the engine named.  (That the STATE shows no trace of a dropped
\*  transaction is ImportReproduces: the import executor runs the included transactions only.)
IsMiner(e)    == "miner" \in DOMAIN e
Ids(q)        == { q[i].id : i \in DOMAIN q }
ValOfNV(q, a) == LET S == { i \in DOMAIN q : q[i].a = a } IN IF S = {} THEN 0 ELSE q[CHOOSE i \in S : TRUE].v
Senders(e)    == { e.included[i].a : i \in DOMAIN e.included } \cup { e.nb[i].a : i \in DOMAIN e.nb }
IdxOf(e, a)   == { i \in DOMAIN e.included : e.included[i].a = a }
\* the k-th included transaction of a (in block order) has nonce nb[a] + k - 1
NonceOrder(e, a) == \A i \in IdxOf(e, a) :
                       e.included[i].n = ValOfNV(e.nb, a) + Cardinality({ j \in IdxOf(e, a) : j < i })
MinerBad(e) == (IF Ids(e.included) \subseteq Ids(e.offered) THEN {} ELSE {"not_offered"})
               \cup (IF \A a \in Senders(e) : ValOfNV(e.na, a) = ValOfNV(e.nb, a) + Cardinality(IdxOf(e, a)) THEN {} ELSE {"nonce_trace"})
               \cup (IF \A a \in Senders(e) : NonceOrder(e, a) THEN {} ELSE {"nonce_order"})
               \cup (IF e.nrcpt = e.ntx + 1 THEN {} ELSE {"receipts"})
               \cup (IF e.gas = e.sumgas /\ e.gas <= e.limit THEN {} ELSE {"gas_sum"})
               \cup (IF e.cbok THEN {} ELSE {"coinbase"})

Zero == [Deterministic |-> 0, BuilderAccepted |-> 0, ImportReproduces |-> 0, Aborted |-> 0, PeriodEnds |-> 0, Slashed |-> 0,
         MinerIncludesOnlyExecutable |-> 0, MinerDropped |-> 0, MinerRejected |-> 0, Forks |-> 0, SwitchBacks |-> 0]
Init == l = 1 /\ haveB = FALSE /\ built = 0 /\ haveR = FALSE /\ first = 0 /\ fk = FALSE /\ viol = {} /\ fired = Zero

Step ==
   /\ l <= Len(TraceLog)
   /\ l' = l + 1
   /\ LET e == TraceLog[l] IN
      CASE e.ev = "reset" -> haveB' = FALSE /\ built' = 0 /\ haveR' = FALSE /\ first' = 0 /\ fk' = FALSE /\ UNCHANGED <<viol, fired>>
        [] e.ev \in {"abort", "Panic", "BuildError"} ->
              /\ haveB' = FALSE /\ built' = 0 /\ haveR' = FALSE /\ first' = 0 /\ fk' = FALSE /\ UNCHANGED viol
              /\ fired' = [fired EXCEPT !.Aborted = @ + 1]
        [] e.ev = "Built" ->
              /\ haveB' = TRUE /\ built' = e /\ haveR' = FALSE /\ first' = 0 /\ fk' = FALSE
              /\ viol' = viol \cup (IF IsMiner(e) /\ MinerBad(e) # {}
                                    THEN { <<"MinerIncludesOnlyExecutable", MinerBad(e) \cup Unlisted(e), l>> } ELSE {})
              /\ fired' = [fired EXCEPT !.PeriodEnds = @ + (IF e.pe THEN 1 ELSE 0), !.Slashed = @ + (IF e.nslash > 0 THEN 1 ELSE 0),
                                        !.MinerIncludesOnlyExecutable = @ + (IF IsMiner(e) THEN 1 ELSE 0),
                                        \* offered by the pool and not included: the miner dropped it
                                        !.MinerDropped = @ + (IF IsMiner(e) THEN Cardinality(Ids(e.offered) \ Ids(e.included)) ELSE 0),
                                        !.MinerRejected = @ + (IF IsMiner(e) THEN Len(e.rejected) ELSE 0)]
        [] e.ev = "Rerun" /\ haveB ->
              LET det == IF haveR THEN DiffOn(e, first, Fields \cup {"err"}) ELSE {}
                  rep == IF e.err # "" THEN {"error", e.errc} ELSE DiffOn(e, built, Fields) IN
              /\ haveR' = TRUE /\ first' = IF haveR THEN first ELSE e
              /\ UNCHANGED <<haveB, built, fk>>
              /\ fired' = [fired EXCEPT !.Deterministic = @ + (IF haveR THEN 1 ELSE 0), !.ImportReproduces = @ + 1]
              /\ viol' = viol \cup (IF det # {} THEN { <<"Deterministic", det \cup {"on_" \o e.on} \cup Unlisted(built), l>> } ELSE {})
                              \cup (IF rep # {} THEN { <<"ImportReproduces", rep \cup Unlisted(built), l>> } ELSE {})
        [] e.ev = "Imported" /\ haveB ->
              LET acc == e.err = "" /\ e.head
                  rep == IF acc THEN DiffOn(e, built, StoredFields) ELSE {} IN
              /\ UNCHANGED <<haveB, built, haveR, first, fk>>
              /\ fired' = [fired EXCEPT !.BuilderAccepted = @ + 1, !.ImportReproduces = @ + 1,
                                        !.SwitchBacks = @ + (IF fk /\ acc THEN 1 ELSE 0)]
              \* the block that makes the node switch back is the last one of a staking period: its take-effect phase reads
              \* the pending transactions through the canonical lookup entries, which the switch away has deleted
              /\ viol' = viol \cup (IF ~acc THEN { <<"BuilderAccepted", {IF e.err = "" THEN "not_head" ELSE e.errc} \cup Unlisted(built)
                                                      \cup (IF fk /\ built.pe THEN {"switch_back_at_period_end"} ELSE {}), l>> } ELSE {})
                              \cup (IF rep # {} THEN { <<"ImportReproduces", rep \cup {"stored"}, l>> } ELSE {})
        [] e.ev = "Fork" /\ haveB ->
              \* the sibling branch is assembled by the building path of a second node: it must be accepted as well
              /\ fk' = (fk \/ e.switched)
              /\ UNCHANGED <<haveB, built, haveR, first>>
              /\ fired' = [fired EXCEPT !.Forks = @ + 1]
              /\ viol' = viol \cup (IF e.err # "" \/ ~e.switched
                                    THEN { <<"BuilderAccepted", {"sibling_branch", IF e.err = "" THEN "not_head" ELSE e.errc}, l>> } ELSE {})
        [] OTHER -> UNCHANGED <<haveB, built, haveR, first, fk, viol, fired>>

Spec == Init /\ [][Step]_vars
Done == (l = Len(TraceLog) + 1) =>
          PrintT("@@J " \o ToJson([kind |-> "RESULT", events |-> Len(TraceLog), viol |-> viol, fired |-> fired]))
=============================================================================
