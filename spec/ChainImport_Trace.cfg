SPECIFICATION TSpec
CONSTANTS
  MaxOffers = 100
  MaxCrash = 0
  Atomic = FALSE
  Ucon = FALSE
  GenMode = "none"
CONSTRAINT HighWater
POSTCONDITION Accepted
CHECK_DEADLOCK FALSE
