------------------------------- MODULE Fetcher -------------------------------
(***************************************************************************)
(* C18, announced-block route -- the announce/fetch/import state machine   *)
(* of you/fetcher/fetcher.go.  (This fetcher asks a peer for the whole     *)
(* block by hash -- there is no header/body filtering stage -- and the     *)
(* answer comes back through Enqueue like a propagated block.)             *)
(*                                                                         *)
(* Design layer, one function per event of loop():                         *)
(*   NotifyF    case notification: hashLimit, distance check, "already     *)
(*              fetching", announces++ / announced[hash] append            *)
(*   WaveF      case fetchTimer: every due announce: random origin,        *)
(*              forgetHash, fetching[hash] unless the block is known       *)
(*   ExpireF    top of the loop: fetching entries older than fetchTimeout  *)
(*   EnqueueF   case inject -> enqueue: blockLimit, distance, dedupe       *)
(*   PassF      top of the loop: queued blocks that fit are popped: too old*)
(*              or known -> forgetBlock, otherwise insert() is spawned     *)
(*   ImportF    the goroutine of insert(): parent known?, verifyHeader,    *)
(*              broadcast, insertChain, broadcast; then case done:         *)
(*              forgetHash + forgetBlock                                    *)
(* An action of the generation alphabet is one event followed by Settle    *)
(* (passes and imports until nothing moves), which is how the driver       *)
(* observes the real fetcher (at quiescence).  Hashes nobody can deliver   *)
(* ("junk") are kept as counters per peer.                                 *)
(*                                                                         *)
(* Blocks: 1..N the main chain (number = id, parent id-1, 0 = the known    *)
(* genesis), N+1 a fork block with number ForkAt.  A delivery carries the  *)
(* right body (ok) or a transaction list that does not match the header.   *)
(***************************************************************************)
EXTENDS Integers, Sequences, FiniteSets, TLC, Json

CONSTANTS Peers, N, ForkAt,
          Hon,        \* peers that only announce and deliver the next block of the chain correctly (liveness run; {} otherwise)
          BadHdr,     \* blocks whose header fails verifyHeader
          HL, BL,     \* hashLimit, blockLimit
          UD, QD,     \* maxUncleDist, maxQueueDist
          MaxOps, GenMode,
          Strict,     \* TRUE: invariants are not weakened by the known-finding classes
          BodyCheck,  \* TRUE = enqueue discards a block whose transactions do not match its header (repaired code)
          NegFix      \* TRUE = forgetHash deletes a counter that dropped to or below zero / no double decrement (repaired code)

VARIABLES s, nops, hist
vars == <<s, nops, hist>>

Blocks == 1..(N + 1)
Num(b) == IF b <= N THEN b ELSE ForkAt
Par(b) == IF b <= N THEN b - 1 ELSE ForkAt - 1
None == "none"
NoQ == [o |-> None, ok |-> FALSE]

Max(S) == CHOOSE x \in S : \A y \in S : y <= x
Height(st) == Max({ IF b = 0 THEN 0 ELSE Num(b) : b \in st.known })

Init == /\ s = [known |-> {0}, ann |-> [p \in Peers |-> 0], anns |-> [b \in Blocks |-> <<>>], fet |-> [b \in Blocks |-> None],
                junkA |-> [p \in Peers |-> 0], junkF |-> [p \in Peers |-> 0],
                qd |-> [b \in Blocks |-> NoQ], qs |-> [p \in Peers |-> 0], fl |-> {},
                handed |-> {}, bc |-> {}, dropped |-> {}, nacc |-> [b \in Blocks |-> 0]]
        /\ nops = 0
        /\ hist = IF GenMode = "free" THEN <<>> ELSE <<[op |-> "Init", peers |-> Peers, n |-> N, forkat |-> ForkAt, bad |-> BadHdr]>>

\* GenMode = "free": no bound and no history (liveness run)
Tick(rec) == IF GenMode = "free" THEN nops' = nops /\ hist' = hist
             ELSE nops < MaxOps /\ nops' = nops + 1 /\ hist' = Append(hist, rec)

\* ---------------------------------------------------------------- forgetHash / forgetBlock
Dec(st, p) == [st EXCEPT !.ann[p] = IF NegFix /\ @ <= 0 THEN 0 ELSE @ - 1]
RECURSIVE DecAll(_, _, _)
DecAll(st, q, i) == IF i > Len(q) THEN st ELSE DecAll(Dec(st, q[i]), q, i + 1)

ForgetHash(st, b) ==
   LET s1 == [DecAll(st, st.anns[b], 1) EXCEPT !.anns[b] = <<>>] IN
   IF s1.fet[b] = None THEN s1 ELSE [Dec(s1, s1.fet[b]) EXCEPT !.fet[b] = None]

ForgetBlock(st, b) ==
   IF st.qd[b].o = None THEN st ELSE [st EXCEPT !.qs[st.qd[b].o] = @ - 1, !.qd[b] = NoQ]

\* ---------------------------------------------------------------- events
\* nk: "true" | "zero" (number unknown) | "far" (beyond maxQueueDist);  b = 0 is a hash nobody can deliver
NumberOf(st, b, nk) == CASE nk = "zero" -> 0 [] nk = "far" -> Height(st) + QD + 1 [] OTHER -> IF b = 0 THEN Height(st) + 1 ELSE Num(b)

NotifyF(st, p, b, nk) ==
   LET num == NumberOf(st, b, nk)
       dist == num - Height(st) IN
   IF st.ann[p] + 1 > HL THEN st
   ELSE IF num > 0 /\ (dist < 0 - UD \/ dist > QD) THEN st
   ELSE IF b # 0 /\ st.fet[b] # None THEN st
   ELSE IF b = 0 THEN [st EXCEPT !.ann[p] = @ + 1, !.junkA[p] = @ + 1]
   ELSE [st EXCEPT !.ann[p] = @ + 1, !.anns[b] = Append(@, p)]

\* the fetch timer with every pending announce due: for every hash one of its announcers is asked (rand.Intn)
WaveOne(st, b, i) ==
   LET o == st.anns[b][i]
       s1 == ForgetHash(st, b) IN
   IF b \in s1.known THEN s1 ELSE [s1 EXCEPT !.fet[b] = o]
RECURSIVE WaveSet(_, _)
WaveSet(S, B) ==
   IF B = {} THEN S
   ELSE LET b == CHOOSE x \in B : TRUE IN
        WaveSet(UNION { { WaveOne(st, b, i) : i \in 1..Len(st.anns[b]) } : st \in S }, B \ {b})

JunkWave(st) == [st EXCEPT !.ann = [p \in Peers |-> IF NegFix /\ st.ann[p] - st.junkA[p] < 0 THEN 0 ELSE st.ann[p] - st.junkA[p]],
                           !.junkF = [p \in Peers |-> st.junkF[p] + st.junkA[p]],
                           !.junkA = [p \in Peers |-> 0]]
Due(st) == { b \in Blocks : st.anns[b] # <<>> }
WaveS(st) == WaveSet({JunkWave(st)}, Due(st))

RECURSIVE ExpireB(_, _)
ExpireB(st, B) == IF B = {} THEN st ELSE LET b == CHOOSE x \in B : TRUE IN ExpireB(ForgetHash(st, b), B \ {b})
ExpireF(st) ==
   LET s1 == ExpireB(st, { b \in Blocks : st.fet[b] # None }) IN
   [s1 EXCEPT !.ann = [p \in Peers |-> IF NegFix /\ s1.ann[p] - s1.junkF[p] < 0 THEN 0 ELSE s1.ann[p] - s1.junkF[p]],
              !.junkF = [p \in Peers |-> 0]]

EnqueueF(st, p, b, ok) ==
   LET dist == Num(b) - Height(st) IN
   IF st.qs[p] + 1 > BL THEN ForgetHash(st, b)
   ELSE IF dist < 0 - UD \/ dist > QD THEN ForgetHash(st, b)
   ELSE IF BodyCheck /\ ~ok THEN st
   ELSE IF st.qd[b].o # None THEN st
   ELSE [st EXCEPT !.qs[p] = @ + 1, !.qd[b] = [o |-> p, ok |-> ok]]

\* ---------------------------------------------------------------- import
\* the goroutine of insert() followed by `done`
ImportF(st, b) ==
   LET op == st.qd[b]
       fin(x) == ForgetBlock(ForgetHash(x, b), b) IN
   IF Par(b) \notin st.known THEN fin(st)
   ELSE IF b \in BadHdr THEN fin([st EXCEPT !.dropped = @ \cup {op.o}])
   ELSE LET rec == [b |-> b, ok |-> op.ok, pk |-> TRUE, dup |-> b \in st.known]
            s1 == [st EXCEPT !.bc = @ \cup {[b |-> b, ok |-> op.ok]}, !.handed = @ \cup {rec}]
            acc == op.ok                              \* the importer checks the body
            s2 == IF acc THEN [s1 EXCEPT !.known = @ \cup {b}, !.nacc[b] = IF b \in s1.known THEN @ ELSE @ + 1,
                                         !.bc = @ \cup {[b |-> b, ok |-> op.ok]}] ELSE s1
        IN fin(s2)

\* One pass at the top of the loop: queued blocks that fit are popped lowest number first: too old or known -> forgetBlock,
\* otherwise insert() is spawned (the block is "in flight": it keeps its queued entry until `done`).
Fits(st) == { b \in Blocks : st.qd[b].o # None /\ b \notin st.fl /\ Num(b) <= Height(st) + 1 }
RECURSIVE Pass(_)
Pass(st) ==
   IF Fits(st) = {} THEN st
   ELSE LET b == CHOOSE x \in Fits(st) : \A y \in Fits(st) : Num(x) < Num(y) \/ (Num(x) = Num(y) /\ x <= y) IN
        IF Num(b) + UD < Height(st) \/ b \in st.known THEN Pass(ForgetBlock(st, b))
        ELSE Pass([st EXCEPT !.fl = @ \cup {b}])
\* Imports spawned by one pass run concurrently; each `done` is followed by another pass with the height of that moment.
\* The set of quiescent states over every order in which the imports in flight can finish (a child popped because a sibling
\* of its parent raised the height may run before its parent is in: it is then dropped, as in the code).
RECURSIVE SettleS(_)
SettleS(st) ==
   LET s1 == Pass(st) IN
   IF s1.fl = {} THEN {s1}
   ELSE UNION { SettleS([ImportF(s1, b) EXCEPT !.fl = @ \ {b}]) : b \in s1.fl }

\* ---------------------------------------------------------------- actions
Notify(p, b, nk) ==
   /\ Tick([op |-> "Notify", p |-> p, b |-> b, nk |-> nk])
   /\ s' \in SettleS(NotifyF(s, p, b, nk))
Wave ==
   /\ (Due(s) # {} \/ \E p \in Peers : s.junkA[p] > 0)
   /\ Tick([op |-> "Wave"])
   /\ \E w \in WaveS(s) : s' \in SettleS(w)
Expire ==
   /\ (\E b \in Blocks : s.fet[b] # None) \/ (\E p \in Peers : s.junkF[p] > 0)
   /\ Tick([op |-> "Expire"])
   /\ s' \in SettleS(ExpireF(s))
Deliver(p, b, ok) ==
   /\ Tick([op |-> "Deliver", p |-> p, b |-> b, ok |-> ok])
   /\ s' \in SettleS(EnqueueF(s, p, b, ok))

\* the lowest block of the main chain that is not known yet (N + 1 when the chain is complete)
NextWanted == IF (1..N) \subseteq s.known THEN N + 1 ELSE CHOOSE b \in 1..N : b \notin s.known /\ \A c \in 1..N : c \notin s.known => b <= c
HonestStep(p) == NextWanted <= N /\ (Notify(p, NextWanted, "true") \/ Deliver(p, NextWanted, TRUE))
Next ==
   \/ \E p \in Peers \ Hon, b \in Blocks \cup {0}, nk \in {"true", "zero", "far"} : Notify(p, b, nk)
   \/ Wave \/ Expire
   \/ \E p \in Peers \ Hon, b \in Blocks, ok \in BOOLEAN : Deliver(p, b, ok)
   \/ \E p \in Hon : HonestStep(p)
Spec == Init /\ [][Next]_vars

\* ---------------------------------------------------------------- property layer
Cex(name) == PrintT("@@J " \o ToJson([kind |-> "CEX", clause |-> name, h |-> hist])) /\ FALSE
SeqSet(q) == { q[i] : i \in DOMAIN q }

\* "each exactly once": no block is accepted twice and none is handed over when it is already in the chain
ImportedOnce == (\A b \in Blocks : s.nacc[b] <= 1) /\ (\A h \in s.handed : ~h.dup)
\* a block reaches the importer only when its parent is known
ParentBeforeChild == \A h \in s.handed : h.pk
\* "only with a transaction list that matches the header's transaction root" (importer and broadcast)
BodyMatchesHeader == Strict => ((\A h \in s.handed : h.ok) /\ (\A h \in s.bc : h.ok))
\* nothing with a failing header is broadcast or imported; the sender is dropped
NoImportOfUnverified == /\ \A h \in s.handed \cup s.bc : h.b \notin BadHdr
\* the per-peer counters stay within their limits and do not leak
Idle(st, p) == st.junkA[p] = 0 /\ st.junkF[p] = 0 /\ (\A b \in Blocks : st.fet[b] # p /\ \A i \in DOMAIN st.anns[b] : st.anns[b][i] # p)
BoundedState ==
   \A p \in Peers : /\ s.ann[p] <= HL /\ s.qs[p] <= BL /\ s.qs[p] >= 0
                    /\ (Strict => s.ann[p] >= 0)
                    /\ (Strict => (Idle(s, p) => s.ann[p] = 0))
                    /\ ((\A b \in Blocks : s.qd[b].o # p) => s.qs[p] = 0)
I_Once   == ImportedOnce \/ Cex("FetcherImportedOnce")
I_Parent == ParentBeforeChild \/ Cex("FetcherParentBeforeChild")
I_Body   == BodyMatchesHeader \/ Cex("FetcherBodyMatchesHeader")
I_Verif  == NoImportOfUnverified \/ Cex("FetcherNoImportOfUnverified")
I_Bound  == BoundedState \/ Cex("FetcherBoundedState")

\* liveness: "a block announced by an honest peer whose parent is known is eventually imported even if other peers
\* misbehave": the honest peer's delivery of the next block is fair
LiveSpec == Init /\ [][Next]_vars /\ \A p \in Hon : WF_vars(NextWanted <= N /\ Deliver(p, NextWanted, TRUE))
AllImported == (1..N) \subseteq s.known
Completes == <>AllImported

Leaf == (GenMode = "leaf" /\ nops = MaxOps) => PrintT("@@J " \o ToJson([kind |-> "B", h |-> hist]))
View == <<s, nops>>
=============================================================================
