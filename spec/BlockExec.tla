----------------------------- MODULE BlockExec -----------------------------
(***************************************************************************)
(* C06 -- builder and validator agree (design model).                      *)
(*                                                                         *)
(* A block PROGRAM is what a proposer has in hand: a list of offered       *)
(* transactions (some of which will be refused) and the double-sign        *)
(* evidences in its local evidence list.  Two actions execute a program    *)
(* through the SAME abstract transition function:                          *)
(*   Build   miner/worker.go commitNewWork: per transaction snapshot /     *)
(*           ApplyTransaction / revert (a refused transaction is skipped), *)
(*           EndBlock(isSeal=true) -> staking.slashing over the LOCAL      *)
(*           evidence list, header.SlashData := confirmed evidences,       *)
(*           FinalizeAndAssemble (roots := digest of the state)            *)
(*   Import  core/state_processor.go Process: every included transaction   *)
(*           must apply, EndBlock(isSeal=false) -> staking.replaySlashing  *)
(*           over header.SlashData; block_validator.go ValidateState       *)
(*           compares the digest                                           *)
(* The two paths differ only in where the evidences come from and in the   *)
(* header fields the builder writes and the validator reads.  As coded     *)
(* (processDoubleSignV5 + doPenalize) an evidence whose penalty rounds to  *)
(* zero still expels the validator but is NOT listed in SlashData          *)
(* (ZeroPenaltyUnlisted = TRUE); FALSE is the repaired rule.               *)
(*                                                                         *)
(* Property layer: BuilderAccepted -- Import(Build(p)) succeeds and        *)
(* reproduces the builder's state digest.  The same module prints the      *)
(* programs as histories for the driver harness/drive/blockexec.           *)
(***************************************************************************)
EXTENDS Integers, Sequences, FiniteSets, TLC, Json

CONSTANTS Period,               \* staking period (withdrawals take effect at its last block)
          MaxBlocks, MaxTx, MaxEv,
          Frac,                 \* PenaltyFractionForDoubleSign (percent)
          ZeroPenaltyUnlisted,
          MaxFlips,             \* fork switches of the importing node per history
          ReorgRewritesLookups, \* TRUE as coded: reorg() rewrites the tx lookup entries of every re-adopted block
          ExecBeforeSwitchBack, \* TRUE as coded: the block that makes a node switch back is executed while the lookup entries of
                                \* the blocks to re-adopt are still deleted; FALSE (repaired) = pending transactions are found
                                \* through the block's own ancestry
          SwitchAt,             \* block in which the header's protocol version switches (0 = never)
          RoundBack,            \* the parameters of round n are those of the version of header n - RoundBack (VersionForRound)
          ParamsPerBlock,       \* TRUE as coded: the importing node resolves the parameters for every block it processes; FALSE = it
                                \* keeps them across the blocks of one InsertChain call and refreshes them only when the HEADER
                                \* version changes
          GenMode

\* protocol parameters in force for round num: 1 before, 2 from SwitchAt + RoundBack on
PV(num) == IF SwitchAt > 0 /\ num >= SwitchAt + RoundBack THEN 2 ELSE 1

Accused == {"g2", "g3"}                     \* validators an evidence can name (g1 proposes)
Tok0(v) == IF v = "g2" THEN 505 ELSE 300
Min(a, b) == IF a < b THEN a ELSE b

VARIABLES sa, sb,     \* abstract state of the builder's chain A and of the importing chain B
          n,          \* number of the block under construction
          evs,        \* the builder's local evidence list: sequence of [v, round]
          prog,       \* program of the block under construction: [txs, ev]
          phase,      \* "offer" | "built" | "done"
          hdr,        \* header of the block just built
          ok,         \* the importer accepted every block so far
          look,       \* importing node: numbers of the canonical blocks whose transactions have lookup entries
          flips,      \* fork switches so far
          held,       \* importing node: the parameters it holds in the current InsertChain batch (0 = a new batch starts)
          hist
vars == <<sa, sb, n, evs, prog, phase, hdr, ok, look, flips, held, hist>>

InitS == [tok |-> [v \in Accused |-> Tok0(v)], on |-> [v \in Accused |-> TRUE], expl |-> [v \in Accused |-> FALSE],
          pen |-> 0, fees |-> 0, pend |-> <<>>]

Tx(k, a, b, v, x) == [k |-> k, a |-> a, b |-> b, v |-> v, x |-> x, p |-> 1, f |-> 0, c |-> 0, r |-> 0]
\* the abstract alphabet: a plain transfer, a refused transaction, withdrawals that leave g2 with a dust stake
\* "widegas" is a transfer whose gas LIMIT is nearly the block's gas limit (gas-limit class "near"; a transfer's own limit
\* is exact)
Offers == (IF SwitchAt > 0 THEN { Tx("create", "n1", "n1", "n1", 15) } ELSE {}) \cup
          { Tx("transfer", "u1", "u2", "g1", 5), Tx("badnonce", "u1", "u2", "g1", 1), Tx("widegas", "u2", "u1", "g1", 3),
            Tx("withdraw", "g2", "u1", "g2", 470), Tx("withdraw", "g3", "u1", "g3", 100) }
RefusedTx(t) == t.k = "badnonce"

\* ---------------------------------------------------------------- the shared transition function
\* a pending staking transaction is remembered by its hash only (staking record); num = the block that contains it
\* "create" stands for everything whose execution depends on the parameters in force (a validator creation costs more gas
\* from version 5 on): pv = the parameters the executing node uses
ApplyTx(s, t, num, pv) == CASE t.k \in {"transfer", "widegas"} -> [s EXCEPT !.fees = @ + 1]
                            [] t.k = "create" -> [s EXCEPT !.fees = @ + pv]
                            [] t.k = "withdraw" -> [s EXCEPT !.fees = @ + 1, !.pend = Append(@, [blk |-> num] @@ t)]
                            [] OTHER -> s
RECURSIVE ApplyTxs(_, _, _, _)
ApplyTxs(s, q, num, pv) == IF q = <<>> THEN s ELSE ApplyTxs(ApplyTx(s, Head(q), num, pv), Tail(q), num, pv)

\* processEvidences over a list, for parent height ph: result [s, confirmed, pending, seen]
RECURSIVE Slash(_, _, _, _, _, _)
Slash(s, q, ph, conf, pendq, seen) ==
   IF q = <<>> THEN [s |-> s, conf |-> conf, pend |-> pendq]
   ELSE LET e == Head(q) IN
        IF e.round > ph THEN Slash(s, Tail(q), ph, conf, Append(pendq, e), seen)              \* future evidence: kept
        ELSE IF e.round < ph THEN Slash(s, Tail(q), ph, conf, Append(pendq, e), seen)         \* not expired yet: kept
        ELSE IF e.v \in seen THEN Slash(s, Tail(q), ph, conf, pendq, seen)                    \* already processed in this block
        ELSE LET p  == (s.tok[e.v] * Frac) \div 100
                 s1 == [s EXCEPT !.tok[e.v] = @ - p, !.pen = @ + p, !.on[e.v] = FALSE, !.expl[e.v] = TRUE]    \* doPenalize
                 listed == p > 0 \/ ~ZeroPenaltyUnlisted IN
             Slash(s1, Tail(q), ph, IF listed THEN Append(conf, e) ELSE conf, pendq, seen \cup {e.v})

\* processPendingTxs reads every pending transaction back through its lookup entry (rawdb.ReadTransaction) or finds it in
\* the block being executed; lk = the blocks whose lookup entries the executing node has.  A transaction that cannot be
\* found aborts the whole phase ("tx not exist").
RECURSIVE TakeEffect(_, _, _, _)
TakeEffect(s, q, lk, num) ==
   IF q = <<>> THEN [s EXCEPT !.pend = <<>>]
   ELSE LET t == Head(q) IN
        IF t.blk # num /\ t.blk \notin lk THEN [s EXCEPT !.pend = <<>>]
        ELSE TakeEffect([s EXCEPT !.tok[t.v] = @ - Min(t.x, @)], Tail(q), lk, num)
EndOfBlock(s, num, lk) == IF (num + 1) % Period = 0 THEN TakeEffect(s, s.pend, lk, num) ELSE s

\* ---------------------------------------------------------------- offering, building, importing
OfferTx == /\ phase = "offer" /\ Len(prog.txs) < MaxTx
           /\ \E t \in Offers : prog' = [prog EXCEPT !.txs = Append(@, t)]
           /\ UNCHANGED <<sa, sb, n, evs, phase, hdr, ok, look, flips, held, hist>>

\* an evidence reaches the proposer: about the parent round (d = 0) or about the round being built (d = 1, processed by
\* the NEXT block)
OfferEv == /\ phase = "offer" /\ Len(prog.ev) < MaxEv
           /\ \E v \in Accused, d \in {0, 1} :
                /\ prog' = [prog EXCEPT !.ev = Append(@, [v |-> v, d |-> d])]
                /\ evs' = Append(evs, [v |-> v, round |-> n - 1 + d])
           /\ UNCHANGED <<sa, sb, n, phase, hdr, ok, look, flips, held, hist>>

Build ==
   /\ phase = "offer"
   /\ LET incl == SelectSeq(prog.txs, LAMBDA t : ~RefusedTx(t))       \* refused ones are reverted and skipped
          s1   == ApplyTxs(sa, incl, n, PV(n))                         \* the builder resolves the parameters per block
          r    == Slash(s1, evs, n - 1, <<>>, <<>>, {})                \* slashing(): the LOCAL list, parent height
          s2   == EndOfBlock(r.s, n, 1..n) IN                          \* the builder never left its chain
      /\ sa' = s2
      /\ evs' = r.pend
      /\ hdr' = [n |-> n, txs |-> incl, slash |-> r.conf, digest |-> s2]
   /\ phase' = "built"
   /\ UNCHANGED <<sb, n, prog, ok, look, flips, held, hist>>

\* The importing node is shown a sibling block that replaces its last `back` blocks (reorg away: the lookup entries of the
\* replaced blocks are deleted); importing the builder's block afterwards makes it switch back: reorg() makes the
\* replaced blocks canonical again and -- as coded -- rewrites their lookup entries; the new head's entries come from
\* WriteBlockWithState.  The block is executed BEFORE the switch back, i.e. without the entries of the replaced blocks.
Flip ==
   /\ phase = "built" /\ flips < MaxFlips /\ prog.rg = 0
   /\ \E back \in 1..2 : n - 1 - back >= 0 /\ prog' = [prog EXCEPT !.rg = back]
   /\ flips' = flips + 1
   /\ UNCHANGED <<sa, sb, n, evs, phase, hdr, ok, look, held, hist>>

\* the next block starts a new InsertChain call on the importing node
NewBatch == /\ phase = "built" /\ held # 0 /\ held' = 0
            /\ UNCHANGED <<sa, sb, n, evs, prog, phase, hdr, ok, look, flips, held, hist>>

Import ==
   /\ phase = "built"
   /\ LET gone == IF prog.rg > 0 THEN (n - prog.rg)..(n - 1) ELSE {}
          pv == IF ParamsPerBlock \/ held = 0 \/ n = SwitchAt THEN PV(n) ELSE held
          s1 == ApplyTxs(sb, hdr.txs, n, pv)
          r  == Slash(s1, hdr.slash, n - 1, <<>>, <<>>, {})            \* replaySlashing(): header.SlashData, parent height
          s2 == EndOfBlock(r.s, n, IF ExecBeforeSwitchBack THEN look \ gone ELSE look) IN
      /\ sb' = s2
      /\ ok' = (ok /\ s2 = hdr.digest)                                 \* ValidateState
      /\ look' = ((look \ gone) \cup (IF ReorgRewritesLookups THEN gone ELSE {})) \cup {n}
      /\ held' = pv
   /\ hist' = Append(hist, [cb |-> "g1", txs |-> prog.txs, ev |-> prog.ev, rg |-> prog.rg])
   /\ prog' = [txs |-> <<>>, ev |-> <<>>, rg |-> 0]
   /\ UNCHANGED flips
   /\ n' = n + 1
   /\ phase' = IF n = MaxBlocks THEN "done" ELSE "offer"
   /\ UNCHANGED <<sa, evs, hdr>>

Init == /\ sa = InitS /\ sb = InitS /\ n = 1 /\ evs = <<>> /\ prog = [txs |-> <<>>, ev |-> <<>>, rg |-> 0] /\ phase = "offer"
        /\ hdr = [n |-> 0, txs |-> <<>>, slash |-> <<>>, digest |-> InitS] /\ ok = TRUE /\ look = {} /\ flips = 0 /\ held = 0 /\ hist = <<>>
Next == OfferTx \/ OfferEv \/ Build \/ Flip \/ NewBatch \/ Import
Spec == Init /\ [][Next]_vars

\* ---------------------------------------------------------------- property layer
Cex(name) == PrintT("@@J " \o ToJson([kind |-> "CEX", clause |-> name, h |-> hist])) /\ FALSE
\* "Every block assembled by the block-building path ... is accepted unchanged by the block-import path of another node."
BuilderAccepted == ok \/ Cex("BuilderAccepted")
\* what the builder confirmed is what the importer replays: both chains are in the same state after every import
SameState == (phase \in {"offer", "done"} /\ ok) => sa = sb

Leaf == (GenMode = "leaf" /\ phase = "done") => PrintT("@@J " \o ToJson([kind |-> "B", h |-> hist]))
View == <<sa, sb, n, evs, prog, phase, hdr, ok, look, flips, held>>
=============================================================================
