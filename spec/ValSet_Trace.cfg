SPECIFICATION TSpec
CONSTANTS
  Vals = {1, 2, 3}
  Accts = {1, 2}
  Unit = 10
  MaxOps = 1000000
  Alpha = "rich"
  GenMode = "none"
CONSTRAINT HighWater
POSTCONDITION Accepted
CHECK_DEADLOCK FALSE
