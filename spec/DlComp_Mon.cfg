SPECIFICATION Spec
CONSTRAINT Done
CHECK_DEADLOCK FALSE
