-------------------------------- MODULE Rlp --------------------------------
(***************************************************************************)
(* C14 -- RLP encoding is canonical, round-trips, and decoding hostile     *)
(* bytes is safe (rlp/decode.go, rlp/encode.go and the custom codecs of    *)
(* core/types, core/state, consensus/ucon, staking, you).                  *)
(*                                                                         *)
(* Functional specification.                                               *)
(*  - Items are byte strings [k |-> "s", v |-> <<bytes>>] or lists         *)
(*    [k |-> "l", e |-> <<items>>]; Enc is THE encoding, Dec a constructive *)
(*    parser that rejects everything that is not an encoding: non-minimal  *)
(*    length fields, leading zeros in sizes, a single byte below 0x80      *)
(*    wrapped as a string, items that overrun their list or the input,     *)
(*    trailing bytes.  Canonical(b) == \E item : Enc(item) = b (checked    *)
(*    against the enumeration in scope "bytes").                           *)
(*  - A SCHEMA is a tree of field kinds; Schema(type) gives the schema of  *)
(*    every wire/disk type of the property.  Match(s, item, strict):       *)
(*      strict = TRUE  : PROPERTY layer -- item is the encoding tree of a  *)
(*                       value of the type (TypedCanonical);               *)
(*      strict = FALSE : DESIGN layer -- what the decoders accept AS CODED *)
(*                       (the deviations are named: optfix accepts an empty*)
(*                       list for a nil pointer, "expelled" accepts any    *)
(*                       uint8, "sortedset" accepts any order/duplicates,  *)
(*                       "dsmap"/"hashpad" fold into a Go map keyed by a   *)
(*                       padded hash).  Norm1 is what the coded encoder    *)
(*                       emits for an accepted item.                       *)
(*  - Sample(s, v) builds boundary values of a schema; the mutation        *)
(*    operators (NewNode on a node of the item tree, ByteMut on the whole  *)
(*    encoding) are the hostile-input generator.                           *)
(*                                                                         *)
(* The module is a (trivial) state machine over cases so that TLC          *)
(* enumerates a scope exhaustively: Init picks every case of the scope,    *)
(* Next applies one mutation (up to MaxMut).  It is used for (M) the       *)
(* self-consistency invariants and the design-level counterexamples of     *)
(* AcceptImpliesCanonical (printed as CEX), and for (G) generation of the  *)
(* cases that are fed to the real decoders (printed as B).  Rlp_Mon and    *)
(* Rlp_Trace judge what the real code did with them.                       *)
(*                                                                         *)
(* Bound: inputs below 16 MiB (size-of-size <= 3); a longer size field is  *)
(* "not canonical", which is also the real decoder's answer for any input  *)
(* shorter than 16 MiB.                                                    *)
(***************************************************************************)
EXTENDS Integers, Sequences, FiniteSets, TLC, Json

CONSTANTS Deviations, \* the named deviations of the coded decoders that the design layer models, a subset of
                      \* {"optfix", "expelled", "sortedset", "dsmap"}: remove a name when the code is repaired
                      \* ("dsmap_sorted" instead of "dsmap": EvidenceDoubleSign.EncodeRLP sorts by hash, the decoder is unchanged)
          Scope,     \* "items" | "bytes" | "typed" | "seeds" | "all"
          Large,     \* TRUE = the large alphabets of scopes items/bytes
          NV,        \* sample variants 0..NV-1 per type (scope typed)
          NodeCap,   \* at most this many nodes of a sample are mutated (stride selection)
          SeqDepth,  \* number of steps of a stateful sequence (scope "seq")
          PairK,     \* the pairwise value mutation is applied to every sample and to real objects number 0..PairK-1 of a type
          MaxMut,    \* number of mutations applied in sequence
          GenMode    \* "none" | "print" : print every case as JSON

VARIABLES c          \* the case: [ty, sid, b, mut]  (+ it in scope "items")

\* ======================================================================= items and encoding
S(v) == [k |-> "s", v |-> v]
Lst(q) == [k |-> "l", e |-> q]
Raw(w) == [k |-> "r", w |-> w]         \* generator only: verbatim bytes in place of an item
\* (the payload fields have different names on purpose: TLC compares records value-wise when it builds sets, and a
\*  sequence of bytes is not comparable with a sequence of items)

RECURSIVE BEBytes(_)
BEBytes(n) == IF n = 0 THEN <<>> ELSE BEBytes(n \div 256) \o <<n % 256>>      \* minimal big-endian

EncLen(n, off) == IF n < 56 THEN <<off + n>> ELSE LET b == BEBytes(n) IN <<off + 55 + Len(b)>> \o b

RECURSIVE Enc(_), EncSeq(_)
Enc(it) == CASE it.k = "s" -> IF Len(it.v) = 1 /\ it.v[1] < 128 THEN it.v ELSE EncLen(Len(it.v), 128) \o it.v
             [] it.k = "l" -> LET p == EncSeq(it.e) IN EncLen(Len(p), 192) \o p
             [] it.k = "r" -> it.w
EncSeq(q) == IF q = <<>> THEN <<>> ELSE Enc(Head(q)) \o EncSeq(Tail(q))

\* ======================================================================= the parser
RECURSIVE BE(_, _, _)
BE(bs, from, n) == IF n = 0 THEN 0 ELSE BE(bs, from, n - 1) * 256 + bs[from + n - 1]

NoHdr == [ok |-> FALSE, list |-> FALSE, start |-> 0, len |-> 0]
\* header at pos: start = first payload byte, len = payload length
Hdr(bs, pos) ==
  IF pos > Len(bs) THEN NoHdr
  ELSE LET b == bs[pos] IN
    IF b < 128 THEN [ok |-> TRUE, list |-> FALSE, start |-> pos, len |-> 1]
    ELSE IF b < 184 THEN LET n == b - 128 IN
         [ok |-> pos + n <= Len(bs) /\ ~(n = 1 /\ bs[pos + 1] < 128), list |-> FALSE, start |-> pos + 1, len |-> n]
    ELSE IF b < 192 THEN LET ll == b - 183 IN
         IF pos + ll > Len(bs) \/ ll > 3 THEN NoHdr
         ELSE LET n == BE(bs, pos + 1, ll) IN
              [ok |-> bs[pos + 1] # 0 /\ n >= 56 /\ pos + ll + n <= Len(bs), list |-> FALSE, start |-> pos + ll + 1, len |-> n]
    ELSE IF b < 248 THEN LET n == b - 192 IN [ok |-> pos + n <= Len(bs), list |-> TRUE, start |-> pos + 1, len |-> n]
    ELSE LET ll == b - 247 IN
         IF pos + ll > Len(bs) \/ ll > 3 THEN NoHdr
         ELSE LET n == BE(bs, pos + 1, ll) IN
              [ok |-> bs[pos + 1] # 0 /\ n >= 56 /\ pos + ll + n <= Len(bs), list |-> TRUE, start |-> pos + ll + 1, len |-> n]

BadDec == [ok |-> FALSE, it |-> S(<<>>), nx |-> 0]
BadSeq == [ok |-> FALSE, v |-> <<>>]
RECURSIVE DecAt(_, _), DecSeq(_, _, _)
DecAt(bs, pos) == LET h == Hdr(bs, pos) IN
   IF ~h.ok THEN BadDec
   ELSE IF ~h.list THEN [ok |-> TRUE, it |-> S(SubSeq(bs, h.start, h.start + h.len - 1)), nx |-> h.start + h.len]
   ELSE LET r == DecSeq(bs, h.start, h.start + h.len) IN
        IF r.ok THEN [ok |-> TRUE, it |-> Lst(r.v), nx |-> h.start + h.len] ELSE BadDec
DecSeq(bs, pos, end) ==
   IF pos = end THEN [ok |-> TRUE, v |-> <<>>]
   ELSE IF pos > end THEN BadSeq
   ELSE LET d == DecAt(bs, pos) IN
        IF ~d.ok \/ d.nx > end THEN BadSeq
        ELSE LET r == DecSeq(bs, d.nx, end) IN IF r.ok THEN [ok |-> TRUE, v |-> <<d.it>> \o r.v] ELSE BadSeq

\* parse of the first item only (what a stream decoder consumes): ok iff a first item exists and fits the input
ParseFirst(bs) == DecAt(bs, 1)
\* whole-input parse: ok iff exactly one item and nothing else
Parse(bs) == LET d == DecAt(bs, 1) IN IF d.ok /\ d.nx = Len(bs) + 1 THEN d ELSE BadDec
Canonical(bs) == Parse(bs).ok
Dec(bs) == Parse(bs).it

\* ======================================================================= schemas
U(n) == [k |-> "uint", n |-> n]            \* unsigned integer of at most n bytes
U8 == U(1)  U16 == U(2)  U32 == U(4)  U64 == U(8)
Big == [k |-> "big"]
Bool == [k |-> "bool"]
Fx(n) == [k |-> "fix", n |-> n]            \* byte array of exactly n bytes
H == Fx(32)  A == Fx(20)  Bloom == Fx(256)
Bs == [k |-> "bytes"]                      \* []byte / string
L(e) == [k |-> "list", e |-> e]
St(f) == [k |-> "struct", f |-> f]
OptFx(n) == [k |-> "optfix", n |-> n, own |-> "Transaction"]   \* *[n]byte with rlp:"nil"
Status == [k |-> "status"]                 \* receipt PostStateOrStatus: "", 0x01 or 32 bytes
Expelled == [k |-> "expelled", own |-> "Validator"]             \* custom: rlpVal.Expelled
SortedSet(e) == [k |-> "sortedset", e |-> e, own |-> "ValidatorIndex"] \* custom: ValidatorIndex
DsMap == [k |-> "dsmap", own |-> "EvidenceDoubleSign"]          \* custom: EvidenceDoubleSign.Signs (a Go map)

HeaderS == St(<<H, A, H, H, H, H, H, Bloom, Big, Big, Big, U64, U64, U64, U64, U64, U64, U64, U64, H,
               Bs, Bs, Bs, Bs, Bs, Bs, Bs, Bs>>)
TxS == St(<<U64, Big, U64, OptFx(20), Big, Bs, Big, Big, Big>>)
BlockS == St(<<HeaderS, L(TxS)>>)
BodyS == St(<<L(TxS)>>)
LogS == St(<<A, L(H), Bs>>)
ReceiptS == St(<<Status, U64, Bloom, L(LogS)>>)
LogStoreS == St(<<A, L(H), Bs, U64, H, U64, H, U64>>)
ReceiptStoreS == St(<<Status, U64, Bloom, H, A, L(LogStoreS), U64>>)
DelegationS == St(<<A, Big, Big>>)
ValidatorS == St(<< St(<<Bs, A, A, U8, U8, U64, U64, Bs, Bs, Big, Big, Big, Big, Big, Big, U64, U16, U16, U16,
                        L(DelegationS), St(<<U8, Bs>>)>>), Expelled >>)
ValKindStatS == St(<<Big, Big, U64, Big, Big, U64, Big, Big>>)
ValidatorsStatS == St(<<ValKindStatS, ValKindStatS, ValKindStatS, ValKindStatS, ValKindStatS, ValKindStatS>>)
WithdrawRecordS == St(<<A, A, A, A, U64, U64, U64, Big, Big, U8, H>>)
SingleVoteS == St(<<U32, U32, Bs, Bs>>)
EvidenceS == St(<<Bs, Bs>>)
SlashWithdrawS == St(<<Big, WithdrawRecordS>>)

Schema(t) ==
  CASE t = "Header" -> HeaderS
    [] t = "Transaction" -> TxS
    [] t = "Block" -> BlockS
    [] t = "Body" -> BodyS
    [] t = "Log" -> LogS
    [] t = "Receipt" -> ReceiptS
    [] t = "LogForStorage" -> LogStoreS
    [] t = "ReceiptForStorage" -> ReceiptStoreS
    [] t = "Validator" -> ValidatorS
    [] t = "ValKindStat" -> ValKindStatS
    [] t = "ValidatorsStat" -> ValidatorsStatS
    [] t = "Validators" -> St(<<L(ValidatorS)>>)
    [] t = "ValidatorIndex" -> SortedSet(A)
    [] t = "WithdrawRecord" -> WithdrawRecordS
    [] t = "WithdrawQueue" -> St(<<L(WithdrawRecordS)>>)
    [] t = "Record" -> St(<<Big, L(H)>>)
    [] t = "PendingRelationship" -> L(Fx(40))
    [] t = "Account" -> St(<<U64, Big, H, Bs, Big, Bs>>)
    [] t = "SortedAddresses" -> L(A)
    [] t = "StakingMessage" -> St(<<U8, Bs>>)
    [] t = "TxCreateValidator" -> St(<<Bs, A, A, Bs, Bs, Big, U64, U16, U16, U16, U8, Bs>>)
    [] t = "TxUpdateValidator" -> St(<<U64, Bs, A, A, A, U16, U16, U16, Bs>>)
    [] t = "TxValidatorDeposit" -> St(<<A, Big, U64, Bs>>)
    [] t = "TxValidatorWithdraw" -> St(<<A, A, Big, U64, Bs>>)
    [] t = "TxValidatorChangeStatus" -> St(<<A, U8, U64, Bs>>)
    [] t = "TxValidatorSettle" -> St(<<A>>)
    [] t = "TxDelegation" -> St(<<A, Big>>)
    [] t = "TxDelegationSettle" -> St(<<A>>)
    [] t = "Evidence" -> EvidenceS
    [] t = "Evidences" -> L(EvidenceS)
    [] t = "EvidenceDoubleSign" -> St(<<Big, U32, DsMap>>)
    [] t = "EvidenceInactive" -> St(<<U64, L(A)>>)
    [] t = "EvidenceDoubleSignV5" -> St(<<U64, U32, U32, U8, L(St(<<H, Bs>>))>>)
    [] t = "LogData" -> St(<<Bs, L(Bs), Bs>>)
    [] t = "SlashData" -> St(<<U8, A, Big, L(SlashWithdrawS), EvidenceS>>)
    [] t = "SlashDataV5" -> St(<<U8, A, Big, L(SlashWithdrawS), L(St(<<A, Big>>))>>)
    [] t = "UconMessage" -> St(<<U8, Bs, Bs>>)
    [] t = "ConsensusCommon" -> St(<<Big, U32, U32, H, Bs, U32, H, H, U64>>)
    [] t = "SingleVote" -> SingleVoteS
    [] t = "BlockHashWithVotes" -> St(<<H, H, Big, U32, SingleVoteS, U64>>)
    [] t = "BlockConsensusData" -> St(<<Big, U32, H, Bs, H, U32, Bs, U64, U64, U64>>)
    [] t = "UconValidators" -> St(<<U32, L(SingleVoteS), L(SingleVoteS), L(SingleVoteS), Bs, Bs, Bs>>)
    [] t = "VoteItem" -> St(<<U8, Big, U32, A, Bs>>)
    [] t = "StatusData" -> St(<<U32, U64, U64, U64, H, H>>)
    [] t = "NewBlockHashesData" -> L(St(<<H, U64>>))
    [] t = "HashOrNumber" -> St(<<H, U64>>)
    [] t = "BlocksData" -> L(St(<<BlockS, Big>>))
    [] t = "GetBlockHeadersData" -> St(<<St(<<H, U64>>), U64, U64, Bool, Bool>>)
    [] t = "GetNodeDataMsgData" -> St(<<U8, L(H)>>)
    [] t = "Transactions" -> L(TxS)
    [] t = "Headers" -> L(HeaderS)
    [] t = "Bodies" -> L(BodyS)
    [] t = "ReceiptsMsg" -> L(L(ReceiptS))
    [] t = "NodeData" -> L(Bs)
    [] t = "Hash" -> H
    [] t = "Hashes" -> L(H)

Types == {"Header", "Transaction", "Block", "Body", "Log", "Receipt", "LogForStorage", "ReceiptForStorage", "Validator",
          "ValKindStat", "ValidatorsStat", "Validators", "ValidatorIndex", "WithdrawRecord", "WithdrawQueue", "Record",
          "PendingRelationship", "Account", "SortedAddresses", "StakingMessage", "TxCreateValidator", "TxUpdateValidator",
          "TxValidatorDeposit", "TxValidatorWithdraw", "TxValidatorChangeStatus", "TxValidatorSettle", "TxDelegation",
          "TxDelegationSettle", "Evidence", "Evidences", "EvidenceDoubleSign", "EvidenceInactive", "EvidenceDoubleSignV5",
          "LogData", "SlashData", "SlashDataV5", "UconMessage", "ConsensusCommon", "SingleVote", "BlockHashWithVotes",
          "BlockConsensusData", "UconValidators", "VoteItem", "StatusData", "NewBlockHashesData", "HashOrNumber",
          "BlocksData", "GetBlockHeadersData", "GetNodeDataMsgData", "Transactions", "Headers", "Bodies", "ReceiptsMsg",
          "NodeData", "Hash", "Hashes"}

\* ======================================================================= matching (both layers)
NoLead(v) == Len(v) > 0 => v[1] # 0
\* lexicographic order of byte strings of equal length (bytes.Compare)
LexLess(a, b) == \E i \in 1..Len(a) : a[i] < b[i] /\ \A j \in 1..(i - 1) : a[j] = b[j]

\* EvidenceDoubleSign: common.BytesToHash crops from the left / pads on the left to 32 bytes
PadHash(v) == IF Len(v) >= 32 THEN SubSeq(v, Len(v) - 31, Len(v)) ELSE [i \in 1..(32 - Len(v)) |-> 0] \o v
IsPair(x) == x.k = "l" /\ Len(x.e) = 2 /\ x.e[1].k = "s" /\ x.e[2].k = "s"

RECURSIVE Match(_, _, _)
DsActive == "dsmap" \in Deviations \/ "dsmap_sorted" \in Deviations
Active(k) == IF k = "dsmap" THEN DsActive ELSE k \in Deviations
Match(s, it, strict0) ==
  LET strict == strict0 \/ ~Active(s.k) IN
  CASE s.k = "uint"   -> it.k = "s" /\ Len(it.v) <= s.n /\ NoLead(it.v)
    [] s.k = "big"    -> it.k = "s" /\ NoLead(it.v)
    [] s.k = "bool"   -> it.k = "s" /\ (it.v = <<>> \/ it.v = <<1>>)
    [] s.k = "fix"    -> it.k = "s" /\ Len(it.v) = s.n
    [] s.k = "bytes"  -> it.k = "s"
    [] s.k = "status" -> it.k = "s" /\ (it.v = <<>> \/ it.v = <<1>> \/ Len(it.v) = 32)
    [] s.k = "optfix" -> \/ it.k = "s" /\ Len(it.v) \in {0, s.n}
                         \/ ~strict /\ it.k = "l" /\ it.e = <<>>       \* as coded: size 0 of ANY kind decodes to nil
    [] s.k = "expelled" -> /\ it.k = "s" /\ Len(it.v) <= 1 /\ NoLead(it.v)
                           /\ strict => it.v \in {<<>>, <<1>>}         \* as coded: any uint8, only 1 means TRUE
    [] s.k = "list"   -> it.k = "l" /\ \A i \in DOMAIN it.e : Match(s.e, it.e[i], strict0)
    [] s.k = "sortedset" -> /\ it.k = "l" /\ \A i \in DOMAIN it.e : Match(s.e, it.e[i], strict0)
                            /\ strict => \A i \in 1..(Len(it.e) - 1) : LexLess(it.e[i].v, it.e[i + 1].v)
    [] s.k = "dsmap"  -> /\ it.k = "l" /\ \A i \in DOMAIN it.e : IsPair(it.e[i])
                         /\ strict => /\ \A i \in DOMAIN it.e : Len(it.e[i].e[1].v) = 32
                                      /\ \A i, j \in DOMAIN it.e : i # j => it.e[i].e[1].v # it.e[j].e[1].v
                                      \* as coded there is no canonical order (a Go map is iterated); once the encoder
                                      \* sorts, THE encoding is the ascending one
                                      /\ "dsmap" \notin Deviations => \A i \in 1..(Len(it.e) - 1) : LexLess(it.e[i].e[1].v, it.e[i + 1].e[1].v)
    [] s.k = "struct" -> it.k = "l" /\ Len(it.e) = Len(s.f) /\ \A i \in DOMAIN it.e : Match(s.f[i], it.e[i], strict0)

TypedCanonical(s, bs) == Canonical(bs) /\ Match(s, Dec(bs), TRUE)      \* property layer
Accepts(s, bs) == Canonical(bs) /\ Match(s, Dec(bs), FALSE)            \* design layer

\* ---- design layer: what the coded encoder emits after decoding an accepted item
RECURSIVE SortItems(_)
SortItems(T) == IF T = {} THEN <<>>
                ELSE LET m == CHOOSE x \in T : \A y \in T \ {x} : LexLess(x.v, y.v) IN <<m>> \o SortItems(T \ {m})
Range(q) == { q[i] : i \in DOMAIN q }
\* the map EvidenceDoubleSign.DecodeRLP builds: later entries overwrite earlier ones with the same padded hash
DsKeys(q) == { PadHash(q[i].e[1].v) : i \in DOMAIN q }
DsLast(q, key) == LET i == CHOOSE i \in DOMAIN q : PadHash(q[i].e[1].v) = key /\ \A j \in DOMAIN q : PadHash(q[j].e[1].v) = key => j <= i
                  IN q[i].e[2]
DsEntries(q) == { Lst(<<S(key), DsLast(q, key)>>) : key \in DsKeys(q) }
RECURSIVE DsSorted(_, _)
DsSorted(q, keys) == IF keys = {} THEN <<>>
                     ELSE LET m == CHOOSE x \in keys : \A y \in keys \ {x} : LexLess(x, y) IN <<Lst(<<S(m), DsLast(q, m)>>)>> \o DsSorted(q, keys \ {m})

RECURSIVE SetToSeq(_)
SetToSeq(T) == IF T = {} THEN <<>> ELSE LET x == CHOOSE x \in T : TRUE IN <<x>> \o SetToSeq(T \ {x})
RECURSIVE Norm1(_, _)
Norm1(s, it) ==
  CASE s.k = "optfix"    -> IF it.k = "l" THEN S(<<>>) ELSE it
    [] s.k = "expelled"  -> IF it.v = <<1>> THEN it ELSE S(<<>>)
    [] s.k = "sortedset" -> Lst(SortItems(Range(it.e)))
    [] s.k = "dsmap"     -> IF ~DsActive THEN it
                            ELSE IF "dsmap" \in Deviations THEN Lst(SetToSeq(DsEntries(it.e)))   \* SOME order: the real one is not determined, see Conf
                            ELSE Lst(DsSorted(it.e, DsKeys(it.e)))
    [] s.k = "list"      -> Lst([i \in DOMAIN it.e |-> Norm1(s.e, it.e[i])])
    [] s.k = "struct"    -> Lst([i \in DOMAIN it.e |-> Norm1(s.f[i], it.e[i])])
    [] OTHER -> it

\* r is a possible re-encoding (as item) of the accepted item `it`
RECURSIVE Conf(_, _, _)
Conf(s, it, r) ==
  CASE s.k = "dsmap" /\ "dsmap" \in Deviations -> r.k = "l" /\ Len(r.e) = Cardinality(DsKeys(it.e)) /\ Range(r.e) = DsEntries(it.e)
    [] s.k = "list"   -> r.k = "l" /\ Len(r.e) = Len(it.e) /\ \A i \in DOMAIN it.e : Conf(s.e, it.e[i], r.e[i])
    [] s.k = "struct" -> r.k = "l" /\ Len(r.e) = Len(it.e) /\ \A i \in DOMAIN it.e : Conf(s.f[i], it.e[i], r.e[i])
    [] OTHER -> r = Norm1(s, it)

\* ---- why a design-accepted item is not the encoding of a value: the classes used as discriminators
RECURSIVE Defects(_, _)
Defects(s, it) ==
  CASE s.k \in {"optfix", "expelled", "sortedset", "dsmap"} /\ ~Active(s.k) -> {}
    [] s.k = "optfix"    -> IF it.k = "l" THEN {s.own, "empty_list_for_nil"} ELSE {}
    [] s.k = "expelled"  -> IF it.v \notin {<<>>, <<1>>} THEN {s.own, "expelled_byte"} ELSE {}
    [] s.k = "sortedset" ->
         (IF \E i \in 1..(Len(it.e) - 1) : LexLess(it.e[i + 1].v, it.e[i].v) THEN {s.own, "unsorted"} ELSE {})
         \cup (IF \E i, j \in DOMAIN it.e : i # j /\ it.e[i] = it.e[j] THEN {s.own, "duplicate"} ELSE {})
    [] s.k = "dsmap"     ->
         (IF \E i \in DOMAIN it.e : Len(it.e[i].e[1].v) # 32 THEN {s.own, "hash_length"} ELSE {})
         \cup (IF Cardinality(DsKeys(it.e)) < Len(it.e) THEN {s.own, "duplicate"} ELSE {})
         \cup (IF "dsmap" \in Deviations /\ Cardinality(DsKeys(it.e)) >= 2 THEN {s.own, "map_order"} ELSE {})
         \cup (IF "dsmap" \notin Deviations /\ \E i \in 1..(Len(it.e) - 1) : ~LexLess(PadHash(it.e[i].e[1].v), PadHash(it.e[i + 1].e[1].v))
               THEN {s.own, "unsorted"} ELSE {})
    [] s.k = "list"      -> UNION { Defects(s.e, it.e[i]) : i \in DOMAIN it.e }
    [] s.k = "struct"    -> UNION { Defects(s.f[i], it.e[i]) : i \in DOMAIN it.e }
    [] OTHER -> {}

\* design-level AcceptImpliesCanonical: an accepted item re-encodes to itself, deterministically
DesignCanon(s, it) == Defects(s, it) = {}

\* ======================================================================= samples (boundary values per kind)
Fill(n, b) == [i \in 1..n |-> b]
Pick(q, v) == q[(v % Len(q)) + 1]
UintSample(n, v) == Pick(<< <<>>, <<1>>, <<127>>, <<128>>, Fill(n, 255) >>, v)
BigSample(v) == Pick(<< <<>>, <<1>>, <<128>>, <<1>> \o Fill(8, 0), Fill(32, 255), <<127>> >>, v)
BytesSample(v) == Pick(<< <<>>, <<0>>, <<127>>, <<128>>, Fill(55, 1), Fill(56, 255), <<0, 0>>, Fill(57, 128) >>, v)
FillByte(v) == Pick(<<0, 1, 127, 128, 255>>, v)

RECURSIVE Sample(_, _)
Sample(s, v) ==
  CASE s.k = "uint"   -> S(UintSample(s.n, v))
    [] s.k = "big"    -> S(BigSample(v))
    [] s.k = "bool"   -> S(IF v % 2 = 0 THEN <<>> ELSE <<1>>)
    [] s.k = "fix"    -> S(Fill(s.n, FillByte(v)))
    [] s.k = "bytes"  -> S(BytesSample(v))
    [] s.k = "status" -> S(Pick(<< <<>>, <<1>>, Fill(32, 7) >>, v))
    [] s.k = "optfix" -> S(IF v % 2 = 0 THEN <<>> ELSE Fill(s.n, FillByte(v)))
    [] s.k = "expelled" -> S(IF v % 2 = 0 THEN <<>> ELSE <<1>>)
    [] s.k = "list"   -> Lst([i \in 1..(v % 3) |-> Sample(s.e, v + i)])
    [] s.k = "sortedset" -> Lst([i \in 1..(v % 4) |-> S(Fill(s.e.n, i + v))])
    [] s.k = "dsmap"  -> Lst([i \in 1..(v % 3) |-> Lst(<<S(Fill(32, i)), S(BytesSample(v + i))>>)])
    [] s.k = "struct" -> Lst([i \in DOMAIN s.f |-> Sample(s.f[i], v + i)])

\* ======================================================================= the item tree: paths
RECURSIVE PathSeq(_)
\* every node of the tree as a path (sequence of child indexes), in preorder
RECURSIVE PathsOfKids(_, _)
PathSeq(it) == <<<<>>>> \o (IF it.k = "l" THEN PathsOfKids(it.e, 1) ELSE <<>>)
PathsOfKids(q, i) == IF i > Len(q) THEN <<>>
                     ELSE LET sub == PathSeq(q[i]) IN [n \in DOMAIN sub |-> <<i>> \o sub[n]] \o PathsOfKids(q, i + 1)
RECURSIVE At(_, _)
At(it, p) == IF p = <<>> THEN it ELSE At(it.e[Head(p)], Tail(p))
RECURSIVE Subst(_, _, _)
Subst(it, p, new) == IF p = <<>> THEN new ELSE [it EXCEPT !.e[Head(p)] = Subst(@, Tail(p), new)]

\* ======================================================================= mutation operators
Payload(x) == IF x.k = "s" THEN x.v ELSE EncSeq(x.e)
Off(x) == IF x.k = "s" THEN 128 ELSE 192
HasHeader(x) == ~(x.k = "s" /\ Len(x.v) = 1 /\ x.v[1] < 128)
NodeOps == {"nonmin", "wrap1", "leadzero", "oversize", "undersize", "nest", "unnest", "tostring", "tolist", "emptyswap",
            "dropelem", "addelem", "dupelem", "swapelem", "setbyte1", "setbyte2", "setbyteff", "setzero", "grow9", "grow33",
            "inflate", "deflate", "huge3", "huge4", "huge8"}
ByteOps == {"trunc1", "trunc2", "trunchalf", "append00", "append80", "appendc0", "flipfirst0", "flipfirst7", "fliplast0", "flipmid7"}
\* operators whose result can never be an encoding
NonCanonOps == {"nonmin", "wrap1", "huge3", "huge4", "huge8", "trunc1", "trunc2", "trunchalf", "append00", "append80", "appendc0"}

Applicable(op, x) ==
  CASE op = "nonmin"    -> HasHeader(x)
    [] op = "wrap1"     -> ~HasHeader(x)
    [] op = "leadzero"  -> x.k = "s"
    [] op = "oversize"  -> x.k = "s"
    [] op = "undersize" -> x.k = "s" /\ Len(x.v) > 0
    [] op = "nest"      -> TRUE
    [] op = "unnest"    -> x.k = "l" /\ Len(x.e) = 1
    [] op = "tostring"  -> x.k = "l"
    [] op = "tolist"    -> x.k = "s"
    [] op = "emptyswap" -> Payload(x) = <<>>
    [] op = "dropelem"  -> x.k = "l" /\ Len(x.e) > 0
    [] op = "addelem"   -> x.k = "l"
    [] op = "dupelem"   -> x.k = "l" /\ Len(x.e) > 0
    [] op = "swapelem"  -> x.k = "l" /\ Len(x.e) > 1 /\ x.e[1] # x.e[2]
    [] op = "setbyte1"  -> x.k = "s" /\ Len(x.v) <= 1 /\ x.v # <<1>>
    [] op = "grow9"     -> x.k = "s" /\ Len(x.v) < 9
    [] op = "grow33"    -> x.k = "s" /\ Len(x.v) < 33
    [] op = "setbyte2"  -> x.k = "s" /\ Len(x.v) <= 1
    [] op = "setbyteff" -> x.k = "s" /\ Len(x.v) <= 1
    [] op = "setzero"   -> x.k = "s" /\ Len(x.v) = 1
    [] op = "inflate"   -> HasHeader(x)
    [] op = "deflate"   -> HasHeader(x) /\ Len(Payload(x)) > 0
    [] op \in {"huge3", "huge4", "huge8"} -> TRUE

NewNode(op, x) ==
  LET p == Payload(x) n == Len(p) off == Off(x) IN
  CASE op = "nonmin"    -> IF n < 56 THEN Raw(<<off + 56, n>> \o p)                      \* long form for a short payload
                           ELSE LET b == BEBytes(n) IN Raw(<<off + 56 + Len(b), 0>> \o b \o p)   \* leading zero in the size
    [] op = "wrap1"     -> Raw(<<129, x.v[1]>>)                                          \* single byte < 0x80 wrapped as a string
    [] op = "leadzero"  -> S(<<0>> \o x.v)                                               \* integer with a leading zero / zero as 0x00
    [] op = "oversize"  -> S(x.v \o <<255>>)                                             \* one byte too many
    [] op = "undersize" -> S(Tail(x.v))
    [] op = "nest"      -> Lst(<<x>>)                                                    \* one level deeper
    [] op = "unnest"    -> x.e[1]
    [] op = "tostring"  -> S(p)                                                          \* a list replaced by a string
    [] op = "tolist"    -> Raw(EncLen(n, 192) \o p)                                      \* a string replaced by a list header
    [] op = "emptyswap" -> IF x.k = "s" THEN Lst(<<>>) ELSE S(<<>>)                      \* 0x80 <-> 0xC0
    [] op = "dropelem"  -> Lst(SubSeq(x.e, 1, Len(x.e) - 1))
    [] op = "addelem"   -> Lst(x.e \o <<S(<<>>)>>)
    [] op = "dupelem"   -> Lst(x.e \o <<x.e[Len(x.e)]>>)
    [] op = "swapelem"  -> Lst(<<x.e[2], x.e[1]>> \o SubSeq(x.e, 3, Len(x.e)))
    [] op = "setbyte1"  -> S(<<1>>)                                                      \* the neighbours of a small enumeration
    [] op = "grow9"     -> S(x.v \o Fill(9 - Len(x.v), 255))                             \* longer than a consumer that expects <= 8 bytes
    [] op = "grow33"    -> S(x.v \o Fill(33 - Len(x.v), 255))                            \* ... <= 32 bytes
    [] op = "setbyte2"  -> S(<<2>>)
    [] op = "setbyteff" -> S(<<255>>)
    [] op = "setzero"   -> S(<<0>>)
    [] op = "inflate"   -> Raw(EncLen(n + 1, off) \o p)                                  \* size field one too large
    [] op = "deflate"   -> Raw(EncLen(n - 1, off) \o p)
    [] op = "huge3"     -> Raw(<<off + 58, 255, 255, 255>>)                              \* size-field attacks
    [] op = "huge4"     -> Raw(<<off + 59, 255, 255, 255, 255>>)
    [] op = "huge8"     -> Raw(<<off + 63, 255, 255, 255, 255, 255, 255, 255, 255>>)

Flip(b, i, bit) == [b EXCEPT ![i] = IF (@ \div bit) % 2 = 1 THEN @ - bit ELSE @ + bit]
ByteApplicable(op, b) ==
  CASE op = "trunc2" -> Len(b) > 2 [] op = "trunchalf" -> Len(b) > 4 [] op = "flipmid7" -> Len(b) > 2 [] OTHER -> Len(b) > 0
ByteMut(op, b) ==
  CASE op = "trunc1"     -> SubSeq(b, 1, Len(b) - 1)
    [] op = "trunc2"     -> SubSeq(b, 1, Len(b) - 2)
    [] op = "trunchalf"  -> SubSeq(b, 1, Len(b) \div 2)
    [] op = "append00"   -> b \o <<0>>
    [] op = "append80"   -> b \o <<128>>
    [] op = "appendc0"   -> b \o <<192>>
    [] op = "flipfirst0" -> Flip(b, 1, 1)
    [] op = "flipfirst7" -> Flip(b, 1, 128)
    [] op = "fliplast0"  -> Flip(b, Len(b), 1)
    [] op = "flipmid7"   -> Flip(b, (Len(b) \div 2) + 1, 128)

\* ======================================================================= large inputs as descriptors
\* A descriptor stands for a long list (64 KiB .. 1 MiB in the traces) without carrying it:
\*   kind "repeat"   : a list of cnt copies of the byte string elem (an element of the type, an empty string, an empty
\*                     list, a malformed item, junk) -- honest size field;
\*   kind "announce" : the size field of cnt copies, only `present` of them there.
\* j = 0: the list is the value; j > 0: it is field j of a struct whose other fields are pre / post (encodings of samples).
\* The driver expands the descriptor (Expand is the definition), the monitors judge the outcome by the descriptor
\* (BigAccept, BigGeneric); scope "big" checks that rule against the parser for every descriptor with cnt <= 3.
RECURSIVE Rep(_, _)
Rep(q, n) == IF n = 0 THEN <<>> ELSE q \o Rep(q, n - 1)
Expand(d) == LET size == Len(d.elem) * d.cnt
                 payload == IF d.kind = "repeat" THEN Rep(d.elem, d.cnt) ELSE Rep(d.elem, d.present)
                 big == EncLen(size, 192) \o payload
             IN IF d.j = 0 THEN big ELSE EncLen(Len(d.pre) + Len(big) + Len(d.post), 192) \o d.pre \o big \o d.post
ElemSchema(d) == IF d.j = 0 THEN Schema(d.ty).e ELSE Schema(d.ty).f[d.j].e
ElemOk(d, strict) == LET q == Parse(d.elem) IN q.ok /\ Match(ElemSchema(d), q.it, strict)
Whole(d) == d.kind = "repeat" \/ d.present = d.cnt
BigAccept(d, strict) == Whole(d) /\ (d.cnt = 0 \/ ElemOk(d, strict))        \* as a value of the type
BigGeneric(d) == Whole(d) /\ (d.cnt = 0 \/ Canonical(d.elem))               \* as an encoding at all

ListTypes == { t \in Types : Schema(t).k = "list" }
EmbedTypes == { t \in Types : Schema(t).k = "struct" /\ \E j \in DOMAIN Schema(t).f : Schema(t).f[j].k = "list" }
FirstList(s) == CHOOSE j \in DOMAIN s.f : s.f[j].k = "list" /\ \A i \in 1..(j - 1) : s.f[i].k # "list"
BigElems(es) == { Enc(Sample(es, 1)), <<128>>, <<192>>, <<129, 0>>, <<255>> }
BigShapes ==
   UNION { { [ty |-> t, j |-> 0, pre |-> <<>>, post |-> <<>>, elem |-> e] : e \in BigElems(Schema(t).e) } : t \in ListTypes } \cup
   UNION { LET s == Schema(t) j == FirstList(s) IN
           { [ty |-> t, j |-> j, pre |-> EncSeq([i \in 1..(j - 1) |-> Sample(s.f[i], 1)]),
              post |-> EncSeq([i \in 1..(Len(s.f) - j) |-> Sample(s.f[j + i], 1)]), elem |-> e] : e \in BigElems(s.f[j].e) }
         : t \in EmbedTypes }
BigKinds(sh) == ({"repeat"} \X (0..3) \X {0}) \cup { q \in {"announce"} \X (1..3) \X (0..2) : q[3] < q[2] /\ sh.j = 0 }
BigDescs == UNION { { [ty |-> sh.ty, j |-> sh.j, pre |-> sh.pre, post |-> sh.post, elem |-> sh.elem, kind |-> kc[1], cnt |-> kc[2], present |-> kc[3]]
                      : kc \in BigKinds(sh) } : sh \in BigShapes }
InitBig == { [ty |-> d.ty, sid |-> 0, b |-> Expand(d), mut |-> <<>>, op |-> "none", d |-> d] : d \in BigDescs }

\* ======================================================================= the encode side at the header-class boundaries
\* A virtual string of n copies of the byte f is the item [k |-> "m", f |-> f, n |-> n]; EncC is Enc with every virtual
\* string written as its header followed by the pair (-1, n) instead of its n bytes, so that the encoding of an object with
\* a megabyte field can be predicted and compared without carrying the megabyte.  SizeC is the length of the real encoding.
Virt(f, n) == [k |-> "m", f |-> f, n |-> n]
HdrLen(n) == IF n < 56 THEN 1 ELSE 1 + Len(BEBytes(n))
RECURSIVE SizeC(_), SizeSeqC(_), EncC(_), EncSeqC(_)
SizeC(it) == CASE it.k = "s" -> IF Len(it.v) = 1 /\ it.v[1] < 128 THEN 1 ELSE HdrLen(Len(it.v)) + Len(it.v)
               [] it.k = "m" -> HdrLen(it.n) + it.n                    \* n >= 2
               [] it.k = "l" -> LET p == SizeSeqC(it.e) IN HdrLen(p) + p
SizeSeqC(q) == IF q = <<>> THEN 0 ELSE SizeC(Head(q)) + SizeSeqC(Tail(q))
EncC(it) == CASE it.k = "s" -> Enc(it)
              [] it.k = "m" -> EncLen(it.n, 128) \o <<-1, it.n>>
              [] it.k = "l" -> EncLen(SizeSeqC(it.e), 192) \o EncSeqC(it.e)
EncSeqC(q) == IF q = <<>> THEN <<>> ELSE EncC(Head(q)) \o EncSeqC(Tail(q))
\* the real bytes a compressed encoding stands for (used to check EncC against Enc in small scope)
RECURSIVE Decomp(_, _)
Decomp(q, f) == IF q = <<>> THEN <<>> ELSE IF Head(q) = -1 THEN Fill(q[2], f) \o Decomp(SubSeq(q, 3, Len(q)), f)
                ELSE <<Head(q)>> \o Decomp(Tail(q), f)
\* the lengths at which the size of a header changes (and their neighbours)
BoundaryLens == {55, 56, 255, 256, 65535, 65536, 1048576}
\* the path of the unique leaf of `it` whose content is three bytes f (the marker the driver plants), <<0>> when not unique
MarkerPath(it, f) == LET ps == PathSeq(it)
                         hit == { i \in DOMAIN ps : At(it, ps[i]) = S(<<f, f, f>>) }
                     IN IF Cardinality(hit) = 1 THEN ps[CHOOSE i \in hit : TRUE] ELSE <<0>>

\* ======================================================================= stateful sequences on mutable containers
\* The content of a container is a duplicate-free sequence of element numbers; add appends an absent element, del
\* removes it, enc / copy / redecode leave it unchanged.  Scope "seq" enumerates every sequence of SeqDepth steps the
\* type's API admits; the monitor folds the same SeqApply and requires the real object's encoding (and List-style view) to
\* be that of a FRESH object with this content.
SeqTypes == {"ValidatorIndex", "WithdrawQueue", "EvidenceDoubleSign", "PendingRelationship", "ValidatorsStat", "Validators"}
SeqX == {1, 2}
SeqInit(t) == IF t = "Validators" THEN <<1, 2>> ELSE <<1>>
InSeq(x, q) == \E i \in DOMAIN q : q[i] = x
SeqApply(op, x, q) == CASE op = "add" -> IF InSeq(x, q) THEN q ELSE Append(q, x)
                        [] op = "del" -> SelectSeq(q, LAMBDA y : y # x)
                        [] OTHER -> q
\* what the production callers do (a queue record / a counted validator is removed only when present, an evidence is
\* built once) and what the type offers (no removal from the pending relationships, no insertion into Validators; its
\* DecodeRLP, which no production path calls, does not rebuild the index Remove needs)
SeqAllowed(t, op, x, q) ==
  CASE op = "add" -> /\ t # "Validators" /\ (t \in {"WithdrawQueue", "ValidatorsStat"} => ~InSeq(x, q))
                     /\ (t = "EvidenceDoubleSign" => q = <<>>)
    [] op = "del" -> t # "PendingRelationship" /\ (t \in {"WithdrawQueue", "ValidatorsStat"} => InSeq(x, q))
    [] op = "redecode" -> t # "Validators"
    [] OTHER -> TRUE
SeqSteps(cc) == { st \in ({"add", "del"} \X SeqX) \cup ({"enc", "copy", "redecode"} \X {0}) :
                    /\ SeqAllowed(cc.ty, st[1], st[2], cc.cont)
                    /\ ~(st[2] = 0 /\ cc.h # <<>> /\ cc.h[Len(cc.h)].op = st[1]) }
InitSeq == { [ty |-> t, sid |-> 0, b |-> <<>>, mut |-> <<>>, op |-> "none", cont |-> SeqInit(t), h |-> <<>>] : t \in SeqTypes }

\* ======================================================================= the encoder API is stateless
\* rlp.EncodeToReader returns a reader that produces the encoding lazily from a pooled buffer; Encode and EncodeToBytes use
\* the same pool.  Whatever is interleaved, every reader yields exactly Enc(its own value), an immediate encoding is
\* Enc(its value), and a reader at EOF yields nothing more.  Scope "api" enumerates every sequence of ApiDepth calls over
\* two reader slots and two values: open v (EncodeToReader into the lowest free slot; a slot is free again once its reader
\* reached EOF), imm v (EncodeToBytes for value 1, Encode to a writer for value 2), chunk s (read two bytes), drain s (read
\* to EOF), again s (read at EOF).  rd[s] = [st |-> "free" | "live" | "eof", v, pos].
ApiVal(v) == IF v = 1 THEN Lst(<<S(<<1, 1, 1>>), Lst(<<S(<<2, 2>>)>>), S(Fill(60, 3))>>)
             ELSE Lst(<<Lst(<<>>), S(<<7, 7>>), Lst(<<S(<<8>>), S(Fill(5, 9))>>)>>)
ApiVals == {1, 2}
ApiSlots == {1, 2}
ApiFree == [st |-> "free", v |-> 0, pos |-> 0]
ApiInit == <<ApiFree, ApiFree>>
ApiLowestFree(rd) == IF rd[1].st # "live" THEN 1 ELSE IF rd[2].st # "live" THEN 2 ELSE 0
ApiOps(rd) ==
   (IF ApiLowestFree(rd) # 0 THEN { [op |-> "open", v |-> v, s |-> ApiLowestFree(rd)] : v \in ApiVals } ELSE {})
   \cup (IF \E s \in ApiSlots : rd[s].st # "free" THEN { [op |-> "imm", v |-> v, s |-> 0] : v \in ApiVals } ELSE {})
   \cup { [op |-> o, v |-> 0, s |-> s] : o \in {"chunk", "drain"}, s \in { t \in ApiSlots : rd[t].st = "live" } }
   \cup { [op |-> "again", v |-> 0, s |-> s] : s \in { t \in ApiSlots : rd[t].st = "eof" } }
ApiRest(r) == LET e == Enc(ApiVal(r.v)) IN SubSeq(e, r.pos + 1, Len(e))
\* what the call must return: the bytes, and (open) the announced size
ApiOut(rd, o) == CASE o.op = "open"  -> <<>>
                   [] o.op = "imm"   -> Enc(ApiVal(o.v))
                   [] o.op = "chunk" -> LET q == ApiRest(rd[o.s]) IN SubSeq(q, 1, IF Len(q) < 2 THEN Len(q) ELSE 2)
                   [] o.op = "drain" -> ApiRest(rd[o.s])
                   [] o.op = "again" -> <<>>
ApiSize(o) == IF o.op = "open" THEN Len(Enc(ApiVal(o.v))) ELSE 0
\* chunk reaches EOF only when it asks beyond the end (a short read); drain and again always end at EOF
ApiEof(rd, o) == CASE o.op = "chunk" -> Len(ApiRest(rd[o.s])) < 2 [] o.op \in {"drain", "again"} -> TRUE [] OTHER -> FALSE
ApiNext(rd, o) == CASE o.op = "open"  -> [rd EXCEPT ![o.s] = [st |-> "live", v |-> o.v, pos |-> 0]]
                    [] o.op = "chunk" -> [rd EXCEPT ![o.s] = [@ EXCEPT !.pos = @ + Len(ApiOut(rd, o)), !.st = IF ApiEof(rd, o) THEN "eof" ELSE "live"]]
                    [] o.op = "drain" -> [rd EXCEPT ![o.s] = [@ EXCEPT !.pos = @ + Len(ApiOut(rd, o)), !.st = "eof"]]
                    [] OTHER -> rd
InitApi == { [ty |-> "api", sid |-> 0, b |-> <<>>, mut |-> <<>>, op |-> "none", rd |-> ApiInit, h |-> <<>>] }

\* ======================================================================= scopes
SeedLog == ndJsonDeserialize("seeds.ndjson")     \* real encodings produced by the driver: [ty, b, nodes, id]
SeedBase == 1000

\* --- scope "items": every item with at most 3 leaves, nesting <= 2
LeafLens == IF Large THEN {0, 1, 2, 55, 56, 57} ELSE {0, 1, 55, 56}
LeafFill == IF Large THEN {0, 1, 127, 128, 255} ELSE {0, 127, 128}
Leaves == { S(Fill(n, f)) : n \in LeafLens, f \in LeafFill }
SeqsUpTo(T, n) == UNION { [1..m -> T] : m \in 0..n }
\* Items are GROWN by actions (so that TLC's workers share the enumeration): append a leaf or an empty list at the top
\* level, or a leaf to the last top-level element when that is a list.  Every item is reached along exactly one path.
LeafCountOf(x) == IF x.k = "s" THEN 1 ELSE Len(x.e)
RECURSIVE SumSeq(_)
SumSeq(q) == IF q = <<>> THEN 0 ELSE Head(q) + SumSeq(Tail(q))
TotalLeaves(it) == SumSeq([i \in DOMAIN it.e |-> LeafCountOf(it.e[i])])
GrowItem(it) ==
   IF it.k = "s" THEN {}
   ELSE LET n == Len(it.e) tl == TotalLeaves(it) IN
        (IF n < 3 /\ tl < 3 THEN { Lst(Append(it.e, lf)) : lf \in Leaves } ELSE {})
        \cup (IF n < 3 THEN { Lst(Append(it.e, Lst(<<>>))) } ELSE {})
        \cup (IF n > 0 /\ it.e[n].k = "l" /\ tl < 3 THEN { Lst([it.e EXCEPT ![n] = Lst(Append(@.e, lf))]) : lf \in Leaves } ELSE {})
RootItems == Leaves \cup {Lst(<<>>)}

\* --- scope "bytes": every byte string of length <= BL over the boundary alphabet
ByteAlpha == IF Large THEN {0, 1, 127, 128, 129, 183, 184, 192, 193, 247, 248} ELSE {0, 127, 128, 129, 184, 192, 193, 248}
BL == 4
\* the enumeration side of Canonical: En = items whose encoding has exactly n bytes, Qn = sequences of items whose
\* concatenated encodings have exactly n bytes (zero-arity definitions: TLC evaluates each once)
LowB == { b \in ByteAlpha : b < 128 }
HighB == ByteAlpha \ LowB
E1 == {S(<<>>), Lst(<<>>)} \cup { S(<<b>>) : b \in LowB }
Q1 == { <<x>> : x \in E1 }
E2 == { S(<<b>>) : b \in HighB } \cup { Lst(q) : q \in Q1 }
Q2 == { <<x>> : x \in E2 } \cup { <<x>> \o q : x \in E1, q \in Q1 }
E3 == { S(q) : q \in [1..2 -> ByteAlpha] } \cup { Lst(q) : q \in Q2 }
Q3 == { <<x>> : x \in E3 } \cup { <<x>> \o q : x \in E2, q \in Q1 } \cup { <<x>> \o q : x \in E1, q \in Q2 }
E4 == { S(q) : q \in [1..3 -> ByteAlpha] } \cup { Lst(q) : q \in Q3 }
EncSet == { Enc(x) : x \in E1 \cup E2 \cup E3 \cup E4 }

\* --- nodes of a case that are mutated
SetOfSeq(q) == { q[i] : i \in DOMAIN q }
StrideNodes(n, v) == IF n <= NodeCap THEN 1..n
                     ELSE LET st == (n + NodeCap - 1) \div NodeCap IN {1} \cup { i \in 1..n : (i + v) % st = 0 }
NodesOf(cc, n) == IF cc.sid >= SeedBase THEN SetOfSeq(SeedLog[cc.sid - SeedBase].nodes) \cap (1..n) ELSE StrideNodes(n, cc.sid)

ItemCase(x) == [ty |-> "generic", sid |-> 0, b |-> Enc(x), mut |-> <<>>, op |-> "none", it |-> x]
BytesCase(q) == [ty |-> "generic", sid |-> 0, b |-> q, mut |-> <<>>, op |-> "none"]
InitItems == { ItemCase(x) : x \in RootItems }
InitBytes == { BytesCase(<<>>) }
InitTyped == { [ty |-> t, sid |-> v, b |-> Enc(Sample(Schema(t), v)), mut |-> <<>>, op |-> "none"] : t \in Types, v \in 0..(NV - 1) }
InitSeeds == { [ty |-> SeedLog[i].ty, sid |-> SeedBase + i, b |-> SeedLog[i].b, mut |-> <<>>, op |-> "none"] : i \in DOMAIN SeedLog }

InitSet == CASE Scope = "items" -> InitItems
             [] Scope = "bytes" -> InitBytes
             [] Scope = "typed" -> InitTyped
             [] Scope = "seeds" -> InitSeeds
             [] Scope = "all"   -> InitTyped \cup InitSeeds
             [] Scope = "big"   -> InitBig
             [] Scope = "seq"   -> InitSeq
             [] Scope = "api"   -> InitApi
Init == c \in InitSet

Label(op, i) == op \o "@" \o ToString(i)
\* The successors of a case are computed as a SET by a pure expression: inside an action TLC re-evaluates a LET
\* definition for every binding of an enclosing quantifier (here: one parse per node and operator).
MutCase(cc, b, op, i) == [ty |-> cc.ty, sid |-> cc.sid, b |-> b, mut |-> Append(cc.mut, Label(op, i)), op |-> op]
\* Pairwise VALUE mutation of the small structs: what a decoder does AFTER the RLP layer accepted (a custom DecodeRLP that
\* post-processes its fields, a handler that consumes them) depends on combinations such as "version = 1 and data longer
\* than the 8 bytes its consumer expects".  For EVERY struct-like node with at most PairMax elements (not only the nodes
\* selected for the other operators) every pair of string children takes every pair of boundary values.
PairMax == 4
PairVals == << <<>>, <<1>>, <<2>>, <<255>>, Fill(9, 255), Fill(33, 255) >>
PairNames == <<"e", "1", "2", "ff", "g9", "g33">>
PairMutants(cc, it, ps) ==
   UNION { LET x == At(it, ps[i]) IN
           IF x.k # "l" \/ Len(x.e) < 2 \/ Len(x.e) > PairMax THEN {}
           ELSE { MutCase(cc, Enc(Subst(it, ps[i], Lst([x.e EXCEPT ![m[1]] = S(PairVals[m[3]]), ![m[2]] = S(PairVals[m[4]])]))),
                          "pair", i * 100000 + m[1] * 10000 + m[2] * 1000 + m[3] * 10 + m[4])
                  : m \in { q \in (1..Len(x.e)) \X (1..Len(x.e)) \X (1..6) \X (1..6) :
                               q[1] < q[2] /\ x.e[q[1]].k = "s" /\ x.e[q[2]].k = "s"
                               /\ (x.e[q[1]].v # PairVals[q[3]] \/ x.e[q[2]].v # PairVals[q[4]]) } }
         : i \in DOMAIN ps }
\* An inner list replaced by the empty list / the empty string (what a nil pointer is encoded as): for EVERY inner list
\* node.  Whether a decoder takes that for "no value" is a per-field decision (struct tag rlp:"nil") that must show here.
NilMutants(cc, it, ps) ==
   UNION { LET x == At(it, ps[i]) IN
           IF i = 1 \/ x.k # "l" THEN {}
           ELSE {MutCase(cc, Enc(Subst(it, ps[i], S(<<>>))), "nilstr", i)}
                \cup (IF x.e = <<>> THEN {} ELSE {MutCase(cc, Enc(Subst(it, ps[i], Lst(<<>>))), "nillist", i)})
         : i \in DOMAIN ps }
NodeMutants(cc) ==
   LET p == Parse(cc.b) IN
   IF ~p.ok THEN {}
   ELSE LET it == p.it
            ps == PathSeq(it)
            ms == { m \in NodesOf(cc, Len(ps)) \X NodeOps : Applicable(m[2], At(it, ps[m[1]])) }
        IN { MutCase(cc, Enc(Subst(it, ps[m[1]], NewNode(m[2], At(it, ps[m[1]])))), m[2], m[1]) : m \in ms }
           \cup (IF cc.mut = <<>> /\ (cc.sid < SeedBase \/ SeedLog[cc.sid - SeedBase].k < PairK) THEN PairMutants(cc, it, ps) ELSE {})
           \cup (IF cc.mut = <<>> THEN NilMutants(cc, it, ps) ELSE {})
ByteMutants(cc) == { MutCase(cc, ByteMut(op, cc.b), op, 0) : op \in { o \in ByteOps : ByteApplicable(o, cc.b) } }
Next == \/ /\ Scope \in {"typed", "seeds", "all"}
           /\ Len(c.mut) < MaxMut
           /\ c' \in NodeMutants(c) \cup ByteMutants(c)
        \/ /\ Scope = "seq"
           /\ Len(c.h) < SeqDepth
           /\ \E st \in SeqSteps(c) : LET q == SeqApply(st[1], st[2], c.cont) IN
                 c' = [c EXCEPT !.cont = q, !.h = Append(@, [op |-> st[1], x |-> st[2], cont |-> q])]
        \/ /\ Scope = "api"
           /\ Len(c.h) < SeqDepth
           /\ \E o \in ApiOps(c.rd) : c' = [c EXCEPT !.rd = ApiNext(c.rd, o), !.h = Append(@, o)]
        \/ /\ Scope = "items"
           /\ \E x \in GrowItem(c.it) : c' = ItemCase(x)
        \/ /\ Scope = "bytes"
           /\ Len(c.b) < BL
           /\ \E x \in ByteAlpha : c' = BytesCase(Append(c.b, x))
Spec == Init /\ [][Next]_c

\* ======================================================================= invariants (M)
\* the specification against itself
EncIsCanonical == (Scope = "items") => LET p == Parse(c.b) IN p.ok /\ p.it = c.it
CanonicalIsEnc == (Scope = "bytes") => (Canonical(c.b) <=> c.b \in EncSet)
DecEncIdentity == LET p == Parse(c.b) IN p.ok => Enc(p.it) = c.b
SchemaOf(cc) == Schema(cc.ty)
Typed == c.ty # "generic"
\* The typed self-checks share one parse of the case (TLC evaluates every INVARIANT separately, and a parse of a block is
\* the expensive part); a failing conjunct prints its name.
Named(n, x) == x \/ (PrintT(<<"FAILED", n, c.ty, c.mut>>) /\ FALSE)
TypedSelfCheck ==
   (Typed /\ Scope \notin {"big", "seq", "api"}) => LET s == SchemaOf(c)
                p == Parse(c.b)
                strict == p.ok /\ Match(s, p.it, TRUE)      \* TypedCanonical
                len == p.ok /\ Match(s, p.it, FALSE)        \* Accepts
                d == Defects(s, p.it)
                nf == Norm1(s, p.it)
            IN /\ Named("DecEncIdentity", p.ok => Enc(p.it) = c.b)
               \* the sample generator produces encodings of values of the type
               /\ Named("SampleSound", (c.mut = <<>> /\ c.sid < SeedBase) => strict)
               \* the property layer is inside the design layer, and only the map order separates an encoding of a value
               \* from a deterministic re-encoding
               /\ Named("StrictIsAccepted", strict => (len /\ d \subseteq {"EvidenceDoubleSign", "map_order"}))
               \* every input the design layer accepts beyond the property layer is classified (the discriminators)
               /\ Named("AcceptedIsClassified", (len /\ ~strict) => d # {})
               \* what the coded encoder writes for an accepted input is an encoding of a value of the type
               /\ Named("NormIsStrict", len => (Match(s, nf, TRUE) /\ Conf(s, p.it, nf)))
               \* the generator's own claims: these operators never yield an encoding
               /\ Named("MutSane", (Len(c.mut) = 1 /\ c.op \in NonCanonOps) => ~p.ok)

\* design-level counterexamples of "accepted => re-encodes to exactly those bytes" (exported, replayed on the real code)
DesignCex == Typed => LET s == SchemaOf(c) p == Parse(c.b) IN
                (p.ok /\ Match(s, p.it, FALSE) /\ Defects(s, p.it) # {})
                => PrintT("@@J " \o ToJson([kind |-> "CEX", clause |-> "AcceptImpliesCanonical", ty |-> c.ty, sid |-> c.sid,
                                            b |-> c.b, mut |-> c.mut, disc |-> Defects(s, p.it)]))
\* the verdict-by-descriptor rule against the parser
BigSound == (Scope = "big") =>
   LET s == Schema(c.ty) p == Parse(c.b) IN
   /\ Named("BigStrict", (p.ok /\ Match(s, p.it, TRUE)) <=> BigAccept(c.d, TRUE))
   /\ Named("BigDesign", (p.ok /\ Match(s, p.it, FALSE)) <=> BigAccept(c.d, FALSE))
   /\ Named("BigGeneric", p.ok <=> BigGeneric(c.d))
\* the model of a container's content: no duplicates, only known elements
SeqSound == (Scope = "seq") => /\ \A i, j \in DOMAIN c.cont : i # j => c.cont[i] # c.cont[j]
                              /\ \A i \in DOMAIN c.cont : c.cont[i] \in SeqX
\* the model of the readers: a position never passes the end, a reader at EOF has delivered everything
ApiSound == (Scope = "api") => \A t \in ApiSlots : c.rd[t].st # "free" =>
               /\ c.rd[t].pos <= Len(Enc(ApiVal(c.rd[t].v)))
               /\ (c.rd[t].st = "eof" => c.rd[t].pos = Len(Enc(ApiVal(c.rd[t].v))))
\* the compressed encoder against the encoder: for the string leaves of every unmutated sample, at small lengths on both
\* sides of the first header-class boundary
EncCSound == (Scope \in {"typed", "all"} /\ c.mut = <<>> /\ c.sid = 0) =>
   LET p == Parse(c.b) ps == PathSeq(p.it) IN
   \A i \in { j \in DOMAIN ps : j <= 12 /\ At(p.it, ps[j]).k = "s" } : \A n \in {2, 55, 56, 300} :
      /\ Decomp(EncC(Subst(p.it, ps[i], Virt(165, n))), 165) = Enc(Subst(p.it, ps[i], S(Fill(n, 165))))
      /\ SizeC(Subst(p.it, ps[i], Virt(165, n))) = Len(Enc(Subst(p.it, ps[i], S(Fill(n, 165)))))
\* ======================================================================= generation (G)
Emit == (GenMode = "print") =>
   IF Scope = "api" THEN (Len(c.h) = SeqDepth => PrintT("@@J " \o ToJson([kind |-> "A", ops |-> c.h, vals |-> [v \in ApiVals |-> ApiVal(v)]])))
   ELSE IF Scope = "seq" THEN (Len(c.h) = SeqDepth => PrintT("@@J " \o ToJson([kind |-> "Q", ty |-> c.ty, init |-> SeqInit(c.ty), ops |-> c.h])))
   ELSE IF Scope = "big" THEN PrintT("@@J " \o ToJson([kind |-> "D", d |-> c.d]))
   ELSE PrintT("@@J " \o ToJson([kind |-> "B", ty |-> c.ty, sid |-> c.sid, b |-> c.b, mut |-> c.mut]))
=============================================================================
