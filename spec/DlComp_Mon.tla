----------------------------- MODULE DlComp_Mon -----------------------------
(***************************************************************************)
(* C18 monitor for the component stage: every result the real queue hands  *)
(* out in full / fast / light mode is recorded as <<number, transactions   *)
(* match TxHash, receipts match ReceiptHash, receipts were queued for this *)
(* mode>>.  "only with a transaction list that matches the header's        *)
(* transaction root"; where receipts are part of the block they must match *)
(* as well.  Also in order from the origin.  Cannot reject a trace.        *)
(***************************************************************************)
EXTENDS Integers, Sequences, FiniteSets, TLC, Json
TraceLog == ndJsonDeserialize("trace.ndjson")
VARIABLES l, nd, viol, fired
vars == <<l, nd, viol, fired>>
AddViol(new) == viol \cup { v \in new : ~\E w \in viol : w[1] = v[1] /\ w[2] = v[2] }
Init == l = 1 /\ nd = 0 /\ viol = {} /\ fired = [BodyMatchesHeader |-> 0, InOrderGapFree |-> 0, NoPanic |-> 0]
Step ==
   /\ l <= Len(TraceLog) /\ l' = l + 1
   /\ LET e == TraceLog[l] IN
      CASE e.ev \in {"reset", "abort"} -> nd' = 0 /\ UNCHANGED <<viol, fired>>
        [] "panic" \in DOMAIN e -> /\ viol' = AddViol({ <<"NoPanic", {e.ev}, l>> }) /\ UNCHANGED <<nd, fired>>
        [] e.ev = "Results" ->
             LET r == e.res.r IN
             /\ nd' = nd + Len(r)
             /\ viol' = AddViol({ <<"BodyMatchesHeader", {"component", "transactions", e.mode}, l>> : i \in { k \in DOMAIN r : ~r[k][2] } }
                          \cup { <<"BodyMatchesHeader", {"component", "receipts", e.mode}, l>> : i \in { k \in DOMAIN r : r[k][4] /\ ~r[k][3] } }
                          \cup { <<"InOrderGapFree", {"component"}, l>> : i \in { k \in DOMAIN r : r[k][1] # nd + k } })
             /\ fired' = IF Len(r) > 0 THEN [fired EXCEPT !.BodyMatchesHeader = @ + 1, !.InOrderGapFree = @ + 1] ELSE fired
        [] OTHER -> UNCHANGED <<nd, viol, fired>>
Spec == Init /\ [][Step]_vars
Done == (l = Len(TraceLog) + 1) =>
          PrintT("@@J " \o ToJson([kind |-> "RESULT", events |-> Len(TraceLog), viol |-> viol, fired |-> fired]))
=============================================================================
