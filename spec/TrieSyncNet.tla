----------------------------- MODULE TrieSyncNet -----------------------------
(***************************************************************************)
(* C19 at the network layer: you/downloader/triesync.go -- runTrieSync     *)
(* (active requests per peer, the `finished` list, request timers, peer    *)
(* drops), trieSync.loop (Pending() > 0, commit, assignTasks, process) and *)
(* fillTasks -- on top of the scheduler of TrieSync.tla.  This is what      *)
(* produces "late, twice, never" in production.                            *)
(*                                                                         *)
(* As coded:                                                               *)
(*  - fillTasks refills the retry pool `pool` (trieSync.tasks) from        *)
(*    Missing up to the peer's capacity, then takes up to `Cap` pool tasks  *)
(*    this peer has not attempted, marks the attempt, and moves them into   *)
(*    the request;                                                          *)
(*  - a response is matched to the peer's ACTIVE request by peer id only;   *)
(*    with no active request (timed out, or never asked) it is discarded;   *)
(*    a late answer to an old request therefore lands on the peer's NEXT    *)
(*    request;                                                              *)
(*  - process() hashes every blob and hands it to the scheduler whatever    *)
(*    the request asked for; a delivered hash is struck off the request's   *)
(*    tasks; tasks left over go back to the pool, with the attempt mark     *)
(*    cleared when the peer delivered anything at all or the request timed  *)
(*    out / the peer dropped; a left-over task attempted by as many peers   *)
(*    as are registered aborts the sync;                                    *)
(*  - a request of at most two items that times out gets its peer dropped;  *)
(*  - on every exit the membatch is flushed (commit(true)).                 *)
(***************************************************************************)
EXTENDS TrieSync

CONSTANTS Peers,        \* peer ids
          HonestPeers,       \* peers that answer every request completely, genuinely and before its timer fires
          Cap,          \* items per request (NodeDataCapacity; 2 for a peer without throughput history)
          MaxResp,      \* longest response of a dishonest peer
          AllowCancel,  \* the sync may be cancelled from outside
          CountDeparted \* TRUE = as coded: attempt marks of peers that have left still count towards "failed with all peers";
                        \* FALSE = the proposed repair: only marks of registered peers count

VARIABLES ps,     \* peer -> "idle" | "busy" | "gone"
          act,    \* peer -> items of its active request ({} = none)          (runTrieSync.active)
          fin,    \* finished requests waiting for the loop                   (runTrieSync.finished)
          pool,   \* tasks waiting for (re)assignment                         (trieSync.tasks)
          att,    \* node -> peers that attempted it                          (trieTask.attempts)
          owed,   \* peer -> requests it received and has not answered (late answers come from here)
          status  \* "run" | "done" | "failed" | "cancelled"
nvars == <<vars, ps, act, fin, pool, att, owed, status>>
sched == <<d, flight, faults, last, hist>>   \* parts of TrieSync this layer does not use

NInit == /\ Init
         /\ ps = [p \in Peers |-> "idle"] /\ act = [p \in Peers |-> {}] /\ fin = <<>>
         /\ pool = {} /\ att = [n \in Nodes |-> {}] /\ owed = [p \in Peers |-> {}] /\ status = "run"

Flushed == db \o Unwritten(mem)
Registered(pst) == { q \in Peers : pst[q] # "gone" }

\* assignTasks for one idle peer: fillTasks, then the request is tracked and sent
Assign(p) ==
   /\ status = "run" /\ ps[p] = "idle" /\ reqd # {}
   /\ LET need == IF Cardinality(pool) < Cap THEN Cap - Cardinality(pool) ELSE 0 IN
      \E S \in SUBSET queue :
         /\ Cardinality(S) = Min(need, Cardinality(queue))
         /\ LET pool1 == pool \cup S
                att1  == [n \in Nodes |-> IF n \in S THEN {} ELSE att[n]]
                cand  == { n \in pool1 : p \notin att1[n] } IN
            \E I \in SUBSET cand :
               /\ Cardinality(I) = Min(Cap, Cardinality(cand))
               /\ queue' = queue \ S
               /\ pool' = pool1 \ I
               /\ att' = [n \in Nodes |-> IF n \in I THEN att1[n] \cup {p} ELSE att1[n]]
               /\ IF I = {} THEN UNCHANGED <<ps, act, owed>>
                  ELSE /\ ps' = [ps EXCEPT ![p] = "busy"]
                       /\ act' = [act EXCEPT ![p] = I]
                       /\ owed' = [owed EXCEPT ![p] = @ \cup {I}]
   /\ UNCHANGED <<sched, req, reqd, mem, db, fin, status>>

\* a response reaches runTrieSync: matched by peer id against the active request, else discarded
Arrive(p, R, resp) ==
   /\ R \in owed[p]
   /\ owed' = [owed EXCEPT ![p] = @ \ {R}]
   /\ IF act[p] = {} \/ status # "run" THEN UNCHANGED <<act, fin>>
      ELSE /\ fin' = Append(fin, [p |-> p, items |-> act[p], kind |-> "resp", resp |-> resp])
           /\ act' = [act EXCEPT ![p] = {}]
   /\ UNCHANGED <<sched, req, reqd, queue, mem, db, ps, pool, att, status>>

HonestRespond(p) == \E R \in owed[p] : Arrive(p, R, [i \in 1..Cardinality(R) |-> [n |-> SeqOfSet(R)[i], c |-> 0]])
\* anything: a sub-multiset of the request in any order, corrupted, unrequested, duplicated blobs, or nothing
Blobs(R) == { [n |-> n, c |-> 0] : n \in Nodes } \cup { [n |-> n, c |-> 1] : n \in R }
AnyRespond(p) == \E R \in owed[p], k \in 0..MaxResp : \E resp \in [1..k -> Blobs(R)] : Arrive(p, R, resp)

\* the request timer fires (a stale timer finds no active request and is ignored)
Timeout(p) ==
   /\ status = "run" /\ act[p] # {}
   /\ fin' = Append(fin, [p |-> p, items |-> act[p], kind |-> "timeout", resp |-> <<>>])
   /\ act' = [act EXCEPT ![p] = {}]
   /\ UNCHANGED <<sched, req, reqd, queue, mem, db, ps, pool, att, owed, status>>

\* the peer goes away (peerDrop event)
PeerDrop(p) ==
   /\ status = "run" /\ ps[p] # "gone"
   /\ ps' = [ps EXCEPT ![p] = "gone"]
   /\ IF act[p] = {} THEN UNCHANGED <<act, fin>>
      ELSE /\ fin' = Append(fin, [p |-> p, items |-> act[p], kind |-> "dropped", resp |-> <<>>])
           /\ act' = [act EXCEPT ![p] = {}]
   /\ UNCHANGED <<sched, req, reqd, queue, mem, db, pool, att, owed, status>>

\* process(): every blob is hashed and injected on its own; ErrNotRequested / ErrAlreadyProcessed are only counted
RECURSIVE Inject(_, _, _, _)
Inject(st, resp, i, dbs) == IF i > Len(resp) THEN st ELSE Inject(ProcItem(st, resp[i], dbs).st, resp, i + 1, dbs)

\* the loop takes the next finished request
LoopStep ==
   /\ status = "run" /\ fin # <<>> /\ reqd # {}
   /\ LET r   == Head(fin)
          ps1 == IF r.kind = "timeout" /\ Cardinality(r.items) <= 2 THEN [ps EXCEPT ![r.p] = "gone"] ELSE ps   \* dropPeer
          st  == Inject([req |-> req, reqd |-> reqd, queue |-> queue, mem |-> mem], r.resp, 1, SetOf(db))
          got == { r.resp[i].n : i \in { j \in DOMAIN r.resp : r.resp[j].c = 0 } }
          left == r.items \ got
          clear == Len(r.resp) > 0 \/ r.kind \in {"timeout", "dropped"}
          att2 == [n \in Nodes |-> IF n \in left /\ clear THEN att[n] \ {r.p} ELSE att[n]]
          tried(n) == IF CountDeparted THEN att2[n] ELSE att2[n] \cap Registered(ps1)
          abort == \E n \in left : Cardinality(tried(n)) >= Cardinality(Registered(ps1)) IN
      /\ fin' = Tail(fin)
      /\ req' = st.req /\ reqd' = st.reqd /\ queue' = st.queue
      /\ att' = att2
      /\ ps' = [ps1 EXCEPT ![r.p] = IF ps1[r.p] = "gone" THEN "gone" ELSE "idle"]
      /\ IF abort THEN /\ status' = "failed" /\ db' = db \o SelectSeq(st.mem, LAMBDA x : x \notin SetOf(db)) /\ mem' = <<>> /\ pool' = pool
                  ELSE /\ status' = status /\ db' = db /\ mem' = st.mem /\ pool' = pool \cup left
   /\ UNCHANGED <<sched, act, owed>>

\* Pending() = 0: the loop ends, the membatch is flushed
Complete ==
   /\ status = "run" /\ reqd = {}
   /\ status' = "done" /\ db' = Flushed /\ mem' = <<>>
   /\ UNCHANGED <<sched, req, reqd, queue, ps, act, fin, pool, att, owed>>

Cancel ==
   /\ AllowCancel /\ status = "run"
   /\ status' = "cancelled" /\ db' = Flushed /\ mem' = <<>>
   /\ UNCHANGED <<sched, req, reqd, queue, ps, act, fin, pool, att, owed>>

\* commit(false) once enough bytes are uncommitted (any time, as far as this model knows)
Flush ==
   /\ status = "run" /\ mem # <<>>
   /\ db' = Flushed /\ mem' = <<>>
   /\ UNCHANGED <<sched, req, reqd, queue, ps, act, fin, pool, att, owed, status>>

Adversary == \/ \E p \in (Peers \ HonestPeers) : (AnyRespond(p) \/ Timeout(p) \/ PeerDrop(p))
             \/ Cancel
             \/ Flush
System == \/ \E p \in Peers : Assign(p)
          \/ \E p \in HonestPeers : HonestRespond(p)
          \/ LoopStep
          \/ Complete
NNext == System \/ Adversary
NSpec == NInit /\ [][NNext]_nvars
\* fairness: the loop and the honest peers keep going; an honest peer that is idle again and again is eventually given work
\* (assignTasks serves every idle peer in one pass; as separate actions this needs strong fairness)
FairSpec == /\ NSpec /\ WF_nvars(LoopStep) /\ WF_nvars(Complete)
            /\ \A p \in HonestPeers : WF_nvars(HonestRespond(p)) /\ SF_nvars(Assign(p))
            /\ \A p \in Peers \ HonestPeers : WF_nvars(Timeout(p))     \* the request timer is the system's: it does fire

\* ---------------------------------------------------------------- property layer
NetCompleteWhenDone == status = "done" => Nodes \subseteq SetOf(db)
\* every missing hash is in exactly one of: scheduler queue / retry pool / an active request / a finished request
Holders(n) == (IF n \in queue THEN 1 ELSE 0) + (IF n \in pool THEN 1 ELSE 0)
              + Cardinality({ p \in Peers : n \in act[p] }) + Cardinality({ i \in DOMAIN fin : n \in fin[i].items })
NoTaskLost == status = "run" => \A n \in reqd : ~req[n].got => Holders(n) = 1
\* corrupted blobs never change the scheduler
NetCorruptRejected ==
   [][ (status = "run" /\ fin # <<>> /\ fin' = Tail(fin) /\ \A i \in DOMAIN Head(fin).resp : Head(fin).resp[i].c # 0)
         => ((req' = req /\ mem' = mem) \/ status' = "failed") ]_nvars
\* liveness: with an honest peer the sync completes
Completes == <>(status = "done")
NView == <<d, req, reqd, queue, mem, db, ps, act, fin, pool, att, owed, status>>
=============================================================================
