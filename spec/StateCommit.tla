----------------------------- MODULE StateCommit -----------------------------
(***************************************************************************)
(* C10 -- what reaches the three tries of core/state.StateDB and the       *)
(* database, and what a copy carries (statedb.go Finalise,                 *)
(* IntermediateRoot, Commit, Copy, New; state_object.go deepCopy;          *)
(* statedb_staking.go updateStakingTrie).                                  *)
(*                                                                         *)
(* Design layer: the live content (accounts with storage/code/delegator    *)
(* side, validators, withdraw queue, staking records, pending              *)
(* relationships), the content held by the tries, the blobs held by the    *)
(* database (code, delegation lists) and the bookkeeping that decides what *)
(* is written when: journal-dirty / pending accounts, stateObjectsDirty,   *)
(* dirtyCode, dirtyDlgs, validatorObjectsDirty, stakingRecordsDirty,       *)
(* pendingRelatsDirty.  Statistics and index are derived here (their       *)
(* incremental maintenance is C08's subject).                              *)
(* Named deviation of the code (Fix = set of deviations assumed repaired): *)
(*   "copy"  stateObject.deepCopy drops the loaded delegation list and the *)
(*           dirtyDlgs flag: a copied account whose list is not yet in the *)
(*           database cannot be read, and the copy never writes the list.  *)
(*   "copydirty" Copy() marks an object that is both pending and in        *)
(*           stateObjectsDirty only as pending (the assignment sits inside *)
(*           `if !exist`): Commit of the copy skips it -- code blob,       *)
(*           storage trie and delegation list are never written.           *)
(*   "midtx" Copy() inside a transaction: the copy has an empty journal,   *)
(*           so its Finalise never examines the accounts the original      *)
(*           touched in the open transaction (an emptied account stays).   *)
(* Property layer: invariants at the end.  Aliasing between a copy and its *)
(* original is NOT modelled (contents are values); CopyIndependent is      *)
(* judged on the real code only.                                           *)
(***************************************************************************)
EXTENDS Integers, Sequences, FiniteSets, TLC, Json

CONSTANTS Unit, MaxOps, Alpha, GenMode, Fix

Accts == {1, 2}          \* account 1 is funded (never empty) and is the delegator; account 2 starts absent
Vals  == {1, 2}
RecKeys == {0, 1} \X Vals \* staking records: (zero address | account 1) x validator

VARIABLES acc, val, wq, rec, rel,          \* live content
          tacc, tval, twq, trec, trel,     \* content held by the tries
          blobs,                           \* [code, dl]: blobs in the database
          dAcc, oDirty, dCode, dDl, dVal, dRec, dRel,
          jd,                              \* accounts dirty in the journal of the open transaction (Finalise examines only these)
          unex,                            \* pending accounts of a copy whose emptiness its Finalise will not examine
          nod,                             \* pending accounts of a copy that are NOT in its stateObjectsDirty (as coded)
          zomb,                            \* accounts stored in the state trie as EMPTY accounts (not content: getters show nothing)
          \* the node database: state.Database = a cache (trie.Database) over a disk database.  Commit puts nodes and blobs into
          \* the cache; only TrieDB().Commit(root) of the three roots ("Flush", what WriteBlockWithState does) writes what is
          \* REACHABLE from those roots to disk; a restart sees the disk only.
          dsk,                             \* [tr: content of the tries of the last flushed roots, blobs: blobs on disk]
          cacc,                            \* accounts as of the last Commit (what its state root references)
          fl,                              \* the last committed roots are flushed
          garb,                            \* an older, never flushed commit exists in the cache
          fo,                              \* a Flush happened in this behaviour
          ch,                              \* live contents at the last (up to 4) Commits of this Database, oldest first
          orec, hasOther,                  \* staking records of the most recent frozen object (copy or original), once one exists
          clean,                           \* "root" | "commit" right after such a point, "" after any write
          copyOk,                          \* the copy taken by the last step can be read and equals the original
          failed, hist
live  == <<acc, val, wq, rec, rel>>
tries == <<tacc, tval, twq, trec, trel>>
book  == <<dAcc, oDirty, dCode, dDl, dVal, dRec, dRel, jd, unex, nod, zomb>>
node  == <<dsk, cacc, fl, garb, fo>>
aux   == <<ch, orec, hasOther>>
vars  == <<live, tries, blobs, book, node, aux, clean, copyOk, failed, hist>>

Fixed(x) == x \in Fix

ZeroAcc == [bal |-> 0, nonce |-> 0, code |-> 0, s1 |-> 0, s2 |-> 0, dbal |-> 0, to |-> {}]
NoVal == [ex |-> FALSE, st |-> 0, dl |-> 0]
NoRec == [ex |-> FALSE, val |-> 0, tx |-> <<>>]

\* Alphabets "disk" and "deleg2" start from a populated state; the prelude that produces it is the beginning of hist, so the
\* driver and the conformance spec (from the plain initial state) simply replay it.
\*   disk  : validator 1 created, transaction finalised
\*   deleg2: both validators created, account 1 delegating 7 LU to each, transaction finalised
Seeded == Alpha \in {"disk", "deleg2"}
POp(name, a, v, d) == [op |-> name, a |-> a, v |-> v, d |-> d, s |-> 0, r |-> 0, h |-> 0]
Prelude == IF Alpha = "disk" THEN <<POp("CreateValidator", 0, 1, 15), POp("Finalise", 0, 0, 0)>>
           ELSE <<POp("CreateValidator", 0, 1, 15), POp("CreateValidator", 0, 2, 15), POp("Delegate", 1, 1, 7), POp("Delegate", 1, 2, 7),
                  POp("Finalise", 0, 0, 0)>>
SeedAcc == [a \in Accts |-> IF Alpha = "deleg2" /\ a = 1 THEN [ZeroAcc EXCEPT !.dbal = 14, !.to = {1, 2}] ELSE ZeroAcc]
SeedVal == [v \in Vals |-> IF Alpha = "deleg2" THEN [ex |-> TRUE, st |-> 15, dl |-> 7]
                           ELSE IF Alpha = "disk" /\ v = 1 THEN [ex |-> TRUE, st |-> 15, dl |-> 0] ELSE NoVal]
Init == /\ acc = SeedAcc /\ val = SeedVal /\ wq = <<>>
        /\ rec = [k \in RecKeys |-> NoRec] /\ rel = {}
        /\ tacc = [a \in Accts |-> ZeroAcc] /\ tval = [v \in Vals |-> NoVal] /\ twq = <<>>
        /\ trec = [k \in RecKeys |-> NoRec] /\ trel = {}
        /\ blobs = [code |-> {}, dl |-> {}, st |-> {}]
        /\ dAcc = (IF Alpha = "deleg2" THEN {1} ELSE {}) /\ oDirty = {} /\ dCode = {} /\ dDl = (IF Alpha = "deleg2" THEN {1} ELSE {})
        /\ dVal = { v \in Vals : SeedVal[v].ex } /\ dRec = {} /\ dRel = FALSE /\ jd = {} /\ unex = {} /\ nod = {} /\ zomb = {}
        /\ dsk = [tr |-> <<[a \in Accts |-> ZeroAcc], [v \in Vals |-> NoVal], <<>>, [k \in RecKeys |-> NoRec], {}>>,
                  blobs |-> [code |-> {}, dl |-> {}, st |-> {}]]
        /\ cacc = tacc /\ fl = TRUE /\ garb = FALSE /\ fo = FALSE
        /\ ch = <<>> /\ orec = rec /\ hasOther = FALSE
        /\ clean = (IF Seeded THEN "" ELSE "commit") /\ copyOk = TRUE /\ failed = FALSE
        /\ hist = (IF Seeded THEN Prelude ELSE <<>>)

Rec(name, a, v, d, s, r, h) == [op |-> name, a |-> a, v |-> v, d |-> d, s |-> s, r |-> r, h |-> h]
\* generated behaviours start with a write (control points on the untouched starting state say nothing)
ControlOps == {"Root", "Commit", "Reload", "Copy", "CopySwap", "Finalise", "Flush", "GC", "Restart", "ReloadOld"}
\* ---- alphabets whose behaviours start with a fixed prelude executed by the model itself
DynPrelude == CASE Alpha = "slots" -> <<Rec("SetState", 1, 0, 5, 1, 0, 0), Rec("AddBalance", 2, 0, 1, 0, 0, 0), Rec("Commit", 0, 0, 0, 0, 0, 0)>>
                [] Alpha = "old"   -> <<Rec("AddBalance", 2, 0, 1, 0, 0, 0), Rec("Commit", 0, 0, 0, 0, 0, 0)>>
                [] Alpha = "recs2" -> <<Rec("AddRecord", 0, 1, -1, 0, 0, 1), Rec("AddRecord", 0, 1, -1, 0, 0, 2), Rec("AddRecord", 0, 1, -1, 0, 0, 1)>>
                [] Alpha = "lazy"  -> <<Rec("CreateValidator", 0, 1, 15, 0, 0, 0), Rec("Delegate", 1, 1, 7, 0, 0, 0), Rec("AddWithdraw", 0, 0, 0, 0, 1, 0),
                                        Rec("AddRecord", 0, 1, 9, 0, 0, 1), Rec("AddRel", 1, 1, 0, 0, 0, 0)>>
                [] Alpha = "reset" -> <<Rec("AddRecord", 0, 1, 9, 0, 0, 1), Rec("AddRel", 1, 1, 0, 0, 0, 0), Rec("Commit", 0, 0, 0, 0, 0, 0)>>
                [] Alpha = "blind" -> <<Rec("CreateValidator", 0, 1, 15, 0, 0, 0), Rec("AddBalance", 2, 0, 1, 0, 0, 0), Rec("Reload", 0, 0, 0, 0, 0, 0)>>
                [] OTHER -> <<>>
InPrelude == Len(hist) < Len(DynPrelude)
\* Reads are not neutral in this code base (lazy caches).  A generated operation carries a flag b; b = 1 ("blind") tells the
\* driver to take NO dump at that step.  Blind steps come in pairs: CopySwap taken on a clean object, immediately followed by
\* Reload (commit of the copy, reopen): only the reopened copy and -- afterwards -- the original are read.
\* The flag does not exist in the model's state.
TickB(r, B) == /\ Len(hist) < MaxOps /\ ~failed
               /\ (GenMode = "leaf" /\ Len(hist) = 0) => r.op \notin ControlOps
               /\ \E x \in B : hist' = Append(hist, r @@ [b |-> x])
Tick(r) == TickB(r, {0})
LastBlindCopy == /\ Len(hist) > 0 /\ hist[Len(hist)].op = "CopySwap"
                 /\ "b" \in DOMAIN hist[Len(hist)] /\ hist[Len(hist)].b = 1

Write == clean' = "" /\ copyOk' = TRUE /\ UNCHANGED <<tries, blobs, failed, unex, zomb, node, aux>>
Touch(a) == nod' = nod \ {a}      \* a journal entry: the next Finalise puts the object into stateObjectsDirty again

\* ---------------------------------------------------------------- accounts
AcctWrite(a, new, name, d, s) ==
   /\ Tick(Rec(name, a, 0, d, s, 0, 0))
   /\ acc' = [acc EXCEPT ![a] = new]
   /\ dAcc' = dAcc \cup {a} /\ jd' = jd \cup {a} /\ Touch(a)
   /\ UNCHANGED <<val, wq, rec, rel, oDirty, dDl, dVal, dRec, dRel>>
   /\ Write

AddBalance(a, d) == AcctWrite(a, [acc[a] EXCEPT !.bal = @ + d], "AddBalance", d, 0) /\ UNCHANGED dCode
SubBalance(a, d) == acc[a].bal >= d /\ AcctWrite(a, [acc[a] EXCEPT !.bal = @ - d], "SubBalance", d, 0) /\ UNCHANGED dCode
SetNonce(a, n)   == acc[a].nonce # n /\ AcctWrite(a, [acc[a] EXCEPT !.nonce = n], "SetNonce", n, 0) /\ UNCHANGED dCode
SetCode(a, c)    == AcctWrite(a, [acc[a] EXCEPT !.code = c], "SetCode", c, 0) /\ dCode' = dCode \cup {a}
SetState(a, s, v) == (IF s = 1 THEN acc[a].s1 ELSE acc[a].s2) # v /\ AcctWrite(a, IF s = 1 THEN [acc[a] EXCEPT !.s1 = v] ELSE [acc[a] EXCEPT !.s2 = v], "SetState", v, s) /\ UNCHANGED dCode

\* ---------------------------------------------------------------- validators and delegations
ValWrite(v, new, name, a, d) ==
   /\ Tick(Rec(name, a, v, d, 0, 0, 0))
   /\ val' = [val EXCEPT ![v] = new]
   /\ dVal' = dVal \cup {v}

CreateValidator(v, d) ==
   /\ ~val[v].ex
   /\ ValWrite(v, [ex |-> TRUE, st |-> d, dl |-> 0], "CreateValidator", 0, d)
   /\ UNCHANGED <<acc, wq, rec, rel, dAcc, oDirty, dCode, dDl, dRec, dRel, jd, nod>> /\ Write
Deposit(v, d) ==
   /\ val[v].ex
   /\ ValWrite(v, [val[v] EXCEPT !.st = @ + d], "Deposit", 0, d)
   /\ UNCHANGED <<acc, wq, rec, rel, dAcc, oDirty, dCode, dDl, dRec, dRel, jd, nod>> /\ Write
WithdrawAll(v) ==
   /\ val[v].ex /\ val[v].dl = 0
   /\ ValWrite(v, [val[v] EXCEPT !.st = 0], "WithdrawAll", 0, 0)
   /\ UNCHANGED <<acc, wq, rec, rel, dAcc, oDirty, dCode, dDl, dRec, dRel, jd, nod>> /\ Write
\* StateDB.UpdateDelegation(account 1, v, d): both sides
Delegate(v, d) ==
   /\ val[v].ex /\ val[v].dl + d >= 0 /\ (val[v].dl = 0 => d > 0)
   /\ ValWrite(v, [val[v] EXCEPT !.dl = @ + d], "Delegate", 1, d)
   /\ LET nto == IF val[v].dl + d > 0 THEN acc[1].to \cup {v} ELSE acc[1].to \ {v} IN
      /\ acc' = [acc EXCEPT ![1].dbal = @ + d, ![1].to = nto]
      /\ dDl' = IF nto # acc[1].to THEN dDl \cup {1} ELSE dDl
   /\ dAcc' = dAcc \cup {1} /\ jd' = jd \cup {1} /\ Touch(1)
   /\ UNCHANGED <<wq, rec, rel, oDirty, dCode, dRec, dRel>> /\ Write

\* ---------------------------------------------------------------- withdraw queue, staking records
InQ(r) == \E i \in DOMAIN wq : wq[i] = r
AddWithdraw(r) ==
   /\ ~InQ(r) /\ Len(wq) < 3
   /\ Tick(Rec("AddWithdraw", 0, 0, 0, 0, r, 0))
   /\ wq' = Append(wq, r)
   /\ UNCHANGED <<acc, val, rec, rel, book>> /\ Write
RemoveWithdraw(i) ==
   /\ i \in DOMAIN wq
   /\ Tick(Rec("RemoveWithdraw", 0, 0, 0, 0, i, 0))
   /\ wq' = SubSeq(wq, 1, i - 1) \o SubSeq(wq, i + 1, Len(wq))
   /\ UNCHANGED <<acc, val, rec, rel, book>> /\ Write
\* AddStakingRecord(d, v, txHash, value): value -1 = nil, h 0 = no hash
MaxTx == IF Alpha = "recs" THEN 2 ELSE 7
AddRecord(a, v, h, d) ==
   /\ Len(rec[<<a, v>>].tx) < MaxTx
   /\ Tick(Rec("AddRecord", a, v, d, 0, 0, h))
   /\ rec' = [rec EXCEPT ![<<a, v>>] = [ex |-> TRUE, val |-> IF d >= 0 THEN d ELSE @.val, tx |-> IF h > 0 THEN Append(@.tx, h) ELSE @.tx]]
   /\ dRec' = dRec \cup {<<a, v>>}
   /\ UNCHANGED <<acc, val, wq, rel, dAcc, oDirty, dCode, dDl, dVal, dRel, jd, nod>> /\ Write
\* the same call on the most recent FROZEN object (the copy after Copy, the original after CopySwap): both sides of a copy
\* go on recording; the main object must not notice
AddRecordOther(a, v, h, d) ==
   /\ hasOther /\ Len(orec[<<a, v>>].tx) < MaxTx
   /\ Tick(Rec("AddRecordOther", a, v, d, 0, 0, h))
   /\ orec' = [orec EXCEPT ![<<a, v>>] = [ex |-> TRUE, val |-> IF d >= 0 THEN d ELSE @.val, tx |-> IF h > 0 THEN Append(@.tx, h) ELSE @.tx]]
   /\ UNCHANGED <<live, tries, blobs, book, node, ch, hasOther, clean, copyOk, failed>>
\* state.New(k-th last committed roots) through the SAME Database while the live object has gone on: a read-only probe
ReloadOld(k) ==
   /\ k <= Len(ch)
   /\ Tick(Rec("ReloadOld", 0, 0, k, 0, 0, 0))
   /\ UNCHANGED <<live, tries, blobs, book, node, aux, clean, copyOk, failed>>
\* StateDB.ResetStakingTrie (core.ResetStakingTrieOnNewPeriod: the same object is carried over a staking-period boundary): the
\* staking trie starts empty again -- staking records and pending relationships become empty, in memory and in the trie;
\* nothing else changes
ResetStaking ==
   /\ Tick(Rec("ResetStaking", 0, 0, 0, 0, 0, 0))
   /\ rec' = [k \in RecKeys |-> NoRec] /\ rel' = {}
   /\ trec' = [k \in RecKeys |-> NoRec] /\ trel' = {}
   /\ dRec' = {} /\ dRel' = FALSE
   /\ clean' = "" /\ copyOk' = TRUE
   /\ UNCHANGED <<acc, val, wq, tacc, tval, twq, blobs, dAcc, oDirty, dCode, dDl, dVal, jd, unex, nod, zomb, node, aux, failed>>
\* GetStakingRecord / PendingValidatorExist: a read (it loads the record into the object's cache)
ReadRecord(a, v) ==
   /\ Tick(Rec("ReadRecord", a, v, 0, 0, 0, 0))
   /\ UNCHANGED <<live, tries, blobs, book, node, aux, clean, copyOk, failed>>
\* a read of ONE lazily loaded component of the object (1 statistics, 2 validator record / index, 3 withdraw queue,
\* 4 pending relationships, 5 staking record, 6 delegation list): no effect on content
ReadComp(c) ==
   /\ Tick(Rec("ReadComp", 0, 0, c, 0, 0, 0))
   /\ UNCHANGED <<live, tries, blobs, book, node, aux, clean, copyOk, failed>>
AddRel(a, v) ==
   /\ Tick(Rec("AddRel", a, v, 0, 0, 0, 0))
   /\ rel' = rel \cup {<<a, v>>}
   /\ dRel' = (dRel \/ <<a, v>> \notin rel)
   /\ UNCHANGED <<acc, val, wq, rec, dAcc, oDirty, dCode, dDl, dVal, dRec, jd, nod>> /\ Write

\* ---------------------------------------------------------------- transaction end, root, commit, reopen
Empty(r, a) == a # 1 /\ r.bal = 0 /\ r.nonce = 0 /\ r.code = 0
\* Finalise(deleteEmptyObjects): a dirty empty account is dropped with everything it holds
NormAcc(f, D) == [a \in Accts |-> IF a \in D /\ Empty(f[a], a) THEN ZeroAcc ELSE f[a]]
Invalid(r) == r.st + r.dl = 0
NormVal(f, D) == [v \in Vals |-> IF v \in D /\ f[v].ex /\ Invalid(f[v]) THEN NoVal ELSE f[v]]

Finalise ==
   /\ Tick(Rec("Finalise", 0, 0, 0, 0, 0, 0))
   /\ acc' = NormAcc(acc, jd)
   /\ jd' = {}
   /\ clean' = "" /\ copyOk' = TRUE
   /\ UNCHANGED <<val, wq, rec, rel, tries, blobs, dAcc, oDirty, dCode, dDl, dVal, dRec, dRel, failed, unex, nod, zomb, node, aux>>

\* the three tries after IntermediateRoot
RootEffect ==
   /\ acc' = NormAcc(acc, jd) /\ jd' = {}
   \* every pending account is written; one that is empty and was not examined (hence not dropped) is written as an empty account
   /\ zomb' = (zomb \ dAcc) \cup { a \in unex \ jd : Empty(acc[a], a) }
   /\ unex' = {}
   /\ tacc' = [a \in Accts |-> IF a \in dAcc THEN acc'[a] ELSE tacc[a]]
   /\ val' = NormVal(val, dVal)
   /\ tval' = [v \in Vals |-> IF v \in dVal THEN val'[v] ELSE tval[v]]
   /\ twq' = wq
   /\ trec' = [k \in RecKeys |-> IF k \in dRec THEN rec[k] ELSE trec[k]]
   /\ trel' = IF dRel THEN rel ELSE trel
   /\ dAcc' = {} /\ dVal' = {} /\ dRec' = {} /\ dRel' = FALSE
   /\ UNCHANGED <<wq, rec, rel>>

\* Root computations carry, in generated behaviours, a TAG: the content the model says has been WRITTEN (after the normalisation
\* the root computation performs).  The monitor files the real roots under it: "same content ... same roots regardless of the
\* order or grouping in which the content was written" -- also when the real object would no longer SHOW that content.
\* Flag b = 2 ("nopre"): the driver takes no dump BEFORE the root computation (that dump is a read; reads fill lazy caches).
TagOf == ToString(<<NormAcc(acc, jd), NormVal(val, dVal), wq, rec, rel>>)
RootFlags == IF GenMode = "leaf" /\ Len(hist) >= Len(DynPrelude)
             THEN (IF Alpha = "lazy" THEN {2} ELSE IF Alpha = "rich" THEN {0, 2} ELSE {0}) ELSE {0}
TickC(r, B) == TickB(r @@ [tag |-> IF GenMode = "leaf" THEN TagOf ELSE ""], B)
Root ==
   /\ TickC(Rec("Root", 0, 0, 0, 0, 0, 0), RootFlags)
   /\ RootEffect
   /\ oDirty' = oDirty \cup (dAcc \ nod) /\ nod' = {}
   /\ clean' = "root" /\ copyOk' = TRUE
   /\ UNCHANGED <<blobs, dCode, dDl, failed, node, aux>>

\* Commit: code and delegation-list blobs of the objects in stateObjectsDirty that are not deleted
CommitEffect ==
   /\ RootEffect
   /\ LET W == { a \in oDirty \cup (dAcc \ nod) : acc'[a] # ZeroAcc \/ a = 1 } IN
      /\ blobs' = [code |-> blobs.code \cup { acc'[a].code : a \in { b \in W \cap dCode : acc'[b].code # 0 } },
                   dl   |-> blobs.dl \cup { acc'[a].to : a \in { b \in W \cap dDl : acc'[b].to # {} } },
                   st   |-> blobs.st \cup { <<acc'[a].s1, acc'[a].s2>> : a \in W }]      \* CommitTrie of the object
      /\ dCode' = dCode \ W /\ dDl' = dDl \ W
   /\ oDirty' = {} /\ nod' = {}
   /\ cacc' = tacc' /\ fl' = FALSE /\ garb' = (garb \/ ~fl) /\ UNCHANGED <<dsk, fo>>
   /\ ch' = LET q == Append(ch, <<acc', val', wq', rec', rel'>>) IN IF Len(q) > 4 THEN Tail(q) ELSE q
   /\ UNCHANGED <<orec, hasOther>>

\* what state.New(roots) can read
Readable == \A a \in Accts : /\ (tacc[a].code = 0 \/ tacc[a].code \in blobs.code)
                             /\ (tacc[a].to = {} \/ tacc[a].to \in blobs.dl)
                             /\ ((tacc[a].s1 = 0 /\ tacc[a].s2 = 0) \/ <<tacc[a].s1, tacc[a].s2>> \in blobs.st)
Commit ==
   /\ TickC(Rec("Commit", 0, 0, 0, 0, 0, 0), RootFlags)
   /\ CommitEffect
   /\ clean' = "commit" /\ copyOk' = TRUE
   /\ UNCHANGED failed
\* Reload continues on state.New(roots): when that state cannot read everything the behaviour ends here
ReadableP == \A a \in Accts : /\ (tacc'[a].code = 0 \/ tacc'[a].code \in blobs'.code)
                              /\ (tacc'[a].to = {} \/ tacc'[a].to \in blobs'.dl)
                              /\ ((tacc'[a].s1 = 0 /\ tacc'[a].s2 = 0) \/ <<tacc'[a].s1, tacc'[a].s2>> \in blobs'.st)
Reload ==
   /\ TickC(Rec("Reload", 0, 0, 0, 0, 0, 0), IF LastBlindCopy THEN {1} ELSE RootFlags)
   /\ CommitEffect
   /\ clean' = "commit" /\ copyOk' = TRUE
   /\ failed' = ~ReadableP

\* ---------------------------------------------------------------- node database: flush, garbage collection, restart
\* blobs referenced by the account leaves A (Commit's leaf callback References code, storage root and delegation list) that
\* the database B can supply
Reach(A, B) == [code |-> { A[a].code : a \in Accts } \cap B.code,
                dl   |-> { A[a].to : a \in Accts } \cap B.dl,
                st   |-> { <<A[a].s1, A[a].s2>> : a \in Accts } \cap B.st]
Both(B1, B2) == [code |-> B1.code \cup B2.code, dl |-> B1.dl \cup B2.dl, st |-> B1.st \cup B2.st]
\* TrieDB().Commit(root, false) of the three roots of the last Commit: everything reachable from them goes to disk
Flush ==
   /\ clean = "commit" /\ ~fl
   /\ Tick(Rec("Flush", 0, 0, 0, 0, 0, 0))
   /\ dsk' = [tr |-> <<tacc, tval, twq, trec, trel>>, blobs |-> Both(dsk.blobs, Reach(tacc, blobs))]
   /\ fl' = TRUE /\ fo' = TRUE
   /\ UNCHANGED <<live, tries, blobs, book, cacc, garb, clean, copyOk, failed, aux>>
\* Dereference of the older, never flushed roots, then Cap(0): what only they referenced leaves the cache, the rest of the
\* cache is written out
GC ==
   /\ garb
   /\ Tick(Rec("GC", 0, 0, 0, 0, 0, 0))
   /\ blobs' = Both(Reach(cacc, blobs), dsk.blobs)
   /\ dsk' = [dsk EXCEPT !.blobs = Both(@, blobs')]
   /\ garb' = FALSE
   \* the collected roots can no longer be reopened: only the last commit stays in the history ReloadOld draws from
   /\ ch' = IF Len(ch) > 0 THEN <<ch[Len(ch)]>> ELSE ch
   /\ UNCHANGED <<live, tries, book, cacc, fl, fo, clean, copyOk, failed, orec, hasOther>>
\* a restart: state.New(last flushed roots) over a fresh state.Database (empty cache) on the same disk
DiskReadable == \A a \in Accts : LET r == dsk.tr[1][a] IN
                   /\ (r.code = 0 \/ r.code \in dsk.blobs.code)
                   /\ (r.to = {} \/ r.to \in dsk.blobs.dl)
                   /\ ((r.s1 = 0 /\ r.s2 = 0) \/ <<r.s1, r.s2>> \in dsk.blobs.st)
Restart ==
   /\ fo
   /\ Tick(Rec("Restart", 0, 0, 0, 0, 0, 0))
   /\ acc' = dsk.tr[1] /\ val' = dsk.tr[2] /\ wq' = dsk.tr[3] /\ rec' = dsk.tr[4] /\ rel' = dsk.tr[5]
   /\ tacc' = dsk.tr[1] /\ tval' = dsk.tr[2] /\ twq' = dsk.tr[3] /\ trec' = dsk.tr[4] /\ trel' = dsk.tr[5]
   /\ blobs' = dsk.blobs
   /\ dAcc' = {} /\ oDirty' = {} /\ dCode' = {} /\ dDl' = {} /\ dVal' = {} /\ dRec' = {} /\ dRel' = FALSE
   /\ jd' = {} /\ unex' = {} /\ nod' = {} /\ UNCHANGED zomb
   /\ cacc' = dsk.tr[1] /\ fl' = TRUE /\ garb' = FALSE /\ UNCHANGED <<dsk, fo>>
   /\ ch' = <<dsk.tr>> /\ UNCHANGED <<orec, hasOther>>
   /\ clean' = "commit" /\ copyOk' = TRUE
   /\ failed' = ~DiskReadable

\* ---------------------------------------------------------------- copy
\* accounts whose object is deep-copied (the others are read from the copied trie on demand)
Copied == dAcc \cup oDirty
CopyReadable == Fixed("copy") \/ \A a \in Copied : acc[a].to = {} \/ acc[a].to \in blobs.dl
\* Copy: the behaviour continues on the original; CopySwap: on the copy (which, as coded, has lost the dirtyDlgs flags)
\* an account whose object is not copied is read again from the copied trie and the database: data that only the original's
\* object holds (code, storage, list not yet committed) is not seen by the copy
ReRead(a) ==
   IF a \in Copied THEN acc[a]
   ELSE LET stOk == (acc[a].s1 = 0 /\ acc[a].s2 = 0) \/ <<acc[a].s1, acc[a].s2>> \in blobs.st IN
        [acc[a] EXCEPT !.code = IF @ = 0 \/ @ \in blobs.code THEN @ ELSE 0,
                       !.s1 = IF stOk THEN @ ELSE 0, !.s2 = IF stOk THEN @ ELSE 0]
BlindGen == GenMode = "leaf" /\ Alpha \in {"blind", "rich"}
CopyStep(name) ==
   /\ TickB(Rec(name, 0, 0, 0, 0, 0, 0), IF name = "CopySwap" /\ BlindGen /\ clean # "" /\ Len(hist) >= Len(DynPrelude) THEN {0, 1} ELSE {0})
   /\ copyOk' = (CopyReadable /\ \A a \in Accts : ReRead(a) = acc[a])
   /\ failed' = (name = "CopySwap" /\ ~CopyReadable)      \* nothing sensible can follow on an unreadable copy
   /\ acc' = IF name = "CopySwap" THEN [a \in Accts |-> ReRead(a)] ELSE acc
   /\ dDl' = IF name = "CopySwap" /\ ~Fixed("copy") THEN dDl \ Copied ELSE dDl
   \* the copy starts with an empty journal: as coded, accounts touched in the open transaction of the original are written by
   \* the copy's next root (they are pending) but never examined by its Finalise (an emptied account is not dropped)
   /\ jd' = IF name = "CopySwap" /\ ~Fixed("midtx") THEN {} ELSE jd
   /\ unex' = IF name = "CopySwap" /\ ~Fixed("midtx") THEN unex \cup jd ELSE unex
   \* as coded: objects already pending (finalised, hence also dirty) are copied by the pending loop and then skipped by the
   \* dirty loop, so they are not in the copy's stateObjectsDirty
   /\ nod' = IF name = "CopySwap" /\ ~Fixed("copydirty") THEN nod \cup (dAcc \ jd) ELSE nod
   /\ oDirty' = IF name = "CopySwap" /\ ~Fixed("copydirty") THEN oDirty \ (dAcc \ jd) ELSE oDirty
   /\ orec' = rec /\ hasOther' = TRUE      \* the object nobody continues on (copy or original) holds the current records
   /\ UNCHANGED <<val, wq, rec, rel, tries, blobs, dAcc, dCode, dVal, dRec, dRel, clean, zomb, node, ch>>

\* ---------------------------------------------------------------- next-state relations
Bounded == /\ \A a \in Accts : acc[a].bal <= 6
           /\ \A v \in Vals : val[v].st + val[v].dl <= 60
Control == Root \/ Commit \/ CopyStep("Copy")

NextAcct ==      \* accounts only: balance, nonce, code, storage of the unfunded account and one slot of the funded one
   \/ AddBalance(2, 1) \/ SubBalance(2, 1) \/ SetCode(2, 2) \/ SetState(2, 1, 5) \/ SetState(2, 1, 0)
   \/ SetState(1, 1, 5)
   \/ Control \/ Finalise \/ CopyStep("CopySwap")
NextVal ==       \* validators, delegations
   \/ \E v \in Vals : CreateValidator(v, 15) \/ WithdrawAll(v) \/ Delegate(v, 7) \/ Delegate(v, -7)
   \/ Deposit(1, 7) \/ SetNonce(1, 1)
   \/ Control \/ Reload \/ CopyStep("CopySwap")
NextRecs ==      \* withdraw queue, staking records, pending relationships
   \/ AddWithdraw(1) \/ AddWithdraw(2) \/ RemoveWithdraw(1)
   \/ AddRecord(0, 1, 1, 9) \/ AddRecord(0, 1, 2, 4) \/ AddRel(1, 1) \/ AddRel(1, 2)
   \/ Control
NextDeleg2 ==    \* a delegator with two delegations: full withdrawals and re-delegations around copies (the delegator's list is shared)
   \/ \E v \in Vals : Delegate(v, -7) \/ Delegate(v, 7)
   \/ Control \/ CopyStep("CopySwap")
NextDisk ==      \* what reaches the disk: code, storage, delegation list of an account with and without code, validator and staking tries
   \/ SetCode(1, 1) \/ SetState(1, 1, 5) \/ Delegate(1, 7) \/ AddRecord(0, 1, 1, 9)
   \/ Commit \/ Flush \/ GC \/ Restart
PreludeStep ==
   LET p == DynPrelude[Len(hist) + 1] IN
   CASE p.op = "SetState"   -> SetState(p.a, p.s, p.d)
     [] p.op = "AddBalance" -> AddBalance(p.a, p.d)
     [] p.op = "AddRecord"  -> AddRecord(p.a, p.v, p.h, p.d)
     [] p.op = "Commit"     -> Commit
     [] p.op = "AddRel"     -> AddRel(p.a, p.v)
     [] p.op = "Delegate"   -> Delegate(p.v, p.d)
     [] p.op = "AddWithdraw" -> AddWithdraw(p.r)
     [] p.op = "Reload"     -> Reload
     [] p.op = "CreateValidator" -> CreateValidator(p.v, p.d)
     [] OTHER -> FALSE
NextBlind ==     \* a freshly loaded state copied and the copy committed, with and without reads in between
   \/ CopyStep("CopySwap") \/ CopyStep("Copy") \/ Reload \/ Commit \/ Root \/ Deposit(1, 7)
NextLazy ==      \* every lazily loaded component populated and committed; fresh opens, unrelated writes, root computations with NO
                 \* dump before them, and reads of single components in between: each component is left untouched in turn
   \/ Reload \/ Commit \/ AddBalance(2, 1) \/ (\E c \in 1..6 : ReadComp(c))
NextReset ==     \* one object carried over a staking-period boundary: records flushed / committed / reloaded and read, the reset, the
                 \* same key recorded again
   \/ AddRecord(0, 1, 2, 4) \/ ReadRecord(0, 1)
   \/ ResetStaking \/ Root \/ Commit \/ Reload
NextSlots ==     \* storage writes grouped by transaction ends (Finalise) and block ends: a slot with a committed non-zero original
                 \* (account 1 slot 1 = 5) and a fresh slot (account 2 slot 1), values {original, other, zero}, write-backs
   \/ \E x \in {0, 5, 6} : SetState(1, 1, x)
   \/ \E y \in {0, 5} : SetState(2, 1, y)
   \/ Finalise \/ Root \/ Commit
NextOld ==       \* the live object goes on after a commit (all three tries); earlier roots are reopened through the same Database
   \/ AddBalance(2, 1) \/ CreateValidator(1, 15) \/ AddRecord(0, 1, 1, 9)
   \/ Root \/ Commit \/ ReloadOld(1) \/ ReloadOld(2)
NextRecs2 ==     \* a staking record with a history of three hashes; both sides of a copy go on recording for the same pair
   \/ AddRecord(0, 1, 2, 9) \/ AddRecordOther(0, 1, 1, 4)
   \/ CopyStep("Copy") \/ CopyStep("CopySwap") \/ Reload \/ Root
NextRich ==
   \/ \E a \in Accts : \/ \E d \in {1, 2} : AddBalance(a, d) \/ SubBalance(a, d)
                       \/ \E n \in {1, 2} : SetNonce(a, n) \/ SetCode(a, n)
                       \/ \E s \in {1, 2}, x \in {0, 5, 6} : SetState(a, s, x)
   \/ \E v \in Vals : \/ \E d \in {7, 15} : CreateValidator(v, d) \/ Deposit(v, d)
                      \/ WithdrawAll(v)
                      \/ \E d \in {-15, -7, 7, 15} : Delegate(v, d)
   \/ \E r \in {1, 2, 3} : AddWithdraw(r)
   \/ \E i \in {1, 2} : RemoveWithdraw(i)
   \/ \E a \in {0, 1}, v \in Vals, h \in {0, 1, 2}, d \in {-1, 4, 9} : (h > 0 \/ d >= 0) /\ AddRecord(a, v, h, d)
   \/ \E a \in Accts, v \in Vals : AddRel(a, v)
   \/ Control \/ Reload \/ Finalise \/ CopyStep("CopySwap") \/ Flush \/ GC \/ Restart
   \/ \E k \in 1..4 : ReloadOld(k)
   \/ ResetStaking \/ (\E a \in {0, 1}, v \in Vals : ReadRecord(a, v)) \/ (\E c \in 1..6 : ReadComp(c))
   \/ \E a \in {0, 1}, v \in Vals, h \in {1, 2}, d \in {-1, 4} : AddRecordOther(a, v, h, d)

Next == /\ Bounded
        /\ IF InPrelude THEN PreludeStep ELSE IF LastBlindCopy THEN Reload ELSE
           CASE Alpha = "blind" -> NextBlind [] Alpha = "lazy" -> NextLazy [] Alpha = "reset" -> NextReset [] Alpha = "acct" -> NextAcct [] Alpha = "macct" -> (NextAcct \/ Reload) [] Alpha = "val" -> NextVal [] Alpha = "recs" -> NextRecs [] Alpha = "disk" -> NextDisk [] Alpha = "deleg2" -> NextDeleg2
             [] Alpha = "slots" -> NextSlots [] Alpha = "old" -> NextOld [] Alpha = "recs2" -> NextRecs2 [] OTHER -> NextRich
Spec == Init /\ [][Next]_vars

\* ---------------------------------------------------------------- property layer
Cex(name) == PrintT("@@J " \o ToJson([kind |-> "CEX", clause |-> name, h |-> hist])) /\ FALSE
\* "roots depend only on content": right after a root computation the tries hold exactly the live content
TriesHoldContent == (clean # "" => (tries = live /\ zomb = {})) \/ Cex("TriesHoldContent")
\* "reopening ... yields the same ... as the live object"
ReopenEqualsLive == (clean = "commit" => (tries = live /\ Readable)) \/ Cex("ReopenEqualsLive")
\* "a copy of a state is equal to ... the original"
CopyEqualsOriginal == copyOk \/ Cex("CopyEqualsOriginal")
\* "committing and reopening loses nothing", across a restart: once the committed roots are flushed the disk alone yields them
DiskHoldsCommitted == ((fl /\ clean = "commit") => (dsk.tr = live /\ DiskReadable)) \/ Cex("DiskHoldsCommitted")

\* ---------------------------------------------------------------- generation
Leaf == (GenMode = "leaf" /\ (Len(hist) = MaxOps \/ failed)) => PrintT("@@J " \o ToJson([kind |-> "B", h |-> hist]))
View == <<live, tries, blobs, book, node, aux, clean, copyOk, failed>>
=============================================================================
