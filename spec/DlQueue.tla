------------------------------ MODULE DlQueue ------------------------------
(***************************************************************************)
(* C18 -- body-download bookkeeping of you/downloader/queue.go in full     *)
(* sync (one component per block: the transaction list).                   *)
(*                                                                         *)
(* Design layer (implementation shaped, one action per locked method):     *)
(*   Schedule       queue.Schedule                                          *)
(*   Reserve        queue.ReserveBodies -> reserveHeaders (throttling by    *)
(*                  resultSlots, slot allocation, no-op path for headers   *)
(*                  with the empty transaction root, skipping of headers   *)
(*                  the peer lacks)                                         *)
(*   Deliver        queue.DeliverBodies -> deliver (any list of bodies)     *)
(*   Cancel/Expire/Revoke   cancel / expire / Revoke                        *)
(*   Results        queue.Results(false)                                    *)
(* Header numbers are relative to the sync origin: header k has number     *)
(* origin+k, the first expected block is 1 (resultOffset = origin+1).      *)
(*                                                                         *)
(* Property layer: invariants over the observable `delivered` (what        *)
(* Results handed to the importer) and the pools, written from the         *)
(* statement only.                                                         *)
(*                                                                         *)
(* What a peer sends is a sequence of items: k in 1..N = the true body of  *)
(* header k, 0 = a transaction list that matches no header, -1 = the empty *)
(* list.  The outcome of deliver depends only on the length of the matching*)
(* prefix and on whether the list is empty, so the variants below cover    *)
(* every possible delivery at design level.                                *)
(***************************************************************************)
EXTENDS Integers, Sequences, FiniteSets, TLC, Json

CONSTANTS N,          \* number of headers of the main chain (ids 1..N, number = id)
          FL, ForkFrom,  \* a competing fork: FL headers (ids N+1..N+FL) with numbers ForkFrom.., branching off main header ForkFrom-1
          BodyCode,   \* decimal number whose k-th digit from the right is the body id of header k (cfg files have no tuples)
          Peers,      \* set of peer ids (strings)
          Honest,     \* peers that only reserve and deliver completely (liveness configuration; {} otherwise)
          MaxCount,   \* reservation sizes 1..MaxCount
          MaxFaults,  \* bound on fault actions (>= 99: unbounded)
          W,          \* number of slots of the result window (len(resultCache))
          MemCap,     \* blockCacheMemory in size units (0 = no memory cap): the window shrinks to ceil(MemCap / size of the last result)
          BigBody,    \* body ids whose blocks are large (size BigK units; every other block has size 1)
          BigK,
          MaxProc,    \* maxResultsProcess: Results hands out at most this many items per call and keeps the rest
          MaxOps,     \* behaviour length in generation mode
          GenMode,    \* "none" (design checking) | "leaf" (behaviour generation)
          Alphabet,   \* "full" | "small"
          Noops       \* TRUE: calls that the code answers without doing anything are part of the alphabet

VARIABLES lastsz,     \* q.resultSize: with blockCacheSizeWeight scaled to 1 the size of the block handed out last (0 = none yet)
          base,       \* origin of the current sync session (number, relative to the first session's origin)
          sess,       \* number of sessions started so far
          head,       \* q.headerHead: id of the last header Schedule accepted (0 = none yet)
          acc,        \* OBSERVABLE: the headers Schedule accepted for download
          pool,       \* blockTaskPool (key set)
          queue,      \* blockTaskQueue: header -> multiplicity (a priority queue may hold an item twice)
          pend,       \* blockPendPool: peer -> sequence of headers (<<>> = no entry)
          done,       \* blockDonePool
          slot,       \* resultCache by block NUMBER: [a: allocated, p: Pending counter, b: body id or -1 (no transactions set), hd: id of the header the container was created for]
          offset,     \* number of results handed out (resultOffset - origin - 1)
          lacks,      \* peer -> set of headers the peer is marked as lacking
          faults,
          broken,     \* reserveHeaders hit "index allocation went beyond available resultCache space"
          delivered,  \* OBSERVABLE: sequence of [h, b] handed out by Results
          old,        \* generation only: peer -> the request it most recently lost (for late deliveries)
          hist        \* generation only
vars == <<lastsz, base, sess, head, acc, pool, queue, pend, done, slot, offset, lacks, faults, broken, delivered, old, hist>>

Hdrs == 1..(N + FL)
Num(h) == IF h <= N THEN h ELSE ForkFrom + (h - N - 1)
Par(h) == IF h <= N THEN h - 1 ELSE IF h = N + 1 THEN ForkFrom - 1 ELSE h - 1          \* 0 = the sync origin
NMax == IF FL > 0 /\ ForkFrom + FL - 1 > N THEN ForkFrom + FL - 1 ELSE N
Nums == 1..NMax
RECURSIVE Pow10(_)
Pow10(k) == IF k = 0 THEN 1 ELSE 10 * Pow10(k - 1)
\* body id of header k; 0 = empty transaction list (empty transaction root); equal ids = identical transaction lists
Body == [k \in Hdrs |-> (BodyCode \div Pow10(k - 1)) % 10]
NilSlot == [a |-> FALSE, p |-> 0, b |-> -1, hd |-> 0]
Gen == GenMode # "none"

\* (delivered is the observable of the CURRENT session: every clause is stated per session)
InitRec == [op |-> "Init", memcap |-> MemCap, big |-> BigBody, n |-> N, fl |-> FL, forkfrom |-> ForkFrom, body |-> Body, w |-> W, peers |-> Peers, maxc |-> MaxCount, maxp |-> MaxProc]

Init == /\ lastsz = 0 /\ base = 0 /\ sess = 1 /\ head = 0 /\ acc = {} /\ pool = {} /\ queue = [h \in Hdrs |-> 0] /\ pend = [p \in Peers |-> <<>>] /\ done = {}
        /\ slot = [n \in Nums |-> NilSlot] /\ offset = 0 /\ lacks = [p \in Peers |-> {}] /\ faults = 0
        /\ broken = FALSE /\ delivered = <<>> /\ old = [p \in Peers |-> <<>>]
        /\ hist = IF Gen THEN <<InitRec>> ELSE <<>>

Tick(rec) == IF Gen THEN Len(hist) < MaxOps + 1 /\ hist' = Append(hist, rec) ELSE hist' = hist
Charge == IF MaxFaults >= 99 THEN faults' = faults ELSE faults < MaxFaults /\ faults' = faults + 1
Occ(s, h) == Cardinality({ n \in DOMAIN s : s[n] = h })
Range(s) == { s[n] : n \in DOMAIN s }
PushAll(q, s) == [h \in Hdrs |-> q[h] + Occ(s, h)]

\* ---------------------------------------------------------------- Schedule
\* queue.Schedule(headers, from): contiguous numbering from `from`, every header linked to the previously accepted one
\* (q.headerHead, across batches), already scheduled hashes skipped; the first header that breaks a rule ends the batch.
RECURSIVE Sch(_, _, _, _)
Sch(st, chunk, i, from) ==
   IF i > Len(chunk) THEN st
   ELSE LET h == chunk[i] IN
        IF Num(h) # from THEN st
        ELSE IF st.head # 0 /\ st.head # Par(h) THEN st
        ELSE IF h \in st.pool THEN Sch(st, chunk, i + 1, from)
        ELSE Sch([head |-> h, pool |-> st.pool \cup {h}, queue |-> [st.queue EXCEPT ![h] = @ + 1], acc |-> st.acc \cup {h}],
                 chunk, i + 1, from + 1)

Schedule(v, chunk, from) ==
   /\ Tick([op |-> "Schedule", v |-> v, chunk |-> chunk, from |-> from])
   /\ LET r == Sch([head |-> head, pool |-> pool, queue |-> queue, acc |-> acc], chunk, 1, from) IN
      head' = r.head /\ pool' = r.pool /\ queue' = r.queue /\ acc' = r.acc
   /\ UNCHANGED <<lastsz, base, sess, pend, done, slot, offset, lacks, faults, broken, delivered, old>>

\* what callers offer.  Honest: the next k headers of the main chain.  Otherwise: such a chunk with one header that does not
\* link (a fork header of that number) or has the wrong number (the previous header again); a competing fork that starts
\* below what is queued; a chunk that starts beyond the head.  The last two only once something is queued (the very first
\* batch of a sync defines the chain and always starts at the origin).
Nxt == IF head = 0 THEN base + 1 ELSE Num(head) + 1
MainChunk(from, k) == [i \in 1..k |-> from + i - 1]
OnMain == head = 0 \/ head <= N
\* fork headers that do not link to the main chain (the first fork header does: its parent is a main header)
ForkAtNum(n) == { h \in (N + 2)..(N + FL) : Num(h) = n }
Offers ==
   IF ~OnMain THEN {}
   ELSE { <<"ok", MainChunk(Nxt, k), Nxt>> : k \in 1..(N - Nxt + 1) }
        \cup (IF Alphabet = "small" THEN {}
              ELSE { <<"badlink", [MainChunk(Nxt, k) EXCEPT ![j] = CHOOSE f \in ForkAtNum(Nxt + j - 1) : TRUE], Nxt>>
                       : <<k, j>> \in { x \in (1..(N - Nxt + 1)) \X (2..N) : x[2] <= x[1] /\ ForkAtNum(Nxt + x[2] - 1) # {} } }
                   \cup { <<"badnum", [MainChunk(Nxt, k) EXCEPT ![j] = Nxt + j - 2], Nxt>>
                       : <<k, j>> \in { x \in (1..(N - Nxt + 1)) \X (2..N) : x[2] <= x[1] } }
                   \cup (IF head # 0 /\ FL > 0 /\ Num(head) >= ForkFrom THEN { <<"fork", [i \in 1..k |-> N + i], ForkFrom>> : k \in 1..FL } ELSE {})
                   \cup (IF head # 0 /\ Nxt + 1 <= N THEN { <<"gap", MainChunk(Nxt + 1, k), Nxt + 1>> : k \in 1..(N - Nxt) } ELSE {}))

\* ---------------------------------------------------------------- Reserve
EmptyQ(q) == \A h \in Hdrs : q[h] = 0
MinQ(q) == CHOOSE h \in Hdrs : q[h] > 0 /\ \A g \in Hdrs : q[g] > 0 => (Num(h) < Num(g) \/ (Num(h) = Num(g) /\ h <= g))
InWindow(h) == Num(h) - offset >= 1 /\ Num(h) - offset <= W

\* resultSlots: limit - finished - pending (parametrised: the loop model evaluates it on intermediate states of a round)
\* the item limit of the window, lowered by the memory cap once large blocks have been seen
SizeOf(h) == IF Body[h] \in BigBody THEN BigK ELSE 1
Limit == IF MemCap > 0 /\ W * lastsz > MemCap THEN (MemCap + lastsz - 1) \div lastsz ELSE W
RECURSIVE FinishedOf(_, _, _)
FinishedOf(sl, dn, i) == IF i > Limit \/ offset + i > NMax THEN 0
                         ELSE IF ~sl[offset + i].a THEN 0
                         ELSE (IF sl[offset + i].hd \in dn THEN 1 ELSE 0) + FinishedOf(sl, dn, i + 1)
PendWinOf(pd) == Cardinality({ x \in UNION { { <<p, n>> : n \in DOMAIN pd[p] } : p \in Peers } : Num(pd[x[1]][x[2]]) <= offset + Limit })
SpaceOf(sl, dn, pd) == Limit - FinishedOf(sl, dn, 1) - PendWinOf(pd)
Space == SpaceOf(slot, done, pend)

RECURSIVE Go(_, _, _)
Go(p, cnt, s) ==
   IF s.err \/ ~(s.proc < s.space) \/ Len(s.send) >= cnt \/ EmptyQ(s.q) THEN s
   ELSE LET h  == MinQ(s.q)
            q1 == [s.q EXCEPT ![h] = @ - 1] IN
        IF ~InWindow(h) THEN [s EXCEPT !.q = q1, !.err = TRUE]
        ELSE LET sl == IF s.slot[Num(h)].a THEN s.slot ELSE [s.slot EXCEPT ![Num(h)] = [a |-> TRUE, p |-> 1, b |-> -1, hd |-> h]] IN
             IF Body[h] = 0
             THEN Go(p, cnt, [s EXCEPT !.q = q1, !.slot = [sl EXCEPT ![Num(h)].p = @ - 1], !.done = @ \cup {h},
                                       !.pool = @ \ {h}, !.space = @ - 1, !.progress = TRUE])
             ELSE IF h \in lacks[p]
             THEN Go(p, cnt, [s EXCEPT !.q = q1, !.slot = sl, !.skip = Append(@, h), !.proc = @ + 1])
             ELSE Go(p, cnt, [s EXCEPT !.q = q1, !.slot = sl, !.send = Append(@, h), !.proc = @ + 1])

ReserveIsNoop(p) == EmptyQ(queue) \/ pend[p] # <<>>

Reserve(p, cnt) ==
   /\ cnt \in 1..MaxCount
   /\ (ReserveIsNoop(p) => Noops)
   /\ Tick([op |-> "Reserve", p |-> p, n |-> cnt])
   /\ IF ReserveIsNoop(p)
      THEN UNCHANGED <<queue, slot, done, pool, pend, broken>>
      ELSE LET r == Go(p, cnt, [q |-> queue, send |-> <<>>, skip |-> <<>>, slot |-> slot, done |-> done, pool |-> pool,
                                space |-> Space, proc |-> 0, progress |-> FALSE, err |-> FALSE]) IN
           /\ queue' = IF r.err THEN r.q ELSE PushAll(r.q, r.skip)
           /\ slot' = r.slot /\ done' = r.done /\ pool' = r.pool
           /\ pend' = IF r.err \/ r.send = <<>> THEN pend ELSE [pend EXCEPT ![p] = r.send]
           /\ broken' = (broken \/ r.err)
   /\ UNCHANGED <<lastsz, base, sess, head, acc, offset, lacks, faults, delivered, old>>

\* ---------------------------------------------------------------- Deliver
BodyOf(x) == IF x >= 1 THEN Body[x] ELSE IF x = -1 THEN 0 ELSE -7

\* length of the prefix of the request that deliver() accepts
RECURSIVE Matched(_, _, _)
Matched(req, items, i) ==
   IF i > Len(req) \/ i > Len(items) THEN i - 1
   ELSE IF ~(InWindow(req[i]) /\ slot[Num(req[i])].a) THEN i - 1          \* errInvalidChain
   ELSE IF BodyOf(items[i]) # Body[req[i]] THEN i - 1               \* errInvalidBody
   ELSE Matched(req, items, i + 1)

DeliverCore(p, items) ==
   IF pend[p] = <<>>
   THEN UNCHANGED <<pend, done, pool, slot, queue, lacks>>            \* errNoFetchesPending
   ELSE LET req  == pend[p]
            k    == Matched(req, items, 1)
            good == SubSeq(req, 1, k)
            rest == SubSeq(req, k + 1, Len(req)) IN
        /\ pend' = [pend EXCEPT ![p] = <<>>]
        /\ done' = done \cup Range(good)
        /\ pool' = pool \ Range(good)
        /\ slot' = [n \in Nums |-> LET G == { i \in DOMAIN good : Num(good[i]) = n } IN
                                    IF G = {} THEN slot[n]
                                    ELSE [slot[n] EXCEPT !.p = @ - Cardinality(G), !.b = Body[good[CHOOSE i \in G : \A j \in G : j <= i]]]]
        /\ queue' = PushAll(queue, rest)
        /\ lacks' = IF items = <<>> THEN [lacks EXCEPT ![p] = @ \cup Range(req)] ELSE lacks

Swap(s) == [i \in DOMAIN s |-> s[Len(s) + 1 - i]]

\* the concrete variants: <<label, items>>
Variants(p) ==
   LET req == pend[p] IN
   IF req = <<>>
   THEN (IF Noops THEN {<<"unsolicited", <<0>>>>} ELSE {})
        \cup (IF Gen /\ old[p] # <<>> THEN {<<"lateIdle", old[p]>>} ELSE {})
   ELSE {<<"complete", req>>, <<"empty", <<>> >>}
        \cup { <<"partial", SubSeq(req, 1, m)>> : m \in 1..(Len(req) - 1) }
        \cup { <<"wrong", [req EXCEPT ![i] = 0]>> : i \in DOMAIN req }
        \cup (IF Alphabet = "small" THEN {}
              ELSE { <<"wrongEmpty", [req EXCEPT ![i] = -1]>> : i \in DOMAIN req }
                   \cup {<<"tooMany", Append(req, 0)>>}
                   \cup (IF Len(req) >= 2 THEN {<<"swapped", Swap(req)>>} ELSE {})
                   \cup (IF Gen /\ old[p] # <<>> /\ old[p] # req THEN {<<"late", old[p]>>} ELSE {}))

IsFault(p, v) == v[1] # "complete"

Deliver(p, v) ==
   /\ v \in Variants(p)
   /\ (p \in Honest => v[1] = "complete")
   /\ Tick([op |-> "Deliver", p |-> p, v |-> v[1], items |-> v[2]])
   /\ IF IsFault(p, v) THEN Charge ELSE faults' = faults
   /\ DeliverCore(p, v[2])
   /\ UNCHANGED <<lastsz, base, sess, head, acc, offset, broken, delivered, old>>

\* ---------------------------------------------------------------- cancel / expire / revoke
GiveBack(p, name) ==
   /\ p \notin Honest
   /\ (pend[p] = <<>> => (Noops /\ name # "Cancel"))
   /\ Tick([op |-> name, p |-> p])
   /\ Charge
   /\ queue' = PushAll(queue, pend[p])
   /\ pend' = [pend EXCEPT ![p] = <<>>]
   /\ old' = IF Gen /\ pend[p] # <<>> THEN [old EXCEPT ![p] = pend[p]] ELSE old
   /\ UNCHANGED <<lastsz, base, sess, head, acc, pool, done, slot, offset, lacks, broken, delivered>>

Cancel(p) == GiveBack(p, "Cancel")
Expire(p) == GiveBack(p, "Expire")
Revoke(p) == GiveBack(p, "Revoke")

\* ---------------------------------------------------------------- Results
RECURSIVE Processable(_)
Processable(i) == IF i > W \/ offset + i > NMax THEN i - 1
                  ELSE IF ~slot[offset + i].a \/ slot[offset + i].p > 0 THEN i - 1
                  ELSE Processable(i + 1)

Results ==
   LET n == IF Processable(1) > MaxProc THEN MaxProc ELSE Processable(1) IN     \* the batch limit: the rest stays in the window
   /\ (n = 0 => Noops)
   /\ Tick([op |-> "Results"])
   /\ delivered' = delivered \o [i \in 1..n |-> [h |-> slot[offset + i].hd, b |-> IF slot[offset + i].b = -1 THEN 0 ELSE slot[offset + i].b]]
   /\ done' = done \ { slot[offset + i].hd : i \in 1..n }
   /\ slot' = [m \in Nums |-> IF m \in (offset + 1)..(offset + n) THEN NilSlot ELSE slot[m]]
   /\ offset' = offset + n
   /\ lastsz' = IF n = 0 THEN lastsz ELSE SizeOf(slot[offset + n].hd)
   /\ UNCHANGED <<base, sess, head, acc, pool, queue, pend, lacks, faults, broken, old>>

\* ---------------------------------------------------------------- sessions
\* A new sync session on the same queue (Downloader.synchronise): queue.Reset() puts all bookkeeping back to the initial
\* state -- task pools, pending and done pools, the result window, the header head, the result offset -- and
\* queue.Prepare(origin+1) positions the window at the new origin, which may lie below, at or above the previous one.
\* What peers are known to lack is kept by the peer connections.
MaxSess == 2
Reset(o) ==
   /\ sess < MaxSess /\ o \in 0..(N - 1)
   /\ Tick([op |-> "Reset", o |-> o])
   /\ base' = o /\ sess' = sess + 1 /\ head' = 0 /\ acc' = {} /\ pool' = {} /\ queue' = [h \in Hdrs |-> 0]
   /\ pend' = [p \in Peers |-> <<>>] /\ done' = {} /\ slot' = [n \in Nums |-> NilSlot] /\ offset' = o
   /\ delivered' = <<>>
   /\ old' = IF Gen THEN [p \in Peers |-> IF pend[p] # <<>> THEN pend[p] ELSE old[p]] ELSE old
   /\ UNCHANGED <<lastsz, lacks, faults, broken>>          \* (Reset keeps the size estimate)

\* ---------------------------------------------------------------- next-state relations
NextFull ==
   \/ \E o \in Offers : Schedule(o[1], o[2], o[3])
   \/ \E p \in Peers, c \in 1..MaxCount : Reserve(p, c)
   \/ \E p \in Peers : \E v \in Variants(p) : Deliver(p, v)
   \/ \E p \in Peers : Cancel(p) \/ Expire(p) \/ Revoke(p)
   \/ Results
   \/ \E o \in 0..(N - 1) : Reset(o)

\* small alphabet for bounded-exhaustive generation
NextSmall ==
   \/ \E o \in { x \in Offers : Len(x[2]) \in {2, N - Nxt + 1} } : Schedule(o[1], o[2], o[3])
   \/ \E p \in Peers : Reserve(p, MaxCount)
   \/ \E p \in Peers : \E v \in Variants(p) : Deliver(p, v)
   \/ \E p \in Peers : Expire(p)
   \/ Results
   \/ (delivered # <<>> /\ \E o \in {0, 1} : Reset(o))       \* a second session at or below where the first one delivered

Next == IF Alphabet = "small" THEN NextSmall ELSE NextFull
Spec == Init /\ [][Next]_vars

\* ---------------------------------------------------------------- property layer
Cex(name) == PrintT("@@J " \o ToJson([kind |-> "CEX", clause |-> name, h |-> hist])) /\ FALSE

DeliveredSet == { delivered[i].h : i \in DOMAIN delivered }
InFlightCount(h) == Cardinality({ x \in UNION { { <<p, n>> : n \in DOMAIN pend[p] } : p \in Peers } : pend[x[1]][x[2]] = h })

\* "strictly in ascending, gap-free order starting at the sync origin"
InOrderGapFree == \A i \in DOMAIN delivered : /\ delivered[i].h \in Hdrs /\ Num(delivered[i].h) = base + i
                                                /\ Par(delivered[i].h) = (IF i = 1 THEN base ELSE delivered[i - 1].h)
\* "each exactly once"
EachOnce == \A i, j \in DOMAIN delivered : i # j => delivered[i].h # delivered[j].h
\* "only with a transaction list that matches the header's transaction root"
BodyMatchesHeader == \A i \in DOMAIN delivered : delivered[i].h \in Hdrs /\ delivered[i].b = Body[delivered[i].h]
\* "work taken by a peer that stalls, fails, lies or disconnects is handed to others": nothing scheduled is forgotten
WorkNeverLost == \A h \in acc : h \notin DeliveredSet =>
                    queue[h] + InFlightCount(h) + (IF h \in done THEN 1 ELSE 0) = 1
\* no block is being fetched from two peers at once
NoDoubleAssign == \A h \in Hdrs : InFlightCount(h) <= 1
\* the "must not happen" path of reserveHeaders
NeverBroken == ~broken

\* design-layer sanity (not part of the statement): a slot is complete exactly when its header is in the done pool,
\* and the task pool is what is scheduled and neither complete nor handed out
ReadyMeansDone == \A n \in Nums : n > offset => ((slot[n].a /\ slot[n].p <= 0) <=> (slot[n].a /\ slot[n].hd \in done))
PoolIsOpenWork == pool = { h \in acc : h \notin done /\ Num(h) > offset }

AllDelivered == ((base + 1)..N) \subseteq acc /\ Len(delivered) = N - base

\* goal-directed generation (see TxPool.tla): the memory cap has shrunk the window, nothing is in flight, the head block of
\* the window is waiting in the task queue and at least as many completed results as the shrunken window holds lie behind it
MemGoal == /\ Limit < W /\ \A p \in Peers : pend[p] = <<>>
           /\ offset + 1 <= NMax /\ slot[offset + 1].a /\ slot[offset + 1].hd \notin done /\ queue[slot[offset + 1].hd] > 0
           /\ Cardinality({ n \in Nums : n > offset + 1 /\ slot[n].a /\ slot[n].hd \in done }) >= Limit
NoMemGoal == ~MemGoal \/ Cex("goal:memcap")
GView == <<lastsz, base, sess, head, acc, pool, queue, pend, done, slot, offset, lacks, faults, broken, delivered, old>>

\* ---------------------------------------------------------------- liveness
\* "the full range completes as long as some peer eventually answers honestly": every request is eventually answered or
\* times out, finitely many faults, one honest peer keeps asking.
Resolved(p) == (\E v \in Variants(p) : Deliver(p, v)) \/ Cancel(p) \/ Expire(p) \/ Revoke(p)
LiveSpec == /\ Init /\ [][Next]_vars
            /\ WF_vars(\E o \in { x \in Offers : x[1] = "ok" } : Schedule(o[1], o[2], o[3]))
            /\ WF_vars(Results)
            /\ \A p \in Peers : WF_vars(Resolved(p))
            /\ \A p \in Honest : WF_vars(\E c \in 1..MaxCount : Reserve(p, c))
Completes == <>AllDelivered

\* ---------------------------------------------------------------- generation
Quiet == ~Noops /\ AllDelivered /\ \A p \in Peers : pend[p] = <<>>
Leaf == (Gen /\ (Len(hist) = MaxOps + 1 \/ Quiet)) => PrintT("@@J " \o ToJson([kind |-> "B", h |-> hist]))
=============================================================================
