--------------------------- MODULE TrieSyncNet_Mon ---------------------------
(***************************************************************************)
(* C19, network stage: property monitor over traces recorded from the REAL *)
(* runTrieSync / trieSync.loop of you/downloader/triesync.go running       *)
(* against scripted fake peers (driver `triesyncnet`).  The loop's         *)
(* goroutines and timers are not under the driver's control, so only       *)
(* order-robust observables are judged: every state the destination        *)
(* database went through (one DbWrite event per atomic write), and how the *)
(* sync ended.  There is no conformance run for this stage.                *)
(*                                                                         *)
(*  ParentAfterChildren -- after every write every entry present has all   *)
(*     the entries it references                                           *)
(*  CorruptRejected -- nothing that is not a node of the source is ever    *)
(*     written                                                             *)
(*  CompleteWhenDone -- a sync that ends without error left the identical  *)
(*     content (all nodes, integrity walk, digest)                         *)
(*  InterruptedNeverLooksComplete -- a cancelled or failed sync whose      *)
(*     destination holds the root holds everything                         *)
(*  HonestPeerCompletes -- liveness, observed: with at least one peer that *)
(*     answers every request genuinely and in time, and no cancellation,   *)
(*     the sync ends without error (not stuck, not aborted).  This is the   *)
(*     observable consequence of NoTaskLost (no requested hash falls out of *)
(*     queue / retry pool / active requests).                              *)
(***************************************************************************)
EXTENDS Integers, Sequences, FiniteSets, TLC, Json, Dag

TraceLog == ndJsonDeserialize("trace.ndjson")

VARIABLES l, dg, kind, npeers, left, dagok, viol, fired
mvars == <<l, dg, kind, npeers, left, dagok, viol, fired>>

ClauseNames == {"ParentAfterChildren", "CorruptRejected", "CompleteWhenDone", "InterruptedNeverLooksComplete", "HonestPeerCompletes"}
Has(e, f) == f \in DOMAIN e
SetOf(q) == { q[i] : i \in DOMAIN q }
Nodes == 1..DagTable[dg].n
Kids(n) == DagTable[dg].kids[n]
Dest(e) == SetOf(e.dest)
Verified(e) == e.walk = "ok" /\ e.dig = e.srcdig
Ended(e) == e.ev = "End" /\ ~Has(e, "panic")

Applies(cl, e) ==
   CASE cl = "ParentAfterChildren" -> Has(e, "dest")
     [] cl = "CorruptRejected" -> Has(e, "dest")
     [] cl = "CompleteWhenDone" -> e.ev = "End" /\ (Has(e, "panic") \/ e.err = "nil")
     [] cl = "InterruptedNeverLooksComplete" -> Ended(e) /\ e.err # "nil"
     [] cl = "HonestPeerCompletes" -> Ended(e) /\ e.honest /\ ~e.cancel

Holds(cl, e) ==
   CASE cl = "ParentAfterChildren" -> \A n \in Dest(e) \ {0} : Kids(n) \subseteq Dest(e)
     [] cl = "CorruptRejected" -> 0 \notin Dest(e)
     [] cl = "CompleteWhenDone" -> ~Has(e, "panic") /\ e.pending = 0 /\ Nodes \subseteq Dest(e) /\ Verified(e)
     [] cl = "InterruptedNeverLooksComplete" -> (1 \in Dest(e)) => (Nodes \subseteq Dest(e) /\ Verified(e))
     [] cl = "HonestPeerCompletes" -> e.err = "nil" /\ ~e.stuck

DagAgrees(e) == /\ e.dag \in DOMAIN DagTable
                /\ e.size = DagTable[e.dag].n
                /\ \A n \in 1..e.size : SetOf(e.kids[n]) = DagTable[e.dag].kids[n]
                /\ SetOf(e.raw) = DagTable[e.dag].raw

\* discriminator: which event, trie or state, how the sync ended, and whether a peer had left the peer set before
Disc(e) == {e.ev, kind} \cup (IF e.ev = "End" /\ Has(e, "stuck") /\ e.stuck THEN {"stuck"} ELSE {})
                        \cup (IF e.ev = "End" /\ Has(e, "err") /\ e.err \notin {"nil", "cancelled"} THEN {"aborted"} ELSE {})
                        \cup (IF left THEN {"peer_left"} ELSE {})

Init == l = 1 /\ dg = 1 /\ kind = "trie" /\ npeers = 0 /\ left = FALSE /\ dagok = TRUE /\ viol = {} /\ fired = [c \in ClauseNames |-> 0]

Step ==
   /\ l <= Len(TraceLog)
   /\ l' = l + 1
   /\ LET e == TraceLog[l] IN
      CASE e.ev = "Begin" ->
              /\ dagok' = (dagok /\ DagAgrees(e))
              /\ dg' = (IF e.dag \in DOMAIN DagTable THEN e.dag ELSE dg)
              /\ kind' = (IF e.state THEN "state" ELSE "trie")
              /\ npeers' = e.peers /\ left' = FALSE
              /\ UNCHANGED <<viol, fired>>
        [] e.ev \in {"DbWrite", "End"} ->
              LET app == { cl \in ClauseNames : Applies(cl, e) }
                  bad == { cl \in app : ~Holds(cl, e) } IN
              /\ fired' = [cl \in ClauseNames |-> fired[cl] + (IF cl \in app THEN 1 ELSE 0)]
              /\ viol' = IF Cardinality(viol) >= 200 THEN viol ELSE viol \cup { <<cl, Disc(e), l>> : cl \in bad }
              /\ UNCHANGED <<dg, kind, npeers, left, dagok>>
        \* a peer left the peer set (went away by itself, or was dropped by the loop for stalling)
        [] e.ev \in {"Gone", "Drop"} -> left' = TRUE /\ UNCHANGED <<dg, kind, npeers, dagok, viol, fired>>
        [] OTHER -> UNCHANGED <<dg, kind, npeers, left, dagok, viol, fired>>

MonSpec == Init /\ [][Step]_mvars

Done == (l = Len(TraceLog) + 1) =>
          PrintT("@@J " \o ToJson([kind |-> "RESULT", events |-> Len(TraceLog), viol |-> viol, fired |-> fired, dagok |-> dagok]))
=============================================================================
