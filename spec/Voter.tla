------------------------------- MODULE Voter -------------------------------
(***************************************************************************)
(* C02 -- an honest validator never signs two conflicting votes, even      *)
(* across restarts.                                                        *)
(*                                                                         *)
(* DESIGN LAYER (implementation shaped).  One validator: the vote path of  *)
(* consensus/ucon/voter.go (updateContext, processVoteMsg -> judgeVoteCount*)
(* -> vote -> setMarkedBlock -> commit) on top of consensus/ucon/          *)
(* vote_cache.go (VoteDB: UpdateContext, alreadyVoted, UpdateVoteData,     *)
(* NewVoteDB's replay of the persisted records).  Everything the voter does*)
(* for one event happens under v.lock, so an environment action is one     *)
(* atomic run of the code -- except that the process can die anywhere      *)
(* inside it.  A run is therefore computed functionally (operators Vote,   *)
(* Judge, SetMarked, UpdateCtx over a record of the voter's memory) and    *)
(* yields the sequence `out` of its externally visible micro steps, in     *)
(* program order:                                                          *)
(*      W  the vote record is written to the database  (Persist)           *)
(*      P  the signed vote is posted on the event mux  (Post)              *)
(*      C  CommitEvent           X  RoundIndexChangeEvent                  *)
(* `Finish` applies the whole run; `CrashIn` applies a proper prefix of it *)
(* (the crash between Persist and Post, between two votes of one run, ...) *)
(* and `Crash` kills the process between two events.  `Restart` is         *)
(* NewVoter on the same database: NewVoteDB replays the records in the     *)
(* code's order with the code's three-way comparison, then the engine      *)
(* starts at (head+1, 1) -- StartNewRound(true).                           *)
(*                                                                         *)
(* Deviations of the code from the ideal are modelled as coded; the        *)
(* constant Repair switches on the three proposed two-line repairs so that *)
(* TLC can show they suffice (within the bounds).                          *)
(*                                                                         *)
(* PROPERTY LAYER.  Written from the statement only, over the observable   *)
(* set of votes that left the node.  In mode M a prophecy constant `tgt`   *)
(* (kind, round, index) is guessed in Init and only the hashes sent for    *)
(* that key are kept (`seen`); full histories exist only in mode G.        *)
(***************************************************************************)
EXTENDS Integers, Sequences, FiniteSets, TLC, Json

CONSTANTS MaxR,        \* rounds 1..MaxR
          MaxI,        \* round indices 1..MaxI
          Blocks,      \* proposals (block hashes), e.g. {"A", "B"}
          MaxCrash,    \* number of crashes
          CertRounds,  \* rounds in which a certificate vote is required
          QKinds,      \* vote kinds for which the environment may present a quorum
          MaxQ,        \* at most MaxQ quorums are presented per visit of a (round, index)
          Repair,      \* subset of {"certReload", "replayMoves", "noBackward"}; {} = as coded
          Mode,        \* "M": exhaustive check with a guessed target; "G": behaviour generation; "GV": one behaviour per state
          MaxOps,      \* mode G: length of the generated behaviours
          GVAfter,     \* mode GV: behaviours with at most GVAfter events after the restart
          StepSet,     \* steps the environment delivers inside a (round, index): {2, 4, 5}, or {4} for the next-index-only alphabet
          Back,        \* TRUE: the engine may also re-enter an EARLIER (round, index) without a restart: Server.Resume() after a
                       \* sync (StartNewRound(true) puts the index back to 1) or a stale ContextChangeEvent delivered late (AsyncPost)
          Weaken       \* TRUE: the invariants tolerate the classes listed as known findings

Kinds == {"Prevote", "Precommit", "Next", "Cert"}
E     == "E"        \* the empty hash (next-index votes for "no block")
Nil   == "nil"      \* no value
None  == <<0, 0>>   \* no record on disk
ZeroMark == [k \in Kinds |-> 0]
EmptyDisk == [Prevote1 |-> None, Precommit1 |-> None, Next1 |-> None, Next2 |-> None, Cert1 |-> None]
\* NewVoteDB reads prevote, precommit, next-index 1, next-index 2 -- and no certificate record (vote_cache.go:77-87)
RestoreOrder == <<"Prevote1", "Precommit1", "Next1", "Next2">> \o (IF "certReload" \in Repair THEN <<"Cert1">> ELSE <<>>)
KindOfSlot == [Prevote1 |-> "Prevote", Precommit1 |-> "Precommit", Next1 |-> "Next", Next2 |-> "Next", Cert1 |-> "Cert"]

Lt(a, b) == a[1] < b[1] \/ (a[1] = b[1] /\ a[2] < b[2])

VARIABLES up,       \* the process is running
          s,        \* memory of Voter + VoteDB, and the disk (field disk survives a crash)
          minR,     \* head+1: the round the engine starts in after a restart never decreases
          crashes,
          tgt, seen, rsAfter, maxCtx, back, older,   \* property layer (mode M): see below
          hist      \* generated behaviour (mode G; in mode M only for the export of counterexamples)
vars == <<up, s, minR, crashes, tgt, seen, rsAfter, maxCtx, back, older, hist>>
View == <<up, s, minR, crashes, tgt, seen, rsAfter, maxCtx, back, older>>

Fresh(disk) == [ r |-> 0, i |-> 0, step |-> 0, cert |-> FALSE,           \* Voter.round/roundIndex/step/shouldCert
                 pc |-> FALSE, cd |-> FALSE, cm |-> FALSE, sc |-> FALSE,  \* precommitted, certificated, committed, sentChangeEvent
                 cur |-> Nil, nm |-> Nil, nv |-> Nil,                      \* curMarked, nextMarked, nextVoted (block hash)
                 over |-> {},                                              \* voteOver (only what the switch reads)
                 q |-> {},                                                 \* <<kind, block>> with a counted quorum in the current wrapper
                 qold |-> [c \in (1..MaxR) \X (1..MaxI) |-> {}],            \* the wrappers of the contexts left (VotesWrapperList keeps them)
                 dbR |-> 0, dbI |-> 0, mark |-> ZeroMark,                  \* VoteDB.round/roundIndex/mark
                 disk |-> disk, out |-> <<>> ]

(***************************** VoteDB (vote_cache.go) *****************************)
AlreadyVoted(v, k, rr, ii) ==                                                      \* :164
   \/ /\ v.dbR # 0 /\ v.dbR = rr
      /\ \/ v.dbI > ii
         \/ (v.dbI = ii /\ k = "Next" /\ v.mark[k] = 2)
         \/ (v.dbI = ii /\ k # "Next" /\ v.mark[k] = 1)
   \/ ("noBackward" \in Repair /\ v.dbR > rr)

DbCtx(v, rr, ii) ==                                                                \* UpdateContext :96
   IF v.dbR = rr /\ v.dbI = ii THEN v
   ELSE IF "noBackward" \in Repair /\ v.dbR # 0 /\ Lt(<<rr, ii>>, <<v.dbR, v.dbI>>) THEN v
   ELSE [v EXCEPT !.dbR = rr, !.dbI = ii, !.mark = ZeroMark]                        \* also when the context moves BACKWARDS (as coded)

DbVote(v, k, b) ==                                                                 \* UpdateVoteData :109 (not alreadyVoted)
   LET rr == v.r  ii == v.i
       n == IF v.dbR = rr /\ v.dbI = ii THEN v.mark[k] + 1 ELSE 1
       slot == IF k = "Next" /\ n = 2 THEN "Next2" ELSE k \o "1"                   \* the key is address|kind|slot, not round/index
       m0 == IF (v.dbR # 0 /\ v.dbR # rr) \/ v.dbI # ii THEN ZeroMark ELSE v.mark  \* :148
   IN [v EXCEPT !.disk[slot] = <<rr, ii>>, !.dbR = rr, !.dbI = ii, !.mark = [m0 EXCEPT ![k] = @ + 1],
                !.out = Append(@, [t |-> "W", k |-> k, r |-> rr, i |-> ii, b |-> b, slot |-> slot])]

RECURSIVE Replay(_, _, _)
Replay(disk, st, n) ==                                                             \* NewVoteDB :55, updateFn
   IF n > Len(RestoreOrder) THEN st
   ELSE LET k == KindOfSlot[RestoreOrder[n]]  v == disk[RestoreOrder[n]] IN
        IF v = None THEN Replay(disk, st, n + 1)
        ELSE IF st.r = 0 THEN Replay(disk, [r |-> v[1], i |-> v[2], m |-> [ZeroMark EXCEPT ![k] = 1]], n + 1)
        ELSE IF Lt(v, <<st.r, st.i>>) THEN Replay(disk, st, n + 1)
        ELSE IF v = <<st.r, st.i>> THEN Replay(disk, [st EXCEPT !.m[k] = @ + 1], n + 1)
        ELSE IF "replayMoves" \in Repair
             THEN Replay(disk, [r |-> v[1], i |-> v[2], m |-> [ZeroMark EXCEPT ![k] = 1]], n + 1)
             ELSE Replay(disk, [st EXCEPT !.m = [ZeroMark EXCEPT ![k] = 1]], n + 1)  \* round/index NOT moved (as coded :71)

FirstRecord(disk) == LET ns == { n \in 1..4 : disk[RestoreOrder[n]] # None } IN
                     IF ns = {} THEN None ELSE disk[RestoreOrder[CHOOSE n \in ns : \A m \in ns : n <= m]]

(***************************** Voter (voter.go) *****************************)
RECURSIVE Vote(_, _, _), Judge(_, _, _), SetMarked(_, _)

\* vote() :389 -- sortition stub: always selected.  Result: [err, s]
Vote(v, k, b) ==
   IF k = "Next" /\ v.nv # Nil /\ AlreadyVoted(v, "Next", v.r, v.i) THEN [err |-> TRUE, s |-> v]      \* :400
   ELSE IF AlreadyVoted(v, k, v.r, v.i) THEN [err |-> TRUE, s |-> v]                                  \* :425 refused
   ELSE LET v1 == DbVote(v, k, b)                                                                    \* Persist
            v2 == [v1 EXCEPT !.out = Append(@, [t |-> "P", k |-> k, r |-> v.r, i |-> v.i, b |-> b])]  \* Post :434
        IN [err |-> FALSE, s |-> IF <<k, b>> \in v2.q THEN Judge(v2, k, b) ELSE v2]                   \* own vote joins a counted quorum :439

Commit(v, b) == [v EXCEPT !.cm = TRUE, !.out = Append(@, [t |-> "C", b |-> b])]                       \* :711 (block always in the cache)

\* judgeVoteCount :282 with the count over the threshold, chamber
Judge(v, k, b) ==
   IF v.cm THEN v
   ELSE LET v0 == IF v.cert /\ k \in {"Precommit", "Cert"} THEN [v EXCEPT !.over = @ \cup {<<k, b>>}] ELSE v IN
   CASE k = "Prevote" ->
          IF v0.pc THEN v0
          ELSE LET x == Vote(v0, "Precommit", b)
                   v1 == IF x.err THEN x.s ELSE [x.s EXCEPT !.pc = TRUE]
               IN SetMarked(v1, b)
     [] k = "Precommit" ->
          IF ~v0.cert THEN SetMarked(Commit(v0, b), b)
          ELSE IF ~v0.cd THEN LET x == Vote(v0, "Cert", b) IN IF x.err THEN x.s ELSE [x.s EXCEPT !.cd = TRUE]
          ELSE IF <<"Cert", b>> \in v0.over THEN SetMarked(Commit(v0, b), b) ELSE v0
     [] k = "Cert" ->
          IF <<"Precommit", b>> \in v0.over THEN SetMarked(Commit(v0, b), b) ELSE v0
     [] k = "Next" ->
          IF v0.sc THEN v0 ELSE [v0 EXCEPT !.sc = TRUE, !.out = Append(@, [t |-> "X", b |-> b])]

\* setMarkedBlock :651 -- nextVoted is set when the next-index vote FAILED (as coded :688)
SetMarked(v, b) ==
   IF v.nv # Nil /\ (v.nv # E \/ v.nv = b \/ b = E) THEN v
   ELSE IF v.step < 4 THEN (IF v.nm = Nil /\ b # E THEN [v EXCEPT !.nm = b] ELSE v)
   ELSE LET x == Vote(v, "Next", b) IN IF x.err THEN [x.s EXCEPT !.nv = b] ELSE x.s

\* updateContext :199 ; best = what blockhashWithMaxPriority returns at that moment
UpdateCtxC(v, rr, ii, st, best, c) ==
   LET v1 == IF v.r # rr \/ v.i # ii
             THEN [v EXCEPT !.pc = FALSE, !.cm = FALSE, !.sc = FALSE, !.cd = FALSE,
                            !.cur = IF ii = 1 THEN Nil ELSE v.nv, !.nm = Nil, !.nv = Nil, !.over = {},
                            !.q = v.qold[<<rr, ii>>],                       \* NewWrapper returns the old wrapper of a context visited before
                            !.qold = IF v.r = 0 \/ ~Back THEN @ ELSE [@ EXCEPT ![<<v.r, v.i>>] = v.q]]   \* (only read when contexts can recur)
             ELSE v
       v2 == DbCtx([v1 EXCEPT !.r = rr, !.i = ii, !.step = st, !.cert = c], rr, ii)
   IN CASE st = 2 -> IF v2.cur # Nil /\ v2.cur # E THEN Vote(v2, "Prevote", v2.cur).s
                     ELSE IF best = Nil THEN v2 ELSE Vote(v2, "Prevote", best).s
        [] st \in {4, 5} -> IF v2.cm \/ v2.sc THEN v2 ELSE SetMarked(v2, IF v2.nm = Nil THEN E ELSE v2.nm)
        [] OTHER -> v2
UpdateCtx(v, rr, ii, st, best) == UpdateCtxC(v, rr, ii, st, best, rr \in CertRounds)   \* Server.processStepEvent: cert = round % ACoCHTFrequency = 0

\* processVoteMsg :508, status msgSame, a sender that has not voted this kind yet, weight >= quorum
QuorumMsg(v, k, b) == IF <<k, b>> \in v.q THEN v ELSE Judge([v EXCEPT !.q = @ \cup {<<k, b>>}], k, b)

(***************************** observation, crash points *****************************)
RECURSIVE DiskAfter(_, _)
DiskAfter(disk, o) == IF o = <<>> THEN disk
                      ELSE DiskAfter(IF Head(o).t = "W" THEN [disk EXCEPT ![Head(o).slot] = <<Head(o).r, Head(o).i>>] ELSE disk, Tail(o))
Num(o, t) == Cardinality({ n \in DOMAIN o : o[n].t = t })
TgtBlocks(o) == { o[n].b : n \in { m \in DOMAIN o : o[m].t = "P" /\ o[m].k = tgt.k /\ o[m].r = tgt.r /\ o[m].i = tgt.i } }
\* a crash inside a run is of interest right after a write or right after a post -- and right BEFORE the first write
\* (p = 0): for the design that is the same as a crash before the event, on the real code it is the crash point
\* "the process dies when it is about to write the first record" (nothing may have left the node by then)
Cuts(o) == { p \in 0..(Len(o) - 1) : IF p = 0 THEN o[1].t = "W" ELSE o[p].t \in {"W", "P"} }
Dead(disk) == Fresh(disk)

Tick(recs) == /\ (Mode \in {"G", "GA"} => Len(hist) < MaxOps)
              /\ hist' = hist \o recs
Max(a, b) == IF a < b THEN b ELSE a
MaxC(a, b) == IF Lt(a, b) THEN b ELSE a

Finish(v2, rec) ==
   /\ Tick(<<rec @@ [cw |-> -1, cp |-> -1]>>)
   /\ s' = [v2 EXCEPT !.out = <<>>]
   /\ seen' = seen \cup TgtBlocks(v2.out)
   /\ maxCtx' = MaxC(maxCtx, <<v2.r, v2.i>>)
   /\ minR' = Max(minR, v2.r)
   /\ UNCHANGED <<up, crashes, rsAfter, back, older, tgt>>

CrashIn(v2, rec, p) ==
   /\ crashes < MaxCrash
   /\ LET pre == SubSeq(v2.out, 1, p) IN
      /\ Tick(<<rec @@ [cw |-> Num(pre, "W"), cp |-> Num(pre, "P")], [op |-> "Crash"]>>)
      /\ s' = Dead(DiskAfter(s.disk, pre))
      /\ seen' = seen \cup TgtBlocks(pre)
   /\ maxCtx' = MaxC(maxCtx, <<v2.r, v2.i>>)
   /\ minR' = Max(minR, v2.r)
   /\ up' = FALSE /\ crashes' = crashes + 1
   /\ UNCHANGED <<rsAfter, back, older, tgt>>

Run(v2, rec) == Finish(v2, rec) \/ \E p \in Cuts(v2.out) : CrashIn(v2, rec, p)

(***************************** environment *****************************)
\* ContextChangeEvents as the engine produces them: within a (round, index) the steps only grow (a step in which
\* the node is not selected is the same as a skipped step); a new index of the same round or index 1 of a later
\* round starts at step 0.
CtxArgs == { [r |-> s.r, i |-> s.i, st |-> st, best |-> b] :
                 st \in { x \in StepSet : x > s.step },
                 b \in Blocks \cup {Nil} }
           \cup { [r |-> s.r, i |-> ii, st |-> 0, best |-> Nil] : ii \in (s.i + 1)..MaxI }
           \cup { [r |-> rr, i |-> 1, st |-> 0, best |-> Nil] : rr \in (s.r + 1)..MaxR }
           \cup (IF Back THEN { [r |-> s.r, i |-> ii, st |-> 0, best |-> Nil] : ii \in 1..(s.i - 1) }         \* Resume / stale event
                               \cup { [r |-> rr, i |-> ii, st |-> 0, best |-> Nil] : rr \in 1..(s.r - 1), ii \in 1..MaxI }
                  ELSE {})
\* canonical `best`: only step 2 without a locked block reads it
CtxOK(a) == IF a.st = 2 /\ (s.cur = Nil \/ s.cur = E) THEN a.best # Nil ELSE a.best = Nil

Ctx == /\ up
       /\ \E a \in CtxArgs : /\ CtxOK(a)
                             /\ Run(UpdateCtx(s, a.r, a.i, a.st, a.best), [op |-> "Ctx", r |-> a.r, i |-> a.i, st |-> a.st, best |-> a.best, c |-> (a.r \in CertRounds)])

Quorum == /\ up
          /\ \E k \in QKinds, b \in Blocks \cup {E} :
                /\ (b = E) => (k = "Next")
                /\ (k = "Cert") => s.cert
                /\ <<k, b>> \notin s.q /\ Cardinality(s.q) < MaxQ
                /\ Run(QuorumMsg(s, k, b), [op |-> "Quorum", k |-> k, b |-> b])

Crash == /\ up /\ crashes < MaxCrash
         /\ Tick(<<[op |-> "Crash"]>>)
         /\ s' = Dead(s.disk) /\ up' = FALSE /\ crashes' = crashes + 1
         /\ UNCHANGED <<minR, tgt, seen, rsAfter, maxCtx, back, older>>

\* NewVoter on the same database, then the engine's StartNewRound(true): context (head+1, 1), step 0
Restart == /\ ~up
           /\ \E rr \in minR..MaxR :
                LET st == Replay(s.disk, [r |-> 0, i |-> 0, m |-> ZeroMark], 1)
                    f  == [Fresh(s.disk) EXCEPT !.dbR = st.r, !.dbI = st.i, !.mark = st.m]
                    first == FirstRecord(s.disk)
                IN /\ Tick(<<[op |-> "Restart", r |-> rr, c |-> (rr \in CertRounds)]>>)
                   /\ s' = UpdateCtx(f, rr, 1, 0, Nil)
                   /\ minR' = rr
                   /\ rsAfter' = (rsAfter \/ seen # {})
                   /\ back'  = IF seen # {} THEN Lt(<<rr, 1>>, maxCtx) ELSE back    \* the engine restarts below a context already visited
                   /\ older' = IF seen # {} THEN (first # None /\ Lt(first, <<tgt.r, tgt.i>>)) ELSE older
                   /\ maxCtx' = MaxC(maxCtx, <<rr, 1>>)
           /\ up' = TRUE
           /\ UNCHANGED <<crashes, tgt, seen>>

Targets == { t \in [k : Kinds, r : 1..MaxR, i : 1..MaxI] : (t.k = "Cert") => (t.r \in CertRounds) }

Init == /\ up = TRUE
        /\ s = UpdateCtx(Fresh(EmptyDisk), 1, 1, 0, Nil)      \* first start of a node with an empty database
        /\ minR = 1 /\ crashes = 0
        /\ tgt \in (IF Mode = "M" THEN Targets ELSE {[k |-> "Prevote", r |-> 1, i |-> 1]})
        /\ seen = {} /\ rsAfter = FALSE /\ maxCtx = <<1, 1>> /\ back = FALSE /\ older = FALSE
        /\ hist = <<[op |-> "Start", r |-> 1, c |-> (1 \in CertRounds)]>>

Next == Ctx \/ Quorum \/ Crash \/ Restart
Spec == Init /\ [][Next]_vars

(***************************** property layer *****************************)
\* "For any round and round index, a validator running this software emits at most one prevote, at most one
\*  precommit and at most one certificate vote (and at most two next-index votes), so it never signs two
\*  different block hashes for the same vote kind in the same round/index."   seen = hashes sent for the target.
Limit(k) == IF k = "Next" THEN 2 ELSE 1
\* classes of histories listed as known findings (discriminators as computed by Voter_Mon):
\*   after_restart + context_went_back ; OneCertificate after_restart ; after_restart + replay_from_older
KnownClass == rsAfter /\ (back \/ tgt.k = "Cert" \/ (older /\ tgt.k \in {"Precommit", "Next"}))
Cex(name) == PrintT("@@J " \o ToJson([kind |-> "CEX", clause |-> name, tgt |-> tgt, h |-> hist])) /\ FALSE
Holds(k, name) == (tgt.k = k) => (Cardinality(seen) <= Limit(k) \/ (Weaken /\ KnownClass) \/ Cex(name))
OnePrevote     == Holds("Prevote", "OnePrevote")
OnePrecommit   == Holds("Precommit", "OnePrecommit")
OneCertificate == Holds("Cert", "OneCertificate")
AtMostTwoNext  == Holds("Next", "AtMostTwoNext")

\* the persisted record is written before the vote leaves the node (mechanism; checked on every run's micro steps)
\* -- holds by construction of Vote; kept as a sanity invariant of the disk: every record is a visited context
DiskSane == \A f \in DOMAIN s.disk : s.disk[f] = None \/ (s.disk[f][1] \in 1..MaxR /\ s.disk[f][2] \in 1..MaxI)

(***************************** generation *****************************)
\* Mode "GA": like "G", but every behaviour up to the length is printed (the wrapper keeps the ones that are not a prefix of
\* another): for alphabets whose behaviours end before the length (crash budget used up)
Leaf == ((Mode = "G" /\ Len(hist) >= MaxOps) \/ (Mode = "GA" /\ Len(hist) >= 3)) => PrintT("@@J " \o ToJson([kind |-> "B", h |-> hist]))
\* Mode "GV": breadth-first search over the VIEW (states, not behaviours, are distinct); used as an INVARIANT, which TLC
\* evaluates once per distinct state: one (shortest) behaviour into every distinct state in which the restarted node has
\* just processed an event that can make it vote -- every reachable combination of disk records and restarted memory
LastRestart == LET ks == { n \in DOMAIN hist : hist[n].op = "Restart" } IN CHOOSE k \in ks : \A m \in ks : m <= k
LeafV == (Mode = "GV" /\ up /\ crashes >= 1 /\ hist[Len(hist)].op \in {"Ctx", "Quorum"} /\ hist[Len(hist)].cw = -1
          /\ Len(hist) - LastRestart <= GVAfter)
            => PrintT("@@J " \o ToJson([kind |-> "B", h |-> hist]))
=============================================================================
