SPECIFICATION TSpec
CONSTANTS
  MaxTx = 1000000
  Alphabet = "seq"
  Pool0 = 0
  GasMode = "all"
  Modes = {"miner"}
  Prices = {1}
  KnownRefund = TRUE
  Versions = {5}
  AllFull = TRUE
  RlpKeepsCaches = FALSE
  GenMode = "none"
CONSTRAINT HighWater
POSTCONDITION Accepted
CHECK_DEADLOCK FALSE
