----------------------------- MODULE TxPool_Conc -----------------------------
(***************************************************************************)
(* C20, concurrent use: "concurrent submissions, head changes and evictions*)
(* never corrupt these views or race".                                     *)
(*                                                                         *)
(* Which calls may overlap: the read API (Nonce, Stats, Content, Pending,  *)
(* Locals, Status) takes the pool's lock for reading or writing and may run*)
(* concurrently with itself and with one writer step; writer steps are     *)
(* serialised by the pool (its lock and the reorg loop).  A writer step of *)
(* the synchronous alphabet passes through these lock releases:            *)
(*   AddSync    after addTxsLocked (every transaction of the batch added), *)
(*              after runReorg                                             *)
(*   ResetSync / ResetBack / SetGasPrice / Evict   one critical section    *)
(* so a read that overlaps the step must return the view of the state      *)
(* before it, of a state after the batch was added, or of the state after  *)
(* it (linearisability of reads against the design layer).  The trace is   *)
(* the one of TxPool_Trace with, per event, the set of distinct values k   *)
(* concurrent readers obtained from each call while the step ran.  The     *)
(* spec follows the model exactly as TxPool_Trace does; a value that is the*)
(* view of none of the allowed states is recorded in `cviol` as            *)
(* <<call, line>> (never a rejection), printed when the log is consumed.   *)
(***************************************************************************)
EXTENDS TxPool

TraceLog == ndJsonDeserialize("trace.ndjson")
VARIABLES l, cviol
tvars == <<vars, l, cviol>>

SetOf(q) == { q[i] : i \in DOMAIN q }
TxSetOf(a, q) == { [a |-> a, n |-> q[i][1], p |-> q[i][2], v |-> q[i][3]] : i \in DOMAIN q }
RecSet(q) == { [a |-> q[i].a, n |-> q[i].n, p |-> q[i].p, v |-> q[i].v] : i \in DOMAIN q }
Ascending(q) == \A i \in DOMAIN q : i = 1 \/ q[i - 1][1] < q[i][1]

Matches(e) ==
   LET o == e.obs IN
   /\ \A a \in Accts : /\ s'.pend[a] = TxSetOf(a, o.pend[a]) /\ s'.que[a] = TxSetOf(a, o.que[a])
                       /\ PN(s', a) = o.nonce[a] /\ s'.sn[a] = o.sn[a] /\ s'.sb[a] = o.sb[a]
   /\ s'.loc = SetOf(o.loc) /\ s'.gp = o.gp /\ Cardinality(s'.all) = o.int[1]

\* the states whose view a read overlapping the step may return
Mids(e) == IF e.ev = "AddSync" THEN { x.st : x \in AddSeqS({[st |-> s, dirty |-> {}]}, e.args.ts, 1, e.args.local) } ELSE {}
Allowed(e) == {s, s'} \cup Mids(e)

PendAll(st) == UNION { st.pend[a] : a \in Accts }
QueAll(st) == UNION { st.que[a] : a \in Accts }
StatusSet(v, c) == { [a |-> k[1], n |-> k[2], p |-> k[3], v |-> k[4]] : k \in { x \in SetOf(v) : x[5] = c } }

ValueOK(api, v, A) ==
   CASE api = "stats"   -> \E st \in A : v = <<PendCount(st), QueCount(st)>>
     [] api = "content" -> /\ \A a \in Accts : Ascending(v[1][a]) /\ Ascending(v[2][a])
                           /\ \E st \in A : \A a \in Accts : st.pend[a] = TxSetOf(a, v[1][a]) /\ st.que[a] = TxSetOf(a, v[2][a])
     [] api = "miner"   -> /\ \A a \in Accts : Ascending(v[a])
                           /\ \E st \in A : \A a \in Accts : st.pend[a] = TxSetOf(a, v[a])
     [] api = "loc"     -> \E st \in A : st.loc = SetOf(v)
     [] api = "status"  -> \E st \in A : StatusSet(v, 2) = PendAll(st) /\ StatusSet(v, 1) = QueAll(st) /\ Len(v) = Cardinality(PendAll(st)) + Cardinality(QueAll(st))
     [] OTHER -> FALSE

NonceKey(a) == "nonce" \o ToString(a)
StaleCalls(e) ==
   LET A == Allowed(e)
       r == e.reads IN
   { api \in {"stats", "content", "miner", "loc", "status"} : api \in DOMAIN r /\ \E i \in DOMAIN r[api] : ~ValueOK(api, r[api][i], A) }
   \cup { "nonce" : a \in { x \in Accts : NonceKey(x) \in DOMAIN r /\ \E i \in DOMAIN r[NonceKey(x)] : ~\E st \in A : PN(st, x) = r[NonceKey(x)][i] } }

IsEvent(name) == l <= Len(TraceLog) /\ TraceLog[l].ev = name /\ l' = l + 1

InitPool == [pend |-> [a \in Accts |-> {}], que |-> [a \in Accts |-> {}], all |-> {}, loc |-> {},
             pn |-> [a \in Accts |-> -1], sn |-> [a \in Accts |-> 0], sb |-> [a \in Accts |-> 4], gp |-> 1]

TReset == /\ (IsEvent("reset") \/ IsEvent("abort"))
          /\ s' = InitPool /\ work' = NoWork /\ last' = <<>> /\ nops' = 0 /\ goal' = FALSE /\ arr' = <<>>
          /\ dem' = [acc |-> {}, glob |-> FALSE, gap |-> {}] /\ hist' = <<>> /\ UNCHANGED cviol

TInit == /\ IsEvent("Init")
         /\ LET a == TraceLog[l].args IN a.na = Cardinality(Accts) /\ a.as = AS /\ a.gs = GS /\ a.aq = AQ /\ a.gq = GQ /\ a.bump = Bump
         /\ UNCHANGED <<vars, cviol>>

Act(e) == LET a == e.args IN
   CASE e.ev = "AddSync"     -> AddSync(a.ts, a.local)
     [] e.ev = "ResetSync"   -> ResetSync(a.a, a.n, a.b)
     [] e.ev = "ResetBack"   -> ResetBack
     [] e.ev = "SetGasPrice" -> SetGasPrice(a.p)
     [] e.ev = "Evict"       -> Evict
     [] OTHER -> FALSE

TStep == /\ l <= Len(TraceLog)
         /\ TraceLog[l].ev \notin {"reset", "abort", "Init"}
         /\ l' = l + 1
         /\ LET e == TraceLog[l] IN
            /\ ~("panic" \in DOMAIN e)
            /\ Act(e)
            /\ Matches(e)
            /\ cviol' = IF "reads" \in DOMAIN e
                        THEN cviol \cup { <<c, l>> : c \in { x \in StaleCalls(e) : ~\E w \in cviol : w[1] = x } }
                        ELSE cviol

TInitState == Init /\ l = 1 /\ cviol = {} /\ TLCSet(1, 0)
TNext == TReset \/ TInit \/ TStep
TSpec == TInitState /\ [][TNext]_tvars

HighWater == /\ TLCSet(1, IF TLCGet(1) < l THEN l ELSE TLCGet(1))
             /\ ((l = Len(TraceLog) + 1) => PrintT("@@J " \o ToJson([kind |-> "CRESULT", events |-> Len(TraceLog), viol |-> cviol])))
Accepted == IF TLCGet(1) = Len(TraceLog) + 1 THEN TRUE
            ELSE PrintT("@@J " \o ToJson([kind |-> "REJECTED", line |-> TLCGet(1), event |-> TraceLog[TLCGet(1)]]))
=============================================================================
