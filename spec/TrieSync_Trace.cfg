SPECIFICATION TSpec
CONSTANTS
  DagSet = {1}
  MaxOps = 1000000
  MaxFaults = 1000000
  MaxBatch = 3
  MissingMax = {0}
  GenMode = "none"
CONSTRAINT HighWater
POSTCONDITION Accepted
CHECK_DEADLOCK FALSE
