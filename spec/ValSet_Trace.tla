---------------------------- MODULE ValSet_Trace ----------------------------
(***************************************************************************)
(* Conformance of the real StateDB to the design layer of ValSet.tla:      *)
(* every recorded event is re-executed as the model action of the same     *)
(* name with the logged arguments and the model's next state must project  *)
(* onto the logged projection `obs` (validator records, statistics, index, *)
(* delegator side).  A rejection is DRIFT, never a violation.              *)
(***************************************************************************)
EXTENDS ValSet

TraceLog == ndJsonDeserialize("trace.ndjson")
VARIABLE l
tvars == <<vars, l>>

RangeOf(q) == { q[i] : i \in DOMAIN q }

ValMatches(o, r) ==
   /\ o.ex = (r.mem = "live")
   /\ o.ex => /\ o.on = r.on /\ o.tok = r.tok /\ o.stk = r.stk /\ o.st = r.st /\ o.ss = r.ss /\ o.rew = r.rew /\ o.exp = r.exp
              /\ { <<o.dl[k].a, o.dl[k].t, o.dl[k].s>> : k \in DOMAIN o.dl }
                   = { <<a, r.dl[a].t, r.dl[a].s>> : a \in { b \in Accts : r.dl[b].t > 0 \/ r.dl[b].s > 0 } }

SideMatches(o, V, S, IX, A) ==
   /\ \A v \in Vals : ValMatches(o.v[v], V[v])
   /\ \A g \in Groups : o.st[g] = S[g]
   /\ RangeOf(o.ix) = IX
   /\ \A a \in Accts : o.a[a].dbal = A[a].dbal /\ RangeOf(o.a[a].to) = A[a].to
Matches(e) ==
   /\ SideMatches(e.obs, vo', stat', index', acct')
   \* the other side of the last Copy, when the driver holds one
   /\ ("oobs" \in DOMAIN e) => (hasOth' /\ SideMatches(e.oobs, oth'.vo, oth'.stat, oth'.index, oth'.acct))

IsEvent(name) == l <= Len(TraceLog) /\ TraceLog[l].ev = name /\ l' = l + 1

TReset == /\ (IsEvent("reset") \/ IsEvent("abort"))
          /\ vo' = [v \in Vals |-> NoVal] /\ stat' = ZeroStat /\ index' = {} /\ tix' = {} /\ dirty' = {}
          /\ acct' = [a \in Accts |-> [dbal |-> 0, to |-> {}]] /\ pend' = {} /\ blobs' = {{}}
          /\ vj' = <<>> /\ aj' = <<>> /\ revs' = <<>> /\ nextId' = 0 /\ failed' = FALSE /\ hist' = <<>>
          /\ hasOth' = FALSE
          /\ oth' = [vo |-> vo', stat |-> stat', index |-> index', tix |-> tix', dirty |-> dirty', acct |-> acct', pend |-> pend',
                     vj |-> vj', aj |-> aj', revs |-> revs']

Act(e) == LET a == e.args IN
   CASE e.ev = "Create"     -> Create(a.v, a.d)
     [] e.ev = "Deposit"    -> Deposit(a.v, a.d)
     [] e.ev = "Withdraw"   -> Withdraw(a.v, a.d)
     [] e.ev = "Status"     -> Status(a.v, a.on)
     [] e.ev = "Delegate"   -> Delegate(a.a, a.v, a.d)
     [] e.ev = "Undelegate" -> Undelegate(a.a, a.v, a.d)
     [] e.ev = "Reward"     -> Reward(a.v, a.d)
     [] e.ev = "Distribute" -> Distribute(a.v, a.d)
     [] e.ev = "Settle"     -> Settle(a.v)
     [] e.ev = "Recover"    -> Recover(a.v)
     [] e.ev = "Penalise"   -> Penalise(a.v, a.d, a.on)
     [] e.ev = "Remove"     -> Remove(a.v)
     [] e.ev = "ForUpdate"  -> ForUpdate
     [] e.ev = "Snapshot"   -> Snapshot /\ a.id = nextId
     [] e.ev = "Revert"     -> Revert(a.id)
     [] e.ev = "Finalise"   -> Finalise
     [] e.ev = "Root"       -> Root
     [] e.ev = "Commit"     -> Commit
     [] e.ev = "Reload"     -> Reload
     [] e.ev = "Swap"       -> Swap
     [] e.ev = "Copy"       -> CopyStep
     [] OTHER -> FALSE

TStep == /\ l <= Len(TraceLog)
         /\ TraceLog[l].ev \notin {"reset", "abort"}
         /\ l' = l + 1
         /\ LET e == TraceLog[l] IN
            /\ Act(e)
            /\ IF "obs" \in DOMAIN e THEN (~failed' /\ Matches(e)) ELSE IF "blind" \in DOMAIN e THEN ~failed' ELSE failed'

TInit == Init /\ l = 1 /\ TLCSet(1, 0)
TNext == TReset \/ TStep
TSpec == TInit /\ [][TNext]_tvars

HighWater == /\ TLCSet(1, IF TLCGet(1) < l THEN l ELSE TLCGet(1))
             /\ ((l = Len(TraceLog) + 1) => PrintT("@@J " \o ToJson([kind |-> "ACCEPTED", events |-> Len(TraceLog)])))
Accepted == IF TLCGet(1) = Len(TraceLog) + 1 THEN TRUE
            ELSE PrintT("@@J " \o ToJson([kind |-> "REJECTED", line |-> TLCGet(1), event |-> TraceLog[TLCGet(1)]]))
=============================================================================
