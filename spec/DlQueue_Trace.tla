--------------------------- MODULE DlQueue_Trace ---------------------------
(***************************************************************************)
(* Conformance of the real download queue to the design layer of           *)
(* DlQueue.tla: every recorded event is re-executed as the model action of *)
(* the same name with the logged arguments, and the model's next state     *)
(* must project onto the logged pools (task pool, task queue as a multiset,*)
(* pending pool per peer, done pool, Pending counters of the result window,*)
(* result offset, lacking sets) and onto what the call returned.  Traces   *)
(* are concatenated; "reset" starts the next one.  The completion loop     *)
(* ("Complete") belongs to the monitor only and is skipped here.           *)
(***************************************************************************)
EXTENDS DlQueue

TraceLog == ndJsonDeserialize("trace.ndjson")
VARIABLE l
tvars == <<vars, l>>

SetOf(s) == { s[i] : i \in DOMAIN s }
Get(rec, p, dflt) == IF p \in DOMAIN rec THEN rec[p] ELSE dflt

ModelWin == LET S == { i \in 1..W : offset' + i <= NMax /\ slot'[offset' + i].a }
                K == IF S = {} THEN 0 ELSE CHOOSE i \in S : \A j \in S : j <= i
            IN [i \in 1..K |-> IF slot'[offset' + i].a THEN <<slot'[offset' + i].p, slot'[offset' + i].hd>> ELSE <<-99, 0>>]

Matches(e) ==
   LET o == e.obs IN
   /\ pool' = SetOf(o.tp)
   /\ \A h \in Hdrs : queue'[h] = Occ(o.tq, h)
   /\ Len(o.tq) = Cardinality(DOMAIN o.tq)
   /\ \A h \in SetOf(o.tq) : h \in Hdrs
   /\ \A p \in Peers : pend'[p] = Get(o.pd, p, <<>>)
   /\ DOMAIN o.pd \subseteq Peers
   /\ done' = SetOf(o.dn) /\ o.dnc = Cardinality(done')
   /\ offset' = o.off
   /\ o.win = ModelWin
   /\ \A p \in Peers : lacks'[p] = SetOf(Get(o.lk, p, <<>>))

IsEvent(name) == l <= Len(TraceLog) /\ TraceLog[l].ev = name /\ l' = l + 1

TReset == /\ (IsEvent("reset") \/ IsEvent("abort"))
          /\ lastsz' = 0 /\ base' = 0 /\ sess' = 1 /\ head' = 0 /\ acc' = {} /\ pool' = {} /\ queue' = [h \in Hdrs |-> 0] /\ pend' = [p \in Peers |-> <<>>] /\ done' = {}
          /\ slot' = [n \in Nums |-> NilSlot] /\ offset' = 0 /\ lacks' = [p \in Peers |-> {}] /\ faults' = 0
          /\ broken' = FALSE /\ delivered' = <<>> /\ old' = old /\ hist' = hist

TInit == /\ IsEvent("Init")
         /\ LET a == TraceLog[l].args IN a.memcap = MemCap /\ a.n = N /\ a.fl = FL /\ a.forkfrom = ForkFrom /\ a.w = W /\ a.body = Body /\ a.maxp = MaxProc
         /\ UNCHANGED vars

TSkip == /\ IsEvent("Complete") /\ UNCHANGED vars

Act(e) == LET a == e.args IN
   CASE e.ev = "Schedule" -> Schedule(a.v, a.chunk, a.from) /\ SetOf(e.res.acc) = acc' \ acc /\ e.res.ins = Cardinality(acc' \ acc)
     [] e.ev = "Reserve"  -> /\ Reserve(a.p, a.n)
                             /\ e.res.h = (IF pend[a.p] = <<>> THEN pend'[a.p] ELSE <<>>)
                             /\ e.res.err = (IF broken' /\ ~broken THEN "invalidChain" ELSE "ok")
     [] e.ev = "Deliver"  -> /\ DeliverCore(a.p, a.items)
                             /\ e.res.acc = (IF pend[a.p] = <<>> THEN 0 ELSE Matched(pend[a.p], a.items, 1))
                             /\ (e.res.err = "nofetch") <=> (pend[a.p] = <<>>)
                             /\ UNCHANGED <<lastsz, base, sess, head, acc, offset, broken, delivered, old, faults, hist>>
     [] e.ev = "Reset"    -> Reset(a.o)
     [] e.ev = "Cancel"   -> Cancel(a.p)
     [] e.ev = "Expire"   -> Expire(a.p)
     [] e.ev = "Revoke"   -> Revoke(a.p)
     [] e.ev = "Results"  -> /\ Results
                             /\ LET k == Len(delivered') - Len(delivered) IN
                                /\ Len(e.res.r) = k
                                /\ \A i \in 1..k : /\ e.res.r[i][5] = delivered'[Len(delivered) + i].h
                                                   /\ e.res.r[i][2] = delivered'[Len(delivered) + i].b
     [] OTHER -> FALSE

TStep == /\ l <= Len(TraceLog)
         /\ TraceLog[l].ev \notin {"reset", "abort", "Init", "Complete"}
         /\ l' = l + 1
         /\ LET e == TraceLog[l] IN
            /\ ~("panic" \in DOMAIN e)
            /\ Act(e)
            /\ Matches(e)

TInitState == Init /\ l = 1 /\ TLCSet(1, 0)
TNext == TReset \/ TInit \/ TSkip \/ TStep
TSpec == TInitState /\ [][TNext]_tvars

HighWater == /\ TLCSet(1, IF TLCGet(1) < l THEN l ELSE TLCGet(1))
             /\ ((l = Len(TraceLog) + 1) => PrintT("@@J " \o ToJson([kind |-> "ACCEPTED", events |-> Len(TraceLog)])))
Accepted == IF TLCGet(1) = Len(TraceLog) + 1 THEN TRUE
            ELSE PrintT("@@J " \o ToJson([kind |-> "REJECTED", line |-> TLCGet(1), event |-> TraceLog[TLCGet(1)]]))
=============================================================================
