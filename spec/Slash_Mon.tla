----------------------------- MODULE Slash_Mon -----------------------------
(***************************************************************************)
(* C05 property-layer monitor over traces recorded from the real staking   *)
(* module (driver `slash`).  Every Block event carries the evidence cases  *)
(* submitted so far (input description: whose key signed, which of its     *)
(* votes each signature was taken from, which validator the signer index   *)
(* points to, round) and the projection of the real state (validator       *)
(* records, withdraw queue, penalty account) before the block and after    *)
(* each of the three paths: seal (builder, EndBlock(isSeal=true)), raw     *)
(* (validator replaying the unfiltered list from header.SlashData), imp    *)
(* (InsertChain of the block the builder made).  The monitor cannot reject *)
(* a trace and never looks at what the design layer predicts.              *)
(***************************************************************************)
EXTENDS Integers, Sequences, FiniteSets, TLC, Json

TraceLog == ndJsonDeserialize("trace.ndjson")

VARIABLES l, viol, fired
vars == <<l, viol, fired>>

NV == 7      \* identities projected by the driver (v5, v7: removed validators, v6: created by a transaction)
VoteKinds == {"prevote", "precommit", "nextindex", "certificate"}
Clauses == {"HonestNeverSlashable", "RealEquivocationAccepted", "SlashedOnce", "PenaltyBounded", "PenaltySource", "BuilderEqualsValidator"}
Paths == {"seal", "raw", "imp"}

PostOf(e, p) == CASE p = "seal" -> e.seal [] p = "raw" -> e.raw [] OTHER -> e.imp
PreOf(e) == [vals |-> e.pre.vals, wq |-> e.pre.wq, pen |-> e.pre.pen, blockNo |-> e.parent + 1]

\* ---- observables
RECURSIVE SumFin(_, _)
SumFin(q, T) == IF T = {} THEN 0 ELSE LET i == CHOOSE x \in T : TRUE IN q[i][3] + SumFin(q, T \ {i})
\* unfinished withdraw records of validator v: [validator, delegator, finalBalance, finished, initialBalance]
Pending(q, v) == SumFin(q, { i \in DOMAIN q : q[i][1] = v /\ q[i][4] = 0 })
\* what a block took from the unfinished withdraw records of v: per record (identified by validator, delegator, initial
\* balance, completion height) the decrease of its balance.  A record that is released at the end of the block (finished,
\* balance unchanged) lost nothing; a record that disappeared was emptied, unless it was mature and thus released.
SameRec(a, b) == a[1] = b[1] /\ a[2] = b[2] /\ a[5] = b[5] /\ a[6] = b[6]
PostFin(r, postq, blockNo) == IF \E j \in DOMAIN postq : SameRec(postq[j], r) THEN postq[CHOOSE j \in DOMAIN postq : SameRec(postq[j], r)][3]
                              ELSE IF r[6] < blockNo THEN r[3] ELSE 0
RECURSIVE SumTaken(_, _, _, _)
SumTaken(q, T, postq, blockNo) == IF T = {} THEN 0 ELSE LET i == CHOOSE x \in T : TRUE IN
                                     (q[i][3] - PostFin(q[i], postq, blockNo)) + SumTaken(q, T \ {i}, postq, blockNo)
TakenW(pre, post, v) == SumTaken(pre.wq, { i \in DOMAIN pre.wq : pre.wq[i][1] = v /\ pre.wq[i][4] = 0 }, post.wq, pre.blockNo)
Taken(pre, post, v) == (pre.vals[v].token - post.vals[v].token) + TakenW(pre, post, v)
Penalised(pre, post, v) == \/ Taken(pre, post, v) > 0
                           \/ (post.vals[v].expelled /\ ~pre.vals[v].expelled)
                           \/ post.vals[v].status # pre.vals[v].status
                           \/ post.vals[v].expelExp # pre.vals[v].expelExp

\* ---- input description
\* the votes key holder v emitted, as far as the submitted cases show them
VotesOf(v, cs) == UNION { { [kd |-> cs[i].pairs[j].src, h |-> cs[i].pairs[j].h, r |-> cs[i].round, ri |-> cs[i].ri] :
                                j \in { m \in DOMAIN cs[i].pairs : cs[i].pairs[m].src \in VoteKinds } } :
                            i \in { n \in DOMAIN cs : cs[n].signer = v } }
HashesOf(vs, kd, r, ri) == { x.h : x \in { y \in vs : y.kd = kd /\ y.r = r /\ y.ri = ri } }
\* an honest voter (DESIGN section 9, "Next-index votes"): at most one prevote, one precommit and one certificate vote per
\* (round, index), each for a block; up to two next-index votes, possibly for different hashes including the empty one
Honest(v, cs) == LET vs == VotesOf(v, cs) IN
   \A x \in vs : /\ (x.kd # "nextindex" => Cardinality(HashesOf(vs, x.kd, x.r, x.ri)) <= 1 /\ x.h # "E")
                 /\ (x.kd = "nextindex" => Cardinality(HashesOf(vs, x.kd, x.r, x.ri)) <= 2)
Accused(v, e) == \E i \in DOMAIN e.all : e.all[i].target = v /\ e.all[i].round = e.parent
\* "two different same-kind votes by one validator in one round/index", presented for the round the block can judge
RealEquivocation(c, e) == /\ c.round = e.parent /\ c.target = c.signer /\ c.target # 0
                          /\ c.kind \in {"prevote", "precommit", "certificate"}
                          /\ Len(c.pairs) = 2 /\ c.pairs[1].src = c.kind /\ c.pairs[2].src = c.kind
                          /\ c.pairs[1].h # c.pairs[2].h /\ c.pairs[1].h # "E" /\ c.pairs[2].h # "E"

\* class of a HonestNeverSlashable failure: which of v's own votes were put together against it
OwnCases(v, e) == { i \in DOMAIN e.all : e.all[i].target = v /\ e.all[i].signer = v /\ e.all[i].round = e.parent /\ Len(e.all[i].pairs) >= 2 }
\* evidences whose pairs are all signatures of the accused validator's own key, presented for the round the block can judge
OwnAll(e) == { i \in DOMAIN e.all : LET c == e.all[i] IN c.target = c.signer /\ c.target # 0 /\ c.round = e.parent /\ Len(c.pairs) >= 2
                                                        /\ \A j \in DOMAIN c.pairs : c.pairs[j].src \in VoteKinds }
SrcSet(c) == { c.pairs[j].src : j \in DOMAIN c.pairs }
HasDup(c) == \E i, j \in DOMAIN c.pairs : i < j /\ c.pairs[i] = c.pairs[j]
TwoNext(c) == \E i, j \in DOMAIN c.pairs : i < j /\ c.pairs[i].src = "nextindex" /\ c.pairs[j].src = "nextindex" /\ c.pairs[i].h # c.pairs[j].h
HonestDisc(v, e) ==
   LET O == OwnCases(v, e) IN
   IF O = {} THEN {"no_own_signature"}
   ELSE UNION { (IF HasDup(e.all[i]) /\ Cardinality({ e.all[i].pairs[j] : j \in DOMAIN e.all[i].pairs }) = 1 THEN {"dup"} ELSE SrcSet(e.all[i]))
                \cup (IF TwoNext(e.all[i]) THEN {"two_nextindex"} ELSE {}) : i \in O }

Logs(e, name) == IF name \in DOMAIN e THEN e[name] ELSE <<>>
CountFor(lg, v) == Cardinality({ i \in DOMAIN lg : lg[i].val = v })

\* ---- WHERE a penalty comes from ("takes ... of ITS stake and pending withdrawals"), compared per record:
\* (1) only what belongs to a validator against which an evidence with its own signatures was presented for this round is
\*     reduced: its record (own stake, each delegation to it) and the unfinished withdraw records against IT -- never a record,
\*     a stake or a delegation of another validator, whoever the delegator is;
\* (2) per owner (the validator itself / each of its delegators) the unfinished withdraw records of that validator go first:
\*     the own stake / the delegation is reduced only when all of that owner's records of the validator are empty.
AccusedOwn(e) == { e.all[i].target : i \in OwnAll(e) }
RecLoss(r, post, blockNo) == r[3] - PostFin(r, post.wq, blockNo)
DlgTok(val, d) == IF \E i \in DOMAIN val.dl : val.dl[i][1] = d THEN val.dl[CHOOSE i \in DOMAIN val.dl : val.dl[i][1] = d][2] ELSE 0
ForeignTouched(e, post) ==
   \/ \E i \in DOMAIN e.pre.wq : e.pre.wq[i][4] = 0 /\ RecLoss(e.pre.wq[i], post, e.parent + 1) > 0 /\ e.pre.wq[i][1] \notin AccusedOwn(e)
   \/ \E v \in 1..NV : v \notin AccusedOwn(e) /\ (post.vals[v].token # e.pre.vals[v].token \/ post.vals[v].selfToken # e.pre.vals[v].selfToken
                                                   \/ post.vals[v].dl # e.pre.vals[v].dl)
OrderBroken(e, post) ==
   \E v \in AccusedOwn(e) :
      \/ /\ e.pre.vals[v].selfToken > post.vals[v].selfToken
         /\ \E i \in DOMAIN e.pre.wq : e.pre.wq[i][1] = v /\ e.pre.wq[i][2] = 0 /\ e.pre.wq[i][4] = 0 /\ PostFin(e.pre.wq[i], post.wq, e.parent + 1) > 0
      \/ \E n \in DOMAIN e.pre.vals[v].dl : LET d == e.pre.vals[v].dl[n][1] IN
            /\ e.pre.vals[v].dl[n][2] > DlgTok(post.vals[v], d)
            /\ \E i \in DOMAIN e.pre.wq : e.pre.wq[i][1] = v /\ e.pre.wq[i][2] = d /\ e.pre.wq[i][4] = 0 /\ PostFin(e.pre.wq[i], post.wq, e.parent + 1) > 0

\* ---- clauses: set of <<clause, discriminator, line>> failing at event e
Fail(e) ==
   \* "No double-sign evidence that can be assembled from the votes an honest validator emits is ever accepted, so a validator
   \*  that follows the protocol never loses stake or gets expelled for double-signing"
   { <<"HonestNeverSlashable", HonestDisc(v, e), l>> :
        v \in { x \in 1..NV : Honest(x, e.all) /\ \E p \in Paths : Penalised(PreOf(e), PostOf(e, p), x) } }
   \cup
   \* "Evidence of two different same-kind votes by one validator in one round/index is accepted by block builder and block
   \*  validator alike, penalises that validator"
   { <<"RealEquivocationAccepted", {e.all[i].kind} \cup (IF e.pre.vals[e.all[i].target].exists THEN {} ELSE {"removed_since_lookback"})
                                   \cup { p \in Paths : ~(PostOf(e, p).vals[e.all[i].target].expelled
                                                                            /\ PostOf(e, p).vals[e.all[i].target].status = 0
                                                                            /\ Taken(PreOf(e), PostOf(e, p), e.all[i].target) > 0) }, l>> :
        i \in { n \in DOMAIN e.all : RealEquivocation(e.all[n], e)
                                     /\ \E p \in Paths : LET post == PostOf(e, p) v == e.all[n].target IN
                                           ~(post.vals[v].expelled /\ post.vals[v].status = 0 /\ Taken(PreOf(e), post, v) > 0) } }
   \cup
   \* "penalises that validator once"
   { <<"SlashedOnce", {"per_block"}, l>> : v \in { x \in 1..NV : CountFor(Logs(e, "sealLogs"), x) > 1 \/ CountFor(Logs(e, "rawLogs"), x) > 1 } }
   \cup
   \* "and never takes more than the configured fraction of its stake and pending withdrawals"
   { <<"PenaltyBounded", {p}, l>> :
        p \in { q \in Paths : \E v \in 1..NV :
                   Taken(PreOf(e), PostOf(e, q), v) > (e.frac * (e.pre.vals[v].token + Pending(e.pre.wq, v))) \div 100 } }
   \cup
   { <<"PenaltySource", {"foreign_record", p}, l>> : p \in { q \in Paths : ForeignTouched(e, PostOf(e, q)) } }
   \cup
   { <<"PenaltySource", {"records_first", p}, l>> : p \in { q \in Paths : OrderBroken(e, PostOf(e, q)) } }
   \cup
   \* "accepted by block builder and block validator alike"
   (IF e.impErr # "" THEN { <<"BuilderEqualsValidator", {"import_rejected"}, l>> } ELSE {})
   \cup (IF e.impErr = "" /\ e.seal # e.imp THEN { <<"BuilderEqualsValidator", {"import_differs"}, l>> } ELSE {})
   \cup (IF "rawErr" \in DOMAIN e \/ e.seal # e.raw THEN { <<"BuilderEqualsValidator", {"replay_differs"}, l>> } ELSE {})

Count(e) == [c \in Clauses |->
   CASE c = "HonestNeverSlashable" -> Cardinality({ v \in 1..NV : Honest(v, e.all) /\ Accused(v, e) })
     [] c = "RealEquivocationAccepted" -> Cardinality({ n \in DOMAIN e.all : RealEquivocation(e.all[n], e) })
     [] c = "SlashedOnce" -> Cardinality({ v \in 1..NV : CountFor(Logs(e, "sealLogs"), v) > 0 })
     [] c = "PenaltyBounded" -> Cardinality({ v \in 1..NV : Taken(PreOf(e), e.seal, v) > 0 })
     [] c = "PenaltySource" -> Cardinality({ i \in DOMAIN e.pre.wq : e.pre.wq[i][4] = 0 /\ RecLoss(e.pre.wq[i], e.seal, e.parent + 1) > 0 })
     [] OTHER -> 1]

Init == l = 1 /\ viol = {} /\ fired = [c \in Clauses |-> 0]

Step ==
   /\ l <= Len(TraceLog)
   /\ l' = l + 1
   /\ LET e == TraceLog[l] IN
      IF e.ev = "Block" /\ "panic" \notin DOMAIN e
      THEN /\ viol' = viol \cup Fail(e)
           /\ fired' = [c \in Clauses |-> fired[c] + Count(e)[c]]
      ELSE IF "panic" \in DOMAIN e THEN viol' = viol \cup { <<"NoPanic", {"Block"}, l>> } /\ UNCHANGED fired
      ELSE UNCHANGED <<viol, fired>>

Spec == Init /\ [][Step]_vars

Done == (l = Len(TraceLog) + 1) =>
          PrintT("@@J " \o ToJson([kind |-> "RESULT", events |-> Len(TraceLog), viol |-> viol, fired |-> fired]))
=============================================================================
