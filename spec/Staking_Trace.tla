--------------------------- MODULE Staking_Trace ---------------------------
(***************************************************************************)
(* Conformance (drift) of the real staking chain fixture to the design     *)
(* layer of Staking.tla, on the STAKE SIDE: every recorded transaction is  *)
(* re-executed as the model's ApplyTx with the logged arguments and the    *)
(* model must predict its outcome (refused / failed / accepted) and the    *)
(* number of pending transactions; every recorded end of block is          *)
(* re-executed as FEndBlock and at the block boundary the model's          *)
(* validator records (existence, online, expelled, accepting delegations,  *)
(* self stake, every delegation) and its withdraw queue (validator,        *)
(* delegator, recipient, amount, finished) must equal the dump of the real *)
(* state.  Rewards and fees are not compared (the model's fee is a         *)
(* stand-in for gas * price).  Traces are concatenated; "reset" starts the *)
(* next one.  A rejection is reported as DRIFT, never as a violation.      *)
(***************************************************************************)
EXTENDS Staking

TraceLog == ndJsonDeserialize("trace.ndjson")
VARIABLE l
tvars == <<vars, l>>

TxOf(e) == [k |-> e.k, a |-> e.from, b |-> e.b, v |-> e.v, x |-> e.x, p |-> 1, f |-> e.f, c |-> e.c, r |-> e.r]
Observed(e) == IF e.refused THEN "refused" ELSE IF e.failed THEN "failed" ELSE "ok"

ObsNames(o) == { o.vals[i].v : i \in DOMAIN o.vals }
ObsVal(o, v) == o.vals[CHOOSE i \in DOMAIN o.vals : o.vals[i].v = v]
ObsDl(r, u) == SumSeq(r.dl, LAMBDA d : IF d.d = u THEN d.t ELSE 0)
ValMatch(o, b) ==
   /\ ObsNames(o) \subseteq Vals
   /\ \A v \in Vals :
        /\ b.val[v].ex = (v \in ObsNames(o))
        /\ b.val[v].ex => LET r == ObsVal(o, v) m == b.val[v] IN
                            /\ r.on = m.on /\ r.self = m.self /\ r.ex = m.expl /\ r.acc = m.acc
                            /\ \A u \in Users : ObsDl(r, u) = m.dl[u]
                            /\ \A i \in DOMAIN r.dl : r.dl[i].d \in Users
\* the queue is compared as a bag: the code appends the records of one period end in the order in which it iterates the
\* staking trie (hashed keys), the model in submission order
KeyM(m) == <<m.v, m.d, m.to, m.amt, m.fin>>
KeyO(r) == <<r.v, r.d, r.to, r.fin, r.done>>
WqMatch(o, b) ==
   /\ Len(o.wq) = Len(b.wq)
   /\ \A i \in DOMAIN b.wq :
        Cardinality({ j \in DOMAIN o.wq : KeyO(o.wq[j]) = KeyM(b.wq[i]) }) = Cardinality({ j \in DOMAIN b.wq : KeyM(b.wq[j]) = KeyM(b.wq[i]) })

IsEvent(name) == l <= Len(TraceLog) /\ TraceLog[l].ev = name /\ l' = l + 1

TReset == /\ (IsEvent("reset") \/ IsEvent("abort") \/ IsEvent("Panic") \/ IsEvent("BuildError"))
          /\ s' = InitS /\ n' = 1 /\ phase' = "tx" /\ cur' = <<>> /\ ntot' = 0 /\ done' = {} /\ cb' = "g1" /\ quota' = MaxTx
          /\ hist' = <<>>

\* the genesis boundary and every later boundary: the model must project onto the dump
TBlock == /\ IsEvent("Block")
          /\ LET e == TraceLog[l] IN ValMatch(e.obs, s) /\ WqMatch(e.obs, s) /\ n = e.blk + 1
          /\ UNCHANGED vars

TTx == /\ IsEvent("Tx")
       /\ LET e == TraceLog[l] t == TxOf(e) IN
            /\ n = e.blk
            /\ Outcome(s, t) = Observed(e)
            /\ s' = ApplyTx(s, t)
            /\ Len(s'.pend) = Len(e.obs.pend)
       /\ UNCHANGED <<n, phase, cur, ntot, done, cb, quota, hist>>

TEnd == /\ IsEvent("EndBlock")
        /\ LET e == TraceLog[l] IN
             /\ n = e.blk
             /\ s' = FEndBlock(s, e.cb)
        /\ n' = n + 1
        /\ UNCHANGED <<phase, cur, ntot, done, cb, quota, hist>>

TInit == Init /\ l = 1 /\ TLCSet(1, 0)
TNext == TReset \/ TBlock \/ TTx \/ TEnd
TSpec == TInit /\ [][TNext]_tvars

HighWater == /\ TLCSet(1, IF TLCGet(1) < l THEN l ELSE TLCGet(1))
             /\ ((l = Len(TraceLog) + 1) => PrintT("@@J " \o ToJson([kind |-> "ACCEPTED", events |-> Len(TraceLog)])))
Accepted == IF TLCGet(1) = Len(TraceLog) + 1 THEN TRUE
            ELSE PrintT("@@J " \o ToJson([kind |-> "REJECTED", line |-> TLCGet(1), event |-> TraceLog[TLCGet(1)]]))
=============================================================================
