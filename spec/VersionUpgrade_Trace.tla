------------------------ MODULE VersionUpgrade_Trace ------------------------
(***************************************************************************)
(* Conformance of the real verifier / builder to the design layer of       *)
(* VersionUpgradeProp (Verify, BuilderNext).  For every recorded event the  *)
(* model is asked the same question as the real code was:                  *)
(*   explore: exactly the first okn chain steps are accepted; the set of   *)
(*            accepted candidates equals { c \in Cand(p, F) : Verify = ok } *)
(*            (full re-enumeration on events with full = 1, membership     *)
(*            otherwise); each recorded builder outcome equals BuilderNext  *)
(*            and the two verdicts equal Verify with the own / full table;  *)
(*   step   : the header is accepted by Verify.                            *)
(* A mismatch is DRIFT (the code left the design layer), never a violation.*)
(***************************************************************************)
EXTENDS VersionUpgradeProp, TLC, Json

CONSTANT Fixed

TraceLog == ndJsonDeserialize("trace.ndjson")
VARIABLES l, hp
tvars == <<l, hp>>

T2H(n, t) == Hdr(n, t[1], t[2], t[3], t[4], t[5])
H2T(c) == <<c.cv, c.nv, c.ap, c.vb, c.so>>

RECURSIVE Last(_, _, _)
Last(chain, i, p) == IF i > Len(chain) THEN p ELSE Last(chain, i + 1, T2H(p.n + 1, chain[i]))
RECURSIVE ChainOk(_, _, _, _, _)
\* number of leading steps the model accepts
ChainOk(P, chain, i, p, k) ==
   IF i > Len(chain) THEN k
   ELSE LET c == T2H(p.n + 1, chain[i]) IN
        IF Verify(PV(P, p.cv), Vers, p, c, Fixed) = "ok" THEN ChainOk(P, chain, i + 1, c, k + 1) ELSE k

BuildMatches(PP, p, b) ==
   LET P == PV(PP, p.cv)
       K == SeqSet(b.K)
       out == BuilderNext(P, K, b.appr, b.wait, p) IN
   IF Len(b.out) = 0 THEN out = NoHdr
   ELSE /\ out # NoHdr /\ H2T(out) = b.out
        /\ Verify(P, K, p, out, Fixed) = b.own
        /\ Verify(P, Vers, p, out, Fixed) = b.full

ExploreMatches(e) ==
   /\ ChainOk(e.P, e.chain, 1, Genesis, 0) = e.okn
   /\ e.okn = Len(e.chain) =>
        LET p == Last(e.chain, 1, Genesis)
            P == PV(e.P, p.cv)
            acc == { e.acc[i] : i \in DOMAIN e.acc } IN
        /\ \A t \in acc : Verify(P, Vers, p, T2H(p.n + 1, t), Fixed) = "ok"
        /\ e.full = 1 => acc = { H2T(c) : c \in { d \in Cand(p, e.F) : Verify(P, Vers, p, d, Fixed) = "ok" } }
        /\ \A i \in DOMAIN e.blds : BuildMatches(e.P, p, e.blds[i])

TStep ==
   /\ l <= Len(TraceLog)
   /\ l' = l + 1
   /\ LET e == TraceLog[l] IN
      CASE e.ev \in {"reset", "abort"} -> hp' = Genesis
        [] e.ev = "explore" -> ExploreMatches(e) /\ UNCHANGED hp
        [] e.ev = "step" -> LET c == T2H(hp.n + 1, e.c) IN Verify(PV(e.P, hp.cv), Vers, hp, c, Fixed) = "ok" /\ hp' = c
        [] OTHER -> UNCHANGED hp

TInit == l = 1 /\ hp = Genesis /\ TLCSet(1, 0)
TSpec == TInit /\ [][TStep]_tvars

HighWater == /\ TLCSet(1, IF TLCGet(1) < l THEN l ELSE TLCGet(1))
             /\ ((l = Len(TraceLog) + 1) => PrintT("@@J " \o ToJson([kind |-> "ACCEPTED", events |-> Len(TraceLog)])))
Accepted == IF TLCGet(1) = Len(TraceLog) + 1 THEN TRUE
            ELSE PrintT("@@J " \o ToJson([kind |-> "REJECTED", line |-> TLCGet(1), event |-> TraceLog[TLCGet(1)]]))
=============================================================================
