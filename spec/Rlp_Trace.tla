----------------------------- MODULE Rlp_Trace -----------------------------
(***************************************************************************)
(* Conformance of the real codecs to the DESIGN layer of Rlp.tla (drift,   *)
(* never a verdict): for every recorded decode                             *)
(*    accepted  <=>  Accepts(Schema(ty), b)        (the lenient matcher:   *)
(*                   strict schema + the named deviations of the code),    *)
(* and the recorded re-encoding is the one the design layer predicts       *)
(* (Conf: Norm1 of the accepted item, any order for the map-backed list).  *)
(* A mismatch means the code does something the specification does not     *)
(* describe -- in either direction: it accepts an input the design layer   *)
(* rejects (the monitor will normally report that as a violation too), or  *)
(* it rejects an encoding of a value of the type (a schema that has        *)
(* drifted from the Go struct, or a decoder that became stricter).         *)
(* The fold never stops; it prints the mismatching lines at the end.       *)
(***************************************************************************)
EXTENDS Rlp

TraceLog == ndJsonDeserialize("trace.ndjson")
VARIABLES l, bad, seen
tvars == <<c, l, bad, seen>>

MaxBad == 20

BigMismatch(e) ==
   LET d == [ty |-> e.ty, kind |-> e.kind, cnt |-> e.cnt, present |-> e.present, elem |-> e.elem, pre |-> e.pre, post |-> e.post, j |-> e.j] IN
   IF e.b # <<>> /\ e.b # Expand(d) THEN "the driver's expansion of the descriptor is not Expand"
   ELSE IF e.len # (IF e.b # <<>> THEN Len(e.b) ELSE e.len) THEN "length"
   ELSE IF e.d.acc # BigAccept(d, FALSE) THEN "big input: DecodeBytes and the design layer disagree"
   ELSE IF e.u.acc # BigAccept(d, FALSE) THEN "big input: unlimited stream and the design layer disagree"
   ELSE ""
Mismatch(e) ==
   IF e.ev = "big" /\ e.pan = "" THEN BigMismatch(e) ELSE
   IF e.ev \notin {"dec", "rt"} \/ e.pan # "" THEN "" ELSE
   LET s == Schema(e.ty)
       d == ParseFirst(e.b)
       p == IF d.ok /\ d.nx = Len(e.b) + 1 THEN d ELSE BadDec
       pred == p.ok /\ Match(s, p.it, FALSE)
       spred == d.ok /\ Match(s, d.it, FALSE)           \* stream form: the first item decides
   IN
   IF e.ev = "dec" /\ e.sacc # spred THEN (IF e.sacc THEN "stream: accepted, design layer rejects" ELSE "stream: rejected, design layer accepts")
   ELSE IF e.ev = "dec" /\ e.sacc /\ e.scons # d.nx - 1 THEN "stream: consumed a different number of bytes than the first item has"
   ELSE IF e.acc # pred THEN (IF e.acc THEN "accepted, design layer rejects" ELSE "rejected, design layer accepts")
   ELSE IF ~e.acc THEN ""
   ELSE IF e.ev = "rt" \/ e.same THEN
        (IF Defects(s, p.it) \subseteq {"EvidenceDoubleSign", "map_order"} THEN "" ELSE "same bytes, design layer predicts a different re-encoding")
   ELSE LET r == Parse(e.re) IN
        IF r.ok /\ Conf(s, p.it, r.it) THEN "" ELSE "re-encoding is not the predicted one"

TInit == c = 0 /\ l = 1 /\ bad = {} /\ seen = 0
TStep == /\ l <= Len(TraceLog)
         /\ l' = l + 1
         /\ LET m == Mismatch(TraceLog[l]) IN
              /\ bad' = IF m # "" /\ Cardinality(bad) < MaxBad THEN bad \cup {<<l, TraceLog[l].ty, m>>} ELSE bad
              /\ seen' = seen + (IF m # "" THEN 1 ELSE 0)
         /\ UNCHANGED c
TSpec == TInit /\ [][TStep]_tvars
TView == l

Done == (l = Len(TraceLog) + 1) =>
          PrintT("@@J " \o ToJson([kind |-> IF seen = 0 THEN "ACCEPTED" ELSE "REJECTED", events |-> Len(TraceLog), mismatches |-> seen, bad |-> bad]))
=============================================================================
