---------------------------- MODULE Voter_Trace ----------------------------
(***************************************************************************)
(* Conformance of the real ucon.Voter + ucon.VoteDB to the design layer of *)
(* Voter.tla (drift, never a verdict): every recorded event is re-executed *)
(* as the model run of the same name with the logged arguments -- cut at   *)
(* the logged crash point when the driver injected one -- and the model's  *)
(* next state must project onto what was recorded from the real objects:   *)
(* the five vote records on disk, the votes that left the node during the  *)
(* event, whether the injected crash point was reached, and (while the     *)
(* process is up) the voter's latches and the VoteDB's round/index/marks.  *)
(* Traces are concatenated; "reset" starts the next one.                   *)
(***************************************************************************)
EXTENDS Voter

TraceLog == ndJsonDeserialize("trace.ndjson")
VARIABLE l
tvars == <<vars, l>>

KindSeq == <<"Prevote", "Precommit", "Next", "Cert">>
Pair(x) == <<x[1], x[2]>>
SetOf(q) == { q[n] : n \in DOMAIN q }

\* the position in `o` at which the process died: after cw writes and cp posts
CutPos(o, cw, cp) ==
   LET ps == { p \in 0..Len(o) : Num(SubSeq(o, 1, p), "W") = cw /\ Num(SubSeq(o, 1, p), "P") = cp
                                 /\ (p = 0 \/ o[p].t \in {"W", "P"}) }
   IN IF ps = {} THEN -1 ELSE CHOOSE p \in ps : \A x \in ps : p <= x
\* the driver's crash injection is reached iff the run goes on after that point with another write (cp = cw)
\* or performs the cw-th write at all (cp < cw)
Reached(o, cw, cp) == IF cp < cw THEN Num(o, "W") >= cw ELSE Num(o, "W") > cw

Posts(o) == { [k |-> o[n].k, r |-> o[n].r, i |-> o[n].i, b |-> o[n].b] : n \in { m \in DOMAIN o : o[m].t = "P" } }
Commits(o) == Num(o, "C")

MemMatches(m, v) ==
   /\ m.r = v.r /\ m.i = v.i /\ m.step = v.step /\ m.cert = v.cert
   /\ m.pc = v.pc /\ m.cd = v.cd /\ m.cm = v.cm /\ m.sc = v.sc
   /\ m.cur = v.cur /\ m.nm = v.nm /\ m.nv = v.nv
   /\ m.dbR = v.dbR /\ m.dbI = v.dbI
   /\ \A n \in 1..4 : m.mark[n] = v.mark[KindSeq[n]]

DiskMatches(d, disk) == \A f \in DOMAIN disk : Pair(d[f]) = disk[f]

\* apply the run v2 (with micro steps v2.out) as recorded in event e
Apply(e, v2) ==
   LET inj == e.cw >= 0
       crashed == "crashed" \in DOMAIN e
       p == IF inj THEN CutPos(v2.out, e.cw, e.cp) ELSE Len(v2.out)
       pre == IF crashed /\ p >= 0 THEN SubSeq(v2.out, 1, p) ELSE v2.out
   IN /\ crashed = (inj /\ Reached(v2.out, e.cw, e.cp))
      /\ s' = IF crashed THEN Dead(DiskAfter(s.disk, pre)) ELSE [v2 EXCEPT !.out = <<>>]
      /\ up' = ~crashed
      /\ Posts(pre) = SetOf(e.sent)
      /\ (~crashed) => (Commits(pre) = IF "commits" \in DOMAIN e THEN Len(e.commits) ELSE 0)
      /\ DiskMatches(e.disk, s'.disk)
      /\ ("mem" \in DOMAIN e) => MemMatches(e.mem, s')

IsEvent(name) == l <= Len(TraceLog) /\ TraceLog[l].ev = name /\ l' = l + 1

Frame == UNCHANGED <<minR, crashes, tgt, seen, rsAfter, maxCtx, back, older, hist>>

TReset == /\ (IsEvent("reset") \/ IsEvent("abort"))
          /\ s' = Fresh(EmptyDisk) /\ up' = FALSE /\ Frame

TStart == /\ IsEvent("Start") /\ LET e == TraceLog[l] IN Apply(e, UpdateCtxC(Fresh(EmptyDisk), e.r, 1, 0, Nil, e.c))
          /\ Frame

TRestart == /\ IsEvent("Restart") /\ ~up
            /\ LET e == TraceLog[l]
                   st == Replay(s.disk, [r |-> 0, i |-> 0, m |-> ZeroMark], 1)
                   f  == [Fresh(s.disk) EXCEPT !.dbR = st.r, !.dbI = st.i, !.mark = st.m]
               IN Apply(e, UpdateCtxC(f, e.r, 1, 0, Nil, e.c))
            /\ Frame

TCtx == /\ IsEvent("Ctx") /\ up
        /\ LET e == TraceLog[l] IN Apply(e, UpdateCtxC(s, e.r, e.i, e.st, e.best, e.c))
        /\ Frame

TQuorum == /\ IsEvent("Quorum") /\ up
           /\ LET e == TraceLog[l] IN Apply(e, QuorumMsg(s, e.k, e.b))
           /\ Frame

TCrash == /\ IsEvent("Crash")
          /\ LET e == TraceLog[l] IN /\ s' = Dead(s.disk) /\ up' = FALSE /\ DiskMatches(e.disk, s'.disk)
          /\ Frame

TInit == Init /\ l = 1 /\ TLCSet(1, 0)
TNext == TReset \/ TStart \/ TRestart \/ TCtx \/ TQuorum \/ TCrash
TSpec == TInit /\ [][TNext]_tvars

HighWater == /\ TLCSet(1, IF TLCGet(1) < l THEN l ELSE TLCGet(1))
             /\ ((l = Len(TraceLog) + 1) => PrintT("@@J " \o ToJson([kind |-> "ACCEPTED", events |-> Len(TraceLog)])))
Accepted == IF TLCGet(1) = Len(TraceLog) + 1 THEN TRUE
            ELSE PrintT("@@J " \o ToJson([kind |-> "REJECTED", line |-> TLCGet(1), event |-> TraceLog[TLCGet(1)]]))
=============================================================================
