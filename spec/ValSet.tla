------------------------------- MODULE ValSet -------------------------------
(***************************************************************************)
(* C08 -- the validator set of core/state.StateDB: records, the            *)
(* incrementally maintained statistics, the address index, the delegator   *)
(* side, under the call patterns of the staking module.                    *)
(*                                                                         *)
(* Design layer (implementation shaped; statedb_val.go, journal.go,        *)
(* statedb.go Finalise/IntermediateRoot/Copy, statedb_staking.go           *)
(* UpdateDelegation, validator.go ValKindStat, staking/slash.go            *)
(* takePenalty): one action per API call pattern.  The statistics are      *)
(* maintained by add/sub as coded (sub of stake/token is SKIPPED when it   *)
(* would go below zero, counters wrap), `StakeEqual` short-cuts the        *)
(* adjustment, removed records linger in memory with a `deleted` flag.     *)
(* Deviations of the code from the intended design are modelled as coded   *)
(* and named; `Fix` is the set of deviations assumed REPAIRED:             *)
(*   "remove"  RemoveValidator takes the record out of the statistics and  *)
(*             IntermediateRoot's deleteValidator does so again            *)
(*   "ghost"   a record deleted from the trie stays in validatorObjects;   *)
(*             reverting a later re-creation restores it but leaves the    *)
(*             address in the index                                        *)
(*   "empty"   ValidatorIndex.Empty() is inverted: GetValidatorsForUpdate  *)
(*             / GetValidators replace a non-empty in-memory index by the  *)
(*             one stored in the trie                                      *)
(*   "penalty" takePenalty changes DelegationFrom objects shared with the  *)
(*             records kept in the journal                                 *)
(*   "pendbal" a penalty taken from a delegation does not reduce the       *)
(*             delegator's delegation balance                              *)
(*   "alias"   the journal keeps a POINTER to the new record of an update; *)
(*             teDelegationSub then changes that record's status in place  *)
(*             (forced offline) before the second UpdateValidator, so the   *)
(*             first journal entry reverts the statistics with the wrong    *)
(*             status                                                       *)
(*   "copy"    stateObject.deepCopy drops the loaded delegation list and   *)
(*             the dirtyDlgs flag                                          *)
(* Property layer: the invariants at the end, written from the statement   *)
(* over the observable projection only (Obs).                              *)
(***************************************************************************)
EXTENDS Integers, Sequences, FiniteSets, TLC, Json

CONSTANTS Vals,      \* validator ids (1 = chancellor, 2 = house, 3 = senator)
          Accts,     \* delegator ids
          Unit,      \* stake unit (LU per stake)
          MaxOps,
          Alpha,     \* alphabet: "m" | "g1" | "g1b" | "remove" | "rich"
          GenMode,   \* "none" | "leaf"
          Fix        \* deviations assumed repaired

VARIABLES vo,      \* validatorObjects merged with the trie: [Vals -> record], field mem \in {"none","live","deleted"}
          stat,    \* [Groups -> <<onStk, onTok, onCnt, offStk, offTok, offCnt>>]
          index,   \* the in-memory address index
          tix,     \* the index as stored in the validator trie (last root)
          dirty,   \* validatorObjectsDirty (objects finalised but not yet written)
          acct,    \* [Accts -> [dbal, to]]
          pend,    \* accounts whose delegation list changed since the last commit (dirtyDlgs with a blob not yet written)
          blobs,   \* delegation lists whose blob is in the database
          vj, aj,  \* validator journal, account journal
          revs, nextId,
          oth, hasOth, \* the OTHER side of the last Copy (the original the copy was taken from): all per-object variables
          failed,  \* a panic
          hist
vars == <<vo, stat, index, tix, dirty, acct, pend, blobs, vj, aj, revs, nextId, failed, oth, hasOth, hist>>

Fixed(x) == x \in Fix
MinSelfStake == 1
MinStake == 1
MinDelegation == 5

RoleOf(v) == CASE v = 1 -> "c" [] v = 2 -> "h" [] OTHER -> "s"
Groups == {"all", "chamber", "house", "c", "s", "h"}
GroupsOf(role) == {"all", role, IF role = "h" THEN "house" ELSE "chamber"}

NoDl == [a \in Accts |-> [t |-> 0, s |-> 0]]
NoVal == [mem |-> "none", on |-> FALSE, st |-> 0, ss |-> 0, tok |-> 0, stk |-> 0, dl |-> NoDl, rew |-> 0, exp |-> FALSE]
ZeroStat == [g \in Groups |-> <<0, 0, 0, 0, 0, 0>>]

Live(v) == vo[v].mem = "live"
Min(a, b) == IF a < b THEN a ELSE b
RECURSIVE SumOver(_, _)
SumOver(f, S) == IF S = {} THEN 0 ELSE LET x == CHOOSE y \in S : TRUE IN f[x] + SumOver(f, S \ {x})

\* ---- ValKindStat.AddVal / SubVal as coded
Clamp(cur, x) == IF cur >= x THEN cur - x ELSE cur
AddOne(t, r) == IF r.on THEN <<t[1] + r.stk, t[2] + r.tok, t[3] + 1, t[4], t[5], t[6]>>
                        ELSE <<t[1], t[2], t[3], t[4] + r.stk, t[5] + r.tok, t[6] + 1>>
SubOne(t, r) == IF r.on THEN <<Clamp(t[1], r.stk), Clamp(t[2], r.tok), t[3] - 1, t[4], t[5], t[6]>>
                        ELSE <<t[1], t[2], t[3], Clamp(t[4], r.stk), Clamp(t[5], r.tok), t[6] - 1>>
StatAdd(s, v, r) == [g \in Groups |-> IF g \in GroupsOf(RoleOf(v)) THEN AddOne(s[g], r) ELSE s[g]]
StatSub(s, v, r) == [g \in Groups |-> IF g \in GroupsOf(RoleOf(v)) THEN SubOne(s[g], r) ELSE s[g]]
StakeEqual(a, b) == a.stk = b.stk /\ a.tok = b.tok /\ a.on = b.on
StatMove(s, v, old, new) == IF StakeEqual(new, old) THEN s ELSE StatAdd(StatSub(s, v, old), v, new)

\* Alphabet "deleg3" starts from a populated state: every validator created with 15 LU, account 1 delegating 7 LU to each of
\* them, transaction finalised.  The prelude that produces it is the beginning of hist, so the driver (and the conformance
\* spec, from the plain initial state) simply replay it.
SetToSeq(S) == LET RECURSIVE F(_) F(T) == IF T = {} THEN <<>> ELSE LET x == CHOOSE y \in T : \A z \in T : y <= z IN <<x>> \o F(T \ {x}) IN F(S)
Seeded == Alpha = "deleg3"
Prelude == [i \in 1..Cardinality(Vals) |-> [op |-> "Create", v |-> SetToSeq(Vals)[i], a |-> 0, d |-> 15, id |-> 0, on |-> FALSE]]
           \o [i \in 1..Cardinality(Vals) |-> [op |-> "Delegate", v |-> SetToSeq(Vals)[i], a |-> 1, d |-> 7, id |-> 0, on |-> FALSE]]
           \o <<[op |-> "Finalise", v |-> 0, a |-> 0, d |-> 0, id |-> 0, on |-> FALSE]>>
SeedVal == [NoVal EXCEPT !.mem = "live", !.st = 15, !.ss = 15 \div Unit, !.tok = 22, !.stk = 15 \div Unit,
                         !.dl = [a \in Accts |-> IF a = 1 THEN [t |-> 7, s |-> 7 \div Unit] ELSE [t |-> 0, s |-> 0]]]
RECURSIVE SeedStat(_, _)
SeedStat(s, S) == IF S = {} THEN s
                  ELSE LET v == CHOOSE x \in S : TRUE IN
                       SeedStat([g \in DOMAIN s |-> IF g \in {"all", RoleOf(v), IF RoleOf(v) = "h" THEN "house" ELSE "chamber"}
                                                    THEN <<s[g][1], s[g][2], s[g][3], s[g][4] + SeedVal.stk, s[g][5] + SeedVal.tok, s[g][6] + 1>>
                                                    ELSE s[g]], S \ {v})

Init == /\ vo = [v \in Vals |-> IF Seeded THEN SeedVal ELSE NoVal]
        /\ stat = (IF Seeded THEN SeedStat(ZeroStat, Vals) ELSE ZeroStat)
        /\ index = (IF Seeded THEN Vals ELSE {}) /\ tix = {} /\ dirty = (IF Seeded THEN Vals ELSE {})
        /\ acct = [a \in Accts |-> IF Seeded /\ a = 1 THEN [dbal |-> 7 * Cardinality(Vals), to |-> Vals] ELSE [dbal |-> 0, to |-> {}]]
        /\ pend = (IF Seeded THEN {1} ELSE {}) /\ blobs = {{}}
        /\ vj = <<>> /\ aj = <<>> /\ revs = <<>> /\ nextId = 0 /\ failed = FALSE
        /\ oth = [vo |-> vo, stat |-> stat, index |-> index, tix |-> tix, dirty |-> dirty, acct |-> acct, pend |-> pend,
                  vj |-> vj, aj |-> aj, revs |-> revs]
        /\ hasOth = FALSE
        /\ hist = (IF Seeded THEN Prelude ELSE <<>>)

Rec(name, v, a, d, id, on) == [op |-> name, v |-> v, a |-> a, d |-> d, id |-> id, on |-> on]
\* generated behaviours start with a creation (everything else is a no-op on the empty set)
\* Reads are not neutral in this code base (lazy caches): in alphabet "blind" every generated operation carries a flag
\* b: b = 1 tells the driver NOT to project the state after the operation (the next projection is the first read).
\* The flag does not exist in the model's state; the prelude of the alphabet is executed by the model itself.
DynPrelude == IF Alpha = "blind" THEN <<Rec("Create", 1, 0, 15, 0, FALSE), Rec("Create", 2, 0, 25, 0, FALSE), Rec("Reload", 0, 0, 0, 0, FALSE)>> ELSE <<>>
InPrelude == Len(hist) < Len(DynPrelude)
Flags == IF Alpha = "blind" /\ GenMode = "leaf" /\ ~InPrelude THEN {0, 1} ELSE {0}
Tick(rec) == /\ Len(hist) < MaxOps /\ ~failed
             /\ (GenMode = "leaf" /\ Len(hist) = 0) => rec.op = "Create"
             /\ \E x \in Flags : hist' = Append(hist, rec @@ [b |-> x])

\* ---- StateDB.UpdateValidator(new, old): one journal entry, statistics moved unless StakeEqual
\* `more` is a sequence of further <<old, new>> pairs applied in the same call pattern
DoUpdate(v, old, new) ==
   /\ vo' = [vo EXCEPT ![v] = new]
   /\ index' = index \cup {v}
   /\ vj' = Append(vj, [k |-> "update", v |-> v, old |-> old, new |-> new])
   /\ stat' = StatMove(stat, v, old, new)

NoAcctChange == UNCHANGED <<acct, pend, aj>>
Frame == UNCHANGED <<tix, dirty, blobs, revs, nextId, failed, oth, hasOth>>

\* teCreate: CreateValidator(..., ValidatorOffline); a removed record still in memory is kept in the journal entry
Create(v, tok) ==
   /\ ~Live(v)
   /\ Tick(Rec("Create", v, 0, tok, 0, FALSE))
   /\ LET nv == [NoVal EXCEPT !.mem = "live", !.st = tok, !.ss = tok \div Unit, !.tok = tok, !.stk = tok \div Unit] IN
      /\ vo' = [vo EXCEPT ![v] = nv]
      /\ index' = index \cup {v}
      /\ vj' = Append(vj, [k |-> "create", v |-> v, prev |-> vo[v]])
      /\ stat' = StatAdd(stat, v, nv)
   /\ NoAcctChange /\ Frame

\* teDeposit
Deposit(v, d) ==
   /\ Live(v)
   /\ Tick(Rec("Deposit", v, 0, d, 0, FALSE))
   /\ LET old == vo[v]
          nss == (old.st + d) \div Unit
          nv  == [old EXCEPT !.st = @ + d, !.ss = nss, !.tok = @ + d, !.stk = @ + (nss - old.ss)] IN
      DoUpdate(v, old, nv)
   /\ NoAcctChange /\ Frame

\* teWithdraw (YouV5 branch): clamped to the self tokens; everything when the rest would fall below the minimum self stake
Withdraw(v, d) ==
   /\ Live(v)
   /\ Tick(Rec("Withdraw", v, 0, d, 0, FALSE))
   /\ LET old == vo[v]
          w   == IF d > old.st THEN old.st
                 ELSE IF (old.st - d) \div Unit < MinSelfStake THEN old.st ELSE d
          nst == old.st - w
          nss == nst \div Unit
          delta == old.ss - nss
          off == old.on /\ (nss < MinSelfStake \/ old.stk < MinStake + delta)
          nv  == [old EXCEPT !.st = nst, !.ss = nss, !.tok = @ - w, !.stk = @ - delta, !.on = IF off THEN FALSE ELSE @] IN
      DoUpdate(v, old, nv)
   /\ NoAcctChange /\ Frame

\* teChangeStatus
Status(v, on) ==
   /\ Live(v)
   /\ Tick(Rec("Status", v, 0, 0, 0, on))
   /\ IF on /\ vo[v].stk < MinStake
      THEN UNCHANGED <<vo, index, vj, stat>>
      ELSE DoUpdate(v, vo[v], [vo[v] EXCEPT !.on = on])
   /\ NoAcctChange /\ Frame

\* delegator side of UpdateDelegation (stateObject.UpdateDelegationTo + AddDelegationBalance)
AcctStep(a, v, d, present) ==
   LET oto == acct[a].to
       nto == IF present THEN oto \cup {v} ELSE oto \ {v} IN
   /\ acct' = [acct EXCEPT ![a] = [dbal |-> @.dbal + d, to |-> nto]]
   /\ aj' = (IF nto # oto THEN Append(aj, [k |-> "to", a |-> a, prev |-> oto]) ELSE aj)
               \o <<[k |-> "dbal", a |-> a, prev |-> acct[a].dbal]>>
   /\ pend' = IF nto # oto THEN pend \cup {a} ELSE pend

\* StateDB.UpdateDelegation(d, val, delta) followed by the forced status change of teDelegationSub
Delegation(name, a, v, d, arg) ==
   /\ Tick(Rec(name, v, a, arg, 0, FALSE))
   /\ LET old == vo[v]
          nt  == old.dl[a].t + d
          ns  == nt \div Unit
          nv  == [old EXCEPT !.tok = @ + d, !.stk = @ + (ns - old.dl[a].s), !.dl[a] = [t |-> nt, s |-> ns]]
          off == name = "Undelegate" /\ nv.on /\ nv.stk < MinStake
          nv2 == [nv EXCEPT !.on = FALSE] IN
      /\ vo' = [vo EXCEPT ![v] = IF off THEN nv2 ELSE nv]
      /\ index' = index \cup {v}
      /\ vj' = IF off THEN vj \o <<[k |-> "update", v |-> v, old |-> old, new |-> IF Fixed("alias") THEN nv ELSE nv2],
                                  [k |-> "update", v |-> v, old |-> nv, new |-> nv2]>>
                      ELSE Append(vj, [k |-> "update", v |-> v, old |-> old, new |-> nv])
      /\ stat' = IF off THEN StatMove(StatMove(stat, v, old, nv), v, nv, nv2) ELSE StatMove(stat, v, old, nv)
      /\ AcctStep(a, v, d, nt > 0 \/ ns > 0)
   /\ Frame

\* teDelegationAdd
Delegate(a, v, d) ==
   /\ Live(v)
   /\ IF vo[v].exp
      THEN Tick(Rec("Delegate", v, a, d, 0, FALSE)) /\ UNCHANGED <<vo, index, vj, stat>> /\ NoAcctChange /\ Frame
      ELSE Delegation("Delegate", a, v, d, d)

\* teDelegationSub: clamped; everything when the rest would fall below the minimum delegation
Undelegate(a, v, d) ==
   /\ Live(v)
   /\ LET cur == vo[v].dl[a] IN
      IF (cur.t = 0 /\ cur.s = 0) \/ Min(d, cur.t) <= 0
      THEN Tick(Rec("Undelegate", v, a, d, 0, FALSE)) /\ UNCHANGED <<vo, index, vj, stat>> /\ NoAcctChange /\ Frame
      ELSE LET w0 == Min(d, cur.t)
               w  == IF cur.t - w0 > 0 /\ cur.t - w0 < MinDelegation THEN cur.t ELSE w0 IN
           Delegation("Undelegate", a, v, 0 - w, d)

\* rewardsToPool: rewards added to the live record in place, old = its partial copy
Reward(v, d) ==
   /\ Live(v)
   /\ Tick(Rec("Reward", v, 0, d, 0, FALSE))
   /\ DoUpdate(v, vo[v], [vo[v] EXCEPT !.rew = @ + d])
   /\ NoAcctChange /\ Frame

\* settleValidatorRewards(val): <<updated?, record written>>
Settled(r) ==
   IF r.stk = 0 /\ r.rew > 0 THEN <<TRUE, [r EXCEPT !.rew = 0]>>
   ELSE IF r.stk = 0 \/ r.rew = 0 THEN <<FALSE, r>>
   ELSE LET total == r.rew - ((r.rew * 1000) \div 10000)
            res == IF r.on THEN total % r.stk ELSE 0 IN
        <<TRUE, [r EXCEPT !.rew = res]>>

Settle(v) ==
   /\ Live(v)
   /\ Tick(Rec("Settle", v, 0, 0, 0, FALSE))
   /\ LET s == Settled(vo[v]) IN
      IF s[1] THEN DoUpdate(v, vo[v], s[2]) ELSE UNCHANGED <<vo, index, vj, stat>>
   /\ NoAcctChange /\ Frame

\* distributeRewards: reward on a partial copy, then the forced settlement with the record read BEFORE (as coded)
Distribute(v, d) ==
   /\ Live(v)
   /\ Tick(Rec("Distribute", v, 0, d, 0, FALSE))
   /\ LET val == vo[v]
          s == Settled(val) IN
      IF ~val.on
      THEN IF s[1] THEN DoUpdate(v, val, s[2]) ELSE UNCHANGED <<vo, index, vj, stat>>
      ELSE LET nv == [val EXCEPT !.rew = @ + d] IN
           /\ vo' = [vo EXCEPT ![v] = IF s[1] THEN s[2] ELSE nv]
           /\ index' = index \cup {v}
           /\ vj' = vj \o <<[k |-> "update", v |-> v, old |-> val, new |-> nv]>>
                       \o (IF s[1] THEN <<[k |-> "update", v |-> v, old |-> val, new |-> s[2]]>> ELSE <<>>)
           /\ stat' = stat            \* neither update changes stake, token or status
   /\ NoAcctChange /\ Frame

\* recoverFromExpiredExpelling (in place)
Recover(v) ==
   /\ Live(v) /\ vo[v].exp
   /\ Tick(Rec("Recover", v, 0, 0, 0, FALSE))
   /\ DoUpdate(v, vo[v], [vo[v] EXCEPT !.exp = FALSE])
   /\ NoAcctChange /\ Frame

\* doPenalize -> takePenalty (risk obligation 1000/10000, empty withdraw queue): amt is spread per stake, the remainder goes to the
\* validator itself, each share is clamped to the tokens available; status offline, expelled
Take(t, s, want) == LET f == Min(t, want) IN IF want > 0 /\ f > 0 THEN [t |-> t - f, s |-> (t - f) \div Unit] ELSE [t |-> t, s |-> s]
Penalised(r, amt) ==
   LET obl  == (amt * 1000) \div 10000            \* the validator's own risk obligation (10 %)
       cur  == amt - obl
       per  == cur \div r.stk
       self == Take(r.st, r.ss, per * r.ss + (cur % r.stk) + obl)
       ndl  == [a \in Accts |-> Take(r.dl[a].t, r.dl[a].s, per * r.dl[a].s)] IN
   [r EXCEPT !.st = self.t, !.ss = self.s, !.dl = ndl,
             !.tok = @ - (r.st - self.t) - SumOver([a \in Accts |-> r.dl[a].t - ndl[a].t], Accts),
             !.stk = @ - (r.ss - self.s) - SumOver([a \in Accts |-> r.dl[a].s - ndl[a].s], Accts),
             !.on = FALSE, !.exp = TRUE]

\* as coded the DelegationFrom objects changed by takePenalty are shared with every record of the journal that still
\* holds the same object (same delegator, same amounts)
Share(r, old, new) == [r EXCEPT !.dl = [a \in Accts |-> IF r.dl[a] = old.dl[a] THEN new.dl[a] ELSE r.dl[a]]]
ShareEntry(e, v, old, new) ==
   IF e.v # v THEN e
   ELSE IF e.k = "update" THEN [e EXCEPT !.old = Share(@, old, new), !.new = Share(@, old, new)]
   ELSE IF e.k = "delete" THEN [e EXCEPT !.old = Share(@, old, new)]
   ELSE IF e.prev.mem # "none" THEN [e EXCEPT !.prev = Share(@, old, new)] ELSE e

Penalise(v, amt, inactive) ==
   /\ Live(v) /\ vo[v].stk > 0
   /\ Tick(Rec("Penalise", v, 0, amt, 0, inactive))
   /\ LET old == vo[v]
          nv  == Penalised(old, amt)
          jold == IF Fixed("penalty") THEN old ELSE [old EXCEPT !.dl = nv.dl]
          vj0 == IF Fixed("penalty") THEN vj ELSE [n \in DOMAIN vj |-> ShareEntry(vj[n], v, old, nv)]
          NA == Cardinality(Accts) IN
      /\ vo' = [vo EXCEPT ![v] = nv]
      /\ index' = index \cup {v}
      /\ vj' = Append(vj0, [k |-> "update", v |-> v, old |-> jold, new |-> nv])
      /\ stat' = StatMove(stat, v, old, nv)
      /\ IF Fixed("pendbal")
         THEN /\ acct' = [a \in Accts |-> [dbal |-> acct[a].dbal - (old.dl[a].t - nv.dl[a].t),
                                          to |-> IF nv.dl[a].t = 0 /\ nv.dl[a].s = 0 THEN acct[a].to \ {v} ELSE acct[a].to]]
              /\ aj' = aj \o [i \in 1..NA |-> [k |-> "to", a |-> i, prev |-> acct[i].to]]
                         \o [i \in 1..NA |-> [k |-> "dbal", a |-> i, prev |-> acct[i].dbal]]
              /\ pend' = pend \cup { a \in Accts : v \in acct[a].to /\ nv.dl[a].t = 0 /\ nv.dl[a].s = 0 }
         ELSE NoAcctChange
   /\ Frame

\* StateDB.RemoveValidator: flag + statistics; the record stays in memory and in the index until the next root
Remove(v) ==
   /\ Live(v)
   /\ Tick(Rec("Remove", v, 0, 0, 0, FALSE))
   /\ vo' = [vo EXCEPT ![v].mem = "deleted"]
   /\ vj' = Append(vj, [k |-> "delete", v |-> v, old |-> vo[v]])
   /\ stat' = StatSub(stat, v, vo[v])
   /\ UNCHANGED index /\ NoAcctChange /\ Frame

\* GetValidatorsForUpdate: a read; as coded it first replaces a non-empty in-memory index by the stored one
ForUpdate ==
   /\ Tick(Rec("ForUpdate", 0, 0, 0, 0, FALSE))
   /\ index' = IF Fixed("empty") \/ index = {} THEN index ELSE tix
   /\ UNCHANGED <<vo, stat, tix, dirty, acct, pend, blobs, vj, aj, revs, nextId, failed, oth, hasOth>>

\* ---- snapshot / revert
Snapshot ==
   /\ Tick(Rec("Snapshot", 0, 0, 0, nextId, FALSE))
   /\ revs' = Append(revs, [id |-> nextId, vi |-> Len(vj), ai |-> Len(aj)])
   /\ nextId' = nextId + 1
   /\ UNCHANGED <<vo, stat, index, tix, dirty, acct, pend, blobs, vj, aj, failed, oth, hasOth>>

\* one validator-journal entry undone: <<vo, stat, index>>
UndoVal(s, e) ==
   LET o == s[1] t == s[2] ix == s[3] IN
   CASE e.k = "create" -> IF e.prev.mem # "none"
                          THEN <<[o EXCEPT ![e.v] = e.prev], StatSub(t, e.v, o[e.v]), ix>>
                          ELSE <<[o EXCEPT ![e.v] = NoVal], StatSub(t, e.v, o[e.v]), ix \ {e.v}>>
     [] e.k = "update" -> <<[o EXCEPT ![e.v] = e.old],
                            IF StakeEqual(e.new, e.old) THEN t ELSE StatAdd(StatSub(t, e.v, e.new), e.v, e.old), ix \cup {e.v}>>
     [] e.k = "delete" -> <<[o EXCEPT ![e.v] = [e.old EXCEPT !.mem = "live"]], StatAdd(t, e.v, e.old), ix \cup {e.v}>>
RECURSIVE UndoVals(_, _, _)
UndoVals(s, jr, idx) == IF Len(jr) <= idx THEN s ELSE UndoVals(UndoVal(s, jr[Len(jr)]), SubSeq(jr, 1, Len(jr) - 1), idx)

UndoAcct(s, e) == IF e.k = "to" THEN [s EXCEPT ![e.a].to = e.prev] ELSE [s EXCEPT ![e.a].dbal = e.prev]
RECURSIVE UndoAccts(_, _, _)
UndoAccts(s, jr, idx) == IF Len(jr) <= idx THEN s ELSE UndoAccts(UndoAcct(s, jr[Len(jr)]), SubSeq(jr, 1, Len(jr) - 1), idx)

Revert(id) ==
   /\ \E n \in DOMAIN revs : revs[n].id = id
   /\ Tick(Rec("Revert", 0, 0, 0, id, FALSE))
   /\ LET n == CHOOSE m \in DOMAIN revs : revs[m].id = id
          r == UndoVals(<<vo, stat, index>>, vj, revs[n].vi) IN
      /\ vo' = r[1] /\ stat' = r[2] /\ index' = r[3]
      /\ acct' = UndoAccts(acct, aj, revs[n].ai)
      /\ vj' = SubSeq(vj, 1, revs[n].vi)
      /\ aj' = SubSeq(aj, 1, revs[n].ai)
      /\ revs' = SubSeq(revs, 1, n - 1)
   /\ UNCHANGED <<tix, dirty, pend, blobs, nextId, failed, oth, hasOth>>

\* ---- transaction / block boundaries
JDirty == { vj[n].v : n \in DOMAIN vj }
Finalise ==
   /\ Tick(Rec("Finalise", 0, 0, 0, 0, FALSE))
   /\ dirty' = dirty \cup { v \in JDirty : vo[v].mem # "none" }
   /\ vj' = <<>> /\ aj' = <<>> /\ revs' = <<>>
   /\ UNCHANGED <<vo, stat, index, tix, acct, pend, blobs, nextId, failed, oth, hasOth>>

\* IntermediateRoot(deleteEmptyObjects = true) on <<vo, stat, index>> with dirty set D
Invalid(r) == r.tok <= 0 /\ r.stk <= 0
RECURSIVE Flush(_, _)
Flush(s, D) ==
   IF D = {} THEN s
   ELSE LET v == CHOOSE x \in D : TRUE
            o == s[1] t == s[2] ix == s[3]
            r == o[v] IN
        IF r.mem = "deleted" \/ Invalid(r)
        THEN Flush(<<[o EXCEPT ![v] = IF Fixed("ghost") THEN NoVal ELSE [r EXCEPT !.mem = "deleted"]],
                     IF r.mem = "deleted" /\ Fixed("remove") THEN t ELSE StatSub(t, v, r),
                     ix \ {v}>>, D \ {v})
        ELSE Flush(<<o, t, ix \cup {v}>>, D \ {v})

RootStep(name) ==
   /\ Tick(Rec(name, 0, 0, 0, 0, FALSE))
   /\ LET D == dirty \cup { v \in JDirty : vo[v].mem # "none" }
          r == Flush(<<vo, stat, index>>, D) IN
      /\ stat' = r[2] /\ index' = r[3] /\ tix' = r[3]
      /\ vo' = IF name = "Reload" THEN [v \in Vals |-> IF r[1][v].mem = "live" THEN r[1][v] ELSE NoVal] ELSE r[1]
   /\ dirty' = {} /\ vj' = <<>> /\ aj' = <<>> /\ revs' = <<>>
   /\ pend' = IF name = "Root" THEN pend ELSE {}
   /\ blobs' = IF name = "Root" THEN blobs ELSE blobs \cup { acct[a].to : a \in pend }
   /\ UNCHANGED <<acct, nextId, failed, oth, hasOth>>

Root == RootStep("Root")
Commit == RootStep("Commit")
Reload == RootStep("Reload")

\* StateDB.Copy(): the behaviour continues on the copy.  Only dirty validator objects are copied (the others are reloaded
\* from the trie); as coded a copied account object loses its loaded delegation list and the dirtyDlgs flag, so a list
\* whose blob is not yet in the database cannot be read (panic) and would never be written.
\* all per-object variables of the object currently operated on
Side == [vo |-> vo, stat |-> stat, index |-> index, tix |-> tix, dirty |-> dirty, acct |-> acct, pend |-> pend,
         vj |-> vj, aj |-> aj, revs |-> revs]
CopyStep ==
   /\ Tick(Rec("Copy", 0, 0, 0, 0, FALSE))
   /\ LET D == dirty \cup { v \in JDirty : vo[v].mem # "none" } IN
      /\ vo' = [v \in Vals |-> IF v \in D \/ vo[v].mem = "live" THEN vo[v] ELSE NoVal]
      /\ dirty' = D
   /\ vj' = <<>> /\ aj' = <<>> /\ revs' = <<>>
   /\ failed' = (~Fixed("copy") /\ \E a \in pend : acct[a].to \notin blobs)
   /\ pend' = IF Fixed("copy") THEN pend ELSE {}
   \* the second loop of Copy() re-adds the addresses of validatorObjectsDirty to the index, except those the first loop
   \* (journal dirties) has already copied
   /\ index' = index \cup (dirty \ { v \in JDirty : vo[v].mem # "none" })
   /\ UNCHANGED <<stat, tix, acct, blobs, nextId>>
   \* the behaviour continues on the copy; the original stays around as the other side (independent of the copy)
   /\ oth' = Side /\ hasOth' = TRUE

\* the behaviour changes sides: the other object becomes the one operated on
Swap ==
   /\ hasOth
   /\ Tick(Rec("Swap", 0, 0, 0, 0, FALSE))
   /\ vo' = oth.vo /\ stat' = oth.stat /\ index' = oth.index /\ tix' = oth.tix /\ dirty' = oth.dirty
   /\ acct' = oth.acct /\ pend' = oth.pend /\ vj' = oth.vj /\ aj' = oth.aj /\ revs' = oth.revs
   /\ oth' = Side
   /\ UNCHANGED <<blobs, nextId, failed, hasOth>>

\* ---- next-state relations
Bounded == \A v \in Vals : vo[v].tok <= 60 /\ vo[v].rew <= 40
SnapRev == Snapshot \/ (\E id \in 0..MaxOps : Revert(id))

NextM ==
   \/ \E v \in Vals : Create(v, 15) \/ Withdraw(v, 15) \/ Status(v, TRUE) \/ Penalise(v, 12, FALSE)
   \/ \E a \in Accts, v \in Vals : Delegate(a, v, 7) \/ Undelegate(a, v, 7)
   \/ SnapRev \/ Root \/ Reload \/ CopyStep \/ ForUpdate \/ Swap

NextMAlias ==    \* the forced status change of teDelegationSub: a validator whose stake comes from a delegation only
   \/ \E v \in Vals : Create(v, 7) \/ Status(v, TRUE)
   \/ \E a \in Accts, v \in Vals : Delegate(a, v, 15) \/ Undelegate(a, v, 15)
   \/ SnapRev \/ Root

NextG1 ==
   \/ \E v \in Vals : Create(v, 15) \/ Deposit(v, 7) \/ Withdraw(v, 15) \/ Status(v, TRUE)
   \/ \E a \in Accts, v \in Vals : Delegate(a, v, 7) \/ Undelegate(a, v, 7)
   \/ SnapRev \/ Root \/ Reload

NextG1b ==
   \/ \E v \in Vals : Create(v, 25) \/ Status(v, TRUE) \/ Penalise(v, 12, FALSE) \/ Reward(v, 10) \/ Distribute(v, 10)
   \/ \E a \in Accts, v \in Vals : Delegate(a, v, 15)
   \/ SnapRev \/ Finalise \/ Commit \/ CopyStep \/ ForUpdate

NextRemove ==
   \/ \E v \in Vals : Create(v, 15) \/ Status(v, TRUE) \/ Remove(v) \/ Withdraw(v, 15)
   \/ \E a \in Accts, v \in Vals : Delegate(a, v, 7)
   \/ SnapRev \/ Root \/ Reload

NextDeleg3 ==    \* one delegator delegating to every validator: full withdrawals, reverted / committed / on a copy
   \/ \E v \in Vals : Undelegate(1, v, 7) \/ Delegate(1, v, 7)
   \/ SnapRev \/ Root \/ Reload \/ CopyStep

NextBlind ==     \* freshly loaded state, copies, root computations and reloads with and without a read in between
   \/ CopyStep \/ Swap \/ Reload \/ Root \/ Deposit(1, 7) \/ Status(1, TRUE)
PreludeStep ==
   LET p == DynPrelude[Len(hist) + 1] IN
   CASE p.op = "Create" -> Create(p.v, p.d) [] p.op = "Reload" -> Reload [] OTHER -> FALSE

NextRich ==
   \/ \E v \in Vals :
        \/ \E t \in {7, 15, 25} : Create(v, t)
        \/ \E d \in {5, 7, 10} : Deposit(v, d)
        \/ \E d \in {5, 15, 40} : Withdraw(v, d)
        \/ \E on \in BOOLEAN : Status(v, on)
        \/ \E d \in {3, 12, 30}, i \in BOOLEAN : Penalise(v, d, i)
        \/ \E d \in {7, 10} : Reward(v, d) \/ Distribute(v, d)
        \/ Settle(v) \/ Recover(v)
   \/ \E a \in Accts, v \in Vals, d \in {5, 7, 15} : Delegate(a, v, d) \/ Undelegate(a, v, d)
   \/ SnapRev \/ Finalise \/ Root \/ Commit \/ Reload \/ CopyStep \/ ForUpdate \/ Swap

Next == /\ Bounded
        /\ IF InPrelude THEN PreludeStep ELSE
           CASE Alpha = "blind" -> NextBlind [] Alpha = "m" -> NextM [] Alpha = "malias" -> NextMAlias [] Alpha = "g1" -> NextG1 [] Alpha = "g1b" -> NextG1b
             [] Alpha = "remove" -> NextRemove [] Alpha = "deleg3" -> NextDeleg3 [] OTHER -> NextRich
Spec == Init /\ [][Next]_vars

\* ---------------------------------------------------------------- property layer (over the observable projection)
\* what the getters of the real object return
Ex(v) == vo[v].mem = "live"
Expected(g) ==
   LET M   == { v \in Vals : Ex(v) /\ g \in GroupsOf(RoleOf(v)) }
       On  == { v \in M : vo[v].on }
       Off == M \ On IN
   << SumOver([v \in On |-> vo[v].stk], On),   SumOver([v \in On |-> vo[v].tok], On),   Cardinality(On),
      SumOver([v \in Off |-> vo[v].stk], Off), SumOver([v \in Off |-> vo[v].tok], Off), Cardinality(Off) >>

Cex(name) == PrintT("@@J " \o ToJson([kind |-> "CEX", clause |-> name, h |-> hist])) /\ FALSE

StatEqualsRecompute == (\A g \in Groups : stat[g] = Expected(g)) \/ Cex("StatEqualsRecompute")
TotalsEqualSelfPlusDelegations ==
   (\A v \in Vals : Ex(v) => /\ vo[v].tok = vo[v].st + SumOver([a \in Accts |-> vo[v].dl[a].t], Accts)
                             /\ vo[v].stk = vo[v].ss + SumOver([a \in Accts |-> vo[v].dl[a].s], Accts))
   \/ Cex("TotalsEqualSelfPlusDelegations")
StakeIsTokenDivUnit ==
   (\A v \in Vals : Ex(v) => /\ vo[v].ss = vo[v].st \div Unit
                             /\ \A a \in Accts : vo[v].dl[a].s = vo[v].dl[a].t \div Unit)
   \/ Cex("StakeIsTokenDivUnit")
IndexEqualsDomain == (index = { v \in Vals : Ex(v) }) \/ Cex("IndexEqualsDomain")
DelegationLinksAgree ==
   (\A a \in Accts, v \in Vals : (v \in acct[a].to) <=> (Ex(v) /\ (vo[v].dl[a].t > 0 \/ vo[v].dl[a].s > 0)))
   \/ Cex("DelegationLinksAgree")
DelegationBalanceAgrees ==
   (\A a \in Accts : acct[a].dbal = SumOver([v \in Vals |-> IF Ex(v) THEN vo[v].dl[a].t ELSE 0], Vals))
   \/ Cex("DelegationBalanceAgrees")
Readable == ~failed \/ Cex("Readable")

\* ---------------------------------------------------------------- generation
Leaf == (GenMode = "leaf" /\ (Len(hist) = MaxOps \/ failed)) => PrintT("@@J " \o ToJson([kind |-> "B", h |-> hist]))
View == <<vo, stat, index, tix, dirty, acct, pend, blobs, vj, aj, revs, nextId, failed, oth, hasOth>>
=============================================================================
