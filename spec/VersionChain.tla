---------------------------- MODULE VersionChain ----------------------------
(***************************************************************************)
(* C12, chain level on core.BlockChain: which version state machine do the *)
(* CANONICAL headers run through, and what does VersionForRound report?    *)
(*                                                                         *)
(* Constant tree (the fixture of driver `versionchain`, versions {5,6},    *)
(* vote rounds 2, threshold 2, min wait 1, max wait 2):                    *)
(*   A1..A6 : proposal at A1, approval at A2, switch to 6 at A4            *)
(*   B1..B6 : no proposal, version 5                                       *)
(*   C2..C6 : children of B1 that continue A's proposal (valid after A1,   *)
(*            not after their real parent B1)                              *)
(*   D1..D6 : proposal at D1, NO approval at D2, D3 COPIES the version     *)
(*            fields across the round that closes the window (the pure     *)
(*            verifier rejects it: a proposal below its threshold must be  *)
(*            dropped there), D4 switches at the announced round           *)
(* Design layer, as coded (solo engine):                                   *)
(*   Import(seg)  InsertChain: BlockChain.VerifyYouVersionState checks the *)
(*                first block against GetHeaderByNumber(n-1) -- the        *)
(*                CANONICAL block at that height, not the real parent --   *)
(*                and the others against their predecessor in the segment; *)
(*                then every block with a known parent is written and      *)
(*                becomes the head (reorg rewrites the number index).      *)
(*   SetHead(k)   rewind: canonical blocks above k are deleted.            *)
(*   Query        VersionForRound(r) for r in QLo..QHi as coded: version   *)
(*                of the header the NUMBER INDEX names at max(0, r - 8).   *)
(* Property layer:                                                         *)
(*   ActiveVersionIsCanonical  every answer is the CurrVersion of the      *)
(*                canonical header (chain of parent links ending in the    *)
(*                head) at max(0, r - lookback), for the rounds whose      *)
(*                looked-back height is on the canonical chain             *)
(*   CanonChainSafe  the statement of C12 over the canonical headers:      *)
(*                every consecutive pair is a SafeStep and every version   *)
(*                change satisfies the chain-level clauses.                *)
(***************************************************************************)
EXTENDS VersionUpgradeProp, TLC, Json

CONSTANTS MaxActs,     \* schedule length
          FixParent,   \* TRUE: the proposed repair (first block checked against its real parent)
          AutoQuery,   \* TRUE (generation): no Query action -- the driver queries after EVERY action, so that the answers are
                       \* asked before and after each reorganisation / rewind (a warm cache matters)
          GenMode      \* "none" | "leaf"

KnownF == JsonDeserialize("known_c12.json")

PP == [vr |-> 2, th |-> 2, minw |-> 1, maxw |-> 2]
KK == {5, 6}
Lookback == 8
QLo == 8
QHi == 15
MaxN == 6
Names == {"G", "A1", "A2", "A3", "A4", "A5", "A6", "B1", "B2", "B3", "B4", "B5", "B6", "C2", "C3", "C4", "C5", "C6",
          "D1", "D2", "D3", "D4", "D5", "D6"}
Par == [b \in Names |-> CASE b \in {"A1", "B1"} -> "G" [] b = "A2" -> "A1" [] b = "A3" -> "A2" [] b = "A4" -> "A3" [] b = "A5" -> "A4"
                          [] b = "A6" -> "A5" [] b = "B2" -> "B1" [] b = "B3" -> "B2" [] b = "B4" -> "B3" [] b = "B5" -> "B4"
                          [] b = "B6" -> "B5" [] b = "C2" -> "B1" [] b = "C3" -> "C2" [] b = "C4" -> "C3" [] b = "C5" -> "C4"
                          [] b = "C6" -> "C5" [] b = "D1" -> "G" [] b = "D2" -> "D1" [] b = "D3" -> "D2" [] b = "D4" -> "D3"
                          [] b = "D5" -> "D4" [] b = "D6" -> "D5" [] OTHER -> "-"]
Num == [b \in Names |-> CASE b = "G" -> 0 [] b \in {"A1", "B1", "D1"} -> 1 [] b \in {"A2", "B2", "C2", "D2"} -> 2
                          [] b \in {"A3", "B3", "C3", "D3"} -> 3 [] b \in {"A4", "B4", "C4", "D4"} -> 4
                          [] b \in {"A5", "B5", "C5", "D5"} -> 5 [] OTHER -> 6]
Ver == [b \in Names |-> CASE b \in {"A1", "D1", "D2", "D3"} -> <<5, 6, 1, 3, 4>> [] b \in {"A2", "A3", "C2", "C3"} -> <<5, 6, 2, 3, 4>>
                          [] b \in {"A4", "A5", "A6", "C4", "C5", "C6", "D4", "D5", "D6"} -> <<6, 0, 0, 0, 0>>
                          [] OTHER -> <<5, 0, 0, 0, 0>>]
HdOf(b) == Hdr(Num[b], Ver[b][1], Ver[b][2], Ver[b][3], Ver[b][4], Ver[b][5])
Segs == { <<"A1", "A2", "A3">>, <<"A4", "A5">>, <<"A1", "A2", "A3", "A4", "A5", "A6">>, <<"A2", "A3", "A4", "A5", "A6">>,
          <<"B1">>, <<"B2", "B3", "B4", "B5">>, <<"B1", "B2", "B3", "B4", "B5", "B6">>,
          <<"C2", "C3", "C4", "C5", "C6">>, <<"C2">>,
          <<"D1", "D2">>, <<"D1", "D2", "D3", "D4", "D5", "D6">>, <<"D3", "D4", "D5", "D6">> }

VARIABLES s,      \* [blk, canon, head]: known blocks, number index, head
          ps,     \* s before the last action (generation: one witness schedule per reachable TRANSITION)
          ans,    \* answers of the last Query (<<>> = the last action was not a query)
          hist
vars == <<s, ps, ans, hist>>

RECURSIVE Anc(_)       \* chain of parent links from genesis to b: Anc(b)[n + 1] is its ancestor at height n
Anc(b) == IF b = "G" THEN <<"G">> ELSE Append(Anc(Par[b]), b)
AncSet(b) == { Anc(b)[i] : i \in DOMAIN Anc(b) }

\* ---------------------------------------------------------------- design layer
\* BlockChain.VerifyYouVersionState(chain)
FirstParent(st, b) == IF FixParent /\ Par[b] \in st.blk THEN Par[b] ELSE st.canon[Num[b] - 1]
Verified(st, seg) ==
   /\ FirstParent(st, seg[1]) # "-"
   /\ Verify(PP, KK, HdOf(FirstParent(st, seg[1])), HdOf(seg[1]), FALSE) = "ok"
   /\ \A i \in 2..Len(seg) : Verify(PP, KK, HdOf(seg[i - 1]), HdOf(seg[i]), FALSE) = "ok"

\* WriteBlockWithState + reorg: the new branch's blocks are written into the number index, b becomes the head
WriteBlock(st, b) == [blk |-> st.blk \cup {b},
                      canon |-> [n \in 0..MaxN |-> IF n <= Num[b] /\ Anc(b)[n + 1] \notin AncSet(st.head) THEN Anc(b)[n + 1] ELSE st.canon[n]],
                      head |-> b]
RECURSIVE RunSeg(_, _)
RunSeg(st, bs) ==
   IF bs = <<>> THEN st
   ELSE LET b == Head(bs) IN
        IF b \in st.blk /\ st.canon[Num[b]] = b THEN RunSeg(st, Tail(bs))     \* ErrKnownBlock
        ELSE IF Par[b] \notin st.blk THEN st                                    \* ErrUnknownAncestor
        ELSE RunSeg(WriteBlock(st, b), Tail(bs))
ImportRes(st, seg) == IF Verified(st, seg) THEN RunSeg(st, seg) ELSE st
\* what the PURE verifier says along the segment's real parent chain: index of the first rejected header, -1 none,
\* -2 the real parent is not known to the chain
PureFirstRejected(st, seg) ==
   IF Par[seg[1]] \notin st.blk THEN -2
   ELSE LET prev(i) == IF i = 1 THEN Par[seg[1]] ELSE seg[i - 1]
            bad == { i \in DOMAIN seg : Verify(PP, KK, HdOf(prev(i)), HdOf(seg[i]), FALSE) # "ok" } IN
        IF bad = {} THEN -1 ELSE (CHOOSE i \in bad : \A j \in bad : i <= j) - 1

\* ---------------------------------------------------------------- probes: adversarial single headers chosen by TLC
\* every header with fields in a small range on top of a parent of every kind of version state; `rej` = what the pure
\* verifier model rejects, `acc` = what it accepts.  The driver builds each one as a real block and offers it to InsertChain.
ProbeParents == {"G", "A1", "A2", "A3", "A4", "D1", "D2"}
CandS(p) == [n : {Num[p] + 1}, cv : KK, nv : {0, 6}, ap : 0..3, vb : 0..5, so : 0..6]
TupleOf(c) == <<c.cv, c.nv, c.ap, c.vb, c.so>>
Probes == { [p |-> p, pv |-> Ver[p],
             rej |-> { TupleOf(c) : c \in { d \in CandS(p) : Verify(PP, KK, HdOf(p), d, FALSE) # "ok" } },
             acc |-> { TupleOf(c) : c \in { d \in CandS(p) : Verify(PP, KK, HdOf(p), d, FALSE) = "ok" } }] : p \in ProbeParents }
GenProbes == (GenMode = "probes") => PrintT("@@J " \o ToJson([kind |-> "PROBES", h |-> Probes]))

\* BlockChain.SetHead(k), k below the head
SetHeadRes(st, k) == [blk |-> st.blk \ { b \in AncSet(st.head) : Num[b] > k },
                      canon |-> [n \in 0..MaxN |-> IF n > k /\ n <= Num[st.head] THEN "-" ELSE st.canon[n]],
                      head |-> st.canon[k]]

\* HeaderChain.VersionForRound(r) as coded: 0 = error (no header)
Back(r) == IF r > Lookback THEN r - Lookback ELSE 0
AsCoded(st, r) == IF Back(r) <= MaxN /\ st.canon[Back(r)] # "-" THEN Ver[st.canon[Back(r)]][1] ELSE 0
Answers(st) == [i \in 1..(QHi - QLo + 1) |-> AsCoded(st, QLo + i - 1)]

S0 == [blk |-> {"G"}, canon |-> [n \in 0..MaxN |-> IF n = 0 THEN "G" ELSE "-"], head |-> "G"]
Init == s = S0 /\ ps = S0 /\ ans = <<>> /\ hist = <<>>

Import(seg) == /\ Len(hist) < MaxActs
               /\ LET t == ImportRes(s, seg) IN
                  /\ Num[t.head] >= Num[s.head]       \* production reorganises only onto a chain that is not shorter
                  /\ s' = t
               /\ ps' = s /\ ans' = <<>>
               /\ hist' = Append(hist, [a |-> "import", seg |-> seg, n |-> 0])
SetHead(k) == /\ Len(hist) < MaxActs /\ k < Num[s.head]
              /\ s' = SetHeadRes(s, k) /\ ps' = s /\ ans' = <<>>
              /\ hist' = Append(hist, [a |-> "sethead", seg |-> <<>>, n |-> k])
Query == /\ Len(hist) < MaxActs /\ (IF Len(hist) = 0 THEN TRUE ELSE hist[Len(hist)].a # "query")
         /\ ans' = Answers(s) /\ UNCHANGED <<s, ps>>
         /\ hist' = Append(hist, [a |-> "query", seg |-> <<>>, n |-> 0])
Next == (\E seg \in Segs : Import(seg)) \/ (\E k \in {1, 3} : SetHead(k)) \/ (~AutoQuery /\ Query)
Spec == Init /\ [][Next]_vars

\* ---------------------------------------------------------------- property layer
Cex(name, d) == PrintT("@@J " \o ToJson([kind |-> "CEX", clause |-> name, disc |-> d, h |-> hist])) /\ FALSE

\* "the active protocol version": CurrVersion of the canonical header at max(0, r - lookback)
SpecAnswer(st, r) == IF Back(r) <= Num[st.head] THEN Ver[Anc(st.head)[Back(r) + 1]][1] ELSE 0
ActiveVersionIsCanonical ==
   ans = <<>> \/ (\A i \in DOMAIN ans : Back(QLo + i - 1) <= Num[s.head] => ans[i] = SpecAnswer(s, QLo + i - 1))
              \/ Cex("ActiveVersionIsCanonical", {"design"})

\* the header c is a safe successor of another known block at its parent's height (class of the failing pair)
SiblingDisc(p, c) == IF \E x \in Names : Num[x] = p.n /\ HdOf(x) # p /\ SafeStep(PP, HdOf(x), c)
                     THEN {"valid_after_sibling_of_parent"} ELSE {"not_valid_after_any_sibling"}
RECURSIVE FoldCanon(_, _, _, _)
\* <<clause, disc>> failures along the canonical chain ch (names), from index i, history H
FoldCanon(ch, i, H, acc) ==
   IF i > Len(ch) THEN acc
   ELSE LET p == HdOf(ch[i - 1])  c == HdOf(ch[i]) IN
        FoldCanon(ch, i + 1, Fold(PP, H, p, c),
                  acc \cup { <<"Canon" \o nm, Disc(nm, PP, p, c) \cup SiblingDisc(p, c)>> : nm \in FailingPair(PP, p, c) }
                      \cup { <<"Canon" \o nm, ChainDisc(PP, H, p, c)>> : nm \in FailingChain(PP, H, p, c) })
CanonFailures(st) == FoldCanon(Anc(st.head), 2, H0, {})
CanonChainSafe == \A f \in CanonFailures(s) : IsKnown(KnownF, f[1], f[2]) \/ Cex(f[1], f[2])

Leaf == (GenMode = "leaf" /\ Len(hist) = MaxActs) => PrintT("@@J " \o ToJson([kind |-> "B", h |-> hist]))
\* an INVARIANT with VIEW ViewG: one witness schedule per distinct reachable transition (state before, state after)
GenTransitions == (GenMode = "transitions" /\ Len(hist) > 0) => PrintT("@@J " \o ToJson([kind |-> "B", h |-> hist]))
ViewG == <<s, ps>>
View == <<s, ans, Len(hist), IF Len(hist) = 0 THEN "-" ELSE hist[Len(hist)].a>>
=============================================================================
