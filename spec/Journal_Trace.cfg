SPECIFICATION TSpec
CONSTANTS
  Accts = {1, 2, 3}
  Vals = {1, 2, 3}
  MaxOps = 1000000
  Rich = "rich"
  ClearValRevs = TRUE
  GenMode = "none"
CONSTRAINT HighWater
POSTCONDITION Accepted
CHECK_DEADLOCK FALSE
