---------------------------- MODULE HeaderVerify ----------------------------
(***************************************************************************)
(* C01 -- a block header is accepted only with a protocol-sized quorum of  *)
(* valid precommits.                                                       *)
(*                                                                         *)
(* Headers are enumerated by a FORGING STATE MACHINE: Init is the honest   *)
(* header of the fixture (exact quorum), every action is one forging step  *)
(* an adversary can perform on the header bytes.  The design layer         *)
(* CodeAccepts (HeaderVerifyDefs, transcribed from consensus.go) and the   *)
(* property layer Entitled / Fail (from the statement) are evaluated on    *)
(* every reachable description.                                            *)
(*   M  : invariant Safe  -- CodeAccepts(h) => every failing clause of h   *)
(*        is a named deviation (Dev = the known signatures); with Dev = {} *)
(*        TLC prints the design-level counterexamples.                     *)
(*   G1 : every description within the forging depth is printed with both  *)
(*        predicates evaluated (constraint Leaf).                          *)
(***************************************************************************)
EXTENDS HeaderVerifyDefs

CONSTANTS Cfgs,      \* indices into fixtures.json explored in this run
          Deep,      \* the configurations explored to forging depth Depth (the others: Depth - 1)
          Depth,     \* forging depth
          MaxVotes,  \* bound on the length of the vote list
          GenMode,   \* "none" | "all" : print every description
          Sample,    \* 8: print every description; r in 0..7: of the depth >= 2 descriptions that are tempting but rejected by the
                     \* design layer (the bulk, of which the check drives a sample anyway) print those whose structural hash is r
          UseDev,    \* TRUE: tolerate the known deviations (known.json); FALSE: Dev = {}
          Side       \* "all" | "cert": only the forging steps on the certificate (deep exploration of the certificate branch)

Fixtures == JsonDeserialize("fixtures.json")
KnownJson == JsonDeserialize("known.json")
Dev == IF UseDev THEN { KnownJson[i].signature : i \in DOMAIN KnownJson } ELSE {}

VARIABLES h
vars == <<h>>

F == Fixtures[h.cfg]
OtherIdx(i) == IF i = 1 THEN 2 ELSE 1
ThSet == { F.ths[t] : t \in DOMAIN F.ths }

\* what an honest member of fixture G produces for (threshold T, index i)
HonestVoteOf(G, v, T, i) == [v |-> v, ci |-> i, cs |-> StepPrecommit, cd |-> 1, pb |-> "ok",
                             j |-> Max0(Seat(G, v, T, i, StepPrecommit, 1)), sb |-> 1, sr |-> 1, si |-> i, bk |-> 0, ls |-> 1]
HonestVote(v, T, i) == HonestVoteOf(F, v, T, i)
HonestProp(p, T, i) == HonestPropOf(F, p, T, i)
StrangerVote(i) == [v |-> NV(F) + 1, ci |-> i, cs |-> StepPrecommit, cd |-> 1, pb |-> "ok", j |-> 1, sb |-> 1, sr |-> 1, si |-> i, bk |-> 0, ls |-> 1]
\* certificate votes: step Certificate, the certificate look-back seed, seat count with the certificate set's stake
HonestCertOf(G, v, T, i) == [v |-> v, ci |-> i, cs |-> StepCert, cd |-> 3, pb |-> "ok",
                             j |-> Max0(G.cseat[v][ThIdx(G, T)][i][StepCert][3]), sb |-> 1, sr |-> 1, si |-> i, bk |-> 0, ls |-> 1]
HonestCert(v, T, i) == HonestCertOf(F, v, T, i)
StrangerCert(i) == [v |-> NV(F) + 1, ci |-> i, cs |-> StepCert, cd |-> 3, pb |-> "ok", j |-> 1, sb |-> 1, sr |-> 1, si |-> i, bk |-> 0, ls |-> 1]

Init == \E c \in Cfgs : LET G == Fixtures[c] IN
        h = [cfg |-> c, declV |-> G.protoV, declP |-> G.protoP, pidx |-> 1, vidx |-> 1,
             prop |-> HonestPropOf(G, G.prop, G.protoP, 1),
             votes |-> [n \in DOMAIN G.voters |-> HonestVoteOf(G, G.voters[n], G.protoV, 1)],
             agg |-> "ok",
             cf |-> IF G.certRound THEN "list" ELSE "std",
             cvotes |-> IF G.certRound THEN [n \in DOMAIN G.cvoters |-> HonestCertOf(G, G.cvoters[n], G.protoC, 1)] ELSE <<>>,
             cagg |-> "ok", declC |-> G.protoC, cfidx |-> 1, lb |-> 0, d |-> 0]

Forge(new) == /\ h.d < (IF h.cfg \in Deep THEN Depth ELSE Depth - 1)
              /\ LET x == new IN h' = [x EXCEPT !.d = h.d + 1]

Remove(s, n) == SubSeq(s, 1, n - 1) \o SubSeq(s, n + 1, Len(s))

\* ---------------------------------------------------------------- forging steps on the vote list
Drop == \E n \in DOMAIN h.votes : Forge([h EXCEPT !.votes = Remove(h.votes, n)])
\* list a vote twice; its signature joins the aggregate twice or once
Dup == \E n \in DOMAIN h.votes, twice \in BOOLEAN :
          /\ Len(h.votes) < MaxVotes
          /\ Forge([h EXCEPT !.votes = Append(h.votes, IF twice THEN h.votes[n] ELSE [h.votes[n] EXCEPT !.sb = 0])])
\* a single voter repeats its own precommit k times (its signature aggregated k times) to reach the quorum alone
Repeat == \E n \in DOMAIN h.votes, k \in 2..MaxVotes : Forge([h EXCEPT !.votes = [m \in 1..k |-> h.votes[n]]])
\* add the vote a validator (online, offline, house) or a stranger produces with its own keys under the declared threshold
Add == \E v \in 1..NV(F) + 1 :
          /\ Len(h.votes) < MaxVotes
          /\ \A n \in DOMAIN h.votes : h.votes[n].v # v
          /\ Forge([h EXCEPT !.votes = Append(h.votes, IF Member(F, v) THEN HonestVote(v, h.declV, h.vidx) ELSE StrangerVote(h.vidx))])
\* replay a credential issued for another index / step / round, or one made with another key, or a damaged one
AlterCred == \E n \in DOMAIN h.votes, what \in {"idx", "step", "seed", "foreign", "corrupt"} :
          LET x == h.votes[n] IN
          Forge([h EXCEPT !.votes[n] =
                   CASE what = "idx"  -> [x EXCEPT !.ci = OtherIdx(x.ci)]
                     [] what = "step" -> [x EXCEPT !.cs = StepPrevote]
                     [] what = "seed" -> [x EXCEPT !.cd = 2]
                     [] OTHER         -> [x EXCEPT !.pb = what]])
\* claim the voter's whole stake as weight
InflateMax == \E n \in DOMAIN h.votes : /\ Member(F, h.votes[n].v) /\ h.votes[n].j < F.vals[h.votes[n].v].stake
                                         /\ Forge([h EXCEPT !.votes[n].j = F.vals[h.votes[n].v].stake])
Inflate == \E n \in DOMAIN h.votes : Forge([h EXCEPT !.votes[n].j = h.votes[n].j + 1])
\* replay a signature made for another block / round / index, or leave the signature out
Resign == \E n \in DOMAIN h.votes, what \in {"blk", "rnd", "idx", "none"} :
          /\ h.votes[n].sb # 0
          /\ LET x == h.votes[n] IN
             Forge([h EXCEPT !.votes[n] =
                   CASE what = "blk" -> [x EXCEPT !.sb = 2]
                     [] what = "rnd" -> [x EXCEPT !.sr = 2]
                     [] what = "idx" -> [x EXCEPT !.si = OtherIdx(x.si)]
                     [] OTHER        -> [x EXCEPT !.sb = 0]])
\* replay a WHOLE vote set: the same voters' votes of another index / step (e.g. the prevote quorum presented as precommits) /
\* round, with the seat counts those credentials really have; or their signatures over another block / round / index
ReplaySet == \E what \in {"idx", "step", "seed"} :
          LET vs == h.votes
              alt(x) == CASE what = "idx"  -> [x EXCEPT !.ci = OtherIdx(x.ci)]
                          [] what = "step" -> [x EXCEPT !.cs = StepPrevote]
                          [] OTHER         -> [x EXCEPT !.cd = 2]
              seats(x) == IF Member(F, x.v) /\ x.cs \in 1..3 THEN [x EXCEPT !.j = Max0(Seat(F, x.v, h.declV, x.ci, x.cs, x.cd))] ELSE x IN
          /\ vs # <<>>
          /\ Forge([h EXCEPT !.votes = [n \in DOMAIN vs |-> seats(alt(vs[n]))]])
ResignSet == \E what \in {"blk", "rnd", "idx"} :
          LET vs == h.votes
              alt(x) == CASE what = "blk" -> [x EXCEPT !.sb = IF x.sb = 0 THEN 0 ELSE 2]
                          [] what = "rnd" -> [x EXCEPT !.sr = 2]
                          [] OTHER        -> [x EXCEPT !.si = OtherIdx(x.si)] IN
          /\ vs # <<>>
          /\ Forge([h EXCEPT !.votes = [n \in DOMAIN vs |-> alt(vs[n])]])
\* the QUORUM BOUNDARY, systematically: the honest votes of any subset of the entitled (online chamber) members -- every valid weight
\* the configuration can reach, in particular q - 1, q and the weights between floor(0.585 T) and floor(0.685 T)
Nth(S, n) == CHOOSE v \in S : Cardinality({ u \in S : u < v }) = n - 1
OnlineChamber(vals) == { v \in 1..Len(vals) : vals[v].kind = "chamber" /\ vals[v].on }
ChooseVoters == \E S \in SUBSET OnlineChamber(F.vals) :
          /\ S # {}
          /\ Forge([h EXCEPT !.votes = [n \in 1..Cardinality(S) |-> HonestVote(Nth(S, n), h.declV, h.vidx)]])
\* a share made with the BLS key the validator holds in the sibling configuration (retired / not yet registered here)
ResignRetired == \E n \in DOMAIN h.votes :
          /\ h.votes[n].v \in { F.rekeyed[m] : m \in DOMAIN F.rekeyed } /\ h.votes[n].bk = 0 /\ h.votes[n].sb # 0
          /\ Forge([h EXCEPT !.votes[n].bk = 1])
\* the look-back validator trie is not readable on the verifying node
LookBackGone == F.hasCurrent /\ h.lb = 0 /\ Forge([h EXCEPT !.lb = 1])
\* a header produced entirely by the NEWCOMER of the current validator set (registered after the look-back block): its proposer
\* credential and its precommit, list index and seat counts from the current set -- shown to a node that can / cannot read the
\* look-back set
NewcomerVote == [v |-> NV(F) + 1, ci |-> h.vidx, cs |-> StepPrecommit, cd |-> 1, pb |-> "ok",
                 j |-> Max0(F.useat[NV(F) + 1][ThIdx(F, h.declV)][h.vidx][StepPrecommit][1]), sb |-> 1, sr |-> 1, si |-> h.vidx, bk |-> 0, ls |-> 3]
NewcomerProp == [p |-> NV(F) + 1, ci |-> h.pidx, cs |-> StepProposal, cd |-> 1, pb |-> "ok",
                 j |-> Max0(F.useat[NV(F) + 1][ThIdx(F, h.declP)][h.pidx][StepProposal][1]), prio |-> "ok"]
CurrentSetHeader == \E gone \in BOOLEAN :
          /\ F.hasCurrent
          /\ Forge([h EXCEPT !.votes = <<NewcomerVote>>, !.prop = NewcomerProp, !.lb = IF gone THEN 1 ELSE h.lb])
\* the same with the look-back members voting as the current set sees them (their indices and seat counts there) next to the newcomer
CurrentSetVotes == \E S \in SUBSET OnlineChamber(F.vals) :
          /\ F.hasCurrent /\ S # {} /\ Cardinality(S) < MaxVotes
          /\ Forge([h EXCEPT !.votes = <<NewcomerVote>> \o [n \in 1..Cardinality(S) |->
                                           [HonestVote(Nth(S, n), h.declV, h.vidx) EXCEPT !.ls = 3,
                                              !.j = Max0(F.useat[Nth(S, n)][ThIdx(F, h.declV)][h.vidx][StepPrecommit][1])]],
                          !.prop = NewcomerProp, !.lb = 1])
Reorder == \E n \in DOMAIN h.votes : n < Len(h.votes) /\
          LET vs == h.votes IN
          Forge([h EXCEPT !.votes = [m \in DOMAIN vs |-> IF m = n THEN vs[n + 1] ELSE IF m = n + 1 THEN vs[n] ELSE vs[m]]])
CorruptAgg == \E a \in {"flip", "unrelated"} : h.agg = "ok" /\ Forge([h EXCEPT !.agg = a])

\* ---------------------------------------------------------------- declared thresholds, round index
\* declare another committee size; the colluding voters re-run their sortition under it (adapt) or keep their claims
DeclareV == \E T \in ThSet \ {h.declV}, adapt \in BOOLEAN :
          LET vs == h.votes
              adapted == [n \in DOMAIN vs |-> IF Member(F, vs[n].v)
                                                THEN [vs[n] EXCEPT !.j = Max0(Seat(F, vs[n].v, T, h.vidx, StepPrecommit, 1))] ELSE vs[n]] IN
          Forge([h EXCEPT !.declV = T, !.votes = IF adapt THEN adapted ELSE vs])
DeclareP == \E T \in ThSet \ {h.declP}, adapt \in BOOLEAN :
          LET nj == IF adapt /\ Member(F, h.prop.p) THEN Max0(Seat(F, h.prop.p, T, h.pidx, StepProposal, 1)) ELSE h.prop.j IN
          Forge([h EXCEPT !.declP = T, !.prop.j = nj])
\* change the round index of the vote list: the listed voters collude and vote again for it (redo), or nothing else changes
SetVidx == \E redo \in BOOLEAN :
          LET i == OtherIdx(h.vidx)
              vs == h.votes
              cs == h.cvotes
              again == [n \in DOMAIN vs |-> IF Member(F, vs[n].v) THEN HonestVote(vs[n].v, h.declV, i) ELSE StrangerVote(i)]
              cagain == [n \in DOMAIN cs |-> IF Member(F, cs[n].v) THEN HonestCert(cs[n].v, h.declC, i) ELSE StrangerCert(i)] IN
          Forge([h EXCEPT !.vidx = i, !.votes = IF redo THEN again ELSE vs,
                          !.cvotes = IF redo THEN cagain ELSE cs, !.cfidx = IF redo THEN i ELSE h.cfidx])
SetPidx == \E redo \in BOOLEAN :
          LET i == OtherIdx(h.pidx) IN
          Forge([h EXCEPT !.pidx = i, !.prop = IF redo THEN HonestProp(h.prop.p, h.declP, i) ELSE h.prop])

\* ---------------------------------------------------------------- proposer
SwapProposer == \E p \in (1..NV(F) + 1) \ {h.prop.p} : Forge([h EXCEPT !.prop = HonestProp(p, h.declP, h.pidx)])
BadPriority == h.prop.prio = "ok" /\ Forge([h EXCEPT !.prop.prio = "bad"])
PropInflate == Forge([h EXCEPT !.prop.j = h.prop.j + 1])
PropAlter == \E what \in {"idx", "step", "seed", "foreign", "corrupt"} :
          LET x == h.prop IN
          Forge([h EXCEPT !.prop =
                   CASE what = "idx"  -> [x EXCEPT !.ci = OtherIdx(x.ci)]
                     [] what = "step" -> [x EXCEPT !.cs = StepPrecommit]
                     [] what = "seed" -> [x EXCEPT !.cd = 2]
                     [] OTHER         -> [x EXCEPT !.pb = what]])

\* ---------------------------------------------------------------- forging steps on the certificate (certificate rounds)
CertList == F.certRound /\ h.cf = "list"
CDrop == \E n \in DOMAIN h.cvotes : CertList /\ Forge([h EXCEPT !.cvotes = Remove(h.cvotes, n)])
CDup == \E n \in DOMAIN h.cvotes, twice \in BOOLEAN :
          /\ CertList /\ Len(h.cvotes) < MaxVotes
          /\ Forge([h EXCEPT !.cvotes = Append(h.cvotes, IF twice THEN h.cvotes[n] ELSE [h.cvotes[n] EXCEPT !.sb = 0])])
CRepeat == \E n \in DOMAIN h.cvotes, k \in 2..MaxVotes : CertList /\ Forge([h EXCEPT !.cvotes = [m \in 1..k |-> h.cvotes[n]]])
\* the certificate vote of any validator (entitled, offline or house in the CERTIFICATE set, entitled only for precommits) or a stranger
CAdd == \E v \in 1..NV(F) + 1 :
          /\ CertList /\ Len(h.cvotes) < MaxVotes
          /\ \A n \in DOMAIN h.cvotes : h.cvotes[n].v # v
          /\ Forge([h EXCEPT !.cvotes = Append(h.cvotes, IF Member(F, v) THEN HonestCert(v, h.declC, h.vidx) ELSE StrangerCert(h.vidx))])
CAlterCred == \E n \in DOMAIN h.cvotes, what \in {"idx", "step", "seed", "seed2", "foreign", "corrupt"} :
          LET x == h.cvotes[n] IN
          /\ CertList
          /\ Forge([h EXCEPT !.cvotes[n] =
                   CASE what = "idx"   -> [x EXCEPT !.ci = OtherIdx(x.ci)]
                     [] what = "step"  -> [x EXCEPT !.cs = StepPrecommit]
                     [] what = "seed"  -> [x EXCEPT !.cd = 1]           \* the precommit look-back seed
                     [] what = "seed2" -> [x EXCEPT !.cd = 2]
                     [] OTHER          -> [x EXCEPT !.pb = what]])
CInflate == \E n \in DOMAIN h.cvotes : CertList /\ Forge([h EXCEPT !.cvotes[n].j = h.cvotes[n].j + 1])
CInflateMax == \E n \in DOMAIN h.cvotes : /\ CertList /\ Member(F, h.cvotes[n].v) /\ h.cvotes[n].j < F.cvals[h.cvotes[n].v].stake
                                           /\ Forge([h EXCEPT !.cvotes[n].j = F.cvals[h.cvotes[n].v].stake])
CResign == \E n \in DOMAIN h.cvotes, what \in {"blk", "rnd", "idx", "none"} :
          /\ CertList /\ h.cvotes[n].sb # 0
          /\ LET x == h.cvotes[n] IN
             Forge([h EXCEPT !.cvotes[n] =
                   CASE what = "blk" -> [x EXCEPT !.sb = 2]
                     [] what = "rnd" -> [x EXCEPT !.sr = 2]
                     [] what = "idx" -> [x EXCEPT !.si = OtherIdx(x.si)]
                     [] OTHER        -> [x EXCEPT !.sb = 0]])
\* replay a WHOLE certificate vote set of another index / step / look-back seed, with the seat counts those credentials really have
CReplaySet == \E what \in {"idx", "step", "seed"} :
          LET cs == h.cvotes
              alt(x) == CASE what = "idx"  -> [x EXCEPT !.ci = OtherIdx(x.ci)]
                          [] what = "step" -> [x EXCEPT !.cs = StepPrecommit]
                          [] OTHER         -> [x EXCEPT !.cd = 1]
              seats(x) == IF Member(F, x.v) THEN [x EXCEPT !.j = Max0(F.cseat[x.v][ThIdx(F, h.declC)][x.ci][x.cs][x.cd])] ELSE x IN
          /\ CertList /\ cs # <<>>
          /\ Forge([h EXCEPT !.cvotes = [n \in DOMAIN cs |-> seats(alt(cs[n]))]])
\* present the header's own precommit votes (same signatures: the signed payload does not contain the vote kind) as certificates
CFromPrecommits == /\ CertList /\ h.votes # <<>>
                   /\ LET vs == h.votes IN
                      Forge([h EXCEPT !.cvotes = [n \in DOMAIN vs |-> [v |-> vs[n].v, ci |-> vs[n].ci, cs |-> vs[n].cs, cd |-> vs[n].cd, pb |-> vs[n].pb,
                                                                      j |-> vs[n].j, sb |-> vs[n].sb, sr |-> vs[n].sr, si |-> vs[n].si, bk |-> vs[n].bk, ls |-> 1]]])
\* certificate votes produced against the WRONG look-back set: list indices and stakes of the stake look-back set
CFromStakeSet == /\ CertList /\ h.cvotes # <<>>
                 /\ LET cs == h.cvotes IN
                    Forge([h EXCEPT !.cvotes = [n \in DOMAIN cs |-> IF Member(F, cs[n].v)
                                                   THEN [cs[n] EXCEPT !.ls = 2, !.j = Max0(F.seat[cs[n].v][ThIdx(F, h.declC)][cs[n].ci][StepCert][3])]
                                                   ELSE cs[n]]])
\* the certificate look-back header of the chain declares another CertValThreshold; the voters adapt or keep their claims
DeclareC == \E T \in ThSet \ {h.declC}, adapt \in BOOLEAN :
          LET cs == h.cvotes
              adapted == [n \in DOMAIN cs |-> IF Member(F, cs[n].v)
                                                THEN [cs[n] EXCEPT !.j = Max0(F.cseat[cs[n].v][ThIdx(F, T)][h.vidx][StepCert][3])] ELSE cs[n]] IN
          /\ F.certRound
          /\ Forge([h EXCEPT !.declC = T, !.cvotes = IF adapt THEN adapted ELSE cs])
CCorruptAgg == \E a \in {"flip", "unrelated"} : CertList /\ h.cagg = "ok" /\ Forge([h EXCEPT !.cagg = a])
\* no Certificate field at all / an empty certificate list / another round index inside the Certificate field
CChooseVoters == \E S \in SUBSET OnlineChamber(F.cvals) :
          /\ CertList /\ S # {}
          /\ Forge([h EXCEPT !.cvotes = [n \in 1..Cardinality(S) |-> HonestCert(Nth(S, n), h.declC, h.vidx)]])
COmit == CertList /\ Forge([h EXCEPT !.cf = "absent"])
CEmpty == CertList /\ h.cvotes # <<>> /\ Forge([h EXCEPT !.cvotes = <<>>])
SetCfIdx == CertList /\ Forge([h EXCEPT !.cfidx = OtherIdx(h.cfidx)])
\* plain rounds: header.Certificate is not consulted, whatever it contains
JunkCert == \E c \in {"junk", "absent"} : ~F.certRound /\ h.cf = "std" /\ Forge([h EXCEPT !.cf = c])

NextCert == \/ CDrop \/ CDup \/ CRepeat \/ CChooseVoters \/ CAdd \/ CAlterCred \/ CReplaySet \/ CInflate \/ CInflateMax \/ CResign \/ CFromPrecommits \/ CFromStakeSet
            \/ DeclareC \/ CCorruptAgg \/ COmit \/ CEmpty \/ SetCfIdx \/ JunkCert
NextPre == \/ Drop \/ Dup \/ Repeat \/ ChooseVoters \/ ResignRetired \/ LookBackGone \/ CurrentSetHeader \/ CurrentSetVotes \/ Add \/ AlterCred \/ Inflate \/ InflateMax \/ Resign \/ ReplaySet \/ ResignSet \/ Reorder \/ CorruptAgg
           \/ DeclareV \/ DeclareP \/ SetVidx \/ SetPidx
           \/ SwapProposer \/ BadPriority \/ PropInflate \/ PropAlter
Next == NextCert \/ (Side = "all" /\ NextPre)
Spec == Init /\ [][Next]_vars

\* ---------------------------------------------------------------- M: design |= property, up to the named deviations
Unexplained == { f \in Fail(F, h, Dev) : FailSig(f) \notin Dev }
UnexplainedAC == { f \in FailAC(F, h, Dev) : FailSig(f) \notin Dev }
Cex(fs) == PrintT("@@J " \o ToJson([kind |-> "CEX", h |-> h, fail |-> fs])) /\ FALSE
Safe == /\ CodeAcceptsCore(F, h) => (Unexplained = {} \/ Cex(Unexplained))
        /\ CodeAcceptsAC(F, h) => (UnexplainedAC = {} \/ Cex(UnexplainedAC))
\* sanity of the two layers: an entitled header that the forger did not damage is accepted
HonestAccepted == (h.d = 0) => (CodeAccepts(F, h) /\ Entitled(F, h) /\ (F.certRound => (CodeAcceptsAC(F, h) /\ AcEntitled(F, h))))
\* the property layer alone: whatever is entitled has no failing clause
EntitledNoFail == /\ Entitled(F, h) <=> (Fail(F, h, Dev) = {})
                  /\ F.certRound => (AcEntitled(F, h) <=> (FailAC(F, h, Dev) = {}))

\* ---------------------------------------------------------------- G1
Tempting == TemptingX(VX(F, h, "pre")) /\ (F.certRound => (h.cf = "list" /\ TemptingX(VX(F, h, "cert"))))
\* a cheap structural hash of a description (TLC has no hash function): only used to thin out the printed bulk
PH(x) == (SumSeq([n \in DOMAIN x.votes |-> (n + 1) * (x.votes[n].j + 3 * x.votes[n].v + 5 * x.votes[n].ci + 7 * x.votes[n].cs + 11 * x.votes[n].sb + x.votes[n].si)])
          + SumSeq([n \in DOMAIN x.votes |-> 13 * x.votes[n].bk])
          + SumSeq([n \in DOMAIN x.cvotes |-> (n + 2) * (x.cvotes[n].j + 3 * x.cvotes[n].v + 5 * x.cvotes[n].ci + 7 * x.cvotes[n].cs + 11 * x.cvotes[n].sb + x.cvotes[n].ls)])
          + 17 * x.lb + x.declV + 3 * x.declP + 5 * x.declC + x.pidx + 2 * x.vidx + x.prop.j + 3 * x.prop.p + Len(x.votes) + 2 * Len(x.cvotes)) % 8
Printed == Sample = 8 \/ h.d <= 1 \/ ~Tempting \/ CodeAcceptsCore(F, h) \/ CodeAcceptsAC(F, h) \/ PH(h) = Sample
Leaf == (GenMode = "all" /\ Printed) =>
          PrintT("@@J " \o ToJson([kind |-> "B", h |-> h, ca |-> CodeAcceptsCore(F, h), en |-> Entitled(F, h), tp |-> Tempting,
                                   cac |-> CodeAcceptsAC(F, h), enac |-> (F.certRound /\ AcEntitled(F, h)),
                                   cl |-> Present(F, VX(F, h, "pre")) \cup { "p:" \o c : c \in PLab(F, h) }
                                          \cup (IF F.certRound THEN { "c:" \o c : c \in Present(F, VX(F, h, "cert")) } \cup {"c:" \o h.cf} ELSE {h.cf})]))
=============================================================================
