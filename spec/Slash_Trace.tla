---------------------------- MODULE Slash_Trace ----------------------------
(***************************************************************************)
(* Conformance of the real staking module to the design layer of           *)
(* Slash.tla (drift measure, never a verdict): every recorded block is     *)
(* re-executed as the model action Block with the logged evidence cases;   *)
(* the model's state before must equal the logged projection before, and   *)
(* the model's three results (builder, raw replay, import) must equal the  *)
(* logged projections after -- i.e. which evidences were accepted and the  *)
(* exact integer arithmetic of takePenalty -- together with the slashing   *)
(* logs and the length of the builder's pending list.                      *)
(* The penalty fraction is a constant of Slash.tla: the run for Frac = f   *)
(* checks the behaviours recorded with fraction f and skips the others.    *)
(***************************************************************************)
EXTENDS Slash

TraceLog == ndJsonDeserialize("trace.ndjson")
VARIABLE l
tvars == <<vars, l>>

IsEvent(name) == l <= Len(TraceLog) /\ TraceLog[l].ev = name /\ l' = l + 1

\* logged projection -> model vocabulary
ConvVal(j) == [token |-> j.token, stake |-> j.stake, selfToken |-> j.selfToken, selfStake |-> j.selfStake, ro |-> j.ro,
               status |-> j.status, expelled |-> j.expelled, expelExp |-> j.expelExp, exists |-> j.exists,
               dl |-> [i \in DOMAIN j.dl |-> [d |-> j.dl[i][1], token |-> j.dl[i][2], stake |-> j.dl[i][3]]]]
\* withdraw records whose balance a penalty took to zero are finished and discarded by a later end-of-block phase
\* (processWithdrawQueue), which is outside this model: queues are compared without them
Live(q) == SelectSeq(q, LAMBDA r : r.fin > 0 /\ r.done = 0)
ConvProj(p) == [vals |-> [v \in DOMAIN p.vals |-> ConvVal(p.vals[v])],
                wq |-> Live([i \in DOMAIN p.wq |-> [v |-> p.wq[i][1], d |-> p.wq[i][2], fin |-> p.wq[i][3], done |-> p.wq[i][4], ch |-> p.wq[i][6]]]),
                pen |-> p.pen]
LiveProj(p) == [p EXCEPT !.wq = Live(@)]
ConvCase(c, e) == [signer |-> c.signer, idx |-> c.idx, kind |-> c.kind, roff |-> c.round - (e.parent - e.k), ri |-> c.ri,
                   pairs |-> [i \in DOMAIN c.pairs |-> [src |-> c.pairs[i].src, h |-> c.pairs[i].h]], target |-> c.target]
ConvLogs(lg) == [i \in DOMAIN lg |-> [val |-> lg[i].val, total |-> lg[i].total]]

TReset == /\ (IsEvent("reset") \/ IsEvent("abort"))
          /\ vals' = InitVals /\ wq' = InitWq /\ pen' = 0 /\ k' = 0 /\ pending' = <<>>
          /\ last' = [kk |-> -1] /\ all' = <<>> /\ hist' = <<>>

TSkip == /\ IsEvent("Block") /\ TraceLog[l].frac # Frac
         /\ UNCHANGED vars

TBlock == /\ IsEvent("Block")
          /\ LET e == TraceLog[l] IN
             /\ e.frac = Frac
             /\ "panic" \notin DOMAIN e /\ "rawErr" \notin DOMAIN e /\ e.impErr = ""
             /\ k = e.k /\ e.parent = Parent0 + e.k
             \* the model's own state carried from the previous block equals the logged one (first block: the fixture state)
             /\ [vals |-> vals, wq |-> Live(wq), pen |-> pen] = ConvProj(e.pre)
             /\ Block([i \in DOMAIN e.new |-> ConvCase(e.new[i], e)])
             /\ LiveProj(last'.seal) = ConvProj(e.seal)
             /\ LiveProj(last'.raw) = ConvProj(e.raw)
             /\ LiveProj(last'.imp) = ConvProj(e.imp)
             /\ last'.logs = ConvLogs(e.sealLogs)
             /\ last'.rawLogs = ConvLogs(e.rawLogs)
             /\ Len(pending') = e.pending

TInit == Init /\ l = 1 /\ TLCSet(1, 0)
TNext == TReset \/ TSkip \/ TBlock
TSpec == TInit /\ [][TNext]_tvars

HighWater == /\ TLCSet(1, IF TLCGet(1) < l THEN l ELSE TLCGet(1))
             /\ ((l = Len(TraceLog) + 1) => PrintT("@@J " \o ToJson([kind |-> "ACCEPTED", events |-> Len(TraceLog)])))
Accepted == IF TLCGet(1) = Len(TraceLog) + 1 THEN TRUE
            ELSE PrintT("@@J " \o ToJson([kind |-> "REJECTED", line |-> TLCGet(1), event |-> TraceLog[TLCGet(1)]]))
=============================================================================
