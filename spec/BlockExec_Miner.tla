-------------------------- MODULE BlockExec_Miner --------------------------
(***************************************************************************)
(* C06, miner layer of the BlockExec design model: the orchestration of    *)
(* miner/worker.go where it differs from a hand-rolled builder.            *)
(*                                                                         *)
(*   Submit      core.TxPool admission (validateTx): nonce not below the   *)
(*               state nonce, cost affordable BY ITSELF, gas limit within  *)
(*               the block gas limit; executable = gapless from the state  *)
(*               nonce (pending), the rest is queued                       *)
(*   StartBlock  commitNewWork: ProcessYouVersionState / makeCurrent /     *)
(*               txs := pool.Pending(); NewTransactionsByPriceAndNonce     *)
(*   Step        one iteration of commitTransactions: stop when the gas    *)
(*               pool is below TxGas; Peek = head of the account whose     *)
(*               head pays the best price (ties: any -- the heap is built  *)
(*               from a Go map); commitTransaction = Snapshot,             *)
(*               ApplyTransaction, on error RevertToSnapshot; then         *)
(*               ErrGasLimitReached -> Pop, ErrNonceTooLow -> Shift,       *)
(*               ErrNonceTooHigh -> Pop, nil -> tcount++ / Shift, any      *)
(*               other error -> Shift                                      *)
(*   Seal        EndBlock(isSeal=true), FinalizeAndAssemble, Seal,         *)
(*               WriteBlockWithState (header := included txs, gas used,    *)
(*               digest of the state); pool reset                          *)
(*   Import      Process on the independent chain: every included          *)
(*               transaction must apply; ValidateState compares            *)
(*                                                                         *)
(* Switches (TRUE = as coded): RevertOnFailure (RevertToSnapshot after a   *)
(* failed transaction), ReceiptOnlyOnSuccess, PoolCreditOnce (the gas pool *)
(* gets the unused gas of a rejected message back exactly once).  With a   *)
(* switch FALSE TLC must find a counterexample: the properties depend on   *)
(* the mechanism.                                                          *)
(*                                                                         *)
(* Property layer: BuilderAccepted; MinerIncludesOnlyExecutable (a         *)
(* transaction the miner dropped as failed leaves no trace in the block's  *)
(* state: re-executing only the included transactions on the parent state  *)
(* gives the sealed state, and every account's nonce advanced by exactly   *)
(* the number of its included transactions).                               *)
(***************************************************************************)
EXTENDS Integers, Sequences, FiniteSets, TLC, Json

CONSTANTS Accts, MaxSubmit, MaxBlocks, BlockGas, Funds, RevertOnFailure, ReceiptOnlyOnSuccess,
          PoolCreditOnce,   \* TRUE as coded: after a rejected message the gas pool gets the unused gas back once (refundGas)
          Kinds, Prices,    \* the submitted transaction kinds and gas prices (subsets keep directed runs small)
          GenMode

TxGas == 1                     \* intrinsic gas of every transaction (gas is counted in units)
Other(a) == CHOOSE b \in Accts : b # a
Min(a, b) == IF a < b THEN a ELSE b

VARIABLES sa, sb,      \* committed state of the miner's chain A and of the importing chain B: [nonce, bal]
          pool,        \* transactions in the pool: set of [a, n, p, g, k, x] ((a, n) is unique)
          nid, n,      \* number of submissions so far + 1, number of the block under construction
          phase,       \* "submit" | "mining" | "sealed" | "done"
          heap,        \* while mining: per account the sequence of its pending transactions still to be tried
          gp,          \* the block's gas pool
          work,        \* w.current.state
          incl, rcpts, \* w.current.txs, number of receipts appended
          hdr, ok, subs, hist
vars == <<sa, sb, pool, nid, n, phase, heap, gp, work, incl, rcpts, hdr, ok, subs, hist>>

S0 == [nonce |-> [a \in Accts |-> 0], bal |-> [a \in Accts |-> Funds]]

\* ---------------------------------------------------------------- the pool
PendNonce(a) == LET ns == { t.n : t \in { u \in pool : u.a = a } } IN
                LET RECURSIVE Up(_)
                    Up(k) == IF k \in ns THEN Up(k + 1) ELSE k IN Up(sa.nonce[a])
\* kinds: "transfer" (moves x), "drain" (moves all but 1 of the balance the sender has NOW), "biggas" (a staking message
\* that fails in its handler: included, burns its whole gas limit), "gap" (a transfer one nonce ahead), "widegas" (a
\* transfer whose gas limit is the block's: it needs the whole gas pool to start and uses TxGas)
Submit ==
   /\ phase = "submit" /\ Cardinality(pool) < MaxSubmit /\ nid <= 2 * MaxSubmit
   /\ \E a \in Accts, k \in Kinds, p \in Prices :
        \* gas LIMIT classes: exact (TxGas), ample ("ample": a transfer with twice the gas it needs), the block's ("widegas")
        LET g  == IF k \in {"biggas", "ample"} THEN 2 ELSE IF k = "widegas" THEN BlockGas ELSE TxGas
            \* "drain" leaves the sender 2: enough to buy the gas of an ample follower, not enough for what that moves
            x  == IF k = "drain" THEN sa.bal[a] - 2 - g * p ELSE 1
            nn == PendNonce(a) + (IF k = "gap" THEN 1 ELSE 0)
            t  == [a |-> a, n |-> nn, p |-> p, g |-> g, k |-> k, x |-> IF x < 0 THEN 0 ELSE x] IN
        /\ sa.bal[a] >= t.g * t.p + t.x                       \* validateTx: affordable by itself
        /\ t.g <= BlockGas
        /\ pool' = pool \cup {t}
        \* the driver's amounts: a drained sender keeps 60000 LU (the gas of an ample follower, not the 30000 LU that moves)
        /\ subs' = Append(subs, [k |-> k, a |-> a, b |-> Other(a), v |-> "g1",
                                 x |-> IF k = "drain" THEN 60000 ELSE IF k = "ample" THEN 30000 ELSE 1,
                                 p |-> p, f |-> 0, c |-> 0, r |-> 0])
   /\ nid' = nid + 1
   /\ UNCHANGED <<sa, sb, n, phase, heap, gp, work, incl, rcpts, hdr, ok, hist>>

\* pool.Pending(): per account the gapless run from the state nonce, by nonce
RECURSIVE Run(_, _)
Run(a, k) == IF \E t \in pool : t.a = a /\ t.n = k
             THEN <<CHOOSE t \in pool : t.a = a /\ t.n = k>> \o Run(a, k + 1) ELSE <<>>
StartBlock ==
   /\ phase = "submit"
   /\ heap' = [a \in Accts |-> Run(a, sa.nonce[a])]
   /\ gp' = BlockGas /\ work' = sa /\ incl' = <<>> /\ rcpts' = 0
   /\ phase' = "mining"
   /\ UNCHANGED <<sa, sb, pool, nid, n, hdr, ok, subs, hist>>

\* ---------------------------------------------------------------- applying one transaction (shared by miner and importer)
\* result: [err, s (state after, including what a failed execution leaves behind), gas (gas used), gpl (gas taken from the pool)]
Apply(s, t, g) ==
   IF s.nonce[t.a] > t.n THEN [err |-> "low", s |-> s, gas |-> 0, gpl |-> 0]
   ELSE IF s.nonce[t.a] < t.n THEN [err |-> "high", s |-> s, gas |-> 0, gpl |-> 0]
   ELSE IF s.bal[t.a] < t.g * t.p THEN [err |-> "nogas", s |-> s, gas |-> 0, gpl |-> 0]       \* buyGas
   ELSE IF g < t.g THEN [err |-> "gaslimit", s |-> s, gas |-> 0, gpl |-> 0]                    \* GasPool.SubGas
   ELSE LET s1 == [s EXCEPT !.bal[t.a] = @ - t.g * t.p, !.nonce[t.a] = @ + 1] IN              \* gas bought, nonce bumped
        IF t.k = "biggas" THEN [err |-> "", s |-> s1, gas |-> t.g, gpl |-> t.g]               \* handler fails: all gas used
        ELSE IF s1.bal[t.a] < t.x
             \* the EVM refuses the transfer: a consensus error AFTER the state was touched; refundGas has returned the
             \* unused gas to the sender and to the pool, the intrinsic gas stays taken from the pool
             \* (a pool that were credited the bought gas once more on top of that would end up ABOVE where it started)
             THEN [err |-> "nofunds", s |-> [s1 EXCEPT !.bal[t.a] = @ + (t.g - TxGas) * t.p], gas |-> 0,
                   gpl |-> IF PoolCreditOnce THEN TxGas ELSE TxGas - t.g]
             ELSE [err |-> "", s |-> [s1 EXCEPT !.bal[t.a] = @ - t.x + (t.g - TxGas) * t.p, !.bal[Other(t.a)] = @ + t.x],
                   gas |-> TxGas, gpl |-> TxGas]

Heads == { a \in Accts : heap[a] # <<>> }
Best  == { a \in Heads : \A b \in Heads : Head(heap[a]).p >= Head(heap[b]).p }

Step ==
   /\ phase = "mining" /\ gp >= TxGas /\ Heads # {}
   /\ \E a \in Best :
        LET t == Head(heap[a])
            r == Apply(work, t, gp) IN
        /\ work'  = IF r.err = "" THEN r.s ELSE IF RevertOnFailure THEN work ELSE r.s
        /\ gp'    = gp - r.gpl
        /\ incl'  = IF r.err = "" THEN Append(incl, t) ELSE incl
        /\ rcpts' = IF r.err = "" \/ ~ReceiptOnlyOnSuccess THEN rcpts + 1 ELSE rcpts
        /\ heap'  = [heap EXCEPT ![a] = IF r.err \in {"gaslimit", "high"} THEN <<>> ELSE Tail(@)]   \* Pop / Shift
   /\ UNCHANGED <<sa, sb, pool, nid, n, phase, hdr, ok, subs, hist>>

\* EndBlock(isSeal=true) + FinalizeAndAssemble + Seal + WriteBlockWithState + pool reset
Seal ==
   /\ phase = "mining" /\ (gp < TxGas \/ Heads = {})
   /\ hdr' = [n |-> n, txs |-> incl, nrcpt |-> rcpts + 1, digest |-> work, parent |-> sa]
   /\ sa' = work
   \* reset: included and stale transactions leave the pool, transactions that became unaffordable are dropped
   /\ pool' = { t \in pool : t.n >= work.nonce[t.a] /\ work.bal[t.a] >= t.g * t.p + t.x }
   /\ phase' = "sealed"
   /\ UNCHANGED <<sb, nid, n, heap, gp, work, incl, rcpts, ok, subs, hist>>

RECURSIVE Replay(_, _, _)
Replay(s, q, g) == IF q = <<>> THEN [ok |-> TRUE, s |-> s]
                   ELSE LET r == Apply(s, Head(q), g) IN
                        IF r.err # "" THEN [ok |-> FALSE, s |-> s] ELSE Replay(r.s, Tail(q), g - r.gpl)
Import ==
   /\ phase = "sealed"
   /\ LET r == Replay(sb, hdr.txs, BlockGas) IN
      /\ sb' = IF r.ok THEN r.s ELSE sb
      /\ ok' = (ok /\ r.ok /\ r.s = hdr.digest /\ hdr.nrcpt = Len(hdr.txs) + 1)      \* Process + ValidateState
   /\ hist' = Append(hist, [cb |-> "g1", txs |-> subs])
   /\ subs' = <<>>
   /\ n' = n + 1
   /\ phase' = IF n = MaxBlocks THEN "done" ELSE "submit"
   /\ UNCHANGED <<sa, pool, nid, heap, gp, work, incl, rcpts, hdr>>

Init == /\ sa = S0 /\ sb = S0 /\ pool = {} /\ nid = 1 /\ n = 1 /\ phase = "submit" /\ heap = [a \in Accts |-> <<>>]
        /\ gp = 0 /\ work = S0 /\ incl = <<>> /\ rcpts = 0
        /\ hdr = [n |-> 0, txs |-> <<>>, nrcpt |-> 1, digest |-> S0, parent |-> S0] /\ ok = TRUE /\ subs = <<>> /\ hist = <<>>
Next == Submit \/ StartBlock \/ Step \/ Seal \/ Import
Spec == Init /\ [][Next]_vars

\* ---------------------------------------------------------------- property layer
Cex(name) == PrintT("@@J " \o ToJson([kind |-> "CEX", clause |-> name, h |-> Append(hist, [cb |-> "g1", txs |-> subs])])) /\ FALSE
BuilderAccepted == ok \/ Cex("BuilderAccepted")
CountOf(a, q) == Cardinality({ i \in DOMAIN q : q[i].a = a })
MinerIncludesOnlyExecutable ==
   (phase = "sealed") =>
      \/ /\ LET r == Replay(hdr.parent, hdr.txs, BlockGas) IN r.ok /\ r.s = hdr.digest
         /\ \A a \in Accts : hdr.digest.nonce[a] = hdr.parent.nonce[a] + CountOf(a, hdr.txs)
      \/ Cex("MinerIncludesOnlyExecutable")

Leaf == (GenMode = "leaf" /\ phase = "done") => PrintT("@@J " \o ToJson([kind |-> "B", h |-> hist]))
View == <<sa, sb, pool, n, phase, heap, gp, work, incl, rcpts, hdr, ok>>
=============================================================================
