SPECIFICATION Spec
CONSTANTS
  Accts = {1}
  Vals = {1}
  MaxOps = 8
  Rich = FALSE
  ClearValRevs = TRUE
  GenMode = "none"
INVARIANT RevertNeverFails
PROPERTY RevertRestores
VIEW View
CHECK_DEADLOCK FALSE
