----------------------------- MODULE EvmFrames -----------------------------
(***************************************************************************)
(* C16 -- call frames of the EVM (core/vm/evm.go Call, CallCode,           *)
(* DelegateCall, StaticCall, create; interpreter.go readOnly enforcement;  *)
(* instructions.go opCall*, opCreate*, opSuicide; core/evm.go Transfer).   *)
(*                                                                         *)
(* A program is a tree of frames, written as a balanced token sequence:    *)
(*    CALL(kind, to, val, gas) ... END(how)     a message call and the code*)
(*                                              it runs at the callee      *)
(*    CREATE(kind, val) ... END(how)            a creation and its init    *)
(*                                              code                       *)
(*    SSTORE(slot, val) | LOG | XFER(to, val)   effects of the running     *)
(*                                              frame (XFER = value call   *)
(*                                              to an account without code)*)
(*    PRE(kind, to, val, gas, inp)              a call of a precompiled    *)
(*                                              contract: succeeds (good   *)
(*                                              input, enough gas; only a  *)
(*                                              CALL's value moves) or     *)
(*                                              fails (nothing moves, the  *)
(*                                              forwarded gas is burnt)    *)
(*    RECREATE(ref, val)                        CREATE2 with the salt and   *)
(*                                              init code of the CREATE2 at*)
(*                                              token ref: the address is  *)
(*                                              taken (collision)          *)
(*    DEEP                                      calls the self-recursive   *)
(*                                              contract R: the call at    *)
(*                                              depth 1025 is refused, its *)
(*                                              caller records that in     *)
(*                                              R.1 and all frames return  *)
(*    BALOP(of, ar)                             reads a balance (SELFBALANCE*)
(*                                              / BALANCE) and computes    *)
(*                                              with it: changes nothing   *)
(* The first token is the transaction's call from the origin account.      *)
(*                                                                         *)
(* Design layer (implementation shaped): a frame stack; entering a frame   *)
(* takes a snapshot of the world BEFORE the value transfer (evm.go takes   *)
(* StateDB.Snapshot() before Transfer); a frame that ends in an error or   *)
(* REVERT puts the snapshot back (RevertToSnapshot); an error other than   *)
(* REVERT burns the frame's gas; the readOnly flag is inherited by every   *)
(* frame below a STATICCALL and turns SSTORE, LOG, CREATE, SELFDESTRUCT    *)
(* and CALL-with-value into errors of the executing frame; CALLCODE checks *)
(* the caller's balance but moves nothing; SELFDESTRUCT credits the        *)
(* beneficiary and zeroes the account (value sent to itself is burnt; the  *)
(* account is deleted when the transaction is finalised).  Gas is abstract:*)
(* a call forwards 63/64 of the caller's gas (gas = "all") or exactly one  *)
(* unit (gas = "one": the callee's first instruction is out of gas);       *)
(* lvl counts how many times a frame's gas was cut to 1/64 by a burning    *)
(* callee, so that generated programs stay within the concrete gas limit   *)
(* (GasAmple).  As coded in this repository, CREATE (not CREATE2) forwards *)
(* ALL gas: when its init code burns it, the creating frame is left with   *)
(* zero gas and fails at its next instruction (doomed).                    *)
(*                                                                         *)
(* Property layer: ValueConserved, StaticChangesNothing,                   *)
(* FailedFrameLeavesNoTrace, NonNegative -- stated over the world, the     *)
(* snapshots of the open frames and the list `out` of finished frames.     *)
(*                                                                         *)
(* The same module is used for (M) exhaustive checking over all programs   *)
(* of a tiny library, (G) generation of programs together with the world   *)
(* the model predicts (printed as JSON at the leaves), and the prediction  *)
(* is compared with the real EVM by EvmFrames_Mon (WorldEqualsModel).      *)
(***************************************************************************)
EXTENDS Integers, Sequences, FiniteSets, TLC, Json

CONSTANTS Contracts,   \* accounts with code, e.g. {"A", "B"}
          Plain,       \* accounts without code ("E" exists with balance 1; any other one does not exist initially)
          MaxDepth,    \* frames nested below the transaction's frame
          MaxOps,      \* operations per frame
          MaxTokens,   \* bound on the length of a program
          Alphabet,    \* "tiny" | "small" | "rich"
          MaxLvl,      \* GasAmple: a frame's gas is cut to 1/64 at most this many times
          GenMode      \* "none" | "leaf"

VARIABLES prog,    \* the program (token sequence); fixed once mode = "run"
          mode,    \* "build" | "run" | "done"
          open,    \* builder: number of operations of every frame still open
          pc,      \* next token to execute
          world,   \* balances, storage, code, logs, created / self-destructed sets, burnt value
          fs,      \* frame stack; fs[1] is the origin's pseudo frame
          out      \* finished call / create sites in order of completion: [site, res]
vars == <<prog, mode, open, pc, world, fs, out>>

Origin  == "O"
KName(i) == "K" \o ToString(i)                       \* the account created by the CREATE token at index i
Created == { KName(i) : i \in 1..MaxTokens }
\* precompiled contracts 0x01..0x08 (ecrecover, sha256, ripemd160, identity, modexp, bn256 add / mul / pairing): accounts
\* that do not exist initially; only the rich alphabet and hand-written programs call them
Pre     == IF Alphabet = "rich" THEN {"P1", "P2", "P3", "P4", "P5", "P6", "P7", "P8"} ELSE {}
Rec     == IF Alphabet = "rich" THEN {"R"} ELSE {}        \* the self-recursive helper contract of DEEP
Names   == {Origin} \cup Contracts \cup Plain \cup Created \cup Pre \cup Rec
Slots   == {1, 2}
Min(a, b) == IF a < b THEN a ELSE b

InitBal(a) == IF a = Origin THEN 5 ELSE IF a \in Contracts THEN 2 ELSE IF a = "E" THEN 1 ELSE 0
InitExists(a) == a = Origin \/ a \in Contracts \/ a = "E" \/ a = "R"
\* contracts start with storage from earlier transactions: A.1 = 3, B.2 = 3, C.1 = C.2 = 3 (the driver commits it, or has
\* part of it written by an earlier, finalised transaction of the same block)
InitSto(a, s) == IF (a = "A" /\ s = 1) \/ (a = "B" /\ s = 2) \/ a = "C" THEN 3 ELSE 0
World0 == [bal   |-> [a \in Names |-> InitBal(a)],
           sto   |-> [a \in Names |-> [s \in Slots |-> IF a \in Contracts THEN InitSto(a, s) ELSE 0]],
           code  |-> [a \in Names |-> IF a \in Contracts THEN "own" ELSE IF a = "R" THEN "rec" ELSE ""],
           by    |-> [a \in Names |-> ""],     \* who created the account (CREATE2 addresses depend on the creator)
           logs  |-> <<>>,
           made  |-> {},          \* accounts created in this transaction
           dead  |-> {},          \* accounts that self-destructed in this transaction
           burnt |-> 0]           \* value destroyed by self-destruct-to-self

RECURSIVE SumBal(_, _)
SumBal(b, S) == IF S = {} THEN 0 ELSE LET a == CHOOSE v \in S : TRUE IN b[a] + SumBal(b, S \ {a})
Total(w) == SumBal(w.bal, Names)

---------------------------------------------------------------------------
(* Alphabets *)
\* calls of precompiled contracts; "bad" input only where the precompile rejects input (the bn256 operations);
\* gas = "one" only without value (as for message calls)
PreToks == { [t |-> "PRE", kind |-> k, to |-> a, val |-> v, gas |-> g, inp |-> i] :
                k \in {"CALL", "CALLCODE", "DELEGATECALL", "STATICCALL"}, a \in Pre, v \in {0, 1}, g \in {"all", "one"},
                i \in {"good", "bad"} }
PreTokOK(p) == /\ (p.kind \in {"DELEGATECALL", "STATICCALL"} => p.val = 0)
               /\ (p.gas = "one" => p.val = 0)
               /\ (p.inp = "bad" => p.to \in {"P6", "P7", "P8"})
\* every precompile needs more than one unit of gas for the inputs the driver uses
PreSucceeds(p) == p.gas = "all" /\ p.inp = "good"

Vals == IF Alphabet = "tiny" THEN {0, 1} ELSE {0, 1, 2, 3}      \* 0 clears a slot, 3 is the value the slots start with
SimpleToks ==
   { [t |-> "SSTORE", slot |-> s, val |-> v] : s \in (IF Alphabet = "tiny" THEN {1} ELSE Slots), v \in Vals }
   \cup { [t |-> "LOG"] }
   \cup { [t |-> "XFER", to |-> a, val |-> v] : a \in Plain, v \in (IF Alphabet = "rich" THEN {0, 1, 2} ELSE {1}) }
   \cup (IF Alphabet = "tiny" THEN {} ELSE { [t |-> "BALOP", of |-> a, ar |-> r] : a \in {"SELF", "A"}, r \in {"ADD", "MUL", "POP"} })
   \cup (IF Alphabet = "rich" THEN { [t |-> "DEEP"] } ELSE {})
   \cup { p \in PreToks : PreTokOK(p) /\ p.to \in {"P1", "P4", "P6", "P8"} /\ p.gas = "all" }     \* a representative subset
CallKinds == IF Alphabet = "tiny" THEN {"CALL", "STATICCALL", "DELEGATECALL"}
             ELSE {"CALL", "CALLCODE", "DELEGATECALL", "STATICCALL"}
\* gas = "one" only without value (with value the 2300 stipend would let the callee run a little)
CallToks ==
   { [t |-> "CALL", kind |-> k, to |-> a, val |-> v, gas |-> g] :
        k \in CallKinds, a \in Contracts, v \in {0, 1}, g \in {"all", "one"} }
CallOK(c) == /\ (c.kind \in {"DELEGATECALL", "STATICCALL"} => c.val = 0)
             /\ (c.gas = "one" => c.val = 0 /\ Alphabet # "tiny")
CreateToks == IF Alphabet = "tiny" THEN { [t |-> "CREATE", kind |-> "CREATE", val |-> 1] }
              ELSE { [t |-> "CREATE", kind |-> k, val |-> v] : k \in {"CREATE", "CREATE2"}, v \in {0, 1} }
\* RETMAX / RETOVER: RETURN of exactly the maximum code size (24576 bytes) / of more: as the end of init code the first
\* is accepted, the second makes the creation fail; as the end of a message call both are plain returns
EndHows == IF Alphabet = "tiny" THEN {"STOP", "REVERT", "INVALID"}
           ELSE IF Alphabet = "rich" THEN {"STOP", "RETURN", "REVERT", "INVALID", "OOG", "RETMAX", "RETOVER"}
           ELSE {"STOP", "RETURN", "REVERT", "INVALID", "OOG"}
Bens == IF Alphabet = "tiny" THEN {"SELF", "E"} ELSE {"SELF"} \cup Plain \cup Contracts
EndToks == { [t |-> "END", how |-> h] : h \in EndHows } \cup { [t |-> "END", how |-> "SELFDESTRUCT", ben |-> b] : b \in Bens }

Opens(tk) == tk.t \in {"CALL", "CREATE"}

---------------------------------------------------------------------------
(* Building a program (every balanced token sequence within the bounds) *)
Init == /\ prog = <<>> /\ mode = "build" /\ open = <<>> /\ pc = 0
        /\ world = World0 /\ fs = <<>> /\ out = <<>>

Room == Len(prog) + Len(open) < MaxTokens        \* every open frame still needs its END

BStart == /\ mode = "build" /\ prog = <<>>
          /\ \E a \in Contracts, v \in {0, 1} :
                prog' = <<[t |-> "CALL", kind |-> "CALL", to |-> a, val |-> v, gas |-> "all"]>>
          /\ open' = <<0>>
          /\ UNCHANGED <<mode, pc, world, fs, out>>

BSimple == /\ mode = "build" /\ open # <<>> /\ open[Len(open)] < MaxOps /\ Room
           /\ \E tk \in SimpleToks : prog' = Append(prog, tk)
           /\ open' = [open EXCEPT ![Len(open)] = @ + 1]
           /\ UNCHANGED <<mode, pc, world, fs, out>>

BOpen == /\ mode = "build" /\ open # <<>> /\ open[Len(open)] < MaxOps /\ Len(open) <= MaxDepth
         /\ Len(prog) + Len(open) + 1 < MaxTokens
         /\ \E tk \in { c \in CallToks : CallOK(c) } \cup CreateToks : prog' = Append(prog, tk)
         /\ open' = Append([open EXCEPT ![Len(open)] = @ + 1], 0)
         /\ UNCHANGED <<mode, pc, world, fs, out>>

RootFrame == [site |-> 0, ctx |-> Origin, static |-> FALSE, snap |-> World0, kind |-> "ROOT", lvl |-> 0, doomed |-> FALSE]

BEnd == /\ mode = "build" /\ open # <<>>
        /\ \E tk \in EndToks : prog' = Append(prog, tk)
        /\ open' = SubSeq(open, 1, Len(open) - 1)
        /\ IF Len(open) = 1
           THEN mode' = "run" /\ pc' = 1 /\ fs' = <<RootFrame>>
           ELSE UNCHANGED <<mode, pc, fs>>
        /\ UNCHANGED <<world, out>>

---------------------------------------------------------------------------
(* Executing it *)
Top == fs[Len(fs)]

\* index of the END that closes the frame whose body continues at i (d = nesting of frames opened since)
RECURSIVE EndOf(_, _)
EndOf(i, d) == IF prog[i].t = "END" THEN (IF d = 0 THEN i ELSE EndOf(i + 1, d - 1))
               ELSE IF Opens(prog[i]) THEN EndOf(i + 1, d + 1)
               ELSE EndOf(i + 1, d)

Pay(w, from, to, v) == [w EXCEPT !.bal[from] = @ - v, !.bal[to] = @ + v]

Goto(i) == /\ pc' = i
           /\ mode' = IF i > Len(prog) THEN "done" ELSE mode

\* the running frame ends: res = "ok" (w = the world it leaves), "revert" / "fail" (w = its entry snapshot)
Exit(res, w, next) ==
   LET f    == Top
       rest == SubSeq(fs, 1, Len(fs) - 1)
       p    == rest[Len(rest)]
       burn == res = "fail"
       nl   == IF f.kind = "CREATE" THEN (IF burn THEN p.lvl ELSE f.lvl)      \* CREATE forwards everything
               ELSE IF burn THEN p.lvl + 1 ELSE Min(p.lvl + 1, f.lvl)
   IN  /\ world' = w
       /\ out' = Append(out, [site |-> f.site, res |-> res])
       /\ fs' = [rest EXCEPT ![Len(rest)] = [p EXCEPT !.lvl = nl, !.doomed = (burn /\ f.kind = "CREATE")]]
       /\ Goto(next)

\* an error inside the running frame (write protection, no gas left): everything up to its END is skipped
Fail == Exit("fail", Top.snap, EndOf(pc, 0) + 1)

\* a call / create that is refused before a frame exists (insufficient balance), or whose callee starves at once
NotEntered(res) == /\ out' = Append(out, [site |-> pc, res |-> res])
                   /\ Goto(EndOf(pc + 1, 0) + 1)
                   /\ UNCHANGED <<world, fs>>

Enter(f, w) == /\ fs' = Append(fs, f) /\ world' = w /\ Goto(pc + 1) /\ UNCHANGED out

Step(w) == /\ world' = w /\ Goto(pc + 1) /\ UNCHANGED <<fs, out>>
Xfer(res, w) == /\ world' = w /\ out' = Append(out, [site |-> pc, res |-> res]) /\ Goto(pc + 1) /\ UNCHANGED fs
\* a precompile that fails: nothing changes, the caller loses the gas it forwarded (63/64 of what it had for gas = "all")
PreFail(burn) == /\ out' = Append(out, [site |-> pc, res |-> "fail"]) /\ Goto(pc + 1) /\ UNCHANGED world
                 /\ fs' = IF burn THEN [fs EXCEPT ![Len(fs)].lvl = @ + 1] ELSE fs

Exec ==
   /\ mode = "run"
   /\ UNCHANGED <<prog, open>>
   /\ LET tk == prog[pc]
          f  == Top
      IN
      IF f.doomed THEN Fail
      ELSE CASE tk.t = "SSTORE" ->
                  IF f.static THEN Fail ELSE Step([world EXCEPT !.sto[f.ctx][tk.slot] = tk.val])
             [] tk.t = "LOG" ->
                  IF f.static THEN Fail ELSE Step([world EXCEPT !.logs = Append(@, <<f.ctx, pc>>)])
             [] tk.t = "XFER" ->
                  IF f.static /\ tk.val > 0 THEN Fail
                  ELSE IF tk.val > world.bal[f.ctx] THEN Xfer("nofunds", world)   \* refused, the frame goes on
                  ELSE Xfer("ok", Pay(world, f.ctx, tk.to, tk.val))
             [] tk.t = "BALOP" -> Step(world)
             [] tk.t = "DEEP" ->
                  \* beneath a STATICCALL the deepest frame's SSTORE is refused, that frame fails, and so does every frame
                  \* above it in R: the call into R fails and burns what was forwarded
                  IF f.static THEN PreFail(TRUE) ELSE Xfer("ok", [world EXCEPT !.sto["R"][1] = 1])
             [] tk.t = "RECREATE" ->
                  IF f.static THEN Fail
                  ELSE IF tk.val > world.bal[f.ctx] THEN Xfer("nofunds", world)
                  ELSE IF KName(tk.ref) \in world.made /\ world.by[KName(tk.ref)] = f.ctx
                       THEN PreFail(TRUE)          \* the address is taken: nothing happens, the forwarded gas is gone
                       ELSE mode' = "skip" /\ UNCHANGED <<pc, world, fs, out>>   \* the init code would run again: not modelled
             [] tk.t = "PRE" ->
                  IF f.static /\ tk.kind = "CALL" /\ tk.val > 0 THEN Fail
                  ELSE IF tk.kind \in {"CALL", "CALLCODE"} /\ tk.val > world.bal[f.ctx] THEN Xfer("nofunds", world)
                  ELSE IF PreSucceeds(tk)
                       THEN Xfer("ok", IF tk.kind = "CALL" THEN Pay(world, f.ctx, tk.to, tk.val) ELSE world)
                       ELSE PreFail(tk.gas = "all")
             [] tk.t = "CALL" ->
                  IF f.static /\ tk.kind = "CALL" /\ tk.val > 0 THEN Fail
                  ELSE IF tk.kind \in {"CALL", "CALLCODE"} /\ tk.val > world.bal[f.ctx] THEN NotEntered("nofunds")
                  ELSE IF tk.gas = "one" THEN NotEntered("fail")
                  ELSE Enter([site |-> pc,
                              ctx |-> IF tk.kind \in {"CALL", "STATICCALL"} THEN tk.to ELSE f.ctx,
                              static |-> f.static \/ tk.kind = "STATICCALL",
                              snap |-> world, kind |-> tk.kind, lvl |-> f.lvl, doomed |-> FALSE],
                             IF tk.kind = "CALL" THEN Pay(world, f.ctx, tk.to, tk.val) ELSE world)
             [] tk.t = "CREATE" ->
                  IF f.static THEN Fail
                  ELSE IF tk.val > world.bal[f.ctx] THEN NotEntered("nofunds")
                  ELSE Enter([site |-> pc, ctx |-> KName(pc), static |-> FALSE, snap |-> world, kind |-> tk.kind,
                              lvl |-> f.lvl, doomed |-> FALSE],
                             Pay([world EXCEPT !.made = @ \cup {KName(pc)}, !.by[KName(pc)] = f.ctx], f.ctx, KName(pc), tk.val))
             [] tk.t = "END" ->
                  LET init == f.kind \in {"CREATE", "CREATE2"} IN
                  CASE tk.how = "STOP"   -> Exit("ok", world, pc + 1)
                    [] tk.how = "RETURN" -> Exit("ok", IF init THEN [world EXCEPT !.code[f.ctx] = "rt"] ELSE world, pc + 1)
                    [] tk.how = "RETMAX" -> Exit("ok", IF init THEN [world EXCEPT !.code[f.ctx] = "big"] ELSE world, pc + 1)
                    [] tk.how = "RETOVER" -> IF init THEN Exit("fail", f.snap, pc + 1) ELSE Exit("ok", world, pc + 1)
                    [] tk.how = "REVERT" -> Exit("revert", f.snap, pc + 1)
                    [] tk.how \in {"INVALID", "OOG"} -> Exit("fail", f.snap, pc + 1)
                    [] tk.how = "SELFDESTRUCT" ->
                         IF f.static THEN Exit("fail", f.snap, pc + 1)
                         ELSE LET b   == IF tk.ben = "SELF" THEN f.ctx ELSE tk.ben
                                  amt == world.bal[f.ctx]
                                  w1  == [world EXCEPT !.bal[b] = @ + amt]
                              IN  Exit("ok", [w1 EXCEPT !.bal[f.ctx] = 0, !.dead = @ \cup {f.ctx},
                                                        !.burnt = @ + (IF b = f.ctx THEN amt ELSE 0)], pc + 1)

\* hand-written programs (one JSON object {"prog": [...]} per line of the file) are executed without the builder
GivenProgs(file) == ndJsonDeserialize(file)
InitGiven == /\ \E i \in DOMAIN GivenProgs("given.ndjson") : prog = GivenProgs("given.ndjson")[i].prog
             /\ mode = "run" /\ open = <<>> /\ pc = 1 /\ world = World0 /\ fs = <<RootFrame>> /\ out = <<>>

Next == BStart \/ BSimple \/ BOpen \/ BEnd \/ Exec
Spec == Init /\ [][Next]_vars

\* generated programs keep every frame's gas above what its operations need
GasAmple == \A i \in DOMAIN fs : fs[i].lvl <= MaxLvl

---------------------------------------------------------------------------
(* What the model predicts for the finished transaction (after Finalise:   *)
(* self-destructed accounts are deleted, with whatever they still held)    *)
Used == {Origin} \cup Contracts \cup Plain \cup { KName(i) : i \in { n \in DOMAIN prog : prog[n].t = "CREATE" } }
        \cup { prog[n].to : n \in { k \in DOMAIN prog : prog[k].t = "PRE" } }
        \cup (IF \E n \in DOMAIN prog : prog[n].t = "DEEP" THEN {"R"} ELSE {})
Gone(a) == a \in world.dead
Final == [bal  |-> [a \in Used |-> IF Gone(a) THEN 0 ELSE world.bal[a]],
          sto  |-> [a \in Used |-> IF Gone(a) THEN <<0, 0>> ELSE <<world.sto[a][1], world.sto[a][2]>>],
          code |-> [a \in Used |-> IF Gone(a) THEN "" ELSE world.code[a]],
          ex   |-> [a \in Used |-> ~Gone(a) /\ (InitExists(a) \/ a \in world.made \/ world.bal[a] > 0)],
          logs |-> [i \in DOMAIN world.logs |-> <<world.logs[i][1], world.logs[i][2]>>],
          frames |-> out]

Leaf == (GenMode = "leaf" /\ mode = "done") =>
           PrintT("@@J " \o ToJson([kind |-> "B", h |-> [prog |-> prog, exp |-> Final]]))

---------------------------------------------------------------------------
(* Property layer *)
\* "the total of all balances is unchanged by execution except for self-destructed accounts' burnt value"
ValueConserved == Total(world) + world.burnt = Total(World0)
NonNegative    == \A a \in Names : world.bal[a] >= 0
\* "a static call and everything beneath it changes nothing": while a static frame is open the world is the one
\* its outermost static ancestor was entered with
StaticChangesNothing ==
   \A i \in DOMAIN fs : (fs[i].static /\ (i = 1 \/ ~fs[i - 1].static)) => world = fs[i].snap
\* "a call frame that ends in an error or revert leaves [the world] exactly as [it was] before the frame"
FailedFrameLeavesNoTrace ==
   [][ (Len(out') > Len(out) /\ out'[Len(out')].res # "ok")
          => world' = (IF Len(fs') < Len(fs) THEN Top.snap ELSE world) ]_vars
\* logs and created accounts of a failed frame disappear with it; those of finished successful frames stay
LogsFromLiveFrames == \A i \in DOMAIN world.logs : world.logs[i][2] < pc
TypeOK == /\ mode \in {"build", "run", "done", "skip"}
          /\ (mode # "build" => pc \in 1..(Len(prog) + 1) /\ Len(fs) >= 1)
          /\ world.dead \subseteq Names /\ world.made \subseteq Created
=============================================================================
