------------------------------- MODULE DlComp -------------------------------
(***************************************************************************)
(* C18 -- the components of a block in the download queue (queue.go): in   *)
(* fast and light synchronisation every block has two parts, the body and  *)
(* the receipts, fetched independently; the result container is created by *)
(* whichever reservation comes first with Pending = number of parts, every *)
(* accepted delivery of a part decrements it, Results hands a block out    *)
(* when Pending <= 0.  Headers are queued by Schedule (a batch: body tasks,*)
(* plus receipt tasks in fast/light mode) or, in light mode, one by one by *)
(* ScheduleSingle (always both tasks).                                     *)
(*                                                                         *)
(* Property: "only with a transaction list that matches the header's       *)
(* transaction root" -- a block is handed out only when every part that    *)
(* was queued for it has arrived and matched (a missing part is an empty   *)
(* list, which does not match a non-empty root).                           *)
(***************************************************************************)
EXTENDS Integers, Sequences, FiniteSets, TLC, Json

CONSTANTS N,          \* headers 1..N, all with transactions and receipts
          SyncMode,   \* "full" | "fast" | "light"
          MaxOps, GenMode

VARIABLES entry,      \* how the headers were queued: "none" | "batch" | "single"
          nsched,     \* headers queued so far
          b, r,       \* per header, body / receipts part: "-" (no task) | "q" (queued) | "f" (in flight) | "d" (arrived and matched)
          alloc, pending,  \* result container per header
          offset, delivered, nops, hist
vars == <<entry, nsched, b, r, alloc, pending, offset, delivered, nops, hist>>

H == 1..N
Two == SyncMode \in {"fast", "light"}                 \* `q.mode == FastSync || q.mode == LightSync`
Components == IF Two THEN 2 ELSE 1

Init == /\ entry = "none" /\ nsched = 0 /\ b = [h \in H |-> "-"] /\ r = [h \in H |-> "-"]
        /\ alloc = [h \in H |-> FALSE] /\ pending = [h \in H |-> 0] /\ offset = 0 /\ delivered = <<>> /\ nops = 0
        /\ hist = <<[op |-> "Init", n |-> N, mode |-> SyncMode]>>
Tick(rec) == nops < MaxOps /\ nops' = nops + 1 /\ hist' = Append(hist, rec)

ScheduleBatch ==
   /\ entry = "none"
   /\ Tick([op |-> "Schedule"])
   /\ entry' = "batch" /\ nsched' = N
   /\ b' = [h \in H |-> "q"] /\ r' = [h \in H |-> IF Two THEN "q" ELSE "-"]
   /\ UNCHANGED <<alloc, pending, offset, delivered>>

ScheduleSingle ==
   /\ SyncMode = "light" /\ entry \in {"none", "single"} /\ nsched < N
   /\ Tick([op |-> "ScheduleSingle", h |-> nsched + 1])
   /\ entry' = "single" /\ nsched' = nsched + 1
   /\ b' = [b EXCEPT ![nsched + 1] = "q"] /\ r' = [r EXCEPT ![nsched + 1] = "q"]
   /\ UNCHANGED <<alloc, pending, offset, delivered>>

\* a reservation of every queued task of one kind by one peer (one peer per kind: bodies from "pb", receipts from "pr")
Reserve(kind) ==
   LET part == IF kind = "body" THEN b ELSE r
       Q == { h \in H : part[h] = "q" } IN
   /\ Q # {} /\ \A h \in H : part[h] # "f"
   /\ Tick([op |-> "Reserve", kind |-> kind])
   /\ alloc' = [h \in H |-> alloc[h] \/ h \in Q]
   /\ pending' = [h \in H |-> IF h \in Q /\ ~alloc[h] THEN Components ELSE pending[h]]
   /\ IF kind = "body" THEN b' = [h \in H |-> IF h \in Q THEN "f" ELSE b[h]] /\ r' = r
                       ELSE r' = [h \in H |-> IF h \in Q THEN "f" ELSE r[h]] /\ b' = b
   /\ UNCHANGED <<entry, nsched, offset, delivered>>

Deliver(kind) ==
   LET part == IF kind = "body" THEN b ELSE r
       F == { h \in H : part[h] = "f" } IN
   /\ F # {}
   /\ Tick([op |-> "Deliver", kind |-> kind])
   /\ pending' = [h \in H |-> IF h \in F THEN pending[h] - 1 ELSE pending[h]]
   /\ IF kind = "body" THEN b' = [h \in H |-> IF h \in F THEN "d" ELSE b[h]] /\ r' = r
                       ELSE r' = [h \in H |-> IF h \in F THEN "d" ELSE r[h]] /\ b' = b
   /\ UNCHANGED <<entry, nsched, alloc, offset, delivered>>

RECURSIVE Ready(_)
Ready(i) == IF offset + i > N \/ ~alloc[offset + i] \/ pending[offset + i] > 0 THEN i - 1 ELSE Ready(i + 1)
Results ==
   /\ Ready(1) > 0
   /\ Tick([op |-> "Results"])
   /\ delivered' = delivered \o [i \in 1..Ready(1) |-> [h |-> offset + i, tx |-> b[offset + i], rc |-> r[offset + i]]]
   /\ offset' = offset + Ready(1)
   /\ UNCHANGED <<entry, nsched, b, r, alloc, pending>>

Next == ScheduleBatch \/ ScheduleSingle \/ Results \/ \E k \in {"body", "receipts"} : Reserve(k) \/ Deliver(k)
Spec == Init /\ [][Next]_vars

\* every part that was queued for a block has arrived when the block is handed out
ComponentsMatched == \A i \in DOMAIN delivered : delivered[i].tx \in {"-", "d"} /\ delivered[i].rc \in {"-", "d"}
InOrder == \A i \in DOMAIN delivered : delivered[i].h = i

Leaf == (GenMode = "leaf" /\ (nops = MaxOps \/ Len(delivered) = N)) => PrintT("@@J " \o ToJson([kind |-> "B", h |-> hist]))
View == <<entry, nsched, b, r, alloc, pending, offset, delivered, nops>>
=============================================================================
