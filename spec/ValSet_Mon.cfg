SPECIFICATION Spec
CONSTANTS
  Unit = 10
CONSTRAINT Done
VIEW MonView
CHECK_DEADLOCK FALSE
