-------------------------- MODULE StateCommit_Mon --------------------------
(***************************************************************************)
(* C10 property-layer monitor over traces recorded from the real StateDB.  *)
(* The statement is an equivalence between runs of the real code, so the   *)
(* monitor compares DUMPS of real objects with each other (it never uses   *)
(* the design model's prediction).  A dump is the tuple                    *)
(*   <<accounts, validators, statistics, index, queue, records,            *)
(*     relations, error>>                                                  *)
(* read through getters (`live`, `re`, `orig`, `copy`, `fz`, `enddumps`)   *)
(* or by enumerating the three tries of the reopened state (`raw`).        *)
(*                                                                         *)
(*  ReopenEqualsLive     "After a commit, reopening the state from the     *)
(*      three returned roots yields the same accounts, storage, code,      *)
(*      validators, statistics, withdraw queue and staking records as the  *)
(*      live object" -- live = reopened (getters) = reopened (enumerated), *)
(*      all readable, and the reopened state has the returned roots.       *)
(*      The same across a restart ("committing and reopening loses         *)
(*      nothing"): once the committed roots are flushed to disk            *)
(*      (TrieDB().Commit, as WriteBlockWithState does), state.New over a   *)
(*      FRESH state.Database on the same disk shows the dump the live      *)
(*      object showed at that commit (`disk`, `diskraw` at Flush; `live`,  *)
(*      `raw` at Restart).                                                 *)
(*  CopyEqualsOriginal   "a copy of a state is equal to ... the original"  *)
(*  CopyIndependent      "... and independent of the original": an object  *)
(*      nobody writes to (the copy while the original is written, or the   *)
(*      original while the copy is written) keeps showing the dump it      *)
(*      showed when the copy was taken.                                    *)
(*  SameContentSameRoots "Two states with the same content have the same   *)
(*      roots regardless of the order or grouping in which the content was *)
(*      written": across ALL behaviours of the run, every root triple is   *)
(*      filed under the dump of the object it was computed on; a second    *)
(*      object with an equal dump must have equal roots.  (The generator   *)
(*      enumerates every operation sequence up to a depth, hence every     *)
(*      permutation/regrouping of independent writes and every choice of   *)
(*      root/commit/copy points.)                                          *)
(*  Readable             an operation or a dump panicked.                  *)
(***************************************************************************)
EXTENDS Integers, Sequences, FiniteSets, TLC, Json

TraceLog == ndJsonDeserialize("trace.ndjson")

VARIABLES l,
          seenT,   \* tag (the content the model says was WRITTEN) -> <<roots, line, tags>> : first root triple computed under it
          seen,    \* dump -> <<roots, line, tags>> : first root triple computed on an object showing that dump
          frozen,  \* dumps the frozen objects of the current behaviour showed when they were frozen
          unc,     \* operation kinds since the last commit of the current behaviour
          taint,   \* the behaviour continues on an object that already failed a clause (consequences are tagged)
          txopen,  \* writes since the last transaction boundary (Finalise / root computation) of the main object
          mtag,    \* class tags of the main object ("midtx": it descends from a copy taken inside a transaction;
                   \* "copied": it is a copy, not yet reopened)
          ftags,   \* class tags of the frozen objects
          chist,   \* live dumps at the Commits / Reloads made through the current Database, oldest first
          clive,   \* <<live dump of the last Commit / Reload / Restart of the main object>> or <<>>
          flive,   \* <<live dump at the commit whose roots were flushed last>> or <<>>
          viol, fired
vars == <<l, seenT, seen, frozen, unc, taint, txopen, mtag, ftags, chist, clive, flive, viol, fired>>

Comp == <<"accounts", "validators", "stat", "index", "queue", "records", "relations", "error">>
Err(d) == d[8] # ""
Diff(d1, d2) == IF Err(d1) \/ Err(d2) THEN {"error"} ELSE { Comp[k] : k \in { j \in 1..7 : d1[j] # d2[j] } }
RootNames == <<"stateRoot", "valRoot", "stakingRoot">>
RootDiff(r1, r2) == { RootNames[k] : k \in { j \in 1..3 : r1[j] # r2[j] } }

Tags == (IF taint THEN {"tainted"} ELSE {})
        \cup (IF unc \cap {"Delegate"} # {} THEN {"unc:Delegate"} ELSE {})
        \cup mtag

Fresh(cands) == { c \in cands : ~\E x \in viol : x[1] = c[1] /\ x[2] = c[2] }

\* ---- clauses: each returns a set of candidate violations <<clause, discriminator, line, otherLine>>
Blind(e) == "blind" \in DOMAIN e
\* the placeholder for an object frozen at a blind step (no dump was taken)
BlindDump == << <<>>, <<>>, <<>>, <<>>, <<>>, <<>>, <<>>, "blind" >>
\* a copy committed without ever having been read (blind CopySwap + blind Reload): what the state reopened from the copy's roots
\* shows against what the original shows
BlindCopy(e) ==
   IF e.ev = "Reload" /\ Blind(e) /\ "orig" \in DOMAIN e
   THEN LET d == Diff(e.orig, e.re) \cup { "enum:" \o x : x \in Diff(e.orig, e.raw) } IN
        (IF d = {} THEN {} ELSE { <<"CopyEqualsOriginal", d \cup {"blind"} \cup Tags, l, 0>> })
        \cup (IF e.reroots # e.roots THEN { <<"ReopenEqualsLive", {"roots", "blind"} \cup Tags, l, 0>> } ELSE {})
   ELSE {}

Reopen(e) ==
   IF e.ev \notin {"Commit", "Reload"} \/ Blind(e) THEN {}
   ELSE LET d == Diff(e.live, e.re) \cup { "enum:" \o x : x \in Diff(e.live, e.raw) }
                 \cup (IF e.reroots # e.roots THEN {"roots"} ELSE {}) IN
        IF d = {} THEN {} ELSE { <<"ReopenEqualsLive", d \cup Tags, l, 0>> }

\* the flushed roots read from the disk alone
DiskReopen(e) ==
   IF e.ev = "Flush" /\ clive # <<>> /\ ~Err(clive[1])
   THEN LET d == { "disk:" \o x : x \in Diff(clive[1], e.disk) } \cup { "diskenum:" \o x : x \in Diff(clive[1], e.diskraw) } IN
        IF d = {} THEN {} ELSE { <<"ReopenEqualsLive", d \cup Tags, l, 0>> }
   ELSE IF e.ev = "Restart" /\ flive # <<>> /\ ~Err(flive[1])
   THEN LET d == { "disk:" \o x : x \in Diff(flive[1], e.live) } \cup { "diskenum:" \o x : x \in Diff(flive[1], e.raw) } IN
        IF d = {} THEN {} ELSE { <<"ReopenEqualsLive", d \cup Tags, l, 0>> }
   ELSE {}

\* an EARLIER committed root triple reopened through the same Database after the live object has gone on: the dump recorded at
\* THAT commit, and the reopened state re-hashes to the roots it was opened from
OldReopen(e) ==
   IF e.ev = "ReloadOld" /\ "re" \in DOMAIN e /\ e.args.d <= Len(chist) /\ ~Err(chist[Len(chist) - e.args.d + 1])
   THEN LET c == chist[Len(chist) - e.args.d + 1]
            d == { "old:" \o x : x \in Diff(c, e.re) } \cup { "oldenum:" \o x : x \in Diff(c, e.raw) }
                   \cup (IF e.reroots # e.roots THEN {"old:roots"} ELSE {}) IN
        IF d = {} THEN {} ELSE { <<"ReopenEqualsLive", d \cup Tags, l, 0>> }
   ELSE {}

CopyEq(e) ==
   IF e.ev \notin {"Copy", "CopySwap"} \/ Blind(e) THEN {}
   ELSE LET d == Diff(e.orig, e.copy) IN
        IF d = {} THEN {} ELSE { <<"CopyEqualsOriginal", d \cup Tags, l, 0>> }

\* frozen objects: e.fz[k] (after an operation) / e.enddumps[k+1] (at the end) against frozen[k]
Indep(e) ==
   LET cur == IF "fz" \in DOMAIN e THEN e.fz ELSE <<>>
       \* the frozen object written by AddRecordOther legitimately changes (its new dump is remembered); the others must not
       skip == IF e.ev = "AddRecordOther" THEN {Len(frozen)} ELSE {}
       K == { k \in DOMAIN cur : k \in DOMAIN frozen /\ k \notin skip /\ ~Err(frozen[k]) /\ cur[k] # frozen[k] } IN
   { <<"CopyIndependent", Diff(frozen[k], cur[k]) \cup {e.ev} \cup Tags, l, 0>> : k \in K }
   \cup (IF e.ev = "AddRecordOther" /\ "main" \in DOMAIN e /\ e.main # e.mainpre
         THEN { <<"CopyIndependent", Diff(e.mainpre, e.main) \cup {e.ev, "main"} \cup Tags, l, 0>> } ELSE {})

\* root observations of event e: set of <<dump, roots, class tags of the object>>
MainTags == mtag \cup (IF taint THEN {"tainted"} ELSE {})
ObjTags(k) == IF k = 1 THEN MainTags ELSE IF (k - 1) \in DOMAIN ftags THEN ftags[k - 1] ELSE {}
RootObs(e) ==
   (IF e.ev = "Reload" /\ Blind(e) THEN { <<e.re, e.roots, MainTags>> } ELSE {})
   \cup (IF e.ev \in {"Root", "Commit", "Reload"} /\ "live" \in DOMAIN e THEN ({ <<e.live, e.roots, MainTags>> } \cup (IF "pre" \in DOMAIN e THEN { <<e.pre, e.roots, MainTags>> } ELSE {})) ELSE {})
   \* (the dump taken BEFORE the root computation is content too: what was written is what the getters showed then)
   \cup (IF "endpre" \in DOMAIN e THEN { <<e.endpre[k], e.endroots[k], ObjTags(k)>> : k \in DOMAIN e.endroots } ELSE {})
   \cup (IF "endroots" \in DOMAIN e THEN { <<e.enddumps[k], e.endroots[k], ObjTags(k)>> : k \in DOMAIN e.endroots } ELSE {})
Usable(e) == { o \in RootObs(e) : ~Err(o[1]) }

SameRoots(e) ==
   { <<"SameContentSameRoots", RootDiff(seen[o[1]][1], o[2]) \cup o[3] \cup seen[o[1]][3], l, seen[o[1]][2]>> :
        o \in { p \in Usable(e) : p[1] \in DOMAIN seen /\ seen[p[1]][1] # p[2] } }

\* the same clause with the content AS WRITTEN as the key: the generator tags every root computation with the content the model
\* says has been written; two real objects written with the same content must have the same real roots, whatever they show
TagObs(e) == IF e.ev \in {"Root", "Commit", "Reload"} /\ "roots" \in DOMAIN e /\ "tag" \in DOMAIN e.args /\ e.args.tag # ""
             THEN { <<e.args.tag, e.roots, MainTags>> } ELSE {}
SameRootsT(e) ==
   { <<"SameContentSameRoots", RootDiff(seenT[o[1]][1], o[2]) \cup {"written"} \cup o[3] \cup seenT[o[1]][3], l, seenT[o[1]][2]>> :
        o \in { p \in TagObs(e) : p[1] \in DOMAIN seenT /\ seenT[p[1]][1] # p[2] } }

ZeroFired == [TagObsN |-> 0, TagsCompared |-> 0, BlindCopies |-> 0, OldReopens |-> 0, BothSides |-> 0, DiskReopens |-> 0, Reopens |-> 0, CopyEqs |-> 0, Indeps |-> 0, RootObsN |-> 0, RootsCompared |-> 0, Failures |-> 0, Contents |-> 0]

Init == /\ l = 1 /\ seenT = <<>> /\ seen = <<>> /\ frozen = <<>> /\ unc = {} /\ taint = FALSE /\ txopen = FALSE /\ mtag = {} /\ ftags = <<>>
        /\ chist = <<>> /\ clive = <<>> /\ flive = <<>>
        /\ viol = {} /\ fired = ZeroFired

RECURSIVE AddAll(_, _)
AddAll(m, S) == IF S = {} THEN m
                ELSE LET o == CHOOSE x \in S : TRUE IN
                     AddAll(IF o[1] \in DOMAIN m THEN m ELSE m @@ (o[1] :> <<o[2], l, o[3]>>), S \ {o})

Step ==
   /\ l <= Len(TraceLog)
   /\ l' = l + 1
   /\ LET e == TraceLog[l] IN
      IF e.ev \in {"reset", "abort"}
      THEN /\ frozen' = <<>> /\ unc' = {} /\ taint' = FALSE /\ txopen' = FALSE /\ mtag' = {} /\ ftags' = <<>>
           /\ chist' = <<>> /\ clive' = <<>> /\ flive' = <<>>
           /\ UNCHANGED <<seenT, seen, viol, fired>>
      ELSE IF "panic" \in DOMAIN e
      THEN /\ viol' = viol \cup Fresh({ <<"Readable", {e.ev} \cup Tags, l, 0>> })
           /\ fired' = [fired EXCEPT !.Failures = @ + 1]
           /\ UNCHANGED <<seenT, seen, frozen, unc, taint, txopen, mtag, ftags, chist, clive, flive>>
      ELSE LET C == Reopen(e) \cup BlindCopy(e) \cup DiskReopen(e) \cup OldReopen(e) \cup CopyEq(e) \cup Indep(e) \cup SameRoots(e) \cup SameRootsT(e)
               U == Usable(e) IN
           /\ viol' = viol \cup Fresh(C)
           /\ seen' = AddAll(seen, U)
           /\ seenT' = AddAll(seenT, TagObs(e))
           /\ frozen' = CASE e.ev = "Copy" -> Append(frozen, e.copy)
                          [] e.ev = "CopySwap" /\ Blind(e) -> Append(frozen, BlindDump)
                          [] e.ev = "Reload" /\ Blind(e) /\ "orig" \in DOMAIN e /\ Len(frozen) > 0 -> [frozen EXCEPT ![Len(frozen)] = e.orig]
                          [] e.ev = "CopySwap" -> Append(frozen, e.orig)
                          [] e.ev = "AddRecordOther" /\ "fz" \in DOMAIN e /\ Len(frozen) > 0 /\ Len(e.fz) = Len(frozen)
                               -> [frozen EXCEPT ![Len(frozen)] = e.fz[Len(frozen)]]
                          [] OTHER -> frozen
           /\ clive' = IF e.ev = "Reload" /\ Blind(e) THEN <<e.re>> ELSE IF e.ev \in {"Commit", "Reload", "Restart"} THEN <<e.live>> ELSE clive
           /\ chist' = CASE e.ev = "Reload" /\ Blind(e) -> Append(chist, e.re)
                         [] e.ev \in {"Commit", "Reload"} -> Append(chist, e.live)
                         [] e.ev = "Restart" -> <<e.live>>
                         [] e.ev = "GC" /\ Len(chist) > 0 -> <<chist[Len(chist)]>>   \* collected roots cannot be reopened
                         [] OTHER -> chist
           /\ flive' = IF e.ev = "Flush" THEN clive ELSE flive
           /\ unc' = IF e.ev \in {"Commit", "Reload", "Restart"} THEN {} ELSE unc \cup {e.ev}
           /\ LET mid == IF txopen THEN {"midtx"} ELSE {} IN
              /\ ftags' = CASE e.ev = "Copy" -> Append(ftags, MainTags \cup mid \cup (IF CopyEq(e) # {} THEN {"tainted"} ELSE {}))
                             [] e.ev = "CopySwap" -> Append(ftags, MainTags)
                             [] OTHER -> ftags
              /\ mtag' = CASE e.ev = "CopySwap" -> mtag \cup mid \cup {"copied"}
                            [] e.ev \in {"Reload", "Restart"} -> mtag \ {"copied"}
                            [] OTHER -> mtag
           /\ txopen' = CASE e.ev \in {"Finalise", "Root", "Commit", "Reload", "CopySwap", "End", "Restart"} -> FALSE
                           [] e.ev \in {"Copy", "Flush", "GC", "ReloadOld", "AddRecordOther", "ReadRecord", "ReadComp"} -> txopen
                           [] OTHER -> TRUE
           /\ taint' = (taint \/ (e.ev = "CopySwap" /\ CopyEq(e) # {}) \/ Reopen(e) # {} \/ BlindCopy(e) # {} \/ DiskReopen(e) # {} \/ OldReopen(e) # {})
           /\ fired' = [fired EXCEPT !.TagObsN = @ + Cardinality(TagObs(e)),
                                     !.TagsCompared = @ + Cardinality({ o \in TagObs(e) : o[1] \in DOMAIN seenT }),
                                     !.BlindCopies = @ + (IF e.ev = "Reload" /\ Blind(e) /\ "orig" \in DOMAIN e THEN 1 ELSE 0),
                                     !.OldReopens = @ + (IF e.ev = "ReloadOld" /\ "re" \in DOMAIN e THEN 1 ELSE 0),
                                     !.BothSides = @ + (IF e.ev = "AddRecordOther" /\ "main" \in DOMAIN e THEN 1 ELSE 0),
                                     !.DiskReopens = @ + (IF (e.ev = "Flush" /\ clive # <<>>) \/ (e.ev = "Restart" /\ flive # <<>>) THEN 1 ELSE 0),
                                     !.Reopens = @ + (IF e.ev \in {"Commit", "Reload"} THEN 1 ELSE 0),
                                     !.CopyEqs = @ + (IF e.ev \in {"Copy", "CopySwap"} THEN 1 ELSE 0),
                                     !.Indeps = @ + (IF "fz" \in DOMAIN e THEN Len(e.fz) ELSE 0),
                                     !.RootObsN = @ + Cardinality(U),
                                     !.RootsCompared = @ + Cardinality({ o \in U : o[1] \in DOMAIN seen }),
                                     !.Failures = @ + Cardinality(C),
                                     !.Contents = Cardinality(DOMAIN seen')]

MonView == l
Spec == Init /\ [][Step]_vars

Done == (l = Len(TraceLog) + 1) =>
          PrintT("@@J " \o ToJson([kind |-> "RESULT", events |-> Len(TraceLog), viol |-> viol, fired |-> fired]))
=============================================================================
