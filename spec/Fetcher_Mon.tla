----------------------------- MODULE Fetcher_Mon -----------------------------
(***************************************************************************)
(* C18, announced-block route: property-layer monitor over the callbacks   *)
(* recorded from the real you/fetcher.Fetcher (verifyHeader, insertChain,  *)
(* broadcastBlock, dropPeer -- what the fetcher hands to the importer and  *)
(* to the network) and over snapshots of its per-peer counters.  It cannot *)
(* reject a trace.  The clauses only use the order "verify before insert / *)
(* broadcast of the same block", which the code fixes inside one goroutine.*)
(*                                                                         *)
(* Statement (C18): the scheduler "hands blocks to the importer ... each   *)
(* exactly once [FetcherImportedOnce], and only with a transaction list    *)
(* that matches the header's transaction root [FetcherBodyMatchesHeader];  *)
(* work taken by a peer that stalls, fails, lies or disconnects is handed  *)
(* to others, so the full range completes as long as some peer eventually  *)
(* answers honestly [FetcherCompletes, FetcherBoundedState: what misbehaving*)
(* peers leave behind is bounded and released]".  For this route "in order"*)
(* reads: only on top of a known parent [FetcherParentBeforeChild], and    *)
(* nothing is imported or broadcast that failed header verification        *)
(* [FetcherNoImportOfUnverified].                                          *)
(***************************************************************************)
EXTENDS Integers, Sequences, FiniteSets, TLC, Json

TraceLog == ndJsonDeserialize("trace.ndjson")

VARIABLES l, cfg, passed, failed, accepted, viol, fired
vars == <<l, cfg, passed, failed, accepted, viol, fired>>

Clauses == {"FetcherImportedOnce", "FetcherParentBeforeChild", "FetcherBodyMatchesHeader", "FetcherNoImportOfUnverified",
            "FetcherBoundedState", "FetcherCompletes", "NoPanic"}

SetOf(q) == { q[i] : i \in DOMAIN q }
AddViol(new) == viol \cup { v \in new : ~\E w \in viol : w[1] = v[1] /\ w[2] = v[2] }
Bump(cs) == [c \in Clauses |-> IF c \in cs THEN fired[c] + 1 ELSE fired[c]]

\* fold the callbacks of one event, in recorded order: state = [p: verified ok, f: verification failed, a: accepted, v: failures]
RECURSIVE Fold(_, _, _)
Fold(cb, i, st) ==
   IF i > Len(cb) THEN st
   ELSE LET c == cb[i] IN
     Fold(cb, i + 1,
        CASE c.k = "verify" -> IF c.pass THEN [st EXCEPT !.p = @ \cup {c.b}] ELSE [st EXCEPT !.f = @ \cup {c.b}]
          [] c.k = "insert" ->
               [st EXCEPT !.a = IF c.acc THEN @ \cup {c.b} ELSE @,
                          !.v = @ \cup (IF c.dup \/ (c.acc /\ c.b \in st.a) THEN {<<"FetcherImportedOnce", {"again"}>>} ELSE {})
                                  \cup (IF ~c.pk THEN {<<"FetcherParentBeforeChild", {"insert"}>>} ELSE {})
                                  \cup (IF ~c.ok THEN {<<"FetcherBodyMatchesHeader", {"insert"}>>} ELSE {})
                                  \cup (IF c.b \notin st.p \/ c.b = 0 THEN {<<"FetcherNoImportOfUnverified", {"insert"}>>} ELSE {})]
          [] c.k = "bcast" ->
               [st EXCEPT !.v = @ \cup (IF ~c.ok THEN {<<"FetcherBodyMatchesHeader", {"broadcast"}>>} ELSE {})
                                  \cup (IF c.b \notin st.p \/ c.b = 0 THEN {<<"FetcherNoImportOfUnverified", {"broadcast"}>>} ELSE {})]
          [] OTHER -> st)

\* the per-peer counters: within their limits, never negative, zero when the peer has nothing announced / fetching / queued
CounterFails(o) ==
   LET P == DOMAIN o.ann
       annOf(p) == o.junkA[p] + o.junkF[p] + Cardinality({ b \in DOMAIN o.fet : o.fet[b] = p })
                   + Cardinality({ <<b, i>> \in UNION { { <<b, i>> : i \in DOMAIN o.anns[b] } : b \in DOMAIN o.anns } : o.anns[b][i] = p })
       qOf(p) == Cardinality({ b \in DOMAIN o.qd : o.qd[b] = p })
   IN    { <<"FetcherBoundedState", {"announces", "over_limit"}>> : p \in { x \in P : o.ann[x] > cfg.hl } }
    \cup { <<"FetcherBoundedState", {"announces", "negative"}>> : p \in { x \in P : o.ann[x] < 0 } }
    \cup { <<"FetcherBoundedState", {"announces", "leak"}>> : p \in { x \in P : annOf(x) = 0 /\ o.ann[x] > 0 } }
    \cup { <<"FetcherBoundedState", {"queues", "over_limit"}>> : p \in { x \in P : o.qs[x] > cfg.bl } }
    \cup { <<"FetcherBoundedState", {"queues", "mismatch"}>> : p \in { x \in P : o.qs[x] # qOf(x) } }
    \cup (IF o.other # 0 THEN { <<"FetcherBoundedState", {"other", "leak"}>> } ELSE {})

Init == l = 1 /\ cfg = [n |-> 0, hl |-> 0, bl |-> 0] /\ passed = {} /\ failed = {} /\ accepted = {} /\ viol = {}
        /\ fired = [c \in Clauses |-> 0]

Step ==
   /\ l <= Len(TraceLog)
   /\ l' = l + 1
   /\ LET e == TraceLog[l] IN
      CASE e.ev \in {"reset", "abort"} ->
              /\ passed' = {} /\ failed' = {} /\ accepted' = {} /\ UNCHANGED <<cfg, viol, fired>>
        [] e.ev = "Panic" ->
              /\ viol' = AddViol({ <<"NoPanic", {"panic"}, l>> }) /\ fired' = Bump({"NoPanic"})
              /\ UNCHANGED <<cfg, passed, failed, accepted>>
        [] OTHER ->
              LET c == IF e.ev = "Init" THEN [n |-> e.args.n, hl |-> e.args.hl, bl |-> e.args.bl] ELSE cfg
                  f == Fold(e.cb, 1, [p |-> passed, f |-> failed, a |-> accepted, v |-> {}])
                  done == IF e.ev = "Complete" /\ ~((1..c.n) \subseteq SetOf(e.obs.known))
                          THEN { <<"FetcherCompletes", {"incomplete"}>> } ELSE {} IN
              /\ cfg' = c
              /\ passed' = f.p /\ failed' = f.f /\ accepted' = f.a
              /\ viol' = AddViol({ <<x[1], x[2], l>> : x \in f.v \cup done \cup (IF e.ev = "Init" THEN {} ELSE CounterFails(e.obs)) })
              /\ fired' = Bump((IF \E i \in DOMAIN e.cb : e.cb[i].k = "insert"
                                THEN {"FetcherImportedOnce", "FetcherParentBeforeChild", "FetcherBodyMatchesHeader", "FetcherNoImportOfUnverified"} ELSE {})
                               \cup (IF e.ev # "Init" THEN {"FetcherBoundedState"} ELSE {})
                               \cup (IF e.ev = "Complete" THEN {"FetcherCompletes"} ELSE {}))

Spec == Init /\ [][Step]_vars

Done == (l = Len(TraceLog) + 1) =>
          PrintT("@@J " \o ToJson([kind |-> "RESULT", events |-> Len(TraceLog), viol |-> viol, fired |-> fired]))
=============================================================================
