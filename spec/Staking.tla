------------------------------ MODULE Staking ------------------------------
(***************************************************************************)
(* C07 -- native tokens are conserved by transactions, staking, rewards    *)
(* and slashing (protocol version 5).                                      *)
(*                                                                         *)
(* Design layer (implementation shaped).  The state is a record of VALUE   *)
(* BUCKETS: account balances, per validator self stake / delegations /     *)
(* distributable rewards, the withdraw queue, pending (detained) staking   *)
(* transactions of the current period, the House reward pool, the global   *)
(* residue, the in-flight gas rewards of the block under construction      *)
(* (header.GasRewards) and `burnt`.  There is one action per PHASE of the  *)
(* real code and every phase is written as the code computes it (integer   *)
(* division with explicit residues, forced full withdrawals, forced        *)
(* settlement with the record read BEFORE the distribution, gas used taken *)
(* before the refund is returned, removal of a validator whose stake is    *)
(* zero):                                                                  *)
(*   Tx            core/state_processor.go ApplyMessageEntry, buyGas /     *)
(*                 refundGas, staking/handler.go, delegation_handler.go    *)
(*   RewardsToPool staking/endblock.go rewardsToPool + blockRewards        *)
(*   Inactivity    staking/slash_youv5.go slashingAndRecoveringYouV5       *)
(*   Distribute    endblock.go distributeRewards (+ settleValidatorRewards)*)
(*   WithdrawQueue endblock.go processWithdrawQueue                        *)
(*   TakeEffect    endblock.go processPendingTxs, take_effect_handler.go   *)
(*   Commit        statedb.go IntermediateRoot(deleteEmptyObjects)         *)
(* Three switches name the places where the code deviates from the ideal;  *)
(* TRUE = as coded, FALSE = repaired: StaleSettle, RefundAfterGasUsed,     *)
(* DropRemovedRewards.                                                     *)
(*                                                                         *)
(* Property layer: Conserved (Total is the same in every state, i.e. after *)
(* every phase) and the clause-level action properties.                    *)
(*                                                                         *)
(* The module is used for (M) exhaustive checking with small constants and *)
(* for (G) generation of histories (hist = sequence of blocks, each a      *)
(* coinbase and a sequence of abstract transactions) that the driver       *)
(* harness/drive/staking executes on the real chain fixture.               *)
(***************************************************************************)
EXTENDS Integers, Sequences, FiniteSets, TLC, Json

CONSTANTS Users,        \* delegators / plain senders, e.g. {"u1", "u2"}
          GenVals,      \* genesis validators: subset of {"g1", "g2", "g3"} (Chancellor, House, Senator; all online)
          NewVals,      \* validators that can be created by a transaction, e.g. {"n1"}
          Unit,         \* stake unit (LU per stake)
          Amts,         \* amounts used by staking transactions
          Period,       \* StakingTrieFrequency
          MaxBlocks,    \* length of a history
          MaxTx,        \* transactions per block
          MaxTxTotal,   \* transactions per history
          MRP,          \* MaxRewardsPeriod
          Fee,          \* fee of a transaction (the model's stand-in for gasUsed * price)
          Refund,       \* part of the fee of a storage-clearing call that is refunded
          Threshold,    \* SubsidyThreshold
          Wait,         \* InactivityPenaltyWaitRounds
          Delay,        \* WithdrawDelay
          StaleSettle, RefundAfterGasUsed, DropRemovedRewards,
          Alphabet,     \* "small" (M, G1) | "full" (G2)
          GenMode       \* "none" | "leaf"

VARIABLES s,        \* the value buckets (record, see InitS)
          n,        \* number of the block under construction
          phase,    \* "tx" | "rewards" | "inact" | "dist" | "wq" | "te" | "commit" | "done"
          cur,      \* transactions offered to the block under construction
          ntot,     \* transactions offered so far
          done,     \* validators settled so far in this end of period (forceSettled / rewardsSettled maps)
          cb,       \* proposer (coinbase) of the block under construction
          quota,    \* number of transactions the builder will offer to this block (generation device)
          hist      \* generated history
vars == <<s, n, phase, cur, ntot, done, cb, quota, hist>>

Vals  == GenVals \cup NewVals
Accts == Users \cup Vals \cup {"pool", "pen"}
Base  == 10000
Retention == Period
MinDeleg  == Unit

Role(v) == CASE v = "g1" -> 1 [] v = "g2" -> 3 [] v = "g3" -> 2 [] OTHER -> 0    \* 1 Chancellor, 2 Senator, 3 House
GenTok(v) == CASE v = "g1" -> 100 * Unit [] v = "g2" -> 50 * Unit + Unit \div 2 [] OTHER -> 30 * Unit
MinStake(r) == IF r = 3 THEN 1 ELSE 2
MinSelf(r)  == IF r = 3 THEN 0 ELSE 1
Ratio(r)    == IF r = 3 THEN 4 ELSE 3
MaxStake    == 150

RECURSIVE SumF(_, _)
SumF(f, S) == IF S = {} THEN 0 ELSE LET x == CHOOSE y \in S : TRUE IN f[x] + SumF(f, S \ {x})
SumSeq(q, F(_)) == LET g[i \in 0..Len(q)] == IF i = 0 THEN 0 ELSE g[i - 1] + F(q[i]) IN g[Len(q)]
Min(a, b) == IF a < b THEN a ELSE b

St(x) == x \div Unit
NoVal == [ex |-> FALSE, on |-> FALSE, self |-> 0, dl |-> [u \in Users |-> 0], rd |-> 0, ls |-> 0, role |-> 0,
          acc |-> FALSE, comm |-> 0, risk |-> 0, la |-> 0, expl |-> FALSE]
VTok(r)   == r.self + SumF(r.dl, Users)
VStake(r) == St(r.self) + SumF([u \in Users |-> St(r.dl[u])], Users)     \* a validator's stake is the SUM of the individual stakes

InitS == [bal   |-> [a \in Accts |-> IF a = "pool" THEN 1000 * Unit ELSE IF a = "pen" THEN 0 ELSE 100 * Fee + 1000 * Unit],
          val   |-> [v \in Vals |-> IF v \in GenVals
                                    THEN [NoVal EXCEPT !.ex = TRUE, !.on = TRUE, !.self = GenTok(v), !.role = Role(v)]
                                    ELSE NoVal],
          wq    |-> <<>>,      \* records [v, d, to, amt, fin (0/1), ch]
          pend  |-> <<>>,      \* pending transactions of the current period, in submission order
          rec   |-> [v \in Vals |-> 0], recd |-> [u \in Users |-> [v \in Vals |-> 0]],
          hpool |-> 0, res |-> 0, infl |-> 0, burnt |-> 0, slot |-> 0]

Detained(t) == IF t.k \in {"create", "deposit", "dadd"} THEN t.x ELSE 0
Total(b) == SumF(b.bal, Accts)
            + SumF([v \in Vals |-> VTok(b.val[v]) + b.val[v].rd], Vals)
            + SumSeq(b.wq, LAMBDA r : IF r.fin = 0 THEN r.amt ELSE 0)
            + SumSeq(b.pend, Detained)
            + b.hpool + b.res + b.infl + b.burnt

\* ================================================================ transactions
Tx(k, a, b, v, x, f, c) == [k |-> k, a |-> a, b |-> b, v |-> v, x |-> x, p |-> 1, f |-> f, c |-> c, r |-> c]

\* PendingValidatorExist: a staking record (0, v) exists -- every accepted transaction about v except a delegator's settle
PendFor(b, v)    == \E i \in DOMAIN b.pend : b.pend[i].v = v /\ b.pend[i].k # "dsettle"
PendCreate(b, v) == \E i \in DOMAIN b.pend : b.pend[i].v = v /\ b.pend[i].k = "create"

\* buyGas / refundGas / GasRewards: the sender pays fee - refund; as coded the rewards are computed from the gas used
\* BEFORE the refund is returned
PayFee(b, a, fee, rf) == [b EXCEPT !.bal[a] = @ - (fee - rf), !.infl = @ + (IF RefundAfterGasUsed THEN fee ELSE fee - rf)]

\* the pending handler accepts t (otherwise the transaction is included as failed and only costs its fee)
\* The pending handlers work on the VALUES of the staking records of the current period (statedb_staking.go
\* GetStakingRecordValue / AddStakingRecord): rec[v] is the final value of record (0, v) -- as coded it is the validator's
\* TOTAL token after a deposit or a delegation, but its SELF token minus the amount after a withdrawal -- and recd[d][v]
\* the final value of record (d, v); 0 means "no value yet", in which case the handler falls back to the validator record.
CurTotal(b, v) == IF b.rec[v] # 0 THEN b.rec[v] ELSE VTok(b.val[v])
CurSelf(b, v)  == IF b.rec[v] # 0 THEN b.rec[v] ELSE b.val[v].self
CurDlg(b, d, v) == IF b.recd[d][v] # 0 THEN b.recd[d][v] ELSE b.val[v].dl[d]
Accepts(b, t) ==
   LET r == b.val[t.v] IN
   CASE t.k = "create"  -> /\ t.v \in NewVals /\ t.a = t.v /\ ~r.ex /\ ~PendCreate(b, t.v)
                           /\ St(t.x) >= MinSelf(t.f) /\ St(t.x) <= MaxStake /\ b.bal[t.a] >= t.x
     [] t.k = "update"  -> r.ex /\ t.a = t.v /\ (r.acc # (t.f = 1) \/ r.comm # t.c \/ r.risk # t.r)
     [] t.k = "deposit" -> r.ex /\ t.a = t.v /\ t.x > 0 /\ b.bal[t.a] >= t.x /\ St(CurTotal(b, t.v) + t.x) <= MaxStake
     [] t.k = "withdraw"-> r.ex /\ t.a = t.v /\ t.x > 0 /\ t.x <= CurSelf(b, t.v)
     [] t.k = "status"  -> /\ r.ex /\ t.a = t.v /\ ~PendFor(b, t.v) /\ ~r.expl /\ r.on # (t.f = 1)
                           /\ (t.f = 1 => VStake(r) >= MinStake(r.role))
     [] t.k = "settle"  -> r.ex /\ t.a = t.v /\ r.on
     [] t.k = "dadd"    -> /\ r.ex /\ t.a \in Users /\ r.acc /\ ~r.expl /\ t.x >= MinDeleg /\ b.bal[t.a] >= t.x
                           /\ St(CurTotal(b, t.v) + t.x) <= MaxStake
     [] t.k = "dsub"    -> r.ex /\ t.a \in Users /\ t.x > 0 /\ CurDlg(b, t.a, t.v) > 0 /\ t.x <= CurDlg(b, t.a, t.v)
     [] t.k = "dsettle" -> r.ex /\ t.a \in Users /\ r.dl[t.a] > 0
     [] OTHER -> FALSE
\* what an accepted transaction writes into the record values
Record(b, t) ==
   CASE t.k = "create"   -> [b EXCEPT !.rec[t.v] = t.x]
     [] t.k = "deposit"  -> [b EXCEPT !.rec[t.v] = CurTotal(b, t.v) + t.x]
     [] t.k = "withdraw" -> [b EXCEPT !.rec[t.v] = CurSelf(b, t.v) - t.x]
     [] t.k = "dadd"     -> [b EXCEPT !.rec[t.v] = CurTotal(b, t.v) + t.x, !.recd[t.a][t.v] = CurDlg(b, t.a, t.v) + t.x]
     [] t.k = "dsub"     -> [b EXCEPT !.rec[t.v] = CurTotal(b, t.v) - t.x, !.recd[t.a][t.v] = CurDlg(b, t.a, t.v) - t.x]
     [] OTHER -> b

\* refused up front (or by the builder's snapshot-revert wrapper): no effect at all
Refused(b, t) == \/ t.k \in {"badnonce", "lowgas", "nofunds"}
                 \/ b.bal[t.a] < Fee
                 \/ (t.k \in {"transfer", "widegas"} /\ b.bal[t.a] < Fee + t.x)

ApplyTx(b, t) ==
   IF Refused(b, t) THEN b
   ELSE LET rf == IF t.k = "callclear" /\ b.slot = 1 THEN Refund ELSE 0
            b1 == PayFee(b, t.a, Fee, rf) IN
        CASE t.k \in {"transfer", "widegas"} -> [b1 EXCEPT !.bal[t.a] = @ - t.x, !.bal[t.b] = @ + t.x]
          [] t.k = "callset"   -> [b1 EXCEPT !.slot = 1]
          [] t.k = "callclear" -> [b1 EXCEPT !.slot = 0]
          [] t.k = "garbage"   -> b1
          [] OTHER -> IF Accepts(b1, t)
                      THEN [Record(b1, t) EXCEPT !.bal[t.a] = @ - Detained(t), !.pend = Append(@, t)]   \* value detained until the period ends
                      ELSE b1

RECURSIVE ApplyAll(_, _)
ApplyAll(b, q) == IF q = <<>> THEN b ELSE ApplyAll(ApplyTx(b, Head(q)), Tail(q))

\* what the code is expected to do with an offered transaction: "refused" (not included), "failed" (included, only the
\* fee is charged) or "ok"
Outcome(b, t) == IF Refused(b, t) THEN "refused"
                 ELSE IF t.k \in {"transfer", "widegas", "callset", "callclear"} THEN "ok"
                 ELSE IF t.k = "garbage" THEN "failed"
                 ELSE IF Accepts(PayFee(b, t.a, Fee, 0), t) THEN "ok" ELSE "failed"

\* candidate transactions: plausible in the current state, plus deliberately failing / refused ones.  The parameter
\* spaces are kept of similar size per kind because the simulator draws uniformly from this set.
Rates == IF Alphabet = "small" THEN {0, 5000} ELSE {0, 1000, 3333}
RateOf(x) == IF x % 3 = 0 THEN 0 ELSE IF x % 3 = 1 THEN 1000 ELSE 3333
Small == Alphabet = "small"
AmtsLo == IF Small THEN Amts ELSE { x \in Amts : x <= 4 * Unit }
Cand(b) ==
   LET U  == Users
       ex == { v \in Vals : b.val[v].ex }
       u0 == CHOOSE u \in Users : TRUE IN
   UNION { { Tx("transfer", a, c, "g1", 5, 0, 0) : c \in (IF Small THEN U \cup {"g2"} ELSE U \cup {"g2", "n1"}) \ {a} } : a \in U }
   \cup { Tx(k, u0, u0, "g1", 0, 0, 0) : k \in {"callset", "callclear"} }
   \* gas-limit classes: a transfer's limit is exact; "widegas" is a transfer whose gas LIMIT is nearly the block's
   \cup (IF Small THEN {} ELSE { Tx("widegas", a, u0, "g1", 5, 0, 0) : a \in U \ {u0} })
   \cup { Tx("create", v, v, v, x, IF Small \/ x < 3 * Unit THEN 3 ELSE 2, IF Small THEN 5000 ELSE RateOf(x)) :
            v \in { w \in NewVals : ~b.val[w].ex /\ ~PendCreate(b, w) }, x \in Amts }
   \cup { Tx("update", v, v, v, 0, 1, c) : v \in { w \in ex : ~b.val[w].acc }, c \in Rates }
   \cup { Tx("update", v, v, v, 0, 0, 0) : v \in { w \in ex : b.val[w].acc } }
   \cup { Tx("deposit", v, v, v, x, 0, 0) : v \in ex, x \in AmtsLo }
   \cup UNION { { Tx("withdraw", v, u0, v, x, 0, 0) : x \in (AmtsLo \cup (IF v = "g1" THEN {} ELSE {b.val[v].self})) \ {0} } : v \in ex }
   \cup { Tx("status", v, v, v, 0, IF b.val[v].on THEN 0 ELSE 1, 0) : v \in ex \ {"g1"} }
   \cup { Tx("settle", v, v, v, 0, 0, 0) : v \in ex }
   \cup { Tx("dadd", a, a, v, x, 0, 0) : a \in U, v \in { w \in ex : b.val[w].acc }, x \in Amts }
   \cup UNION { IF b.val[v].dl[a] = 0 THEN {}
                 \* amounts at the boundaries of the minimum delegation: nothing is left, the rest is below the minimum (the
                 \* take-effect handler then forces a full withdrawal), exactly the minimum is left
                 ELSE { Tx("dsub", a, a, v, x, 0, 0) :
                          x \in { y \in AmtsLo \cup {b.val[v].dl[a], b.val[v].dl[a] - Unit \div 2, b.val[v].dl[a] - MinDeleg} : y > 0 } }
                      \cup { Tx("dsettle", a, a, v, 0, 0, 0) } :
                   a \in U, v \in ex }
   \* failing and refused ones
   \cup { Tx("deposit", u0, u0, v, x, 0, 0) : v \in ex \cap {"g2"}, x \in AmtsLo }           \* not the operator: fails, pays all gas
   \cup { Tx("dadd", u0, u0, v, x, 0, 0) : v \in { w \in ex : ~b.val[w].acc } \cap {"g2"}, x \in AmtsLo }
   \cup (IF Small THEN { Tx("badnonce", u0, u0, "g1", 1, 0, 0) }
         ELSE { Tx(k, u0, u0, "g1", 1, 0, 0) : k \in {"badnonce", "lowgas", "nofunds", "garbage"} })

Quotas == IF Alphabet = "small" THEN {MaxTx} ELSE 0..MaxTx
Proposers(b) == IF Alphabet = "small" THEN {"g1"}
                ELSE { v \in GenVals \cap {"g1", "g2"} : b.val[v].ex /\ b.val[v].on } \cup {"g1"}
\* the full alphabet starts every history with the genesis validators g2 and g3 asking to accept delegations
\* (genesis validators do not), so that delegations become possible from the second period on
Prologue == IF Small THEN <<>>
            ELSE [i \in 1..Cardinality(GenVals \cap {"g2", "g3"}) |->
                    LET v == IF i = 1 /\ "g2" \in GenVals THEN "g2" ELSE "g3" IN Tx("update", v, v, v, 0, 1, IF v = "g2" THEN 1000 ELSE 3333)]
Init == /\ s = ApplyAll(InitS, Prologue) /\ n = 1 /\ phase = "tx" /\ cur = Prologue /\ ntot = 0 /\ done = {} /\ hist = <<>>
        /\ cb = "g1" /\ quota \in { q + Len(Prologue) : q \in Quotas }

OfferTx ==
   /\ phase = "tx" /\ Len(cur) < quota /\ ntot < MaxTxTotal
   /\ \E t \in Cand(s) :
        /\ s' = ApplyTx(s, t)
        /\ cur' = Append(cur, t)
   /\ ntot' = ntot + 1
   /\ UNCHANGED <<n, phase, done, cb, quota, hist>>

\* bounded-exhaustive runs close a block at any point; the simulator closes it when the drawn quota is used up
EndTxs == /\ phase = "tx" /\ (Small \/ Len(cur) >= quota \/ ntot >= MaxTxTotal) /\ phase' = "rewards" /\ UNCHANGED <<s, n, cur, ntot, done, cb, quota, hist>>

\* ================================================================ end of block
\* Every phase is a function F<Phase>(b, ...) of the buckets (the variables n and cb are read); the action applies it.
PeriodEnd == (n + 1) % Period = 0

\* rewardsToPool + blockRewards
OnlineOfRole(b, ro) == { v \in Vals : b.val[v].ex /\ b.val[v].on /\ b.val[v].role = ro }
FRewards(b, pr) ==
   LET r0   == b.infl + b.res
       want == IF r0 < Threshold /\ b.bal["pool"] > 0 THEN ((Threshold - r0) \div 10) * 5 ELSE 0
       sub  == Min(want, b.bal["pool"])
       tot  == r0 + sub
       rs   == { ro \in {1, 2, 3} : OnlineOfRole(b, ro) # {} }
       sum  == SumF([ro \in {1, 2, 3} |-> Ratio(ro)], rs)
       per  == tot \div sum
       ch   == per * SumF([ro \in {1, 2, 3} |-> Ratio(ro)], rs \ {3})    \* from version 5 the proposer gets the chambers' share
       hs   == IF 3 \in rs THEN per * 4 ELSE 0 IN
   IF tot <= 0 \/ rs = {} \/ ~b.val[pr].ex
   THEN b
   ELSE [b EXCEPT !.bal["pool"] = @ - sub, !.infl = 0,
                  !.val[pr].rd = @ + ch, !.val[pr].la = n,
                  !.hpool = @ + hs, !.res = tot - per * sum]
RewardsToPool ==
   /\ phase = "rewards"
   /\ s' = FRewards(s, cb)
   /\ phase' = IF PeriodEnd THEN "inact" ELSE "commit"
   /\ done' = {}
   /\ UNCHANGED <<n, cur, ntot, cb, quota, hist>>

\* takePenalty (slash.go): the penalty P is split per stake -- the validator itself also bears its risk obligation and the
\* rounding remainder -- and is taken first from the validator's unfinished withdraw records (each from the share of the
\* party it belongs to), then from the stakes; what is actually taken goes to the penalty account.
\* acc = [q (withdraw queue), left, selfRest, dRest, total]
RECURSIVE PenWq(_, _, _)
PenWq(acc, v, i) ==
   IF i > Len(acc.q) THEN acc
   ELSE LET r == acc.q[i] IN
        IF acc.left <= 0 THEN acc
        ELSE IF r.v # v \/ r.fin # 0 THEN PenWq(acc, v, i + 1)
        ELSE LET rest == IF r.d = "-" THEN acc.selfRest ELSE acc.dRest[r.d]
                 take == Min(r.amt, rest) IN
             IF rest <= 0 \/ take <= 0 THEN PenWq(acc, v, i + 1)
             ELSE PenWq([acc EXCEPT !.q[i].amt = @ - take, !.left = @ - take, !.total = @ + take,
                                    !.selfRest = IF r.d = "-" THEN @ - take ELSE @,
                                    !.dRest = IF r.d = "-" THEN @ ELSE [@ EXCEPT ![r.d] = @ - take]], v, i + 1)
RECURSIVE PenDl(_, _)
PenDl(acc, todo) ==      \* acc = [rec (validator record), left, dRest, total]
   IF todo = {} \/ acc.left <= 0 THEN acc
   ELSE LET u == CHOOSE x \in todo : TRUE
            take == Min(acc.rec.dl[u], acc.dRest[u]) IN
        IF take <= 0 THEN PenDl(acc, todo \ {u})
        ELSE PenDl([acc EXCEPT !.rec.dl[u] = @ - take, !.left = @ - take, !.total = @ + take], todo \ {u})
TakePenalty(b, v, P) ==
   LET r     == b.val[v]
       obl   == IF r.risk > 0 /\ r.risk <= Base THEN (P * r.risk) \div Base ELSE 0
       per   == (P - obl) \div VStake(r)
       rem   == (P - obl) % VStake(r)
       a1    == PenWq([q |-> b.wq, left |-> P, selfRest |-> per * St(r.self) + rem + obl,
                       dRest |-> [u \in Users |-> per * St(r.dl[u])], total |-> 0], v, 1)
       selfT == IF a1.left > 0 THEN Min(r.self, a1.selfRest) ELSE 0
       a2    == PenDl([rec |-> [r EXCEPT !.self = @ - selfT], left |-> a1.left - selfT, dRest |-> a1.dRest,
                       total |-> a1.total + selfT], Users) IN
   [b EXCEPT !.wq = a1.q, !.val[v] = a2.rec, !.bal["pen"] = @ + a2.total]
\* doPenalize: the validator goes offline and is expelled whatever the amount
Penalize(b, v, P) ==
   LET b1 == IF P > 0 /\ VStake(b.val[v]) > 0 THEN TakePenalty(b, v, P) ELSE b IN
   [b1 EXCEPT !.val[v].on = FALSE, !.val[v].expl = TRUE]

\* inactivity slashing of online chamber validators (slashingAndRecoveringYouV5, 10 percent in the fixture)
RECURSIVE InactLoop(_, _)
InactLoop(b, todo) ==
   IF todo = {} THEN b
   ELSE LET v == CHOOSE w \in todo : TRUE IN InactLoop(Penalize(b, v, VTok(b.val[v]) \div 10), todo \ {v})
FInact(b) == InactLoop(b, { v \in Vals : b.val[v].ex /\ b.val[v].on /\ b.val[v].role # 3 /\ n - b.val[v].la > Wait })
Inactivity ==
   /\ phase = "inact"
   /\ s' = FInact(s)
   /\ phase' = "dist"
   /\ UNCHANGED <<n, cur, ntot, done, cb, quota, hist>>

\* settleValidatorRewards(val): `r` is the record the CALLER passes; the result overwrites the stored record with
\* r's distributable amount replaced by the residue
Settle(b, v, r) ==
   LET cbase == v IN
   IF VStake(r) = 0 /\ r.rd > 0
   THEN [b EXCEPT !.bal[cbase] = @ + r.rd, !.val[v] = [r EXCEPT !.rd = 0, !.ls = n]]
   ELSE IF VStake(r) = 0 \/ r.rd = 0 THEN b
   ELSE LET comm == (r.rd * r.comm) \div Base
            rest == r.rd - comm
            per  == rest \div VStake(r)
            dpay == [u \in Users |-> per * St(r.dl[u])]
            self == per * St(r.self) + comm
            resi == rest - per * VStake(r) IN
        [b EXCEPT !.bal = [a \in Accts |-> @[a] + (IF a = cbase THEN self + (IF r.on THEN 0 ELSE resi) ELSE 0)
                                                + (IF a \in Users THEN dpay[a] ELSE 0)],
                  !.val[v] = [r EXCEPT !.rd = IF r.on THEN resi ELSE 0, !.ls = n]]

\* distributeRewards: House validators share the pool equally; offline validators are settled; validators not settled
\* for MRP periods are force-settled -- as coded with the record read BEFORE this distribution (StaleSettle)
RECURSIVE DistLoop(_, _, _, _)
DistLoop(b, todo, per, dn) ==
   IF todo = {} THEN [b |-> b, dn |-> dn]
   ELSE LET v == CHOOSE w \in todo : TRUE
            r == b.val[v] IN
        IF ~r.ex THEN DistLoop(b, todo \ {v}, per, dn)
        ELSE IF ~r.on THEN DistLoop(Settle(b, v, r), todo \ {v}, per, dn \cup {v})
        ELSE LET add == IF r.role = 3 THEN per ELSE 0
                 b1  == [b EXCEPT !.val[v].rd = @ + add, !.hpool = @ - add]
                 force == r.ls < n /\ r.ls + MRP * Period <= n
                 b2  == IF force THEN Settle(b1, v, IF StaleSettle THEN r ELSE b1.val[v]) ELSE b1 IN
             DistLoop(b2, todo \ {v}, per, IF force THEN dn \cup {v} ELSE dn)
FDist(b) ==
   LET hs  == OnlineOfRole(b, 3)
       per == IF hs = {} THEN 0 ELSE b.hpool \div Cardinality(hs) IN
   DistLoop(b, Vals, per, {})
Distribute ==
   /\ phase = "dist"
   /\ LET res == FDist(s) IN s' = res.b /\ done' = res.dn
   /\ phase' = "wq"
   /\ UNCHANGED <<n, cur, ntot, cb, quota, hist>>

\* processWithdrawQueue: a mature unfinished record is paid once (one whose amount a penalty has consumed is finished
\* without a payment); finished records are dropped after the retention -- the age is computed in uint64, so a finished
\* record that is not mature yet is dropped at once
FWq(b) ==
   LET rel == { i \in DOMAIN b.wq : b.wq[i].fin = 0 /\ (b.wq[i].amt <= 0 \/ b.wq[i].ch < n) }
       q1  == [i \in DOMAIN b.wq |-> IF i \in rel THEN [b.wq[i] EXCEPT !.fin = 1] ELSE b.wq[i]]
       inc == [a \in Accts |-> SumF([i \in DOMAIN b.wq |-> IF i \in rel /\ b.wq[i].to = a THEN b.wq[i].amt ELSE 0], DOMAIN b.wq)] IN
   [b EXCEPT !.bal = [a \in Accts |-> @[a] + inc[a]],
             !.wq = SelectSeq(q1, LAMBDA r : ~(r.fin = 1 /\ (n < r.ch \/ n - r.ch > Retention)))]
WithdrawQueue ==
   /\ phase = "wq"
   /\ s' = FWq(s)
   /\ phase' = "te"
   /\ UNCHANGED <<n, cur, ntot, done, cb, quota, hist>>

\* take-effect handlers (take_effect_handler.go)
Effect(b, t) ==
   LET r == b.val[t.v] IN
   CASE t.k = "create"  -> [b EXCEPT !.val[t.v] = [NoVal EXCEPT !.ex = TRUE, !.self = t.x, !.role = t.f, !.acc = TRUE, !.comm = t.c, !.risk = t.r]]
     [] t.k = "update"  -> [b EXCEPT !.val[t.v].acc = (t.f = 1), !.val[t.v].comm = t.c, !.val[t.v].risk = t.r]
     [] t.k = "deposit" -> IF VStake([r EXCEPT !.self = @ + t.x]) > MaxStake
                           THEN [b EXCEPT !.bal[t.a] = @ + t.x]                         \* failed activation: refunded
                           ELSE [b EXCEPT !.val[t.v].self = @ + t.x]
     [] t.k = "withdraw"-> LET w0 == Min(t.x, r.self)
                               w  == IF St(r.self - w0) < MinSelf(r.role) THEN r.self ELSE w0    \* forced full withdrawal
                               r1 == [r EXCEPT !.self = @ - w]
                               off == r.on /\ (St(r1.self) < MinSelf(r.role) \/ VStake(r1) < MinStake(r.role)) IN
                           [b EXCEPT !.val[t.v] = [r1 EXCEPT !.on = IF off THEN FALSE ELSE @],
                                     !.wq = Append(@, [v |-> t.v, d |-> "-", to |-> t.b, amt |-> w, fin |-> 0, ch |-> n + Delay])]
     [] t.k = "status"  -> IF t.f = 1 /\ VStake(r) < MinStake(r.role) THEN b
                           ELSE [b EXCEPT !.val[t.v].on = (t.f = 1), !.val[t.v].la = n]
     [] t.k = "dadd"    -> IF r.expl \/ ~r.acc \/ St(VTok(r) + t.x) > MaxStake
                           THEN [b EXCEPT !.bal[t.a] = @ + t.x]                         \* failed activation: refunded
                           ELSE [b EXCEPT !.val[t.v].dl[t.a] = @ + t.x]
     [] t.k = "dsub"    -> LET have == r.dl[t.a]
                               w0 == Min(t.x, have)
                               w  == IF have - w0 > 0 /\ have - w0 < MinDeleg THEN have ELSE w0
                               r1 == [r EXCEPT !.dl[t.a] = @ - w]
                               off == r.on /\ VStake(r1) < MinStake(r.role) IN
                           IF w <= 0 THEN b
                           ELSE [b EXCEPT !.val[t.v] = [r1 EXCEPT !.on = IF off THEN FALSE ELSE @],
                                          !.wq = Append(@, [v |-> t.v, d |-> t.a, to |-> t.a, amt |-> w, fin |-> 0, ch |-> n + Delay])]
     [] OTHER -> b

\* processPendingTxs: before the first transaction of a validator takes effect its rewards are settled (unless
\* distributeRewards already did)
RECURSIVE TeLoop(_, _, _)
TeLoop(b, q, dn) ==
   IF q = <<>> THEN b
   ELSE LET t  == Head(q)
            b1 == IF t.v \in dn \/ ~b.val[t.v].ex THEN b ELSE Settle(b, t.v, b.val[t.v])
            b2 == Effect([b1 EXCEPT !.pend = Tail(@)], t) IN
        TeLoop(b2, Tail(q), dn \cup {t.v})
FTe(b, dn) == TeLoop(b, b.pend, dn)
TakeEffect ==
   /\ phase = "te"
   /\ s' = FTe(s, done)
   /\ phase' = "commit"
   /\ UNCHANGED <<n, cur, ntot, done, cb, quota, hist>>

\* IntermediateRoot(true): a validator whose token and stake are zero is deleted -- as coded together with whatever
\* rewards it still holds
FCommit(b) ==
   LET gone == { v \in Vals : b.val[v].ex /\ VTok(b.val[v]) = 0 /\ VStake(b.val[v]) = 0 } IN
   [b EXCEPT !.val = [v \in Vals |-> IF v \in gone THEN NoVal ELSE @[v]],
             !.bal = [a \in Accts |-> @[a] + (IF a \in gone /\ ~DropRemovedRewards THEN b.val[a].rd ELSE 0)],
             \* the block after a period end starts an empty staking trie (StakingRootForNewBlock)
             !.rec = IF PeriodEnd THEN [v \in Vals |-> 0] ELSE @,
             !.recd = IF PeriodEnd THEN [u \in Users |-> [v \in Vals |-> 0]] ELSE @]
Commit ==
   /\ phase = "commit"
   /\ s' = FCommit(s)
   /\ hist' = Append(hist, [cb |-> cb, txs |-> cur])
   /\ cur' = <<>> /\ done' = {}
   /\ n' = n + 1
   /\ phase' = IF n = MaxBlocks THEN "done" ELSE "tx"
   /\ IF n = MaxBlocks THEN cb' = cb /\ quota' = quota ELSE cb' \in Proposers(s') /\ quota' \in Quotas
   /\ UNCHANGED ntot

\* the whole end of a block as one function (used by the conformance trace spec)
FEndBlock(b, pr) ==
   LET b1 == FRewards(b, pr) IN
   IF ~PeriodEnd THEN FCommit(b1)
   ELSE LET d == FDist(FInact(b1)) IN FCommit(FTe(FWq(d.b), d.dn))

Next == OfferTx \/ EndTxs \/ RewardsToPool \/ Inactivity \/ Distribute \/ WithdrawQueue \/ TakeEffect \/ Commit
Spec == Init /\ [][Next]_vars

\* ================================================================ property layer
Total0 == Total(InitS)
CurHist == IF phase = "done" THEN hist ELSE Append(hist, [cb |-> cb, txs |-> cur])
\* a counterexample is exported as a history, padded with empty blocks so that the real chain reaches the same period end
Cex(name) == PrintT("@@J " \o ToJson([kind |-> "CEX", clause |-> name, h |-> CurHist, n |-> n, phase |-> phase])) /\ FALSE

\* "the sum ... is constant: value only moves" -- after every phase
Conserved == Total(s) = Total0 \/ Cex("Total")

\* "Fees paid equal rewards credited": a transaction moves exactly its fee into the in-flight rewards
FeesEqualRewards ==
   [][ (phase = "tx" /\ phase' = "tx" /\ ntot' = ntot + 1) =>
         (s'.infl - s.infl = (Total(s) - s.infl) - (Total(s') - s'.infl)) ]_vars
\* "subsidies come out of the rewards pool account": the pool account only ever shrinks, and only in RewardsToPool
SubsidyFromPool == [][ s'.bal["pool"] # s.bal["pool"] => (phase = "rewards" /\ s'.bal["pool"] < s.bal["pool"]) ]_vars
\* "penalties arrive in the penalty account": what the slashed validators' stakes and withdraw records lose is what the
\* account gains
Slashable(b) == SumF([v \in Vals |-> VTok(b.val[v])], Vals) + SumSeq(b.wq, LAMBDA r : IF r.fin = 0 THEN r.amt ELSE 0)
PenaltyArrives == [][ phase = "inact" => s'.bal["pen"] - s.bal["pen"] = Slashable(s) - Slashable(s') ]_vars
\* "withdrawn stake returns to its recipient exactly once": a finished record is never paid again
ReleasedOnce ==
   [][ phase = "wq" => \A a \in Accts :
          s'.bal[a] - s.bal[a] = SumSeq(s.wq, LAMBDA r : IF r.fin = 0 /\ r.ch < n /\ r.to = a THEN r.amt ELSE 0) ]_vars
\* "rewards distributed to a validator are never lost by a later settlement": during Distribute / TakeEffect the
\* rewards buckets plus the balances are conserved among themselves
RewSum(b) == b.hpool + SumF([v \in Vals |-> b.val[v].rd], Vals) + SumF(b.bal, Accts)
RewardsNeverLost == [][ phase = "dist" => RewSum(s') = RewSum(s) ]_vars
\* "a deposit or delegation that fails to activate is refunded": after TakeEffect nothing is detained any more and the
\* total did not change
FailedActivationRefunded == [][ phase = "te" => (s'.pend = <<>> /\ Total(s') = Total(s)) ]_vars

\* ================================================================ generation
Leaf == (GenMode = "leaf" /\ phase = "done") => PrintT("@@J " \o ToJson([kind |-> "B", h |-> hist]))
View == <<s, n, phase, Len(cur), ntot, done, cb, quota>>
=============================================================================
