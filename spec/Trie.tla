-------------------------------- MODULE Trie --------------------------------
(***************************************************************************)
(* C13 -- the Merkle-Patricia trie (trie/*.go) is a faithful, canonical,   *)
(* provable key-value map.                                                  *)
(*                                                                         *)
(* The model IS the property: a map over a constant key table chosen for   *)
(* nibble structure, plus the abstraction of the node database             *)
(* (trie/database.go): which committed contents are held in the memory     *)
(* layer (`mem`), which were written to disk (`disk`), and the reference    *)
(* counts of the meta root (`refs`).  A root is identified by its CONTENT   *)
(* (the database is content addressed); root ids (index into `roots`) are   *)
(* only the names behaviours use for them.                                  *)
(*                                                                         *)
(* The state is one record `s`; `Apply(s, op)` is the pure next-state       *)
(* function and `En(s, op)` the guard under which production code issues    *)
(* the call.  Trie_Mon folds recorded events through the same `Apply`.      *)
(***************************************************************************)
EXTENDS Integers, Sequences, FiniteSets, TLC, Json

CONSTANTS Keys,       \* key ids used by the generator (subset of 1..NK)
          Vals,       \* value ids used by the generator (subset of 1..NV); 0 is the empty value (= delete)
          MaxOps,     \* behaviour length
          MaxRoots,   \* bound on the number of trie commits in one behaviour
          MaxRefs,    \* bound on the meta-root reference count of one root
          Alphabet,   \* "content" | "db" | "full"
          GenMode     \* "none" | "leaf"

VARIABLES s, hist
vars == <<s, hist>>

\* ---------------------------------------------------------------- key / value tables (mirrored by the Go driver)
NK == 8
NV == 5
Rep(x, n) == [i \in 1..n |-> x]
KeyNibs == << <<1, 2>>,                              \* 1: 0x12
              <<1, 2, 3, 4>>,                        \* 2: 0x1234      (key 1 is a nibble prefix)
              <<1, 2, 3, 5>>,                        \* 3: 0x1235      (differs from 2 in the last nibble)
              <<1, 2, 3, 4>> \o Rep(7, 60),          \* 4: 0x1234 77..77 (32 bytes; keys 1, 2 are prefixes)
              <<1, 15>>,                             \* 5: 0x1f
              <<10>> \o Rep(0, 62) \o <<1>>,         \* 6: 0xa0 00..00 01 (32 bytes)
              <<10>> \o Rep(0, 62) \o <<2>>,         \* 7: 0xa0 00..00 02 (32 bytes, differs in the last nibble)
              <<>> >>                                \* 8: the empty key (prefix of every key)
ValLen == <<1, 31, 32, 33, 60>>                      \* value i is ValLen[i] bytes long (value 5 starts with the bytes of value 2)

RECURSIVE LexLess(_, _)
LexLess(a, b) == IF a = <<>> THEN b # <<>>
                 ELSE IF b = <<>> THEN FALSE
                 ELSE IF a[1] < b[1] THEN TRUE
                 ELSE IF a[1] > b[1] THEN FALSE
                 ELSE LexLess(Tail(a), Tail(b))
IsPrefix(a, b) == Len(a) <= Len(b) /\ SubSeq(b, 1, Len(a)) = a
\* rank of a key in ascending byte order (= ascending nibble order, a prefix first)
PlainRank == [k \in 1..NK |-> Cardinality({ j \in 1..NK : LexLess(KeyNibs[j], KeyNibs[k]) })]
PlainPrefix == { <<i, j>> \in (1..NK) \X (1..NK) : i # j /\ IsPrefix(KeyNibs[i], KeyNibs[j]) }

\* ---------------------------------------------------------------- abstract state
Empty == [k \in 1..NK |-> 0]
NoRefs == [c \in {} |-> 0]
InitS == [kv |-> Empty, base |-> Empty, roots |-> <<>>, mem |-> {}, disk |-> {}, refs |-> NoRefs]

RefCount(S, c) == IF c \in DOMAIN S.refs THEN S.refs[c] ELSE 0
\* every node of content c can be loaded (from the memory layer or from disk)
Readable(S, c) == c = Empty \/ c \in S.mem \/ c \in S.disk
\* the property's "live" roots: referenced, or written to disk
Live(S, c) == c \in DOMAIN S.refs \/ c \in S.disk
Present(c) == { k \in 1..NK : c[k] # 0 }

DropRef(refs, c) == [x \in (DOMAIN refs) \ {c} |-> refs[x]]
AddRef(refs, c) == IF c \in DOMAIN refs THEN [refs EXCEPT ![c] = @ + 1] ELSE refs @@ (c :> 1)

Apply(S, o) ==
   CASE o.op = "Update"  -> [S EXCEPT !.kv[o.k] = o.v]          \* TryUpdate; the empty value (v = 0) deletes
     [] o.op = "Delete"  -> [S EXCEPT !.kv[o.k] = 0]            \* TryDelete
     [] o.op \in {"Get", "Hash", "Iterate", "Prove", "CapHalf"} -> S
     [] o.op = "Commit"  -> [S EXCEPT !.roots = Append(@, S.kv), !.base = S.kv,          \* Trie.Commit: nodes enter the memory layer
                                      !.mem = IF S.kv = Empty THEN @ ELSE @ \cup {S.kv}]
     [] o.op = "Reference" -> [S EXCEPT !.refs = AddRef(@, S.roots[o.r])]                \* Database.Reference(root, {})
     [] o.op = "Dereference" ->                                                          \* Database.Dereference(root)
           LET c == S.roots[o.r] IN
           IF RefCount(S, c) <= 1 THEN [S EXCEPT !.refs = DropRef(@, c), !.mem = @ \ {c}]
                                  ELSE [S EXCEPT !.refs[c] = @ - 1]
     [] o.op = "Cap0"    -> [S EXCEPT !.disk = @ \cup S.mem, !.mem = {}]                 \* Database.Cap(0): flush everything
     [] o.op = "DbCommit" -> LET c == S.roots[o.r] IN                                    \* Database.Commit(root)
                             [S EXCEPT !.disk = @ \cup ({c} \ {Empty}), !.mem = @ \ {c}]
     [] o.op = "Reopen"  -> [S EXCEPT !.kv = S.roots[o.r], !.base = S.roots[o.r]]        \* trie.New(root, db)
     [] o.op = "Restart" -> [S EXCEPT !.kv = S.roots[o.r], !.base = S.roots[o.r],        \* NewDatabase(same disk); trie.New
                                      !.mem = {}, !.refs = NoRefs]

\* guards: the way production code (core/blockchain.go, core/state) drives the API
En(S, o) ==
   CASE o.op = "Commit" -> Len(S.roots) < MaxRoots
     [] o.op = "Reference" -> LET c == S.roots[o.r] IN c # Empty /\ Readable(S, c) /\ RefCount(S, c) < MaxRefs
     [] o.op = "Dereference" -> LET c == S.roots[o.r] IN
                                /\ RefCount(S, c) > 0                      \* only roots referenced before are dereferenced
                                /\ ~(c = S.base /\ RefCount(S, c) = 1 /\ c \notin S.disk)   \* not the root the open trie was loaded from
     [] o.op = "DbCommit" -> LET c == S.roots[o.r] IN c # Empty /\ Readable(S, c)
     [] o.op = "Reopen"  -> Readable(S, S.roots[o.r])
     [] o.op = "Restart" -> S.roots[o.r] \in S.disk
     [] OTHER -> TRUE

RootOps(S) == { [op |-> n, r |-> r] : n \in {"Reference", "Dereference", "DbCommit", "Reopen", "Restart"}, r \in DOMAIN S.roots }
Ops(S) ==
   CASE Alphabet = "content" -> { [op |-> "Update", k |-> k, v |-> v] : k \in Keys, v \in Vals } \cup { [op |-> "Delete", k |-> k] : k \in Keys }
     [] Alphabet = "db" -> { [op |-> "Update", k |-> k, v |-> v] : k \in Keys, v \in Vals } \cup { [op |-> "Delete", k |-> k] : k \in Keys }
                           \cup { [op |-> "Commit"], [op |-> "Cap0"] } \cup RootOps(S)
     [] Alphabet = "gc" -> { [op |-> "Update", k |-> k, v |-> v] : k \in Keys, v \in Vals } \cup { [op |-> "Delete", k |-> k] : k \in Keys }
                           \cup { [op |-> "CommitRef"], [op |-> "Cap0"], [op |-> "CapHalf"] }
                           \cup { [op |-> n, r |-> r] : n \in {"Dereference", "DbCommit", "Reopen"}, r \in DOMAIN S.roots }
     \* "gcx": bounded-exhaustive garbage-collection schedules -- only updates/deletes that change the content, commit+reference
     \* only of a content that differs from the last committed one, dereference of any referenced root; nothing is flushed,
     \* so every committed node lives in the memory layer only
     [] Alphabet = "gcx" -> { [op |-> "Update", k |-> k, v |-> v] : k \in { x \in Keys : TRUE }, v \in { y \in Vals : \E x \in Keys : S.kv[x] # y } }
                            \cup { [op |-> "Delete", k |-> k] : k \in { x \in Keys : S.kv[x] # 0 } }
                            \cup (IF S.kv # S.base THEN { [op |-> "CommitRef"] } ELSE {})
                            \cup { [op |-> "Dereference", r |-> r] : r \in DOMAIN S.roots }
     [] OTHER -> { [op |-> "Update", k |-> k, v |-> v] : k \in Keys, v \in Vals \cup {0} }
                 \cup { [op |-> n, k |-> k] : n \in {"Delete", "Get", "Prove"}, k \in Keys }
                 \cup { [op |-> n] : n \in {"Commit", "Cap0", "CapHalf", "Hash", "Iterate"} } \cup RootOps(S)

Init == s = InitS /\ hist = <<>>
\* the "content" alphabet ends every behaviour with one Prove per key (in key order)
TailLen == IF Alphabet = "content" THEN Cardinality(Keys) ELSE 0
NthKey(j) == CHOOSE k \in Keys : Cardinality({ x \in Keys : x < k }) = j - 1
\* CommitRef is what core/blockchain.go does with every block: Trie.Commit, then Reference(root, {}) -- two recorded actions
CommitRefOps(S) == << [op |-> "Commit"], [op |-> "Reference", r |-> Len(S.roots) + 1] >>
Next == \/ /\ Len(hist) < MaxOps
           /\ \E o \in Ops(s) :
                IF o.op = "CommitRef"
                THEN /\ Len(s.roots) < MaxRoots /\ s.kv # Empty /\ RefCount(s, s.kv) < MaxRefs
                     /\ s' = Apply(Apply(s, CommitRefOps(s)[1]), CommitRefOps(s)[2]) /\ hist' = hist \o CommitRefOps(s)
                ELSE /\ En(s, o)
                     /\ (Alphabet = "gcx" /\ o.op = "Update") => s.kv[o.k] # o.v
                     /\ s' = Apply(s, o) /\ hist' = Append(hist, o)
        \/ /\ Len(hist) >= MaxOps /\ Len(hist) < MaxOps + TailLen
           /\ s' = s /\ hist' = Append(hist, [op |-> "Prove", k |-> NthKey(Len(hist) - MaxOps + 1)])
Spec == Init /\ [][Next]_vars

\* ---------------------------------------------------------------- the model's own invariants (mode M)
Last == hist'[Len(hist')]
\* a referenced root can always be loaded, and so can the root the open trie was loaded from
LiveIsReadable == \A c \in DOMAIN s.refs : Readable(s, c)
BaseIsReadable == Readable(s, s.base)
\* "garbage-collecting unrelated roots loses nothing": no step other than a restart makes a live root unreadable,
\* and dereferencing c affects nothing but c
GcLosesNothing ==
   [][ /\ (Last.op # "Restart" =>
              \A c \in s.mem \cup s.disk : (Last.op = "Dereference" /\ c = s.roots[Last.r]) \/ Readable(s', c))
       /\ s.disk \subseteq s'.disk ]_vars
\* "committing and reopening loses nothing": a reopened root shows exactly its snapshot
ReopenYieldsSnapshot == [][ Last.op \in {"Reopen", "Restart"} => s'.kv = s.roots[Last.r] ]_vars
CommitSnapshots == [][ Last.op = "Commit" => (s'.roots[Len(s'.roots)] = s.kv /\ Readable(s', s.kv)) ]_vars

\* ---------------------------------------------------------------- generation
\* the "gcx" alphabet only prints schedules that dereference a root while at least two commits are behind
GcxWorthy == \E i \in DOMAIN hist : hist[i].op = "Dereference" /\ Cardinality({ j \in 1..i : hist[j].op = "Commit" }) >= 2
Leaf == (GenMode = "leaf" /\ Len(hist) >= MaxOps + TailLen /\ (Alphabet = "gcx" => GcxWorthy)) => PrintT("@@J " \o ToJson([kind |-> "B", h |-> hist]))
View == s
=============================================================================
