------------------------------ MODULE Trie_Mon ------------------------------
(***************************************************************************)
(* C13 property monitor over traces recorded from the real trie.Trie /     *)
(* SecureTrie / trie.Database.  The model is the property (a map), so the   *)
(* monitor folds every recorded action through Trie!Apply and compares what *)
(* the real code returned with the map.  It never rejects: failing clauses  *)
(* are accumulated in `viol` with the trace line.                           *)
(*                                                                         *)
(* Clauses (sentence of the statement they restate):                        *)
(*  GetEqualsModel, IterationEqualsModel -- "lookups and iteration return   *)
(*     exactly the surviving key-value pairs"                               *)
(*  IterationAscending -- "in ascending key order whenever no key is a      *)
(*     prefix of another"                                                   *)
(*  SameContentSameRoot -- "independent of history" (grouped by content     *)
(*     over ALL behaviours of the run: content tag -> first root seen)      *)
(*  RootIsStandard -- "the standard Merkle-Patricia root ... identical      *)
(*     across implementations" (published vectors + reference calculator;   *)
(*     auxiliary oracle outside the specification)                          *)
(*  ReopenLosesNothing -- "committing and reopening ... loses nothing"      *)
(*  GcKeepsLiveRoots -- "garbage-collecting unrelated roots loses nothing"  *)
(*  ProofVerifiesToModel -- "a proof produced for a key of a non-empty trie *)
(*     verifies against the root to exactly the stored value or to absence" *)
(*  TamperedProofNeverLies -- "no tampered proof verifies to a different    *)
(*     answer"                                                              *)
(*  NoPanic -- an operation of the map that panics returns nothing at all:  *)
(*     a recovered panic (event field `panic`, no observation) is a verdict *)
(*     of its own, never an evaluation error of this monitor.  Every other  *)
(*     clause is evaluated only on events that carry an observation, and    *)
(*     every optional field (res, ret, tamper, roots, alias) is guarded.    *)
(***************************************************************************)
EXTENDS Trie

TraceLog == ndJsonDeserialize("trace.ndjson")

VARIABLES l,        \* next line
          variant,  \* "plain" | "secure"
          rank,     \* key id -> rank of the key as stored in the trie (ascending byte order)
          rootOf,   \* content tag -> first root observed for that content
          tableok,  \* the driver's key/value tables agree with Trie.tla
          viol, fired
mvars == <<s, hist, l, variant, rank, rootOf, tableok, viol, fired>>

ClauseNames == {"GetEqualsModel", "IterationEqualsModel", "IterationAscending", "SameContentSameRoot", "RootIsStandard",
                "ReopenLosesNothing", "GcKeepsLiveRoots", "ProofVerifiesToModel", "TamperedProofNeverLies", "NoPanic"}
\* clauses that read the observation taken after the action; an event of a panicked action carries none
ObsClauses == ClauseNames \ {"NoPanic"}

Has(e, f) == f \in DOMAIN e
Failed(e) == Has(e, "panic") \/ Has(e, "err")

Tag(c) == 2 * (c[1] + 6 * c[2] + 36 * c[3] + 216 * c[4] + 1296 * c[5] + 7776 * c[6] + 46656 * c[7] + 279936 * c[8])
          + (IF variant = "secure" THEN 1 ELSE 0)

IterPairs(e) == { <<e.obs.iter[i][1], e.obs.iter[i][2]>> : i \in DOMAIN e.obs.iter }
ModelPairs(c) == { <<k, c[k]>> : k \in Present(c) }
IterOk(e, c) == ~Has(e.obs, "itererr") /\ Len(e.obs.iter) = Cardinality(Present(c)) /\ IterPairs(e) = ModelPairs(c)
GetOk(e, c) == ~Has(e.obs, "geterr") /\ e.obs.get = c
\* hashed keys all have 32 bytes: no key is a prefix of another
PrefixFree(c) == variant = "secure" \/ \A i, j \in Present(c) : <<i, j>> \notin PlainPrefix
Ascending(e) == \A i \in 1..(Len(e.obs.iter) - 1) : rank[e.obs.iter[i][1]] < rank[e.obs.iter[i + 1][1]]

\* values returned by Get one step earlier, retained as returned, still read the same after the action in between
StableOk(e) == Has(e.obs, "alias") => e.obs.alias[2] = 0
\* the same proof produced into a sink that RETAINS the slices it is handed (like core/state.proofList): verified after Prove
\* returned, again after a second Prove on the same trie, and that second proof from its own retaining sink
CopyProofOk(e, c) == ~Failed(e) /\ Has(e, "res") /\ e.res = c[e.args.k]
RetainProofOk(e, c) == Has(e, "ret") => (/\ ~Has(e.ret, "err")
                                         /\ Has(e.ret, "res") /\ Has(e.ret, "again") /\ Has(e.ret, "res2") /\ Has(e.ret, "k2")
                                         /\ e.ret.res = c[e.args.k] /\ e.ret.again = c[e.args.k] /\ e.ret.res2 = c[e.ret.k2])
\* extra discriminators: which part of a clause failed
Extra(cl, e, s2) ==
   IF ~Has(e, "obs") THEN {}
   ELSE CASE cl = "ProofVerifiesToModel" /\ CopyProofOk(e, s2.kv) /\ ~RetainProofOk(e, s2.kv) -> {"retaining_sink"}
          [] cl = "GetEqualsModel" /\ ~StableOk(e) -> {"aliased_result"}
          [] OTHER -> {}

\* the clause applies to this event
Applies(cl, e, s1, s2) ==
   LET c == s2.kv IN
   CASE cl = "IterationAscending" -> PrefixFree(c) /\ IterOk(e, c) /\ Cardinality(Present(c)) > 1
     [] cl = "ReopenLosesNothing" -> e.ev \in {"Reopen", "Restart"}
     [] cl = "GcKeepsLiveRoots" -> Has(e, "roots")
     [] cl = "ProofVerifiesToModel" -> e.ev = "Prove" /\ c # Empty
     [] cl = "TamperedProofNeverLies" -> e.ev = "Prove" /\ c # Empty /\ Has(e, "tamper")
     [] cl = "NoPanic" -> TRUE
     [] OTHER -> TRUE

\* the clause holds on this event (evaluated only where it applies)
Holds(cl, e, s1, s2) ==
   LET c == s2.kv IN
   CASE cl = "GetEqualsModel" ->
           /\ (e.ev \in {"Update", "Delete", "Get", "Hash", "Iterate", "Commit"} => ~Failed(e))
           /\ GetOk(e, c)
           /\ StableOk(e)
           /\ (e.ev = "Get" => (Has(e, "res") /\ e.res = c[e.args.k]))
     [] cl = "IterationEqualsModel" -> IterOk(e, c) /\ (e.ev = "Iterate" => (Has(e, "res") /\ e.res = Cardinality(Present(c))))
     [] cl = "IterationAscending" -> Ascending(e)
     [] cl = "SameContentSameRoot" ->
           /\ (Tag(c) \in DOMAIN rootOf => rootOf[Tag(c)] = e.obs.root)
           /\ (e.ev = "Hash" => (Has(e, "res") /\ e.res = e.obs.root))
     [] cl = "RootIsStandard" -> e.obs.root = e.obs.ref
     [] cl = "ReopenLosesNothing" -> ~Failed(e) /\ GetOk(e, s1.roots[e.args.r]) /\ IterOk(e, s1.roots[e.args.r])
     [] cl = "GcKeepsLiveRoots" ->
           /\ (~Failed(e) \/ e.ev = "Restart")
           /\ Len(e.roots) = Len(s2.roots)
           /\ \A r \in DOMAIN s2.roots : Readable(s2, s2.roots[r]) => e.roots[r] = s2.roots[r]
     [] cl = "ProofVerifiesToModel" -> CopyProofOk(e, c) /\ RetainProofOk(e, c)
     [] cl = "TamperedProofNeverLies" -> \A i \in DOMAIN e.tamper.outs : e.tamper.outs[i] \in {-1, -2, c[e.args.k]}
     [] cl = "NoPanic" -> ~Has(e, "panic")

OpEvents == {"Update", "Delete", "Get", "Hash", "Iterate", "Prove", "Commit", "Reference", "Dereference", "Cap0", "CapHalf",
             "DbCommit", "Reopen", "Restart"}

ZeroFired == [c \in ClauseNames |-> 0]
MInit == /\ s = InitS /\ hist = <<>> /\ l = 1 /\ variant = "plain" /\ rank = PlainRank /\ rootOf = [t \in {} |-> ""]
         /\ tableok = TRUE /\ viol = {} /\ fired = ZeroFired

MStep ==
   /\ l <= Len(TraceLog)
   /\ l' = l + 1 /\ hist' = hist
   /\ LET e == TraceLog[l] IN
      CASE e.ev \in {"reset", "abort"} ->
              /\ s' = InitS /\ UNCHANGED <<variant, rank, rootOf, tableok, viol, fired>>
        [] e.ev = "Table" ->
              /\ tableok' = (tableok /\ e.keys = KeyNibs /\ e.vlens = ValLen)
              /\ UNCHANGED <<s, variant, rank, rootOf, viol, fired>>
        [] e.ev = "Begin" ->
              /\ variant' = e.variant
              /\ rank' = (IF e.variant = "secure" THEN e.rank ELSE PlainRank)
              \* the driver's byte order of the plain keys must be the order of the key table
              /\ tableok' = (tableok /\ (e.variant = "plain" => e.rank = PlainRank))
              /\ s' = InitS /\ UNCHANGED <<rootOf, viol, fired>>
        [] e.ev \in {"Vector", "DeriveSha"} ->
              \* published vectors: the real root and the reference calculator both give the published value;
              \* DeriveSha(list) = root of the map index -> item
              LET pan == Has(e, "panic")
                  ok == ~pan /\ Has(e, "root") /\ Has(e, "ref") /\ e.root = e.ref /\ (Has(e, "want") => e.root = e.want) IN
              /\ fired' = [fired EXCEPT !["RootIsStandard"] = @ + 1]
              /\ viol' = IF ok THEN viol ELSE viol \cup {<<IF pan THEN "NoPanic" ELSE "RootIsStandard", {e.ev}, l>>}
              /\ UNCHANGED <<s, variant, rank, rootOf, tableok>>
        [] e.ev = "StateProof" ->
              \* the production route StateDB.GetProof / GetStorageProof (sink: proofList, which retains): the proof verifies to
              \* the account / slot value or to absence, right after the call and again after the next proof was produced
              IF Has(e, "panic")
              THEN /\ fired' = [fired EXCEPT !["NoPanic"] = @ + 1]
                   /\ viol' = viol \cup {<<"NoPanic", {"StateProof"}, l>>}
                   /\ UNCHANGED <<s, variant, rank, rootOf, tableok>>
              ELSE LET ok == /\ Has(e, "res") /\ Has(e, "again") /\ Has(e, "want")
                             /\ e.res = e.want /\ e.again = e.want
                       kd == IF Has(e, "kind") THEN e.kind ELSE "?" IN
                   /\ fired' = [fired EXCEPT !["ProofVerifiesToModel"] = @ + 1]
                   /\ viol' = IF ok THEN viol ELSE viol \cup {<<"ProofVerifiesToModel", {"StateProof", kd, "retaining_sink"}, l>>}
                   /\ UNCHANGED <<s, variant, rank, rootOf, tableok>>
        [] e.ev \in OpEvents ->
              LET s2 == Apply(s, e.args)
                  t  == Tag(s2.kv)
                  app == {"NoPanic"} \cup (IF Has(e, "obs") THEN { cl \in ObsClauses : Applies(cl, e, s, s2) } ELSE {})
                  \* an event without an observation is a panicked action (or a driver fault): NoPanic fails, nothing else is read
                  bad == (IF Has(e, "obs") THEN { cl \in app \ {"NoPanic"} : ~Holds(cl, e, s, s2) } ELSE {})
                         \cup (IF Has(e, "panic") \/ ~Has(e, "obs") THEN {"NoPanic"} ELSE {}) IN
              /\ s' = s2
              /\ fired' = [cl \in ClauseNames |-> fired[cl] + (IF cl \in app THEN 1 ELSE 0)]
              \* never stops early, but keeps at most ~200 failures (the verdict needs one)
              /\ viol' = IF Cardinality(viol) >= 200 THEN viol ELSE viol \cup { <<cl, {e.ev, variant} \cup Extra(cl, e, s2), l>> : cl \in bad }
              /\ rootOf' = IF Has(e, "obs") /\ t \notin DOMAIN rootOf THEN rootOf @@ (t :> e.obs.root) ELSE rootOf
              /\ UNCHANGED <<variant, rank, tableok>>
        [] OTHER -> UNCHANGED <<s, variant, rank, rootOf, tableok, viol, fired>>

MonSpec == MInit /\ [][MStep]_mvars

Done == (l = Len(TraceLog) + 1) =>
          PrintT("@@J " \o ToJson([kind |-> "RESULT", events |-> Len(TraceLog), viol |-> viol, fired |-> fired,
                                   tableok |-> tableok, contents |-> Cardinality(DOMAIN rootOf)]))
=============================================================================
