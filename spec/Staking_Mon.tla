---------------------------- MODULE Staking_Mon ----------------------------
(***************************************************************************)
(* C07 property-layer monitor over traces recorded from the real staking   *)
(* chain fixture (harness/drive/staking).  It cannot reject a trace: it    *)
(* folds the recorded bucket dumps into the observables `prev` (dump after *)
(* the previous event) and `bnd` (dump at the previous block boundary) and *)
(* evaluates one named clause per sentence of the statement:               *)
(*                                                                         *)
(*  Total                    "At every block boundary the sum of all       *)
(*                            account balances, all staked tokens, all     *)
(*                            unfinished withdrawal amounts, all           *)
(*                            undistributed reward pools and residues, and *)
(*                            deposits still pending activation is         *)
(*                            constant: value only moves."                 *)
(*  FeesEqualRewards         "Fees paid equal rewards credited"            *)
(*  SubsidyFromPool          "subsidies come out of the rewards pool       *)
(*                            account"                                     *)
(*  PenaltyArrives           "penalties arrive in the penalty account"     *)
(*  ReleasedOnce             "withdrawn stake returns to its recipient     *)
(*                            exactly once"                                *)
(*  RewardsNeverLost         "rewards distributed to a validator are never *)
(*                            lost by a later settlement"                  *)
(*  FailedActivationRefunded "a deposit or delegation that fails to        *)
(*                            activate is refunded"                        *)
(*                                                                         *)
(* Events: Block(blk, obs) = block boundary (state the next block starts   *)
(* from, every account of the trie), Tx(.., obs) after every offered       *)
(* transaction, EndBlock(.., obs) after the end-of-block hooks and before  *)
(* the roots are computed.  Inside a block the fees already paid and not   *)
(* yet turned into rewards are the explicit in-flight bucket obs.infl      *)
(* (header.GasRewards).  Clause failures are accumulated with the line and *)
(* a discriminator; the search never stops early.                          *)
(***************************************************************************)
EXTENDS Integers, Sequences, FiniteSets, TLC, Json

TraceLog == ndJsonDeserialize("trace.ndjson")

VARIABLES l,        \* next line
          have,     \* prev / bnd are defined
          prev,     \* bucket dump after the previous event of this history
          bnd,      \* bucket dump at the previous block boundary
          tags,     \* explanations collected inside the current block: names of finer-grained discrepancies
          tagAmt,   \* ... and the sum of their amounts (signed change of the total they account for)
          viol,     \* set of <<clause, discriminator set, line>>
          fired     \* per clause: how often its antecedent held
vars == <<l, have, prev, bnd, tags, tagAmt, viol, fired>>

\* ---------------------------------------------------------------- sums over the recorded sequences
SumMap(s, F(_)) == LET f[i \in 0..Len(s)] == IF i = 0 THEN 0 ELSE f[i - 1] + F(s[i]) IN f[Len(s)]
Id(x) == x
DlSum(v)   == SumMap(v.dl, LAMBDA d : d.t)
BalSum(o)  == SumMap(o.bal, LAMBDA x : x.v)
Staked(o)  == SumMap(o.vals, LAMBDA v : v.self + DlSum(v))          \* all staked tokens: self stake and every delegation
VRew(o)    == SumMap(o.vals, LAMBDA v : v.rd)                        \* rewards distributed to validators, not settled yet
Pools(o)   == SumMap(o.pools, Id) + SumMap(o.res, Id)                \* undistributed reward pools and residues
WqSum(o)   == SumMap(o.wq, LAMBDA r : IF r.done = 0 THEN r.fin ELSE 0) \* unfinished withdrawal amounts
PendSum(o) == SumMap(o.pend, LAMBDA p : p.x)                         \* deposits still pending activation
Rewards(o) == VRew(o) + Pools(o)
\* after the end-of-block work of a period end the listed transactions are not pending any more
\* (the records stay in the staking trie until the next block starts a new one)
Total(o, pendLive) == BalSum(o) + Staked(o) + WqSum(o) + Rewards(o) + (IF pendLive THEN PendSum(o) ELSE 0) + o.infl + o.burnt
BalOf(o, a) == SumMap(o.bal, LAMBDA x : IF x.a = a THEN x.v ELSE 0)
Names(o)    == { o.bal[i].a : i \in DOMAIN o.bal }

ValNames(o) == { o.vals[i].v : i \in DOMAIN o.vals }
ValOf(o, n) == o.vals[CHOOSE i \in DOMAIN o.vals : o.vals[i].v = n]
WqIds(o)    == { o.wq[i].id : i \in DOMAIN o.wq }
WqOf(o, id) == o.wq[CHOOSE i \in DOMAIN o.wq : o.wq[i].id = id]

\* ---------------------------------------------------------------- clause: FeesEqualRewards (per transaction)
\* rewards credited by the transaction = growth of the in-flight bucket; fees paid = what left all other buckets
Credited(e) == e.obs.infl - prev.infl
Paid(e)     == (Total(prev, TRUE) - prev.infl) - (Total(e.obs, TRUE) - e.obs.infl)
FeeExcess(e) == Credited(e) - Paid(e)
Min(a, b) == IF a < b THEN a ELSE b
\* class of a failure: the rewards exceed the fees by exactly the refund the sender got back for one cleared storage slot
\* (refund counter 15000, capped at half of the gas used), they exceed them otherwise, or they fall short
FeeClass(e) == IF FeeExcess(e) > 0 /\ FeeExcess(e) = Min(e.gas \div 2, 15000) * e.p THEN "gas_refund"
               ELSE IF FeeExcess(e) > 0 THEN "excess" ELSE "deficit"
FeeDisc(e)  == {e.k, FeeClass(e)}
FeeTag(e)   == IF FeeClass(e) = "gas_refund" THEN "gas_refund" ELSE "fee_" \o FeeClass(e) \o "_" \o e.k

\* ---------------------------------------------------------------- clauses at the end of a block
PayTo(e, a)     == SumMap(e.pay, LAMBDA p : IF p.to = a THEN p.x ELSE 0)
PayOf(e, v)     == SumMap(e.pay, LAMBDA p : IF p.v = v THEN p.x ELSE 0)
PayAll(e)       == SumMap(e.pay, LAMBDA p : p.x)
RefundTo(e, a)  == SumMap(e.fails, LAMBDA f : IF f.from = a THEN f.x ELSE 0)
SlashAll(e)     == SumMap(e.slashes, LAMBDA s : s.total)
\* records that became finished in this step
ReleasedNow(e)  == { id \in WqIds(e.obs) : WqOf(e.obs, id).done = 1 /\ (id \in WqIds(prev) => WqOf(prev, id).done = 0) }
ReleasedTo(e, a) == SumMap(e.obs.wq, LAMBDA r : IF r.to = a /\ r.id \in ReleasedNow(e) THEN r.fin ELSE 0)
\* records whose whole remaining amount was taken by a penalty in this step (named by the slashing log): nothing is left
\* to return, the code finishes them without a payment
Consumed(e)     == UNION { { e.slashes[i].wq[j].id : j \in { k \in DOMAIN e.slashes[i].wq : e.slashes[i].wq[k].fin = 0 } } :
                           i \in DOMAIN e.slashes }
\* an unfinished record that still had something to return must not disappear
Vanished(e)     == { id \in WqIds(prev) : /\ WqOf(prev, id).done = 0 /\ WqOf(prev, id).fin > 0
                                           /\ id \notin WqIds(e.obs) /\ id \notin Consumed(e) }
Reopened(e)     == { id \in WqIds(prev) \cap WqIds(e.obs) : WqOf(prev, id).done = 1 /\ WqOf(e.obs, id).done = 0 }
HasRecord(e, a) == (\E i \in DOMAIN e.obs.wq : e.obs.wq[i].to = a) \/ (\E i \in DOMAIN prev.wq : prev.wq[i].to = a)

\* what the end-of-block work may credit to account a, by the statement: settled rewards, released withdrawals,
\* refunds of failed activations, penalties (penalty account), minus the subsidy (pool account)
Expected(e, a) == PayTo(e, a) + ReleasedTo(e, a) + RefundTo(e, a)
                    + (IF a = "pen" THEN SlashAll(e) ELSE 0) - (IF a = "pool" THEN e.sub ELSE 0)
Diff(e, a)     == (BalOf(e.obs, a) - BalOf(prev, a)) - Expected(e, a)
BadAccts(e)    == { a \in Names(e.obs) : Diff(e, a) # 0 }
ClauseOf(e, a) == CASE a = "pool" -> "SubsidyFromPool"
                    [] a = "pen"  -> "PenaltyArrives"
                    [] ReleasedTo(e, a) # 0 \/ HasRecord(e, a) -> "ReleasedOnce"
                    [] RefundTo(e, a) # 0 -> "FailedActivationRefunded"
                    [] OTHER -> "EndBlockCredits"
AcctDisc(e, a) == {IF Diff(e, a) > 0 THEN "overpaid" ELSE "underpaid"}
                    \cup (IF PayTo(e, a) # 0 THEN {"with_payout"} ELSE {})

\* rewards: what was undistributed or distributable before, plus the fees and the subsidy of this block, is either still
\* there or was paid out by a settlement
Lost(e) == (Rewards(prev) + prev.infl + e.sub) - (Rewards(e.obs) + PayAll(e))
\* a validator that distributeRewards force-settles: online and not settled for MaxRewardsPeriod periods (e.gap rounds);
\* "stale" = the settlement paid out exactly what was distributable BEFORE this block's distribution and left the residue
\* of that, i.e. the amount added by the distribution is in nobody's bucket
Forced(e) == { v \in ValNames(e.obs) \cap ValNames(prev) :
                 /\ e.pe /\ ValOf(prev, v).on /\ ValOf(prev, v).ls < e.blk /\ ValOf(prev, v).ls + e.gap <= e.blk
                 /\ ValOf(e.obs, v).ls = e.blk }
Stale(e, v) == ValOf(e.obs, v).rd + PayOf(e, v) = ValOf(prev, v).rd + (IF v = e.cb THEN e.prop ELSE 0)
StaleHouse(e) == { v \in Forced(e) : Stale(e, v) /\ ValOf(e.obs, v).role = 3 }
\* what every online House validator was credited by this block's distribution: the House pool before, plus the House
\* share of this block's rewards, minus what is left in the pool, divided by the number of online House validators.
\* The House share is what the block's rewards (fees in flight + old residue + subsidy) leave after the proposer's
\* part (logged) and the new residue.
HouseIn(e)   == prev.infl + prev.res[4] + e.sub - e.prop - e.obs.res[4]
HouseOut(e)  == prev.pools[3] + HouseIn(e) - e.obs.pools[3]
HouseCnt(e)  == Cardinality({ v \in ValNames(prev) : ValOf(prev, v).on /\ ValOf(prev, v).role = 3 })
\* the loss is explained by forced settlements with a stale record iff it is exactly the credit of those validators
LostDisc(e) == IF /\ StaleHouse(e) # {} /\ HouseCnt(e) > 0
                  /\ Lost(e) * HouseCnt(e) = Cardinality(StaleHouse(e)) * HouseOut(e)
               THEN {"forced_settlement"} ELSE {"unexplained"}

\* "a deposit or delegation that fails to activate is refunded" -- state based, at a period end: what the pending
\* transactions of the period detained for a (sender, validator) pair has become stake of that pair, is on its way back in
\* a new withdraw record of that pair, or was refunded (pairs whose validator is slashed in the same step are skipped: the
\* penalty also changes the stake)
Pairs(o)          == { <<o.pend[i].from, o.pend[i].v>> : i \in { j \in DOMAIN o.pend : o.pend[j].x > 0 } }
DetainedFor(o, q) == SumMap(o.pend, LAMBDA p : IF p.from = q[1] /\ p.v = q[2] THEN p.x ELSE 0)
StakeOf(o, q)     == IF q[2] \notin ValNames(o) THEN 0
                     ELSE IF q[1] = q[2] THEN ValOf(o, q[2]).self
                     ELSE SumMap(ValOf(o, q[2]).dl, LAMBDA d : IF d.d = q[1] THEN d.t ELSE 0)
NewWqFor(e, q)    == SumMap(e.obs.wq, LAMBDA r : IF r.id \notin WqIds(prev) /\ r.v = q[2]
                                                     /\ r.d = (IF q[1] = q[2] THEN "-" ELSE q[1]) THEN r.ini ELSE 0)
PendOf(h)         == { i \in DOMAIN prev.pend : prev.pend[i].h = h }
RefundFor(e, q)   == SumMap(e.fails, LAMBDA f : IF f.from = q[1] /\ (\E i \in PendOf(f.h) : prev.pend[i].v = q[2]) THEN f.x ELSE 0)
SlashedNow(e, v)  == \E i \in DOMAIN e.slashes : e.slashes[i].v = v
Unaccounted(e, q) == DetainedFor(prev, q) - ((StakeOf(e.obs, q) - StakeOf(prev, q)) + NewWqFor(e, q) + RefundFor(e, q))
CheckedPairs(e)   == IF e.pe THEN { q \in Pairs(prev) : ~SlashedNow(e, q[2]) } ELSE {}
BadPairs(e)       == { q \in CheckedPairs(e) : Unaccounted(e, q) # 0 }
\* a staking record of the period holds a negative value (the pending handlers computed one): as observed, the code then
\* cannot encode the record and skips the take-effect phase of the whole period
NegRec(o)         == \E i \in DOMAIN o.recs : o.recs[i].fv < 0
\* after the end-of-block work no validator with a stake is online (the last one was penalised in this very step): as
\* observed, distributeRewards then reports "empty stake" and endStakingPeriod returns before the withdraw queue and the
\* pending transactions are processed
NoOnlineStake(o)  == \A i \in DOMAIN o.vals : ~o.vals[i].on \/ o.vals[i].stk <= 0
ActDisc(e)        == IF NegRec(prev) THEN {"negative_record"}
                     ELSE IF NoOnlineStake(e.obs) THEN {"no_online_stake"} ELSE {"not_activated"}
RECURSIVE SumSet(_, _)
SumSet(S, e)      == IF S = {} THEN 0 ELSE LET q == CHOOSE x \in S : TRUE IN Unaccounted(e, q) + SumSet(S \ {q}, e)

\* ---------------------------------------------------------------- the fold
Zero == [Total |-> 0, FeesEqualRewards |-> 0, SubsidyFromPool |-> 0, PenaltyArrives |-> 0, ReleasedOnce |-> 0,
         RewardsNeverLost |-> 0, FailedActivationRefunded |-> 0, Settlements |-> 0, Activations |-> 0, Aborted |-> 0]
Init == l = 1 /\ have = FALSE /\ prev = 0 /\ bnd = 0 /\ tags = {} /\ tagAmt = 0 /\ viol = {} /\ fired = Zero

Forget == have' = FALSE /\ prev' = 0 /\ bnd' = 0 /\ tags' = {} /\ tagAmt' = 0

Step ==
   /\ l <= Len(TraceLog)
   /\ l' = l + 1
   /\ LET e == TraceLog[l] IN
      CASE e.ev = "reset" -> Forget /\ UNCHANGED <<viol, fired>>
        [] e.ev \in {"abort", "Panic", "BuildError"} ->
              Forget /\ UNCHANGED viol /\ fired' = [fired EXCEPT !.Aborted = @ + 1]
        [] e.ev = "Block" /\ ~have ->                        \* the genesis boundary
              /\ have' = TRUE /\ prev' = e.obs /\ bnd' = e.obs /\ tags' = {} /\ tagAmt' = 0
              /\ UNCHANGED <<viol, fired>>
        [] e.ev = "Tx" /\ have ->
              /\ prev' = e.obs
              /\ UNCHANGED <<have, bnd>>
              /\ fired' = IF e.refused THEN fired ELSE [fired EXCEPT !.FeesEqualRewards = @ + 1]
              /\ IF FeeExcess(e) = 0
                 THEN UNCHANGED <<viol, tags, tagAmt>>
                 ELSE /\ viol' = viol \cup { <<"FeesEqualRewards", FeeDisc(e), l>> }
                      /\ tags' = tags \cup {FeeTag(e)}
                      /\ tagAmt' = tagAmt + FeeExcess(e)
        [] e.ev = "EndBlock" /\ have ->
              LET bad  == BadAccts(e)
                  lost == Lost(e)
                  wq   == (IF Vanished(e) # {} THEN { <<"ReleasedOnce", {"vanished_unfinished"}, l>> } ELSE {})
                          \cup (IF Reopened(e) # {} THEN { <<"ReleasedOnce", {"reopened"}, l>> } ELSE {}) IN
              /\ prev' = e.obs
              /\ UNCHANGED <<have, bnd>>
              /\ fired' = [fired EXCEPT !.SubsidyFromPool = @ + (IF e.sub > 0 THEN 1 ELSE 0),
                                        !.PenaltyArrives = @ + Len(e.slashes),
                                        !.ReleasedOnce = @ + Cardinality(ReleasedNow(e)),
                                        !.FailedActivationRefunded = @ + Len(e.fails),
                                        !.RewardsNeverLost = @ + 1,
                                        !.Settlements = @ + (IF Len(e.pay) > 0 THEN 1 ELSE 0),
                                        !.Activations = @ + Cardinality(CheckedPairs(e))]
              /\ viol' = viol \cup { <<ClauseOf(e, a), AcctDisc(e, a), l>> : a \in bad } \cup wq
                              \cup (IF lost # 0 THEN { <<"RewardsNeverLost", LostDisc(e), l>> } ELSE {})
                              \cup (IF BadPairs(e) # {} THEN { <<"FailedActivationRefunded", ActDisc(e), l>> } ELSE {})
              /\ tags' = tags \cup (IF lost # 0 THEN LostDisc(e) ELSE {})
                              \cup { "credit_mismatch" : a \in bad }
                              \cup (IF BadPairs(e) # {} THEN ActDisc(e) ELSE {})
              \* rewards lost shrink the total; an unexplained credit grows it; detained value that neither became stake nor
              \* was refunded shrinks it
              /\ tagAmt' = tagAmt - lost + SumMap(e.obs.bal, LAMBDA x : Diff(e, x.a)) - SumSet(BadPairs(e), e)
        [] e.ev = "Block" /\ have ->
              \* commit step: validators that disappeared while they still held distributable rewards
              LET gone  == { v \in ValNames(prev) \ ValNames(e.obs) : ValOf(prev, v).rd > 0 }
                  goneA == SumMap(prev.vals, LAMBDA v : IF v.v \in gone THEN v.rd ELSE 0)
                  \* inside a period every pending transaction listed before the roots were computed is still listed by the
                  \* committed state; what was dropped took its detained value with it
                  drop  == IF e.pe THEN 0 ELSE PendSum(prev) - PendSum(e.obs)
                  dtag  == IF drop = 0 THEN {} ELSE IF NegRec(prev) THEN {"negative_record"} ELSE {"pending_dropped"}
                  tg    == tags \cup (IF gone # {} THEN {"removed_with_rewards"} ELSE {}) \cup dtag
                  ta    == tagAmt - goneA - drop
                  d     == Total(e.obs, TRUE) - Total(bnd, TRUE) IN
              /\ prev' = e.obs /\ bnd' = e.obs /\ tags' = {} /\ tagAmt' = 0
              /\ UNCHANGED have
              /\ fired' = [fired EXCEPT !.Total = @ + 1]
              /\ viol' = viol \cup (IF d = 0 THEN {}
                                    ELSE { <<"Total", IF d # ta \/ tg = {} \/ "unexplained" \in tg THEN {"unexplained"} ELSE tg, l>> })
                              \cup (IF gone # {} THEN { <<"RewardsNeverLost", {"removed_with_rewards"}, l>> } ELSE {})
                              \cup (IF drop # 0 THEN { <<"FailedActivationRefunded", dtag, l>> } ELSE {})
        [] OTHER -> UNCHANGED <<have, prev, bnd, tags, tagAmt, viol, fired>>

Spec == Init /\ [][Step]_vars

Done == (l = Len(TraceLog) + 1) =>
          PrintT("@@J " \o ToJson([kind |-> "RESULT", events |-> Len(TraceLog), viol |-> viol, fired |-> fired]))
=============================================================================
