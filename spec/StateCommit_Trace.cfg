SPECIFICATION TSpec
CONSTANTS
  Unit = 10
  MaxOps = 1000000
  Alpha = "rich"
  GenMode = "none"
CONSTRAINT HighWater
POSTCONDITION Accepted
CHECK_DEADLOCK FALSE
