---------------------------- MODULE TxApply_Mon ----------------------------
(***************************************************************************)
(* C17 property-layer monitor over traces recorded from the real           *)
(* core.StateProcessor.ApplyTransaction and types.Sender.                  *)
(* It cannot reject a trace; every clause is evaluated on what was         *)
(* observed (balances, nonces, gas pool, header counters before and after, *)
(* receipt, whether an error was returned) -- never on the error TEXT and  *)
(* never on what the design layer predicts.  Each clause quotes the        *)
(* sentence of the statement it restates.                                  *)
(***************************************************************************)
EXTENDS Integers, Sequences, FiniteSets, TLC, Json, BigWord
ASSUME BigWordLoaded

TraceLog == ndJsonDeserialize("trace.ndjson")

VARIABLES l, viol, fired
vars == <<l, viol, fired>>

Clauses == {"RefusedChangesNothing", "AppliedRequires", "NonceExactlyNext", "ChargedExactly", "GasWithinBounds",
            "PoolAccounting", "RevertedUnchanged", "SenderAuthentic"}

\* senders are the first two tracked accounts
NSenders == 2

BaseGas(to) == CASE to = "create" -> 53000 [] to = "staking" -> 100000 [] OTHER -> 21000
Intrinsic(t) == BaseGas(t.to) + 16 * t.nz + 4 * t.z

\* "ApplyBig" events (big-number stage): price, value, balances and gas rewards are decimal strings (tx.priceS, tx.valueS,
\* pre.bal, post.bal, hdr[3..4]), judged with exact arithmetic (BigWord override); everything else is as in "Apply" events
IsApply(e) == e.ev \in {"Apply", "ApplyBig"}
IsBig(e) == e.ev = "ApplyBig"
CostS(e) == BigMul(BigOfInt(e.tx.limit), e.tx.priceS)
Applied(e) == e.err = "" /\ e.rc.status >= 0
PreN(e) == e.pre.nonce[e.tx.s]
PreB(e) == e.pre.bal[e.tx.s]
Cost(e) == e.tx.limit * e.tx.price
WrongNonce(e) == e.tx.nonce # PreN(e)
CannotPay(e) == IF IsBig(e) THEN ~BigLeq(CostS(e), PreB(e)) ELSE PreB(e) < Cost(e)
Exhausted(e) == e.pool[1] < e.tx.limit
UpFront(e) == WrongNonce(e) \/ CannotPay(e) \/ Exhausted(e)
\* value the transaction moves out of the sender: what it names, when it succeeded (a failed call/creation/staking
\* action transfers and stakes nothing)
Moved(e) == IF e.rc.status = 1 THEN e.tx.mv ELSE 0
Paid(e) == PreB(e) - e.post.bal[e.tx.s]
Expected(e) == Moved(e) + e.rc.gas * e.tx.price

\* class of a ChargedExactly / PoolAccounting failure: the known refund accounting -- a successful storage-clearing
\* call whose sender (pool) got back at most the refund cap of half the used gas -- or the input class
RefundShape(e, short, unit) == e.tx.pay = "clear" /\ e.rc.status = 1 /\ short > 0 /\ short <= (e.rc.gas \div 2) * unit
InputClass(e) == {e.tx.to, e.tx.pay, IF e.rc.status = 1 THEN "ok" ELSE "failed", e.vtag}
\* ... or the legacy gas of a failed staking transaction: the whole limit is reported as used, the intrinsic gas is charged
\* (the protocol version is part of the discriminator: this is the rule of YouV1..YouV3 only)
LegacyShape(e, charged) == e.tx.to = "staking" /\ e.rc.status = 0 /\ e.rc.gas = e.tx.limit /\ e.tx.limit > Intrinsic(e.tx)
                           /\ charged = Intrinsic(e.tx)
Reasons(e) == (IF WrongNonce(e) THEN {"nonce"} ELSE {}) \cup (IF CannotPay(e) THEN {"gas_funds"} ELSE {})
              \cup (IF Exhausted(e) THEN {"block_gas"} ELSE {}) \cup {e.vtag}

\* ---- clause antecedents (for the vacuity counters) and verdicts
Ante(c, e) ==
   CASE c = "RefusedChangesNothing" -> IsApply(e) /\ UpFront(e)
     [] c = "RevertedUnchanged"     -> IsApply(e) /\ ~Applied(e) /\ e.mode = "miner"
     [] c = "SenderAuthentic"       -> e.ev \in {"Sender", "Resolve", "SenderV"} \/ (e.ev = "Obj" /\ e.op \in {"home", "foreign", "hash", "apply", "badjson", "badrlp"})
     [] OTHER                       -> IsApply(e) /\ Applied(e)

Holds(c, e) ==
   CASE c = "RefusedChangesNothing" ->
          \* "a transaction refused up front (wrong nonce, cannot pay for its gas, block gas exhausted) changes nothing"
          ~Applied(e) /\ e.post = e.pre /\ e.pool[2] = e.pool[1] /\ e.hdr[2] = e.hdr[1] /\ e.hdr[4] = e.hdr[3]
     [] c = "AppliedRequires" ->
          \* "An applied transaction requires the account's next nonce and sufficient funds"
          ~WrongNonce(e) /\ (IF IsBig(e) THEN BigLeq(BigAdd(CostS(e), e.tx.valueS), PreB(e))
                              ELSE PreB(e) >= Cost(e) + (IF e.tx.to = "staking" THEN 0 ELSE e.tx.value))
     [] c = "NonceExactlyNext" ->
          \* "raises the nonce by one"
          /\ e.post.nonce[e.tx.s] = PreN(e) + 1
          /\ \A o \in 1..NSenders : o # e.tx.s => e.post.nonce[o] = e.pre.nonce[o]
     [] c = "ChargedExactly" ->
          \* "changes the sender's balance by exactly the value it transfers or stakes plus gas used times price"
          IF IsBig(e) THEN BigSub(PreB(e), e.post.bal[e.tx.s])
                           = BigAdd(IF e.rc.status = 1 THEN e.tx.valueS ELSE "0", BigMul(BigOfInt(e.rc.gas), e.tx.priceS))
          ELSE Paid(e) = Expected(e)
     [] c = "GasWithinBounds" ->
          \* "with gas used between the intrinsic cost and the limit"
          Intrinsic(e.tx) <= e.rc.gas /\ e.rc.gas <= e.tx.limit
     [] c = "PoolAccounting" ->
          \* "every sequence of such applications within a block gas pool": the pool held the limit, pays exactly the gas
          \* used, and the header counts it
          e.pool[1] >= e.tx.limit /\ e.pool[1] - e.pool[2] = e.rc.gas /\ e.hdr[2] = e.hdr[1] + e.rc.gas
     [] c = "RevertedUnchanged" ->
          \* the block builder's wrapper: a transaction that was not applied leaves every account as it was
          e.post = e.pre
     [] c = "SenderAuthentic" ->
          \* "A transaction's sender is the holder of the key that signed exactly its fields for this network; changing any
          \*  field, the network id or using a high-s signature changes the sender or is rejected"
          IF e.ev = "Sender" THEN (IF e.mut = "none" THEN e.res = "same" ELSE e.res \in {"err", "other"})
          \* "changing any field, the network id ..." for the V of the signature, exhaustively: of every V presented with the
          \* same fields, R and S, only the one the signature was made with names the key holder
          \* ... and for an object that was RE-USED: another transaction (content "B", signed by the second key) was decoded into it
          \* after its caches were filled.  Sender, hash and the account charged when it is applied follow the fields it holds NOW
          ELSE IF e.ev = "Obj" THEN (CASE e.op \in {"home", "apply"} -> e.res = e.content
                                       [] e.op = "foreign" -> e.res \in {"err", "other"}
                                       \* a damaged encoding is rejected (and, judged by the operations that follow, leaves the
                                       \* value with the fields it had)
                                       [] e.op \in {"badjson", "badrlp"} -> e.res = "err"
                                       [] OTHER -> e.res = e.content)
          ELSE IF e.ev = "SenderV" THEN ((e.res = "same") <=> (e.v = e.orig)) /\ e.res \in {"same", "err", "other"}
          \* the same sentence for one transaction OBJECT asked repeatedly, under the signer of this network ("home") and a
          \* signer for another network id ("foreign"): only the home signer may name the key holder, only for the unmutated
          \* transaction, and every answer is the one a freshly decoded object gives (it does not depend on what was asked before)
          ELSE /\ (e.res = "same") <=> (e.signer = "home" /\ e.mut = "none")
               /\ e.res \in {"same", "err", "other"}
               /\ e.res = e.fresh

Disc(c, e) ==
   CASE IsApply(e) /\ IsBig(e) -> {"big", e.cls.price, e.cls.lim, e.cls.afford, e.cls.val, e.mode}
     [] c = "RefusedChangesNothing" -> Reasons(e)
     [] c = "ChargedExactly" -> IF RefundShape(e, Expected(e) - Paid(e), e.tx.price) THEN {"gas_refund", e.vtag}
                                ELSE IF LegacyShape(e, Paid(e) \div e.tx.price) /\ Paid(e) % e.tx.price = 0 THEN {"staking_failed_gas", e.vtag}
                                ELSE InputClass(e)
     [] c = "PoolAccounting" -> IF e.hdr[2] = e.hdr[1] + e.rc.gas /\ e.pool[1] >= e.tx.limit
                                   /\ RefundShape(e, e.rc.gas - (e.pool[1] - e.pool[2]), 1) THEN {"gas_refund", e.vtag}
                                ELSE IF e.hdr[2] = e.hdr[1] + e.rc.gas /\ e.pool[1] >= e.tx.limit /\ LegacyShape(e, e.pool[1] - e.pool[2])
                                THEN {"staking_failed_gas", e.vtag}
                                ELSE InputClass(e)
     [] c = "SenderAuthentic" -> IF e.ev = "Sender" THEN {e.mut, e.res}
                                 ELSE IF e.ev = "Obj" THEN {"reused_object", e.op, "via_" \o e.via, "answer_" \o e.res}
                                 ELSE IF e.ev = "SenderV" THEN {"vsweep", e.res, IF e.v = e.orig THEN "original_v" ELSE "other_v"}
                                 ELSE {e.mut, e.res, "signer_" \o e.signer, IF e.step > 1 THEN "asked_before" ELSE "fresh_object"}
     [] c = "RevertedUnchanged" -> {e.err, e.vtag}
     [] OTHER -> InputClass(e)

Init == l = 1 /\ viol = {} /\ fired = [c \in Clauses |-> 0]

Step ==
   /\ l <= Len(TraceLog)
   /\ l' = l + 1
   /\ LET e == TraceLog[l] IN
      IF e.ev \in {"Apply", "ApplyBig", "Sender", "Resolve", "SenderV", "Obj"} /\ "panic" \notin DOMAIN e
      THEN LET A == { c \in Clauses : Ante(c, e) } IN
           /\ fired' = [c \in Clauses |-> IF c \in A THEN fired[c] + 1 ELSE fired[c]]
           /\ viol' = viol \cup { <<c, Disc(c, e), l>> : c \in { k \in A : ~Holds(k, e) } }
      ELSE IF "panic" \in DOMAIN e
      THEN /\ viol' = viol \cup { <<"NoPanic", {e.ev}, l>> } /\ UNCHANGED fired
      ELSE UNCHANGED <<viol, fired>>

Spec == Init /\ [][Step]_vars

Done == (l = Len(TraceLog) + 1) =>
          PrintT("@@J " \o ToJson([kind |-> "RESULT", events |-> Len(TraceLog), viol |-> viol, fired |-> fired]))
=============================================================================
