------------------------------ MODULE EvmPool ------------------------------
(***************************************************************************)
(* C15, design layer: the interpreter's operand stack over a pool of       *)
(* recycled big integers, as coded in core/vm (stack.go, intpool.go,       *)
(* instructions.go).                                                       *)
(*                                                                         *)
(* Stack items are POINTERS to mutable integers.  An opcode pops pointers, *)
(* overwrites one of the popped / peeked integers (or one taken from the   *)
(* pool, or a brand-new one) with the result, pushes that pointer and puts *)
(* the other popped pointers into the pool, from which later PUSH / DUP /  *)
(* SDIV ... take their result objects.  S256 returns its argument itself   *)
(* when it is non-negative and a NEW integer otherwise.  At the end of a   *)
(* program the whole stack is put into the pool, and the pool survives to  *)
(* the next program (poolOfIntPools).  Here: heap = object -> word,        *)
(* stack / pool = sequences of objects; one action per opcode class with   *)
(* exactly the object flow of its Go function; the word computed is        *)
(* EvmWord's Result, applied to the words READ FROM THE HEAP at that       *)
(* moment -- so an aliasing mistake corrupts later operands.               *)
(*                                                                         *)
(* Property layer: ghost = the stack of words the specification prescribes *)
(* (EvmWord's stack discipline); Refines: the real stack, dereferenced,    *)
(* equals ghost ("returns the result ... never disturbs other stack        *)
(* items"); NoAlias: no integer is referenced twice (stack and pool        *)
(* together).  Bug seeds a known aliasing mistake to show that the         *)
(* invariants can fail (self-test).                                        *)
(*                                                                         *)
(* Small scope: W = 2-bit words (all four values), a few objects, every    *)
(* instruction sequence up to MaxSteps.  In GenMode "leaf" the sequences   *)
(* are printed and replayed on the real interpreter with 256-bit boundary  *)
(* words in place of the four abstract ones.                               *)
(***************************************************************************)
EXTENDS EvmWord, TLC, Json

CONSTANTS MaxSteps,    \* instructions per behaviour (over all programs of the behaviour)
          MaxStack,    \* operand stack bound of the generated programs
          PoolLimit,   \* poolLimit of intpool.go (256 in the code)
          Bug,         \* "none" | "mul_put_x" | "dup_shares" | "sdiv_res_is_x"
          GenMode      \* "none" | "leaf"

VARIABLES heap, stack, pool, ghost, hist
pvars == <<heap, stack, pool, ghost, hist>>

Objs  == 1..(MaxStack + PoolLimit + 6)
WordsS == { BigOfInt(i) : i \in 0..(2 ^ W - 1) }
Range(s) == { s[i] : i \in DOMAIN s }

\* the machine state threaded through one opcode
St == [heap |-> heap, stack |-> stack, pool |-> pool]
Peek(s, n)  == s.stack[Len(s.stack) + 1 - n]
Drop(s, n)  == [s EXCEPT !.stack = SubSeq(@, 1, Len(@) - n)]
Push(s, o)  == [s EXCEPT !.stack = Append(@, o)]
Set(s, o, v) == [s EXCEPT !.heap[o] = v]
\* new(big.Int): an object referenced by nobody (tmp = objects the opcode still holds in local variables)
New(s, tmp) == CHOOSE o \in Objs : /\ o \notin Range(s.stack) \cup Range(s.pool) \cup tmp
                                   /\ \A p \in Objs : p \notin Range(s.stack) \cup Range(s.pool) \cup tmp => o <= p
\* intPool.get / getZero: the top of the pool, or a new integer
Got(s, tmp)  == IF s.pool # <<>> THEN s.pool[Len(s.pool)] ELSE New(s, tmp)
Take(s)      == IF s.pool # <<>> THEN [s EXCEPT !.pool = SubSeq(@, 1, Len(@) - 1)] ELSE s
\* intPool.put(is...): the limit is tested once, before the loop
Put(s, os)   == IF Len(s.pool) > PoolLimit THEN s ELSE [s EXCEPT !.pool = @ \o os]
\* math.S256: the argument itself when its sign bit is clear, otherwise a new integer (holding the same word here)
S256(s, o, tmp) == IF Lt(s.heap[o], Half) THEN o ELSE New(s, tmp \cup {o})

Commit(s, g, rec) == /\ heap' = s.heap /\ stack' = s.stack /\ pool' = s.pool /\ ghost' = g
                     /\ hist' = Append(hist, rec)

GhostOp(op) == Append(Below(ghost, Arity(op)), Result(op, TopN(ghost, Arity(op))))

Init == /\ heap = [o \in Objs |-> Zero] /\ stack = <<>> /\ pool = <<>> /\ ghost = <<>> /\ hist = <<>>

Can(n) == Len(hist) < MaxSteps /\ Len(stack) >= n

\* makePush: integer := pool.get(); stack.push(integer.SetBytes(...))
DoPush == /\ Can(0) /\ Len(stack) < MaxStack
          /\ \E v \in WordsS :
                LET o == Got(St, {}) IN
                Commit(Push(Set(Take(St), o, v), o), Append(ghost, v), <<"PUSH", v>>)

\* opPop: pool.put(stack.pop())
DoPop == /\ Can(1)
         /\ Commit(Put(Drop(St, 1), <<Peek(St, 1)>>), Below(ghost, 1), <<"POP">>)

\* stack.dup: st.push(pool.get().Set(st.data[st.len()-n]))
DoDup == /\ Len(stack) < MaxStack
         /\ \E n \in 1..2 :
               /\ Can(n)
               /\ LET src == Peek(St, n)
                      o   == IF Bug = "dup_shares" THEN src ELSE Got(St, {})
                      s1  == IF Bug = "dup_shares" THEN St ELSE Set(Take(St), o, heap[src])
                  IN  Commit(Push(s1, o), Append(ghost, ghost[Len(ghost) + 1 - n]), <<"DUP", n>>)

\* stack.swap: the two pointers change places
DoSwap == /\ Can(2)
          /\ LET n == Len(stack) IN
             Commit([St EXCEPT !.stack = [@ EXCEPT ![n] = stack[n - 1], ![n - 1] = stack[n]]],
                    [ghost EXCEPT ![n] = ghost[n - 1], ![n - 1] = ghost[n]], <<"SWAP", 1>>)

\* opAdd, opSub, opDiv, opLt, opGt, opSlt, opSgt, opEq, opOr, opXor, opByte, opSHL, opSHR:
\*   x, y := stack.pop(), stack.peek(); y := f(x, y); pool.put(x)
PopPeek == /\ Can(2)
           /\ \E op \in {"ADD", "SUB", "DIV", "LT", "SLT", "EQ", "XOR", "BYTE", "SHL", "SHR"} :
                 LET xo == Peek(St, 1)  yo == Peek(St, 2)
                     r  == Result(op, <<heap[xo], heap[yo]>>)
                 IN  Commit(Put(Set(Drop(St, 1), yo, r), <<xo>>), GhostOp(op), <<op>>)

\* opMul, opMod, opAnd: x, y := stack.pop(), stack.pop(); stack.push(x := f(x, y)); pool.put(y)
PopPopPushX == /\ Can(2)
               /\ \E op \in {"MUL", "MOD", "AND"} :
                     LET xo == Peek(St, 1)  yo == Peek(St, 2)
                         r  == Result(op, <<heap[xo], heap[yo]>>)
                     IN  Commit(Put(Push(Set(Drop(St, 2), xo, r), xo), <<IF Bug = "mul_put_x" THEN xo ELSE yo>>),
                                GhostOp(op), <<op>>)

\* opSdiv, opSmod: x, y := S256(pop), S256(pop); res := pool.getZero(); ...; stack.push(res); pool.put(x, y)
SignedPair == /\ Can(2)
              /\ \E op \in {"SDIV", "SMOD"} :
                    LET x0 == Peek(St, 1)  y0 == Peek(St, 2)
                        s1 == Drop(St, 2)
                        x  == S256(s1, x0, {x0, y0})
                        y  == S256(s1, y0, {x0, y0, x})
                        ro == IF Bug = "sdiv_res_is_x" THEN x ELSE Got(s1, {x0, y0, x, y})
                        r  == Result(op, <<heap[x0], heap[y0]>>)
                    IN  Commit(Put(Push(Set(Take(s1), ro, r), ro), <<x, y>>), GhostOp(op), <<op>>)

\* opExp: base, exponent := pop, pop; stack.push(math.Exp(base, exponent)) -- a new integer; pool.put(base, exponent)
DoExp == /\ Can(2)
         /\ LET bo == Peek(St, 1)  eo == Peek(St, 2)
                s1 == Drop(St, 2)
                ro == New(s1, {bo, eo})
            IN  Commit(Put(Push(Set(s1, ro, Result("EXP", <<heap[bo], heap[eo]>>)), ro), <<bo, eo>>), GhostOp("EXP"), <<"EXP">>)

\* opSignExtend: back := pop; if back < 31 { num := pop; (back is reused as the mask); push(num := f) }; pool.put(back)
DoSignExtend ==
   /\ Can(2)
   /\ LET bo == Peek(St, 1)  no == Peek(St, 2) IN
      IF SmallerThan(heap[bo], NB - 1)
      THEN Commit(Put(Push(Set(Set(Drop(St, 2), no, Result("SIGNEXTEND", <<heap[bo], heap[no]>>)), bo, One), no), <<bo>>),
                  GhostOp("SIGNEXTEND"), <<"SIGNEXTEND">>)
      ELSE Commit(Put(Drop(St, 1), <<bo>>), GhostOp("SIGNEXTEND"), <<"SIGNEXTEND">>)

\* opIszero, opNot: in place on the top item
InPlace == /\ Can(1)
           /\ \E op \in {"ISZERO", "NOT"} :
                 Commit(Set(St, Peek(St, 1), Result(op, <<heap[Peek(St, 1)]>>)), GhostOp(op), <<op>>)

\* opAddmod, opMulmod: x, y, z := pop, pop, pop; stack.push(x := f); pool.put(y, z)
Ternary == /\ Can(3)
           /\ \E op \in {"ADDMOD", "MULMOD"} :
                 LET xo == Peek(St, 1)  yo == Peek(St, 2)  zo == Peek(St, 3)
                     r  == Result(op, <<heap[xo], heap[yo], heap[zo]>>)
                 IN  Commit(Put(Push(Set(Drop(St, 3), xo, r), xo), <<yo, zo>>), GhostOp(op), <<op>>)

\* opSAR: shift, value := U256(pop), S256(pop); defer pool.put(shift); stack.push(U256(value))
DoSar == /\ Can(2)
         /\ LET so == Peek(St, 1)  v0 == Peek(St, 2)
                s1 == Drop(St, 2)
                vo == S256(s1, v0, {so, v0})
            IN  Commit(Put(Push(Set(s1, vo, Result("SAR", <<heap[so], heap[v0]>>)), vo), <<so>>), GhostOp("SAR"), <<"SAR">>)

\* end of the program (interpreter.Run: defer intPool.put(stack.data...)); the pool goes on to the next program
EndProgram == /\ Len(hist) < MaxSteps /\ stack # <<>>
              /\ Commit(Put(Drop(St, Len(stack)), stack), <<>>, <<"END">>)

Next == DoPush \/ DoPop \/ DoDup \/ DoSwap \/ PopPeek \/ PopPopPushX \/ SignedPair \/ DoExp \/ DoSignExtend \/ InPlace
        \/ Ternary \/ DoSar \/ EndProgram
Spec == Init /\ [][Next]_pvars

---------------------------------------------------------------------------
Distinct(s) == \A i, j \in DOMAIN s : i # j => s[i] # s[j]
NoAlias == Distinct(stack \o pool)
Refines == Len(stack) = Len(ghost) /\ \A i \in DOMAIN stack : heap[stack[i]] = ghost[i]

Leaf == (GenMode = "leaf" /\ Len(hist) = MaxSteps) => PrintT("@@J " \o ToJson([kind |-> "B", h |-> hist]))
View == <<heap, stack, pool, ghost, Len(hist)>>
=============================================================================
