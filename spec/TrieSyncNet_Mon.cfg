SPECIFICATION MonSpec
CONSTRAINT Done
CHECK_DEADLOCK FALSE
