-------------------------------- MODULE Dag --------------------------------
(***************************************************************************)
(* Default node DAGs for spec/TrieSync.tla.  checks/C19.py REPLACES this   *)
(* module in the scratch directory by one generated from real tries and    *)
(* states (driver `triesync`, mode=extract): node ids 1..n, node 1 is the  *)
(* root, kids[i] = database entries referenced by entry i, raw = entries   *)
(* stored as is (code, delegation lists).  The defaults are the DAG of the *)
(* design probe (shared child, raw entry) and a three-node trie.           *)
(***************************************************************************)
DagTable == <<
  [n |-> 6, kids |-> << {2, 3}, {4}, {4, 5}, {}, {6}, {} >>, raw |-> {6}],
  [n |-> 3, kids |-> << {2, 3}, {}, {} >>, raw |-> {}]
>>
=============================================================================
