------------------------------ MODULE Journal ------------------------------
(***************************************************************************)
(* C09 -- snapshot / revert / per-transaction finalisation of core/state's *)
(* StateDB (statedb.go Snapshot, RevertToSnapshot, Finalise,               *)
(* clearJournalAndRefund, createObject, Suicide; journal.go;               *)
(* state_object.go; statedb_val.go; statedb_staking.go UpdateDelegation).  *)
(*                                                                         *)
(* Design layer (implementation shaped): the abstract state is a flat map  *)
(* key -> value; the account journal and the validator journal are two     *)
(* sequences of undo entries (an account entry saves the previous values   *)
(* of the keys it overwrites and names the account it dirties, exactly the *)
(* information journal.go keeps); there are TWO revision lists and one id  *)
(* counter, as coded.  Each journalled mutation kind is one action; object *)
(* creation on first write (GetOrNewStateObject -> createObject), touch,   *)
(* self-destruct and the end-of-transaction deletion of self-destructed    *)
(* and empty dirty accounts are modelled as the code does them.            *)
(* Property layer: snap[id] is the abstract state when id was issued;      *)
(* RevertRestores / RevertNeverFails are stated over it only.              *)
(*                                                                         *)
(* The same module is used for (M) exhaustive checking, (G) behaviour      *)
(* generation (history variable hist, printed as JSON) and, through        *)
(* Journal_Trace, (T) conformance of the real StateDB.                      *)
(***************************************************************************)
EXTENDS Integers, Sequences, FiniteSets, TLC, Json

CONSTANTS Accts,      \* account ids; 1 and 2 are pre-funded (1000), any other id does not exist initially
          Vals,       \* validator ids, e.g. {1}
          MaxOps,     \* bound on the behaviour length
          Rich,       \* alphabet: "reduced" (exhaustive M, G1), "deleg", "life" (G1), "rich" (simulation)
          ClearValRevs, \* TRUE = Finalise also resets the validator revision list (repaired code)
          GenMode     \* "none" | "leaf" : print hist at leaves

VARIABLES st,         \* abstract state: function key -> value
          j, vj,      \* account journal, validator journal: sequences of undo entries
          revs, vrevs,\* revision lists: sequences of [id, idx]
          nextId,
          snap,       \* property layer: id -> abstract state at issue (only ids still valid)
          failed,     \* the code-level revision lookup failed (= panic)
          hist        \* generated behaviour

vars == <<st, j, vj, revs, vrevs, nextId, snap, failed, hist>>

\* ---------------------------------------------------------------- keys
\* "gb" (ghost balance): the balance left in an object that was deleted at a transaction boundary; CreateAccount
\* carries it over (statedb.go CreateAccount does not test prev.deleted -- inherited from go-ethereum 1.9)
AF == {"ex", "kn", "bal", "nonce", "s1", "s2", "code", "sui", "dbal", "dto", "gb"}
AKeys(a) == { <<f, a>> : f \in AF }
AcctKeys == UNION { AKeys(a) : a \in Accts }
ValKeys  == { <<"val", v>> : v \in Vals }
GlobKeys == { <<"refund", 0>>, <<"logs", 0>>, <<"wq", 0>>, <<"stat", 0>>, <<"rec", 0>>, <<"pre", 0>> }
Keys == AcctKeys \cup ValKeys \cup GlobKeys
Funded == Accts \cap {1, 2}
FundedBal == 1000

NoVal == [tok |-> 0, on |-> FALSE, ex |-> FALSE, dl |-> [a \in Accts |-> 0]]
ZeroStat == [onTok |-> 0, offTok |-> 0, onCnt |-> 0, offCnt |-> 0]

InitState == [k \in Keys |->
                 CASE k[1] = "val"  -> NoVal
                   [] k[1] = "wq"   -> <<>>
                   [] k[1] = "dto"  -> {}
                   [] k[1] = "pre"  -> {}
                   [] k[1] = "stat" -> ZeroStat
                   [] k[1] \in {"ex", "kn"} -> k[2] \in Funded
                   [] k[1] = "sui"  -> FALSE
                   [] k[1] = "bal"  -> IF k[2] \in Funded THEN FundedBal ELSE 0
                   [] OTHER         -> 0]

\* statistics maintained incrementally, as incrValidatorsStat / decrValidatorsStat do
StatAdd(s, v) == IF v.on THEN [s EXCEPT !.onTok = @ + v.tok, !.onCnt = @ + 1]
                        ELSE [s EXCEPT !.offTok = @ + v.tok, !.offCnt = @ + 1]
StatSub(s, v) == IF v.on THEN [s EXCEPT !.onTok = @ - v.tok, !.onCnt = @ - 1]
                        ELSE [s EXCEPT !.offTok = @ - v.tok, !.offCnt = @ - 1]
StakeEqual(a, b) == a.tok = b.tok /\ a.on = b.on

\* Alphabet "deleg3" starts from a populated state: every validator created with 2 units, account 1 delegating 2 units to
\* each of them, transaction finalised.  The prelude that produces it is the beginning of hist, so the driver (and the
\* conformance spec, from the plain initial state) simply replay it.
SetToSeq(S) == LET RECURSIVE F(_) F(T) == IF T = {} THEN <<>> ELSE LET x == CHOOSE y \in T : \A z \in T : y <= z IN <<x>> \o F(T \ {x}) IN F(S)
Prelude == [i \in 1..Cardinality(Vals) |-> [op |-> "CreateValidator", v |-> SetToSeq(Vals)[i], tok |-> 2]]
           \o [i \in 1..Cardinality(Vals) |-> [op |-> "UpdateDelegation", a |-> 1, v |-> SetToSeq(Vals)[i], d |-> 2]]
           \o <<[op |-> "Finalise"]>>
SeededState == [k \in Keys |->
                 CASE k[1] = "val"  -> [tok |-> 4, on |-> FALSE, ex |-> TRUE, dl |-> [a \in Accts |-> IF a = 1 THEN 2 ELSE 0]]
                   [] k[1] = "stat" -> [onTok |-> 0, offTok |-> 4 * Cardinality(Vals), onCnt |-> 0, offCnt |-> Cardinality(Vals)]
                   [] k = <<"dbal", 1>> -> 2 * Cardinality(Vals)
                   [] k = <<"dto", 1>>  -> Vals
                   [] OTHER -> InitState[k]]
Init == /\ st = (IF Rich = "deleg3" THEN SeededState ELSE InitState)
        /\ j = <<>> /\ vj = <<>> /\ revs = <<>> /\ vrevs = <<>>
        /\ nextId = 0 /\ snap = <<>> /\ failed = FALSE
        /\ hist = (IF Rich = "deleg3" THEN Prelude ELSE <<>>)

Tick(rec) == /\ Len(hist) < MaxOps /\ ~failed
             /\ hist' = Append(hist, rec)

\* ---------------------------------------------------------------- account objects
Over(s, f)   == [k \in Keys |-> IF k \in DOMAIN f THEN f[k] ELSE s[k]]
Saved(s, ks) == [k \in ks |-> s[k]]
\* an account entry: previous values of the overwritten keys + the account it marks dirty (0 = none, as
\* resetObjectChange / refundChange / addLogChange do)
Ent(s, ks, d) == [prev |-> Saved(s, ks), d |-> d]

\* newObject(Account{}): everything zero, exists
Fresh(a) == [k \in AKeys(a) |->
               CASE k[1] \in {"ex", "kn"} -> TRUE
                 [] k[1] = "sui" -> FALSE
                 [] k[1] = "dto" -> {}
                 [] OTHER -> 0]
\* an account deleted at the end of a transaction: gone, but its (deleted) object stays known to the StateDB
Gone(s, a) == [k \in AKeys(a) |->
               CASE k[1] = "ex" -> FALSE
                 [] k[1] = "kn" -> TRUE
                 [] k[1] = "gb" -> s[<<"bal", a>>]
                 [] k[1] = "sui" -> FALSE
                 [] k[1] = "dto" -> {}
                 [] OTHER -> 0]
Empty(s, a) == s[<<"nonce", a>>] = 0 /\ s[<<"bal", a>>] = 0 /\ s[<<"code", a>>] = 0

\* GetOrNewStateObject: createObject when there is no live object.  createObjectChange (dirties the account)
\* when the StateDB has never seen the address, resetObjectChange (dirties nothing) when a deleted object is known.
EnsureS(s, a) == IF s[<<"ex", a>>] THEN s ELSE Over(s, Fresh(a))
EnsureJ(s, jr, a) == IF s[<<"ex", a>>] THEN jr
                     ELSE Append(jr, Ent(s, AKeys(a), IF s[<<"kn", a>>] THEN 0 ELSE a))

AcctDone == UNCHANGED <<vj, revs, vrevs, nextId, snap, failed>>

\* a setter that always journals (SetBalance, SetNonce, SetCode)
Setter(a, k, v, rec) ==
   /\ Tick(rec)
   /\ LET s1 == EnsureS(st, a)  j1 == EnsureJ(st, j, a) IN
      /\ st' = [s1 EXCEPT ![k] = v]
      /\ j' = Append(j1, Ent(s1, {k}, a))
   /\ AcctDone

\* stateObject.AddBalance: amount 0 only touches an empty object
AddBalance(a, d) ==
   IF d > 0 THEN Setter(a, <<"bal", a>>, EnsureS(st, a)[<<"bal", a>>] + d, [op |-> "AddBalance", a |-> a, d |-> d])
   ELSE /\ Tick([op |-> "AddBalance", a |-> a, d |-> 0])
        /\ LET s1 == EnsureS(st, a)  j1 == EnsureJ(st, j, a) IN
           /\ st' = s1
           /\ j' = IF Empty(s1, a) THEN Append(j1, Ent(s1, {}, a)) ELSE j1
        /\ AcctDone
SubBalance(a, d) == st[<<"ex", a>>] /\ st[<<"bal", a>>] >= d /\ d > 0
                    /\ Setter(a, <<"bal", a>>, st[<<"bal", a>>] - d, [op |-> "SubBalance", a |-> a, d |-> d])
SetNonce(a, n)   == Setter(a, <<"nonce", a>>, n, [op |-> "SetNonce", a |-> a, v |-> n])
SetCode(a, c)    == Setter(a, <<"code", a>>, c, [op |-> "SetCode", a |-> a, v |-> c])
\* stateObject.SetState returns early (no journal entry) when the value does not change
SetState(a, s, v) ==
   /\ Tick([op |-> "SetState", a |-> a, s |-> s, v |-> v])
   /\ LET s1 == EnsureS(st, a)  j1 == EnsureJ(st, j, a) IN
      IF s1[<<s, a>>] = v THEN st' = s1 /\ j' = j1
      ELSE st' = [s1 EXCEPT ![<<s, a>>] = v] /\ j' = Append(j1, Ent(s1, {<<s, a>>}, a))
   /\ AcctDone

\* StateDB.Suicide: nothing (not even a journal entry) without a live object
Suicide(a) ==
   /\ Tick([op |-> "Suicide", a |-> a])
   /\ IF st[<<"ex", a>>]
      THEN /\ st' = [st EXCEPT ![<<"sui", a>>] = TRUE, ![<<"bal", a>>] = 0]
           /\ j' = Append(j, Ent(st, {<<"sui", a>>, <<"bal", a>>}, a))
      ELSE UNCHANGED <<st, j>>
   /\ AcctDone

\* StateDB.CreateAccount: createObject unconditionally; the balance of a previous object is carried over
CreateAccount(a) ==
   /\ Tick([op |-> "CreateAccount", a |-> a])
   /\ st' = [Over(st, Fresh(a)) EXCEPT ![<<"bal", a>>] = IF st[<<"ex", a>>] THEN st[<<"bal", a>>] ELSE st[<<"gb", a>>]]
   /\ j' = Append(j, Ent(st, AKeys(a), IF st[<<"kn", a>>] THEN 0 ELSE a))
   /\ AcctDone

Global(k, v, rec) ==
   /\ Tick(rec)
   /\ st' = [st EXCEPT ![k] = v]
   /\ j' = Append(j, Ent(st, {k}, 0))
   /\ AcctDone
\* AddPreimage journals (and records) only a preimage that is not recorded yet; preimages survive Finalise
AddPreimage(h) ==
   IF h \in st[<<"pre", 0>>]
   THEN /\ Tick([op |-> "AddPreimage", v |-> h]) /\ UNCHANGED <<st, j>> /\ AcctDone
   ELSE Global(<<"pre", 0>>, st[<<"pre", 0>>] \cup {h}, [op |-> "AddPreimage", v |-> h])
AddLog       == Global(<<"logs", 0>>, st[<<"logs", 0>>] + 1, [op |-> "AddLog", x |-> 0])
AddRefund(g) == Global(<<"refund", 0>>, st[<<"refund", 0>>] + g, [op |-> "AddRefund", v |-> g])
SubRefund(g) == st[<<"refund", 0>>] >= g /\ Global(<<"refund", 0>>, st[<<"refund", 0>>] - g, [op |-> "SubRefund", v |-> g])

\* ---------------------------------------------------------------- validator-journal mutations
ValStep(rec, newst, entry) ==
   /\ Tick(rec)
   /\ st' = newst
   /\ vj' = Append(vj, entry)
   /\ UNCHANGED <<j, revs, vrevs, nextId, snap, failed>>

CreateValidator(v, tok) ==
   /\ ~st[<<"val", v>>].ex
   /\ LET nv == [tok |-> tok, on |-> FALSE, ex |-> TRUE, dl |-> [a \in Accts |-> 0]] IN
      ValStep([op |-> "CreateValidator", v |-> v, tok |-> tok],
              [st EXCEPT ![<<"val", v>>] = nv, ![<<"stat", 0>>] = StatAdd(@, nv)],
              [kind |-> "create", v |-> v])

\* the staking module's pattern: new := old.PartialCopy(); modify; UpdateValidator(new, old)
\* Valid use: the record's total never drops below what is delegated to it (the validator's own part stays >= 0); the
\* staking handlers check this before mutating, and a record with a negative own part cannot even be encoded (the root
\* computation panics with "rlp: cannot encode negative *big.Int"), so such a state has no roots to compare.
DlTotal(r) == LET S[A \in SUBSET Accts] == IF A = {} THEN 0 ELSE LET x == CHOOSE y \in A : TRUE IN r.dl[x] + S[A \ {x}]
              IN S[Accts]
UpdateValidator(v, dtok, flip) ==
   /\ st[<<"val", v>>].ex
   /\ st[<<"val", v>>].tok + dtok >= DlTotal(st[<<"val", v>>])
   /\ LET old == st[<<"val", v>>]
          nv  == [old EXCEPT !.tok = @ + dtok, !.on = IF flip THEN ~@ ELSE @] IN
      ValStep([op |-> "UpdateValidator", v |-> v, d |-> dtok, flip |-> flip],
              [st EXCEPT ![<<"val", v>>] = nv,
                         ![<<"stat", 0>>] = IF StakeEqual(nv, old) THEN @ ELSE StatAdd(StatSub(@, old), nv)],
              [kind |-> "update", v |-> v, old |-> old, new |-> nv])

RemoveValidator(v) ==
   /\ st[<<"val", v>>].ex
   /\ LET old == st[<<"val", v>>] IN
      ValStep([op |-> "RemoveValidator", v |-> v],
              [st EXCEPT ![<<"val", v>>] = NoVal, ![<<"stat", 0>>] = StatSub(@, old)],
              [kind |-> "delete", v |-> v, old |-> old])

AddWithdraw(r) ==
   /\ Len(st[<<"wq", 0>>]) < 3
   /\ \A i \in DOMAIN st[<<"wq", 0>>] : st[<<"wq", 0>>][i] # r
   /\ ValStep([op |-> "AddWithdraw", r |-> r],
              [st EXCEPT ![<<"wq", 0>>] = Append(@, r)],
              [kind |-> "addwq", r |-> r])

RemoveAt(s, i) == SubSeq(s, 1, i - 1) \o SubSeq(s, i + 1, Len(s))
RemoveWithdraw(i) ==
   /\ i \in DOMAIN st[<<"wq", 0>>]
   /\ ValStep([op |-> "RemoveWithdraw", i |-> i],
              [st EXCEPT ![<<"wq", 0>>] = RemoveAt(@, i)],
              [kind |-> "delwq", prev |-> st[<<"wq", 0>>]])

\* delegation (statedb_staking.go UpdateDelegation): the validator side goes through UpdateValidator (validator
\* journal); the delegator side appends a delegationsChange entry when the account's validator list changes and
\* always a delegationBalanceChange entry (account journal).
UpdateDelegation(a, v, d) ==
   /\ st[<<"val", v>>].ex
   /\ st[<<"ex", a>>]
   /\ LET old == st[<<"val", v>>]
          cur == old.dl[a]
          nv  == [old EXCEPT !.tok = @ + d, !.dl[a] = cur + d]
          odto == st[<<"dto", a>>]
          \* stateObject.UpdateDelegationTo(v, delete = (the delegation became empty)): the account's own list decides
          \* whether anything changes (it may have been wiped by CreateAccount while the validator still lists the delegator)
          ndto == IF cur + d = 0 THEN odto \ {v} ELSE odto \cup {v} IN
      /\ cur + d >= 0 /\ (cur = 0 => d > 0)
      /\ Tick([op |-> "UpdateDelegation", a |-> a, v |-> v, d |-> d])
      /\ st' = [st EXCEPT ![<<"val", v>>] = nv,
                          ![<<"stat", 0>>] = StatAdd(StatSub(@, old), nv),
                          ![<<"dbal", a>>] = @ + d,
                          ![<<"dto", a>>] = ndto]
      /\ vj' = Append(vj, [kind |-> "update", v |-> v, old |-> old, new |-> nv])
      /\ j' = (IF ndto # odto THEN Append(j, Ent(st, {<<"dto", a>>}, a)) ELSE j)
                 \o <<Ent(st, {<<"dbal", a>>}, a)>>
   /\ UNCHANGED <<revs, vrevs, nextId, snap, failed>>

\* ---------------------------------------------------------------- snapshot / revert / finalise
Snapshot ==
   /\ Tick([op |-> "Snapshot", id |-> nextId])
   /\ revs'  = Append(revs,  [id |-> nextId, idx |-> Len(j)])
   /\ vrevs' = Append(vrevs, [id |-> nextId, idx |-> Len(vj)])
   /\ snap' = Append(snap, [id |-> nextId, s |-> st])
   /\ nextId' = nextId + 1
   /\ UNCHANGED <<st, j, vj, failed>>

\* sort.Search(len, id >= revid) followed by the equality test
Find(list, id) ==
   LET S == { n \in DOMAIN list : list[n].id >= id } IN
   IF S = {} THEN 0
   ELSE LET m == CHOOSE n \in S : \A k \in S : n <= k IN IF list[m].id = id THEN m ELSE 0

RECURSIVE UndoAcct(_, _, _)
UndoAcct(s, jr, idx) ==
   IF Len(jr) <= idx THEN s
   ELSE UndoAcct(Over(s, jr[Len(jr)].prev), SubSeq(jr, 1, Len(jr) - 1), idx)

UndoValEntry(s, e) ==
   CASE e.kind = "create" -> [s EXCEPT ![<<"val", e.v>>] = NoVal, ![<<"stat", 0>>] = StatSub(@, s[<<"val", e.v>>])]
     [] e.kind = "update" -> [s EXCEPT ![<<"val", e.v>>] = e.old,
                                      ![<<"stat", 0>>] = IF StakeEqual(e.new, e.old) THEN @ ELSE StatAdd(StatSub(@, e.new), e.old)]
     [] e.kind = "delete" -> [s EXCEPT ![<<"val", e.v>>] = e.old, ![<<"stat", 0>>] = StatAdd(@, e.old)]
     [] e.kind = "addwq"  -> [s EXCEPT ![<<"wq", 0>>] = SelectSeq(@, LAMBDA x : x # e.r)]
     [] e.kind = "delwq"  -> [s EXCEPT ![<<"wq", 0>>] = e.prev]

RECURSIVE UndoVal(_, _, _)
UndoVal(s, jr, idx) ==
   IF Len(jr) <= idx THEN s
   ELSE UndoVal(UndoValEntry(s, jr[Len(jr)]), SubSeq(jr, 1, Len(jr) - 1), idx)

\* ids the PROPERTY considers valid: issued in this transaction and not invalidated by an outer revert
ValidIds == { snap[n].id : n \in DOMAIN snap }
SnapOf(id) == (CHOOSE n \in DOMAIN snap : snap[n].id = id)

Revert(id) ==
   /\ id \in ValidIds
   /\ Tick([op |-> "Revert", id |-> id])
   /\ LET a == Find(revs, id)  b == Find(vrevs, id) IN
      IF a = 0 \/ b = 0
      THEN /\ failed' = TRUE
           /\ UNCHANGED <<st, j, vj, revs, vrevs, snap>>
      ELSE /\ st' = UndoVal(UndoAcct(st, j, revs[a].idx), vj, vrevs[b].idx)
           /\ j'  = SubSeq(j, 1, revs[a].idx)
           /\ vj' = SubSeq(vj, 1, vrevs[b].idx)
           /\ revs'  = SubSeq(revs, 1, a - 1)
           /\ vrevs' = SubSeq(vrevs, 1, IF ClearValRevs THEN b - 1 ELSE a - 1)  \* [:idx] of the OTHER list in the unrepaired code
           /\ snap' = SubSeq(snap, 1, SnapOf(id) - 1)
           /\ failed' = FALSE
   /\ UNCHANGED nextId

\* transaction boundary: Finalise(deleteEmptyObjects = true): every DIRTY account that self-destructed or is empty is
\* deleted; then clearJournalAndRefund
Dirty == { j[n].d : n \in DOMAIN j } \ {0}
Finalise ==
   /\ Tick([op |-> "Finalise"])
   /\ LET dead == { a \in Dirty : st[<<"ex", a>>] /\ (st[<<"sui", a>>] \/ Empty(st, a)) }
          gone == [k \in UNION { AKeys(a) : a \in dead } |-> Gone(st, k[2])[k]] IN
      st' = [Over(st, gone) EXCEPT ![<<"refund", 0>>] = 0]
   /\ j' = <<>> /\ vj' = <<>> /\ revs' = <<>>
   /\ vrevs' = IF ClearValRevs THEN <<>> ELSE vrevs
   /\ snap' = <<>>
   /\ UNCHANGED <<nextId, failed>>

\* ---------------------------------------------------------------- next-state relations
SnapRev == Snapshot \/ Finalise \/ \E id \in 0..MaxOps : Revert(id)

NextReduced ==
   \/ \E a \in Accts : AddBalance(a, 1)
   \/ \E v \in Vals : CreateValidator(v, 1) \/ UpdateValidator(v, 1, FALSE) \/ RemoveValidator(v)
   \/ AddWithdraw(1) \/ RemoveWithdraw(1)
   \/ SnapRev

\* second small alphabet: the validator record with its delegation list (the journalled old/new records share structure)
NextDeleg ==
   \/ \E v \in Vals : CreateValidator(v, 2) \/ UpdateValidator(v, 1, FALSE)
   \/ \E a \in Accts, v \in Vals, d \in {-1, 1, 2} : UpdateDelegation(a, v, d)
   \/ SnapRev

\* the delegator side with several validators (the account's sorted validator list is edited in the middle)
NextDeleg3 ==
   \/ \E v \in Vals, d \in {-2, -1, 1} : UpdateDelegation(1, v, d)
   \/ SnapRev

\* third small alphabet: the life cycle of account objects (creation on first write, touch, self-destruct, reset,
\* deletion at the transaction boundary, same-value and zero writes)
NextLife ==
   \/ \E a \in Accts : \/ AddBalance(a, 0) \/ AddBalance(a, 1) \/ SubBalance(a, 1000)
                       \/ Suicide(a) \/ CreateAccount(a)
                       \/ SetNonce(a, 1) \/ SetState(a, "s1", 1) \/ SetState(a, "s1", 0)
   \/ SnapRev

\* the transaction-wide side tables: logs, refund counter, preimages (recorded once, repeated recordings are no-ops)
NextSide ==
   \/ AddLog \/ AddRefund(1) \/ SubRefund(1)
   \/ \E h \in {1, 2} : AddPreimage(h)
   \/ SnapRev

\* fourth small alphabet: one storage slot rewritten across transaction boundaries (dirty / pending / original value caches)
NextStore ==
   \/ \E a \in Accts, v \in {0, 1, 2} : SetState(a, "s1", v)
   \/ SnapRev

NextRich ==
   \/ \E a \in Accts :
        \/ \E d \in {0, 1, 2} : AddBalance(a, d)
        \/ \E d \in {1, 2, 1000} : SubBalance(a, d)
        \/ \E n \in {0, 1, 2} : SetNonce(a, n) \/ SetCode(a, n)
        \/ \E s \in {"s1", "s2"}, v \in {0, 1, 2} : SetState(a, s, v)
        \/ \E v \in Vals, d \in {-1, 1, 2} : UpdateDelegation(a, v, d)
        \/ Suicide(a) \/ CreateAccount(a)
   \/ AddLog \/ AddRefund(1) \/ SubRefund(1)
   \/ \E h \in {1, 2} : AddPreimage(h)
   \/ \E v \in Vals :
        \/ \E t \in {1, 2} : CreateValidator(v, t)
        \/ \E d \in {-1, 0, 1}, f \in BOOLEAN : (d # 0 \/ f) /\ UpdateValidator(v, d, f)
        \/ RemoveValidator(v)
   \/ \E r \in {1, 2, 3} : AddWithdraw(r)
   \/ \E i \in {1, 2} : RemoveWithdraw(i)
   \/ SnapRev

Next == CASE Rich = "rich" -> NextRich [] Rich = "deleg" -> NextDeleg [] Rich = "deleg3" -> NextDeleg3 [] Rich = "life" -> NextLife [] Rich = "store" -> NextStore [] Rich = "side" -> NextSide [] OTHER -> NextReduced
Spec == Init /\ [][Next]_vars

\* ---------------------------------------------------------------- property layer
Cex(name) == PrintT("@@J " \o ToJson([kind |-> "CEX", clause |-> name, h |-> hist])) /\ FALSE
\* "Reverting a valid snapshot never fails."
RevertNeverFails == ~failed \/ (Cex("RevertNeverFails"))

\* "reverting to an earlier snapshot makes every observable equal to what it was when the snapshot was taken"
\* Checked as an action property: a successful Revert(id) of a valid id lands on snap[id].
RevertRestores ==
   [][ \A id \in ValidIds :
         (Len(hist') = Len(hist) + 1 /\ hist'[Len(hist')].op = "Revert" /\ hist'[Len(hist')].id = id /\ ~failed')
            => (st' = snap[SnapOf(id)].s \/ (PrintT("@@J " \o ToJson([kind |-> "CEX", clause |-> "RevertRestores", h |-> hist'])) /\ FALSE)) ]_vars

\* design sanity: an account that does not exist has no content; the statistics equal the recomputation
AbsentIsZero == \A a \in Accts : ~st[<<"ex", a>>] => (st[<<"bal", a>>] = 0 /\ st[<<"nonce", a>>] = 0 /\ st[<<"code", a>>] = 0
                                                       /\ st[<<"s1", a>>] = 0 /\ st[<<"s2", a>>] = 0 /\ ~st[<<"sui", a>>])
RECURSIVE SumTok(_, _)
SumTok(S, on) == IF S = {} THEN 0 ELSE LET v == CHOOSE x \in S : TRUE IN
                   (IF st[<<"val", v>>].ex /\ st[<<"val", v>>].on = on THEN st[<<"val", v>>].tok ELSE 0) + SumTok(S \ {v}, on)
StatIsRecount == st[<<"stat", 0>>].onTok = SumTok(Vals, TRUE) /\ st[<<"stat", 0>>].offTok = SumTok(Vals, FALSE)

\* ---------------------------------------------------------------- generation
\* GenMode "leaf": print complete behaviours (simulation).  GenMode "revert": print every behaviour, of any length up to
\* MaxOps, whose last action is a Revert -- each non-trivial prefix exactly once, nothing after the last Revert.
Leaf == CASE GenMode = "leaf"   -> ((Len(hist) = MaxOps \/ failed) => PrintT("@@J " \o ToJson([kind |-> "B", h |-> hist])))
          [] GenMode = "revert" -> ((Len(hist) > 0 /\ hist[Len(hist)].op = "Revert") => PrintT("@@J " \o ToJson([kind |-> "B", h |-> hist])))
          [] OTHER -> TRUE
\* in simulation mode every behaviour is printed when it reaches its last state
View == <<st, j, vj, revs, vrevs, nextId, snap, failed>>
=============================================================================
