------------------------------ MODULE Journal ------------------------------
(***************************************************************************)
(* C09 -- snapshot / revert / per-transaction finalisation of core/state's *)
(* StateDB (statedb.go Snapshot, RevertToSnapshot, Finalise,               *)
(* clearJournalAndRefund; journal.go; statedb_val.go).                      *)
(*                                                                         *)
(* Design layer (implementation shaped): the abstract state is a flat map  *)
(* key -> value; the account journal and the validator journal are two     *)
(* sequences of undo entries; there are TWO revision lists and one id      *)
(* counter, exactly as coded.  Each journalled mutation kind is one action.*)
(* Property layer: snap[id] is the abstract state when id was issued;      *)
(* RevertRestores / RevertNeverFails are stated over it only.              *)
(*                                                                         *)
(* The same module is used for (M) exhaustive checking, (G) behaviour      *)
(* generation (history variable hist, printed as JSON) and, through        *)
(* Journal_Trace, (T) conformance of the real StateDB.                      *)
(***************************************************************************)
EXTENDS Integers, Sequences, FiniteSets, TLC, Json

CONSTANTS Accts,      \* account ids, e.g. {1, 2}
          Vals,       \* validator ids, e.g. {1}
          MaxOps,     \* bound on the behaviour length
          Rich,       \* alphabet: "reduced" (exhaustive M, G1), "deleg" (validators + delegations, G1), "rich" (simulation)
          ClearValRevs, \* TRUE = Finalise also resets the validator revision list (repaired code)
          GenMode     \* "none" | "leaf" : print hist at leaves

VARIABLES st,         \* abstract state: function key -> value
          j, vj,      \* account journal, validator journal: sequences of undo entries
          revs, vrevs,\* revision lists: sequences of [id, idx]
          nextId,
          snap,       \* property layer: id -> abstract state at issue (only ids still valid)
          failed,     \* the code-level revision lookup failed (= panic)
          hist        \* generated behaviour

vars == <<st, j, vj, revs, vrevs, nextId, snap, failed, hist>>

\* ---------------------------------------------------------------- keys
AcctKeys == { <<f, a>> : f \in {"bal", "nonce", "s1", "s2", "code", "dbal", "dto"}, a \in Accts }
ValKeys  == { <<"val", v>> : v \in Vals }
GlobKeys == { <<"refund", 0>>, <<"logs", 0>>, <<"wq", 0>>, <<"stat", 0>>, <<"rec", 0>> }
Keys == AcctKeys \cup ValKeys \cup GlobKeys

NoVal == [tok |-> 0, on |-> FALSE, ex |-> FALSE, dl |-> [a \in Accts |-> 0]]
ZeroStat == [onTok |-> 0, offTok |-> 0, onCnt |-> 0, offCnt |-> 0]

InitState == [k \in Keys |->
                 CASE k[1] = "val"  -> NoVal
                   [] k[1] = "wq"   -> <<>>
                   [] k[1] = "dto"  -> {}
                   [] k[1] = "stat" -> ZeroStat
                   [] OTHER         -> 0]

\* statistics maintained incrementally, as incrValidatorsStat / decrValidatorsStat do
StatAdd(s, v) == IF v.on THEN [s EXCEPT !.onTok = @ + v.tok, !.onCnt = @ + 1]
                        ELSE [s EXCEPT !.offTok = @ + v.tok, !.offCnt = @ + 1]
StatSub(s, v) == IF v.on THEN [s EXCEPT !.onTok = @ - v.tok, !.onCnt = @ - 1]
                        ELSE [s EXCEPT !.offTok = @ - v.tok, !.offCnt = @ - 1]
StakeEqual(a, b) == a.tok = b.tok /\ a.on = b.on

Init == /\ st = InitState /\ j = <<>> /\ vj = <<>> /\ revs = <<>> /\ vrevs = <<>>
        /\ nextId = 0 /\ snap = <<>> /\ failed = FALSE /\ hist = <<>>

Tick(rec) == /\ Len(hist) < MaxOps /\ ~failed
             /\ hist' = Append(hist, rec)

\* ---------------------------------------------------------------- account-journal mutations
SetKey(k, v, name, args) ==
   /\ Tick([op |-> name] @@ args)
   /\ st' = [st EXCEPT ![k] = v]
   /\ j' = Append(j, [k |-> k, prev |-> st[k]])
   /\ UNCHANGED <<vj, revs, vrevs, nextId, snap, failed>>

AddBalance(a, d) == SetKey(<<"bal", a>>, st[<<"bal", a>>] + d, "AddBalance", [a |-> a, d |-> d])
SubBalance(a, d) == st[<<"bal", a>>] >= d /\ SetKey(<<"bal", a>>, st[<<"bal", a>>] - d, "SubBalance", [a |-> a, d |-> d])
SetNonce(a, n)   == SetKey(<<"nonce", a>>, n, "SetNonce", [a |-> a, v |-> n])
\* stateObject.SetState returns early (no journal entry) when the value does not change
SetState(a, s, v) ==
   IF st[<<s, a>>] = v
   THEN /\ Tick([op |-> "SetState", a |-> a, s |-> s, v |-> v])
        /\ UNCHANGED <<st, j, vj, revs, vrevs, nextId, snap, failed>>
   ELSE SetKey(<<s, a>>, v, "SetState", [a |-> a, s |-> s, v |-> v])
SetCode(a, c)    == SetKey(<<"code", a>>, c, "SetCode", [a |-> a, v |-> c])
AddLog           == SetKey(<<"logs", 0>>, st[<<"logs", 0>>] + 1, "AddLog", [x |-> 0])
AddRefund(g)     == SetKey(<<"refund", 0>>, st[<<"refund", 0>>] + g, "AddRefund", [v |-> g])
SubRefund(g)     == st[<<"refund", 0>>] >= g /\ SetKey(<<"refund", 0>>, st[<<"refund", 0>>] - g, "SubRefund", [v |-> g])

\* ---------------------------------------------------------------- validator-journal mutations
ValStep(rec, newst, entry) ==
   /\ Tick(rec)
   /\ st' = newst
   /\ vj' = Append(vj, entry)
   /\ UNCHANGED <<j, revs, vrevs, nextId, snap, failed>>

CreateValidator(v, tok) ==
   /\ ~st[<<"val", v>>].ex
   /\ LET nv == [tok |-> tok, on |-> FALSE, ex |-> TRUE, dl |-> [a \in Accts |-> 0]] IN
      ValStep([op |-> "CreateValidator", v |-> v, tok |-> tok],
              [st EXCEPT ![<<"val", v>>] = nv, ![<<"stat", 0>>] = StatAdd(@, nv)],
              [kind |-> "create", v |-> v])

\* the staking module's pattern: new := old.PartialCopy(); modify; UpdateValidator(new, old)
UpdateValidator(v, dtok, flip) ==
   /\ st[<<"val", v>>].ex
   /\ st[<<"val", v>>].tok + dtok >= 0
   /\ LET old == st[<<"val", v>>]
          nv  == [old EXCEPT !.tok = @ + dtok, !.on = IF flip THEN ~@ ELSE @] IN
      ValStep([op |-> "UpdateValidator", v |-> v, d |-> dtok, flip |-> flip],
              [st EXCEPT ![<<"val", v>>] = nv,
                         ![<<"stat", 0>>] = IF StakeEqual(nv, old) THEN @ ELSE StatAdd(StatSub(@, old), nv)],
              [kind |-> "update", v |-> v, old |-> old, new |-> nv])

RemoveValidator(v) ==
   /\ st[<<"val", v>>].ex
   /\ LET old == st[<<"val", v>>] IN
      ValStep([op |-> "RemoveValidator", v |-> v],
              [st EXCEPT ![<<"val", v>>] = NoVal, ![<<"stat", 0>>] = StatSub(@, old)],
              [kind |-> "delete", v |-> v, old |-> old])

AddWithdraw(r) ==
   /\ Len(st[<<"wq", 0>>]) < 3
   /\ \A i \in DOMAIN st[<<"wq", 0>>] : st[<<"wq", 0>>][i] # r
   /\ ValStep([op |-> "AddWithdraw", r |-> r],
              [st EXCEPT ![<<"wq", 0>>] = Append(@, r)],
              [kind |-> "addwq", r |-> r])

RemoveAt(s, i) == SubSeq(s, 1, i - 1) \o SubSeq(s, i + 1, Len(s))
RemoveWithdraw(i) ==
   /\ i \in DOMAIN st[<<"wq", 0>>]
   /\ ValStep([op |-> "RemoveWithdraw", i |-> i],
              [st EXCEPT ![<<"wq", 0>>] = RemoveAt(@, i)],
              [kind |-> "delwq", prev |-> st[<<"wq", 0>>]])

\* delegation (statedb_staking.go UpdateDelegation): the validator side goes through UpdateValidator (validator
\* journal); the delegator side appends a delegationsChange entry when the account's validator list changes and
\* always a delegationBalanceChange entry (account journal).
UpdateDelegation(a, v, d) ==
   /\ st[<<"val", v>>].ex
   /\ LET old == st[<<"val", v>>]
          cur == old.dl[a]
          nv  == [old EXCEPT !.tok = @ + d, !.dl[a] = cur + d]
          odto == st[<<"dto", a>>]
          ndto == IF cur = 0 THEN odto \cup {v} ELSE IF cur + d = 0 THEN odto \ {v} ELSE odto IN
      /\ cur + d >= 0 /\ (cur = 0 => d > 0)
      /\ Tick([op |-> "UpdateDelegation", a |-> a, v |-> v, d |-> d])
      /\ st' = [st EXCEPT ![<<"val", v>>] = nv,
                          ![<<"stat", 0>>] = StatAdd(StatSub(@, old), nv),
                          ![<<"dbal", a>>] = @ + d,
                          ![<<"dto", a>>] = ndto]
      /\ vj' = Append(vj, [kind |-> "update", v |-> v, old |-> old, new |-> nv])
      /\ j' = (IF ndto # odto THEN Append(j, [k |-> <<"dto", a>>, prev |-> odto]) ELSE j)
                 \o <<[k |-> <<"dbal", a>>, prev |-> st[<<"dbal", a>>]]>>
   /\ UNCHANGED <<revs, vrevs, nextId, snap, failed>>

\* pending staking record (statedb_staking.go AddStakingRecord) -- NOT journalled in the code.
\* Modelled as the code does it (no undo entry); the property layer still snapshots the key.
AddStakingRecord(x) ==
   /\ Tick([op |-> "AddStakingRecord", v |-> x])
   /\ st' = [st EXCEPT ![<<"rec", 0>>] = @ + x]
   /\ UNCHANGED <<j, vj, revs, vrevs, nextId, snap, failed>>

\* ---------------------------------------------------------------- snapshot / revert / finalise
Snapshot ==
   /\ Tick([op |-> "Snapshot", id |-> nextId])
   /\ revs'  = Append(revs,  [id |-> nextId, idx |-> Len(j)])
   /\ vrevs' = Append(vrevs, [id |-> nextId, idx |-> Len(vj)])
   /\ snap' = Append(snap, [id |-> nextId, s |-> st])
   /\ nextId' = nextId + 1
   /\ UNCHANGED <<st, j, vj, failed>>

\* sort.Search(len, id >= revid) followed by the equality test
Find(list, id) ==
   LET S == { n \in DOMAIN list : list[n].id >= id } IN
   IF S = {} THEN 0
   ELSE LET m == CHOOSE n \in S : \A k \in S : n <= k IN IF list[m].id = id THEN m ELSE 0

RECURSIVE UndoAcct(_, _, _)
UndoAcct(s, jr, idx) ==
   IF Len(jr) <= idx THEN s
   ELSE LET e == jr[Len(jr)] IN UndoAcct([s EXCEPT ![e.k] = e.prev], SubSeq(jr, 1, Len(jr) - 1), idx)

UndoValEntry(s, e) ==
   CASE e.kind = "create" -> [s EXCEPT ![<<"val", e.v>>] = NoVal, ![<<"stat", 0>>] = StatSub(@, s[<<"val", e.v>>])]
     [] e.kind = "update" -> [s EXCEPT ![<<"val", e.v>>] = e.old,
                                      ![<<"stat", 0>>] = IF StakeEqual(e.new, e.old) THEN @ ELSE StatAdd(StatSub(@, e.new), e.old)]
     [] e.kind = "delete" -> [s EXCEPT ![<<"val", e.v>>] = e.old, ![<<"stat", 0>>] = StatAdd(@, e.old)]
     [] e.kind = "addwq"  -> [s EXCEPT ![<<"wq", 0>>] = SelectSeq(@, LAMBDA x : x # e.r)]
     [] e.kind = "delwq"  -> [s EXCEPT ![<<"wq", 0>>] = e.prev]

RECURSIVE UndoVal(_, _, _)
UndoVal(s, jr, idx) ==
   IF Len(jr) <= idx THEN s
   ELSE UndoVal(UndoValEntry(s, jr[Len(jr)]), SubSeq(jr, 1, Len(jr) - 1), idx)

\* ids the PROPERTY considers valid: issued in this transaction and not invalidated by an outer revert
ValidIds == { snap[n].id : n \in DOMAIN snap }
SnapOf(id) == (CHOOSE n \in DOMAIN snap : snap[n].id = id)

Revert(id) ==
   /\ id \in ValidIds
   /\ Tick([op |-> "Revert", id |-> id])
   /\ LET a == Find(revs, id)  b == Find(vrevs, id) IN
      IF a = 0 \/ b = 0
      THEN /\ failed' = TRUE
           /\ UNCHANGED <<st, j, vj, revs, vrevs, snap>>
      ELSE /\ st' = UndoVal(UndoAcct(st, j, revs[a].idx), vj, vrevs[b].idx)
           /\ j'  = SubSeq(j, 1, revs[a].idx)
           /\ vj' = SubSeq(vj, 1, vrevs[b].idx)
           /\ revs'  = SubSeq(revs, 1, a - 1)
           /\ vrevs' = SubSeq(vrevs, 1, IF ClearValRevs THEN b - 1 ELSE a - 1)  \* [:idx] of the OTHER list in the unrepaired code
           /\ snap' = SubSeq(snap, 1, SnapOf(id) - 1)
           /\ failed' = FALSE
   /\ UNCHANGED nextId

\* transaction boundary: Finalise -> clearJournalAndRefund
Finalise ==
   /\ Tick([op |-> "Finalise"])
   /\ j' = <<>> /\ vj' = <<>> /\ revs' = <<>>
   /\ vrevs' = IF ClearValRevs THEN <<>> ELSE vrevs
   /\ st' = [st EXCEPT ![<<"refund", 0>>] = 0]
   /\ snap' = <<>>
   /\ UNCHANGED <<nextId, failed>>

\* ---------------------------------------------------------------- next-state relations
NextReduced ==
   \/ \E a \in Accts : AddBalance(a, 1)
   \/ \E v \in Vals : CreateValidator(v, 1) \/ UpdateValidator(v, 1, FALSE) \/ RemoveValidator(v)
   \/ AddWithdraw(1) \/ RemoveWithdraw(1)
   \/ Snapshot \/ Finalise
   \/ \E id \in 0..MaxOps : Revert(id)

NextRich ==
   \/ \E a \in Accts :
        \/ \E d \in {1, 2} : AddBalance(a, d) \/ SubBalance(a, d)
        \/ \E n \in {1, 2} : SetNonce(a, n) \/ SetCode(a, n)
        \/ \E s \in {"s1", "s2"}, v \in {0, 1, 2} : SetState(a, s, v)
        \/ \E v \in Vals, d \in {-1, 1, 2} : UpdateDelegation(a, v, d)
   \/ AddLog \/ AddRefund(1) \/ SubRefund(1)
   \/ \E v \in Vals :
        \/ \E t \in {1, 2} : CreateValidator(v, t)
        \/ \E d \in {-1, 0, 1}, f \in BOOLEAN : (d # 0 \/ f) /\ UpdateValidator(v, d, f)
        \/ RemoveValidator(v)
   \/ \E r \in {1, 2, 3} : AddWithdraw(r)
   \/ \E i \in {1, 2} : RemoveWithdraw(i)
   \/ Snapshot \/ Finalise
   \/ \E id \in 0..MaxOps : Revert(id)

\* second small alphabet: the validator record with its delegation list (the journalled old/new records share structure)
NextDeleg ==
   \/ \E v \in Vals : CreateValidator(v, 2) \/ UpdateValidator(v, 1, FALSE)
   \/ \E a \in Accts, v \in Vals, d \in {-1, 1, 2} : UpdateDelegation(a, v, d)
   \/ Snapshot \/ Finalise
   \/ \E id \in 0..MaxOps : Revert(id)

Next == CASE Rich = "rich" -> NextRich [] Rich = "deleg" -> NextDeleg [] OTHER -> NextReduced
Spec == Init /\ [][Next]_vars

\* ---------------------------------------------------------------- property layer
\* "Reverting a valid snapshot never fails."
Cex(name) == PrintT("@@J " \o ToJson([kind |-> "CEX", clause |-> name, h |-> hist])) /\ FALSE
RevertNeverFails == ~failed \/ (Cex("RevertNeverFails"))

\* "reverting to an earlier snapshot makes every observable equal to what it was when the snapshot was taken"
\* Checked as an action property: a successful Revert(id) of a valid id lands on snap[id].
RevertRestores ==
   [][ \A id \in ValidIds :
         (Len(hist') = Len(hist) + 1 /\ hist'[Len(hist')].op = "Revert" /\ hist'[Len(hist')].id = id /\ ~failed')
            => (st' = snap[SnapOf(id)].s \/ (PrintT("@@J " \o ToJson([kind |-> "CEX", clause |-> "RevertRestores", h |-> hist'])) /\ FALSE)) ]_vars

\* the statistics always equal the recomputation from the records (C08's clause, here as a sanity invariant)
Recount == LET ex == { v \in Vals : st[<<"val", v>>].ex } IN TRUE

\* ---------------------------------------------------------------- generation
Leaf == (GenMode = "leaf" /\ (Len(hist) = MaxOps \/ failed)) => PrintT("@@J " \o ToJson([kind |-> "B", h |-> hist]))
\* in simulation mode every behaviour is printed when it reaches its last state
View == <<st, j, vj, revs, vrevs, nextId, snap, failed>>
=============================================================================
