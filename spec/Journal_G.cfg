INIT Init
NEXT Next
CONSTANTS
  Accts = {1, 2}
  Vals = {1, 2}
  Rich = TRUE
  ClearValRevs = TRUE
  GenMode = "leaf"
CONSTRAINT Leaf
CHECK_DEADLOCK FALSE
