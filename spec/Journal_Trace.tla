--------------------------- MODULE Journal_Trace ---------------------------
(***************************************************************************)
(* Conformance of the real StateDB to the design layer of Journal.tla:     *)
(* every recorded event is re-executed as the model action of the same     *)
(* name with the logged arguments, and the model's next state must project *)
(* onto the logged abstract projection `m` (and the lengths of the two     *)
(* revision lists and the two journals must match `lens`).  Traces are     *)
(* concatenated; "reset" starts the next one.                              *)
(***************************************************************************)
EXTENDS Journal

TraceLog == ndJsonDeserialize("trace.ndjson")
VARIABLE l
tvars == <<vars, l>>

SeqOf(f, n) == [i \in 1..n |-> f[i]]
NA == Cardinality(Accts)
NV == Cardinality(Vals)

\* the model state in the vocabulary of the logged projection
SetOf(q) == { q[i] : i \in DOMAIN q }
Matches(e) ==
   LET s == st' m == e.m IN
   /\ \A a \in 1..NA : /\ m.bal[a] = s[<<"bal", a>>] /\ m.nonce[a] = s[<<"nonce", a>>] /\ m.s1[a] = s[<<"s1", a>>]
                        /\ m.s2[a] = s[<<"s2", a>>] /\ m.code[a] = s[<<"code", a>>] /\ m.dbal[a] = s[<<"dbal", a>>]
                        /\ SetOf(m.dto[a]) = s[<<"dto", a>>]
                        /\ m.ex[a] = s[<<"ex", a>>] /\ m.sui[a] = s[<<"sui", a>>]
   /\ \A v \in 1..NV : LET r == s[<<"val", v>>] IN
                           /\ m.val[v][1] = r.tok /\ m.val[v][2] = r.on /\ m.val[v][3] = r.ex
                           /\ \A a \in 1..NA : m.val[v][4][a] = r.dl[a]
   /\ LET t == s[<<"stat", 0>>] IN m.stat = <<t.onTok, t.offTok, t.onCnt, t.offCnt>>
   /\ m.wq = s[<<"wq", 0>>]
   /\ m.refund = s[<<"refund", 0>>]
   /\ m.logs = s[<<"logs", 0>>]
   /\ SetOf(m.pre) = s[<<"pre", 0>>]
   /\ e.lens = <<Len(revs'), Len(vrevs'), Len(j'), Len(vj')>>

IsEvent(name) == l <= Len(TraceLog) /\ TraceLog[l].ev = name /\ l' = l + 1

TReset == /\ (IsEvent("reset") \/ IsEvent("abort"))
          /\ st' = InitState /\ j' = <<>> /\ vj' = <<>> /\ revs' = <<>> /\ vrevs' = <<>>
          /\ nextId' = 0 /\ snap' = <<>> /\ failed' = FALSE /\ hist' = <<>>

Act(e) == LET a == e.args IN
   CASE e.ev = "AddBalance" -> AddBalance(a.a, a.d)
     [] e.ev = "SubBalance" -> SubBalance(a.a, a.d)
     [] e.ev = "Suicide"    -> Suicide(a.a)
     [] e.ev = "CreateAccount" -> CreateAccount(a.a)
     [] e.ev = "SetNonce"   -> SetNonce(a.a, a.v)
     [] e.ev = "SetCode"    -> SetCode(a.a, a.v)
     [] e.ev = "SetState"   -> SetState(a.a, a.s, a.v)
     [] e.ev = "AddLog"     -> AddLog
     [] e.ev = "AddPreimage" -> AddPreimage(a.v)
     [] e.ev = "AddRefund"  -> AddRefund(a.v)
     [] e.ev = "SubRefund"  -> SubRefund(a.v)
     [] e.ev = "CreateValidator" -> CreateValidator(a.v, a.tok)
     [] e.ev = "UpdateValidator" -> UpdateValidator(a.v, a.d, a.flip)
     [] e.ev = "RemoveValidator" -> RemoveValidator(a.v)
     [] e.ev = "AddWithdraw"     -> AddWithdraw(a.r)
     [] e.ev = "RemoveWithdraw"  -> RemoveWithdraw(a.i)
     [] e.ev = "UpdateDelegation" -> UpdateDelegation(a.a, a.v, a.d)
     [] e.ev = "Snapshot"   -> Snapshot
     [] e.ev = "Revert"     -> Revert(a.id)
     [] e.ev = "Finalise"   -> Finalise
     [] OTHER -> FALSE

TStep == /\ l <= Len(TraceLog)
         /\ TraceLog[l].ev \notin {"reset", "abort"}
         /\ l' = l + 1
         /\ LET e == TraceLog[l] IN
            /\ Act(e)
            /\ IF "panic" \in DOMAIN e THEN failed' ELSE (~failed' /\ Matches(e))

TInit == Init /\ l = 1 /\ TLCSet(1, 0)
TNext == TReset \/ TStep
TSpec == TInit /\ [][TNext]_tvars

\* acceptance: the whole log was consumed.  On rejection the high-water mark tells where.
HighWater == /\ TLCSet(1, IF TLCGet(1) < l THEN l ELSE TLCGet(1))
             /\ ((l = Len(TraceLog) + 1) => PrintT("@@J " \o ToJson([kind |-> "ACCEPTED", events |-> Len(TraceLog)])))
Accepted == IF TLCGet(1) = Len(TraceLog) + 1 THEN TRUE
            ELSE PrintT("@@J " \o ToJson([kind |-> "REJECTED", line |-> TLCGet(1), event |-> TraceLog[TLCGet(1)]]))
=============================================================================
