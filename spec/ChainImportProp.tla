--------------------------- MODULE ChainImportProp ---------------------------
(***************************************************************************)
(* C11 -- property layer shared by ChainImport (design checking,           *)
(* generation) and ChainImport_Mon (the verdict).  Pure operators over     *)
(*   T = the block tree  [par : name -> parent name, num : name -> height, *)
(*                        inv : set of invalid block names,                *)
(*                        txs : name -> set of its transactions]           *)
(*   o = an observation of a chain at rest                                 *)
(*       [head : name, hn : height of head,                                *)
(*        canon : sequence, canon[n+1] = name of the canonical block at    *)
(*                height n ("-" none, "?" not a block of the tree),         *)
(*        txl : tx name -> name of the block its lookup entry points to    *)
(*              ("-" no entry),                                            *)
(*        st : the head's state can be opened]                             *)
(* Each clause restates one phrase of the statement:                       *)
(*  "the number-to-hash index from genesis to head is a parent-linked      *)
(*   chain, the head's state is available, transaction lookups point into  *)
(*   canonical blocks, and an invalid block never becomes canonical."      *)
(***************************************************************************)
EXTENDS Integers, Sequences, FiniteSets

At(o, n) == IF n + 1 \in DOMAIN o.canon THEN o.canon[n + 1] ELSE "-"
IsBlock(T, b) == b \in DOMAIN T.num

LinkedAt(T, o, n) == /\ IsBlock(T, At(o, n))
                     /\ T.num[At(o, n)] = n
                     /\ (n > 0 => T.par[At(o, n)] = At(o, n - 1))

\* "the number-to-hash index from genesis to head is a parent-linked chain" (and it ends in the head)
CanonLinked(T, o) == /\ \A n \in 0..o.hn : LinkedAt(T, o, n)
                     /\ At(o, o.hn) = o.head
\* "the head's state is available"
HeadStateAvailable(T, o) == o.st
\* "transaction lookups point into canonical blocks"
LookupOk(T, o, t) == o.txl[t] = "-" \/ (IsBlock(T, o.txl[t]) /\ T.num[o.txl[t]] <= o.hn /\ At(o, T.num[o.txl[t]]) = o.txl[t])
LookupsCanonical(T, o) == \A t \in DOMAIN o.txl : LookupOk(T, o, t)
\* "transaction lookups point into canonical blocks", the other direction: every transaction of a canonical block (genesis to
\* head) HAS a lookup entry, and it points to that block (otherwise the transaction cannot be found although it is canonical)
CanonTxOk(T, o, n, t) == t \in DOMAIN o.txl /\ o.txl[t] = At(o, n)
LookupsComplete(T, o) == \A n \in 0..o.hn : IsBlock(T, At(o, n)) => \A t \in T.txs[At(o, n)] : CanonTxOk(T, o, n, t)
\* "an invalid block never becomes canonical"
InvalidNeverCanonical(T, o) == o.head \notin T.inv /\ \A n \in 0..o.hn : At(o, n) \notin T.inv

ObsClauses == {"CanonLinked", "HeadStateAvailable", "LookupsCanonical", "LookupsComplete", "InvalidNeverCanonical"}
Holds(name, T, o) ==
   CASE name = "CanonLinked" -> CanonLinked(T, o)
     [] name = "HeadStateAvailable" -> HeadStateAvailable(T, o)
     [] name = "LookupsCanonical" -> LookupsCanonical(T, o)
     [] name = "LookupsComplete" -> LookupsComplete(T, o)
     [] name = "InvalidNeverCanonical" -> InvalidNeverCanonical(T, o)
Failing(T, o) == { name \in ObsClauses : ~Holds(name, T, o) }

\* the head's ancestor at height n, by the tree's parent links
RECURSIVE AncAt(_, _, _)
AncAt(T, b, n) == IF ~IsBlock(T, b) THEN "?" ELSE IF T.num[b] <= n THEN b ELSE AncAt(T, T.par[b], n)
\* heights (up to the head) at which the number index does not name the head's ancestor
WrongEntries(T, o) == { n \in 0..o.hn : At(o, n) # AncAt(T, o.head, n) }

\* class of the failing observation (part of the discriminator)
Class(name, T, o) ==
   CASE name = "CanonLinked" ->
          (IF At(o, o.hn) # o.head THEN {"head_not_canonical"} ELSE {})
          \cup (IF \E n \in 0..o.hn : At(o, n) = "-" THEN {"missing"} ELSE {})
          \cup (IF \E n \in 0..o.hn : At(o, n) # "-" /\ ~LinkedAt(T, o, n) THEN {"broken_link"} ELSE {})
          \* WHICH entries are wrong relative to the head: the head's own height, the height directly below it, lower ones
          \cup (IF \E n \in WrongEntries(T, o) : n < o.hn THEN {"wrong_below_head"} ELSE {})
          \cup (IF o.hn >= 1 /\ (o.hn - 1) \in WrongEntries(T, o) THEN {"wrong_directly_below_head"} ELSE {})
     [] name = "LookupsCanonical" ->
          (IF \E t \in DOMAIN o.txl : o.txl[t] # "-" /\ ~IsBlock(T, o.txl[t]) THEN {"unknown_block"} ELSE {})
          \cup (IF \E t \in DOMAIN o.txl : IsBlock(T, o.txl[t]) /\ T.num[o.txl[t]] > o.hn THEN {"above_head"} ELSE {})
          \cup (IF \E t \in DOMAIN o.txl : IsBlock(T, o.txl[t]) /\ T.num[o.txl[t]] <= o.hn /\ At(o, T.num[o.txl[t]]) # o.txl[t]
                THEN {"not_canonical"} ELSE {})
     [] name = "LookupsComplete" ->
          (IF \E n \in 0..o.hn : IsBlock(T, At(o, n)) /\ \E t \in T.txs[At(o, n)] : t \notin DOMAIN o.txl \/ o.txl[t] = "-"
           THEN {"missing"} ELSE {})
          \cup (IF \E n \in 0..o.hn : IsBlock(T, At(o, n)) /\ \E t \in T.txs[At(o, n)] : t \in DOMAIN o.txl /\ o.txl[t] \notin {"-", At(o, n)}
                THEN {"points_elsewhere"} ELSE {})
     [] OTHER -> {}

\* known findings: sequence of [clause, disc]; the rule of vlib.known_match
SeqSet(q) == { q[i] : i \in DOMAIN q }
IsKnown(known, clause, D) == \E i \in DOMAIN known : known[i].clause = clause /\ SeqSet(known[i].disc) \subseteq D
=============================================================================
