------------------------------ MODULE Sortition ------------------------------
(***************************************************************************)
(* C04 -- small-scope enumeration and self-check of the specification.     *)
(* For tiny parameters (w <= WMax, p from a small set, including p = 1)    *)
(* TLC walks j = 0..w and                                                  *)
(*  (M) checks the definitions against each other: the closed form against *)
(*      the recurrence the trace monitor uses (RecurrenceExact), the total *)
(*      mass (CdfTotal), monotonicity, the quantile of every CDF midpoint  *)
(*      and boundary (MidpointQuantile, BoundaryQuantile), range and       *)
(*      monotonicity of Quantile;                                          *)
(*  (G) prints the points to present to the real choose(): midpoints       *)
(*      between consecutive CDF values, the boundary targets themselves    *)
(*      and their successors, the end points 0, 1, 2^256-2, 2^256-1, and   *)
(*      targets around the 0.99 switch-over -- each with its exact         *)
(*      quantile -- and the credential cases: every base credential x      *)
(*      every single-field perturbation with the expected verdict.         *)
(***************************************************************************)
EXTENDS SortitionDefs

CONSTANTS WMax,      \* largest stake of the enumeration
          GenMode    \* "none" | "all"

Ps == {<<1, 10>>, <<1, 4>>, <<1, 2>>, <<9, 10>>, <<1, 1>>, <<99, 100>>, <<1, 1000>>}

VARIABLES s   \* [w, a, b, j] or [mode |-> "cred"]
vars == <<s>>

RECURSIVE Binom(_, _)
Binom(n, k) == IF k = 0 THEN 1 ELSE (Binom(n, k - 1) * (n - k + 1)) \div k
Term(i, w, a, b) == BigMul(BigMul(BigOfInt(Binom(w, i)), BigPow(BigOfInt(a), i)), BigPow(BigOfInt(b - a), w - i))
RECURSIVE Cdf(_, _, _, _)
Cdf(j, w, a, b) == IF j < 0 THEN Zero ELSE BigAdd(Cdf(j - 1, w, a, b), Term(j, w, a, b))

Reaches(h, j, w, a, b) == BigLeq(BigMul(h, Den(w, b)), BigMul(Cdf(j, w, a, b), HMax))
Quantile(h, w, a, b) == CHOOSE j \in 0..w : Reaches(h, j, w, a, b) /\ \A k \in 0..(j - 1) : ~Reaches(h, k, w, a, b)

\* targets as 256-bit integers
Floor(num, den) == BigDivMod(num, den)[1]
Boundary(j, w, a, b) == Floor(BigMul(Cdf(j, w, a, b), HMax), Den(w, b))                  \* largest h with t <= Cdf(j)
Mid(j, w, a, b) == Floor(BigMul(BigAdd(Cdf(j - 1, w, a, b), Cdf(j, w, a, b)), HMax), BigMul(BigOfInt(2), Den(w, b)))
Switch == Floor(BigMul(BigOfInt(99), HMax), BigOfInt(100))                                \* floor(0.99 * HMax)
Two(k) == BigPow(BigOfInt(2), k)

Init == \/ \E w \in 1..WMax, p \in Ps : s = [w |-> w, a |-> p[1], b |-> p[2], j |-> 0]
        \/ s = [mode |-> "cred"]
Next == /\ "j" \in DOMAIN s
        /\ s.j < s.w
        /\ s' = [s EXCEPT !.j = s.j + 1]
Spec == Init /\ [][Next]_vars

IsPt == "j" \in DOMAIN s

\* ---------------------------------------------------------------- (M) self-check of the definitions
CdfTotal == IsPt => Cdf(s.w, s.w, s.a, s.b) = Den(s.w, s.b)
CdfMonotone == IsPt => BigLeq(Cdf(s.j - 1, s.w, s.a, s.b), Cdf(s.j, s.w, s.a, s.b))
\* the recurrence of the trace monitor reproduces the closed form, and its division is exact
RecurrenceExact == (IsPt /\ s.j < s.w /\ s.a < s.b) =>
                      NextTerm(Term(s.j, s.w, s.a, s.b), s.j, s.w, s.a, s.b) = <<Term(s.j + 1, s.w, s.a, s.b), Zero>>
Term0OK == IsPt => Term0(s.w, s.a, s.b) = Term(0, s.w, s.a, s.b)
Positive(j, w, a, b) == Term(j, w, a, b) # Zero
MidpointQuantile == (IsPt /\ Positive(s.j, s.w, s.a, s.b)) => Quantile(Mid(s.j, s.w, s.a, s.b), s.w, s.a, s.b) = s.j
BoundaryQuantile == (IsPt /\ Positive(s.j, s.w, s.a, s.b)) =>
                       /\ Quantile(Boundary(s.j, s.w, s.a, s.b), s.w, s.a, s.b) = s.j
                       /\ (s.j < s.w /\ Positive(s.j + 1, s.w, s.a, s.b)) => Quantile(BigAdd(Boundary(s.j, s.w, s.a, s.b), BigOfInt(1)), s.w, s.a, s.b) = s.j + 1
EndPoints == IsPt => /\ Quantile(Zero, s.w, s.a, s.b) = 0
                     /\ Quantile(HMax, s.w, s.a, s.b) = s.w          \* a > 0: the last seat has positive probability
QuantileMonotone == (IsPt /\ s.j > 0 /\ Positive(s.j, s.w, s.a, s.b) /\ Positive(s.j - 1, s.w, s.a, s.b)) =>
                       Quantile(Mid(s.j - 1, s.w, s.a, s.b), s.w, s.a, s.b) <= Quantile(Mid(s.j, s.w, s.a, s.b), s.w, s.a, s.b)
\* the three judgements agree on exact data: the exact quantile is in the band; a midpoint is strictly inside
BandSound == (IsPt /\ Positive(s.j, s.w, s.a, s.b)) =>
                LET D == Den(s.w, s.b) prev == Cdf(s.j - 1, s.w, s.a, s.b) cum == Cdf(s.j, s.w, s.a, s.b) m == Mid(s.j, s.w, s.a, s.b) IN
                /\ IsExact(m, D, prev, cum, s.j) /\ InBand(m, D, prev, cum, s.j) /\ Strict(m, D, prev, cum, s.j)
                /\ InBand(Boundary(s.j, s.w, s.a, s.b), D, prev, cum, s.j)
                /\ (s.j < s.w) => ~InBand(m, D, cum, Cdf(s.j + 1, s.w, s.a, s.b), s.j + 1)      \* an off-by-one is outside the band
                /\ (s.j > 0 /\ Positive(s.j - 1, s.w, s.a, s.b)) => ~InBand(m, D, Cdf(s.j - 2, s.w, s.a, s.b), prev, s.j - 1)

\* ---------------------------------------------------------------- (G) points for the real choose()
Pt(tag, h) == [kind |-> "P", tag |-> tag, h |-> BigToHex(h), w |-> s.w, a |-> s.a, b |-> s.b, ej |-> Quantile(h, s.w, s.a, s.b)]
Points ==
   (IF Positive(s.j, s.w, s.a, s.b)
    THEN {Pt("mid", Mid(s.j, s.w, s.a, s.b)), Pt("boundary", Boundary(s.j, s.w, s.a, s.b))}
         \cup (IF s.j < s.w THEN {Pt("boundary", BigAdd(Boundary(s.j, s.w, s.a, s.b), BigOfInt(1)))} ELSE {})
    ELSE {})
   \cup (IF s.j = 0
         THEN {Pt("end", Zero), Pt("end", BigOfInt(1)), Pt("end", HMax), Pt("end", BigSub(HMax, BigOfInt(1))),
               Pt("switch", Switch), Pt("switch", BigAdd(Switch, BigOfInt(1))), Pt("switch", BigSub(Switch, Two(200))),
               Pt("switch", BigAdd(Switch, Two(200))), Pt("switch", BigAdd(Switch, Two(245))), Pt("switch", BigSub(HMax, Two(240))),
               Pt("switch", BigSub(HMax, Two(200)))}
         ELSE {})

\* credential cases: base credential x single-field perturbation, with the expected verdict
\*   "issued"    : the credential as issued        -> accepted exactly when it selects (j > 0; a priority also with j = 0)
\*   "reject"    : a bound field was changed       -> rejected
\*   "recompute" : stake / total stake / threshold presented to the verifier differ -> the verdict is that of the recomputed quantile
Params == {<<5, 5, 10>>, <<40, 10, 100>>, <<300, 26, 1000>>, <<8, 9, 10>>, <<30, 2, 30>>, <<7, 12, 12>>}
Bases == { [k |-> k, sd |-> sd, ix |-> ix, st |-> st, w |-> p[1], a |-> p[2], b |-> p[3]] :
              k \in {1, 2}, sd \in {1, 2}, ix \in {1, 2}, st \in {1, 3}, p \in Params }
BindingPerts == {"key", "seed", "index", "step", "j+1", "j-1", "proof_first", "proof_mid", "proof_last", "proof_trunc"}
ParamPerts == {"stake+1", "stake-1", "stake*2", "total+1", "total*2", "th+1", "th-1", "th*2"}
PrioPerts == {"prio_flip", "prio_seat"}
Expect(p) == IF p = "none" THEN "issued" ELSE IF p \in ParamPerts THEN "recompute" ELSE "reject"
CredCases == { [kind |-> "C", fn |-> fn, base |-> bs, pert |-> p, expect |-> Expect(p)] :
                 fn \in {"sortition", "priority"}, bs \in Bases, p \in {"none"} \cup BindingPerts \cup ParamPerts }
             \cup { [kind |-> "C", fn |-> "priority", base |-> bs, pert |-> p, expect |-> "reject"] : bs \in Bases, p \in PrioPerts }

Leaf == (GenMode = "all") =>
          IF IsPt THEN \A r \in Points : PrintT("@@J " \o ToJson(r))
          ELSE \A r \in CredCases : PrintT("@@J " \o ToJson(r))
=============================================================================
