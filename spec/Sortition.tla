------------------------------ MODULE Sortition ------------------------------
(***************************************************************************)
(* C04 -- small-scope enumeration and self-check of the specification.     *)
(* For tiny parameters (w <= WMax, p from a small set, including p = 1)    *)
(* TLC walks j = 0..w and                                                  *)
(*  (M) checks the definitions against each other: the closed form against *)
(*      the recurrence the trace monitor uses (RecurrenceExact), the total *)
(*      mass (CdfTotal), monotonicity, the quantile of every CDF midpoint  *)
(*      and boundary (MidpointQuantile, BoundaryQuantile), range and       *)
(*      monotonicity of Quantile;                                          *)
(*  (G) prints the points to present to the real choose(): midpoints       *)
(*      between consecutive CDF values, the boundary targets themselves    *)
(*      and their successors, the end points 0, 1, 2^256-2, 2^256-1, and   *)
(*      targets around the 0.99 switch-over -- each with its exact         *)
(*      quantile -- and the credential cases: every base credential x      *)
(*      every single-field perturbation with the expected verdict.         *)
(***************************************************************************)
EXTENDS SortitionDefs

CONSTANTS WMax,      \* largest stake of the enumeration
          GenMode,   \* "none" | "all"
          SeqDepth,  \* length of the generated Issue / Verify sequences
          AliasDepth, \* length of the generated aliasing sequences
          ScanSet,   \* "quick" | "thorough": which large-mean parameter triples are scanned for window points
          PrioHashes \* number of hashes per seat count of the priority cases

Ps == {<<1, 10>>, <<1, 4>>, <<1, 2>>, <<9, 10>>, <<1, 1>>, <<99, 100>>, <<1, 1000>>}

VARIABLES s   \* [w, a, b, j] or [mode |-> "cred"]
vars == <<s>>

RECURSIVE Binom(_, _)
Binom(n, k) == IF k = 0 THEN 1 ELSE (Binom(n, k - 1) * (n - k + 1)) \div k
Term(i, w, a, b) == BigMul(BigMul(BigOfInt(Binom(w, i)), BigPow(BigOfInt(a), i)), BigPow(BigOfInt(b - a), w - i))
RECURSIVE Cdf(_, _, _, _)
Cdf(j, w, a, b) == IF j < 0 THEN Zero ELSE BigAdd(Cdf(j - 1, w, a, b), Term(j, w, a, b))

Reaches(h, j, w, a, b) == BigLeq(BigMul(h, Den(w, b)), BigMul(Cdf(j, w, a, b), HMax))
Quantile(h, w, a, b) == CHOOSE j \in 0..w : Reaches(h, j, w, a, b) /\ \A k \in 0..(j - 1) : ~Reaches(h, k, w, a, b)

\* targets as 256-bit integers
Floor(num, den) == BigDivMod(num, den)[1]
Boundary(j, w, a, b) == Floor(BigMul(Cdf(j, w, a, b), HMax), Den(w, b))                  \* largest h with t <= Cdf(j)
Mid(j, w, a, b) == Floor(BigMul(BigAdd(Cdf(j - 1, w, a, b), Cdf(j, w, a, b)), HMax), BigMul(BigOfInt(2), Den(w, b)))
Switch == Floor(BigMul(BigOfInt(99), HMax), BigOfInt(100))                                \* floor(0.99 * HMax)
Two(k) == BigPow(BigOfInt(2), k)

(***************************************************************************)
(* Sequences (one process of the real code, in this order): the state is   *)
(* the set of (key, seed, index, step) tuples for which a credential has   *)
(* been issued; Issue(t) evaluates the VRF for t, Verify(c, t) presents    *)
(* the credential issued for c to the verifier with the inputs t.  Seeds   *)
(* are variants of one seed A: "first8" differs from A in bytes 0..7 only, *)
(* "byte8" in byte 8, "last" in byte 31, "other" everywhere.  The verifier *)
(* must accept exactly when t = c WHATEVER has been evaluated or verified  *)
(* before (no state may leak between evaluations), and two different       *)
(* tuples must never get the same VRF output.                              *)
(***************************************************************************)
SeedVars == {"A", "first8", "byte8", "last", "other"}
BaseTup == [k |-> 1, sv |-> "A", ix |-> 1, st |-> 3]
\* t and its single-field variants
Near(t) == {t} \cup {[t EXCEPT !.k = 3 - t.k], [t EXCEPT !.ix = 3 - t.ix], [t EXCEPT !.st = 4 - t.st]}
               \cup { [t EXCEPT !.sv = v] : v \in SeedVars }

(***************************************************************************)
(* Window points for LARGE stakes within exact reach (regime-aware points  *)
(* around the 0.99 switch-over and around the mean = 20 switch of the      *)
(* search strategy): the seats of a parameter triple are scanned with the  *)
(* exact recurrence (one state per seat, as in the monitor); for every CDF *)
(* step (Cdf(j-1), Cdf(j)] that meets the window [lo, hi] (per mille) the  *)
(* quarter points and the midpoint of the step are emitted, and for the    *)
(* step that contains 0.99 also the targets halfway between Cdf(j-1) and   *)
(* 0.99, at 0.99 itself and halfway between 0.99 and Cdf(j).  All of them  *)
(* are strictly inside the step, far (relative to delta) from its ends:    *)
(* the exact quantile j is the only admissible answer.                     *)
(***************************************************************************)
\* <<w, a, b, lo, hi>>: a GRID of stakes and probabilities with means 20 .. 60 (every combination in range: many skews); window
\* around the 0.99 switch-over: [0.985, 0.991] (quick; the check drives a seeded sample of the triples) / [0.96, 0.995] (thorough)
ScanWs == {500, 600, 700, 800, 900, 1000, 1200, 1500, 1800, 2000}
ScanBs == {20, 25, 30, 32, 40, 48, 50, 60, 64, 75, 80, 90, 100, 120, 150, 200, 250, 300, 400, 500, 1000}
ScanAs == {1, 2, 3, 5, 7, 9, 11, 13}
Coprime(a, b) == \A d \in 2..a : ~(a % d = 0 /\ b % d = 0)
ScanGrid == { <<w, a, b, IF ScanSet = "thorough" THEN 960 ELSE 985, IF ScanSet = "thorough" THEN 995 ELSE 991>> :
                 w \in ScanWs, a \in ScanAs, b \in { x \in ScanBs : TRUE } }
ScanHi == { p \in ScanGrid : 2 * p[2] < p[3] /\ Coprime(p[2], p[3]) /\ 20 * p[3] <= p[1] * p[2] /\ p[1] * p[2] <= 60 * p[3] }
\* means 19.5 .. 20.5 (the m < 20 switch between forward and binary search), window [0.05, 0.995]
ScanSwitch == {<<390, 1, 20, 50, 995>>, <<399, 1, 20, 50, 995>>, <<400, 1, 20, 50, 995>>, <<401, 1, 20, 50, 995>>, <<410, 1, 20, 50, 995>>}
ScanSwitchMore == {<<1000, 39, 2000, 50, 995>>, <<1000, 41, 2000, 50, 995>>, <<975, 1, 50, 50, 995>>, <<1025, 1, 50, 50, 995>>, <<1999, 1, 100, 50, 995>>}
ScanParams == ScanHi \cup ScanSwitch \cup (IF ScanSet = "thorough" THEN ScanSwitchMore ELSE {})

Init == \/ \E w \in 1..WMax, p \in Ps : s = [w |-> w, a |-> p[1], b |-> p[2], j |-> 0]
        \/ s = [mode |-> "cred"]
        \/ s = [mode |-> "seq", hist |-> <<>>, issued |-> {}]
        \/ s = [mode |-> "alias", ops |-> <<>>]
        \/ \E p \in ScanParams : s = [mode |-> "scan", w |-> p[1], a |-> p[2], b |-> p[3], lo |-> p[4], hi |-> p[5], j |-> 0,
                                        term |-> Term0(p[1], p[2], p[3]), cum |-> Term0(p[1], p[2], p[3]), prev |-> Zero]
IsPt == DOMAIN s = {"w", "a", "b", "j"}
IsScan == "term" \in DOMAIN s
IsAlias == "ops" \in DOMAIN s
NextPt == /\ IsPt
          /\ s.j < s.w
          /\ s' = [s EXCEPT !.j = s.j + 1]
\* cum >= hi / 1000 : the scan is over
ScanDone == BigLeq(BigMul(BigOfInt(s.hi), Den(s.w, s.b)), BigMul(BigOfInt(1000), s.cum))
NextScan == /\ IsScan /\ s.j < s.w /\ ~ScanDone
            /\ LET nt == NextTerm(s.term, s.j, s.w, s.a, s.b)[1] IN
               s' = [s EXCEPT !.j = s.j + 1, !.term = nt, !.prev = s.cum, !.cum = BigAdd(s.cum, nt)]
\* aliasing sequences: every call of a sequence goes through the SAME big.Int objects for stake and total stake, which the driver
\* mutates in place between the calls; each call is judged by the values at call time.  tv / wv select the value of the total
\* stake / the stake; a verify presents the seat count that is right for the values of this call ("now") or of the previous one
AliasOps == { [fn |-> "sortition", tv |-> tv, wv |-> wv, cj |-> "now"] : tv \in {1, 2}, wv \in {1, 2} }
            \cup { [fn |-> fn, tv |-> tv, wv |-> wv, cj |-> cj] : fn \in {"verify_sortition", "verify_priority"}, tv \in {1, 2}, wv \in {1, 2}, cj \in {"now", "prev"} }
NextAlias == /\ IsAlias /\ Len(s.ops) < AliasDepth
             /\ \E o \in AliasOps : s' = [s EXCEPT !.ops = Append(s.ops, o)]
IsSeq == "hist" \in DOMAIN s
Issue(t) == /\ IsSeq /\ Len(s.hist) < SeqDepth
            /\ s' = [s EXCEPT !.hist = Append(s.hist, [op |-> "issue", t |-> t]), !.issued = s.issued \cup {t}]
Verify(c, t) == /\ IsSeq /\ Len(s.hist) < SeqDepth /\ c \in s.issued
                /\ s' = [s EXCEPT !.hist = Append(s.hist, [op |-> "verify", c |-> c, t |-> t])]
NextSeq == \/ \E t \in Near(BaseTup) : Issue(t)
           \/ \E c \in (IF IsSeq THEN s.issued ELSE {}) : \E t \in Near(c) : Verify(c, t)
Next == NextPt \/ NextSeq \/ NextScan \/ NextAlias
Spec == Init /\ [][Next]_vars


\* ---------------------------------------------------------------- (M) self-check of the definitions
CdfTotal == IsPt => Cdf(s.w, s.w, s.a, s.b) = Den(s.w, s.b)
CdfMonotone == IsPt => BigLeq(Cdf(s.j - 1, s.w, s.a, s.b), Cdf(s.j, s.w, s.a, s.b))
\* the recurrence of the trace monitor reproduces the closed form, and its division is exact
RecurrenceExact == (IsPt /\ s.j < s.w /\ s.a < s.b) =>
                      NextTerm(Term(s.j, s.w, s.a, s.b), s.j, s.w, s.a, s.b) = <<Term(s.j + 1, s.w, s.a, s.b), Zero>>
Term0OK == IsPt => Term0(s.w, s.a, s.b) = Term(0, s.w, s.a, s.b)
Positive(j, w, a, b) == Term(j, w, a, b) # Zero
MidpointQuantile == (IsPt /\ Positive(s.j, s.w, s.a, s.b)) => Quantile(Mid(s.j, s.w, s.a, s.b), s.w, s.a, s.b) = s.j
BoundaryQuantile == (IsPt /\ Positive(s.j, s.w, s.a, s.b)) =>
                       /\ Quantile(Boundary(s.j, s.w, s.a, s.b), s.w, s.a, s.b) = s.j
                       /\ (s.j < s.w /\ Positive(s.j + 1, s.w, s.a, s.b)) => Quantile(BigAdd(Boundary(s.j, s.w, s.a, s.b), BigOfInt(1)), s.w, s.a, s.b) = s.j + 1
EndPoints == IsPt => /\ Quantile(Zero, s.w, s.a, s.b) = 0
                     /\ Quantile(HMax, s.w, s.a, s.b) = s.w          \* a > 0: the last seat has positive probability
QuantileMonotone == (IsPt /\ s.j > 0 /\ Positive(s.j, s.w, s.a, s.b) /\ Positive(s.j - 1, s.w, s.a, s.b)) =>
                       Quantile(Mid(s.j - 1, s.w, s.a, s.b), s.w, s.a, s.b) <= Quantile(Mid(s.j, s.w, s.a, s.b), s.w, s.a, s.b)
\* the three judgements agree on exact data: the exact quantile is in the band; a midpoint is strictly inside
BandSound == (IsPt /\ Positive(s.j, s.w, s.a, s.b)) =>
                LET D == Den(s.w, s.b) prev == Cdf(s.j - 1, s.w, s.a, s.b) cum == Cdf(s.j, s.w, s.a, s.b) m == Mid(s.j, s.w, s.a, s.b) IN
                /\ IsExact(m, D, prev, cum, s.j) /\ InBand(m, D, prev, cum, s.j) /\ Strict(m, D, prev, cum, s.j)
                /\ InBand(Boundary(s.j, s.w, s.a, s.b), D, prev, cum, s.j)
                /\ (s.j < s.w) => ~InBand(m, D, cum, Cdf(s.j + 1, s.w, s.a, s.b), s.j + 1)      \* an off-by-one is outside the band
                /\ (s.j > 0 /\ Positive(s.j - 1, s.w, s.a, s.b)) => ~InBand(m, D, Cdf(s.j - 2, s.w, s.a, s.b), prev, s.j - 1)

\* ---------------------------------------------------------------- (G) points for the real choose()
Pt(tag, h) == [kind |-> "P", tag |-> tag, h |-> BigToHex(h), w |-> s.w, a |-> s.a, b |-> s.b, ej |-> Quantile(h, s.w, s.a, s.b)]
Points ==
   (IF Positive(s.j, s.w, s.a, s.b)
    THEN {Pt("mid", Mid(s.j, s.w, s.a, s.b)), Pt("boundary", Boundary(s.j, s.w, s.a, s.b))}
         \cup (IF s.j < s.w THEN {Pt("boundary", BigAdd(Boundary(s.j, s.w, s.a, s.b), BigOfInt(1)))} ELSE {})
    ELSE {})
   \cup (IF s.j = 0
         THEN {Pt("end", Zero), Pt("end", BigOfInt(1)), Pt("end", HMax), Pt("end", BigSub(HMax, BigOfInt(1))),
               Pt("switch", Switch), Pt("switch", BigAdd(Switch, BigOfInt(1))), Pt("switch", BigSub(Switch, Two(200))),
               Pt("switch", BigAdd(Switch, Two(200))), Pt("switch", BigAdd(Switch, Two(245))), Pt("switch", BigSub(HMax, Two(240))),
               Pt("switch", BigSub(HMax, Two(200)))}
         ELSE {})

\* credential cases: base credential x single-field perturbation, with the expected verdict
\*   "issued"    : the credential as issued        -> accepted exactly when it selects (j > 0; a priority also with j = 0)
\*   "reject"    : a bound field was changed       -> rejected
\*   "recompute" : stake / total stake / threshold presented to the verifier differ -> the verdict is that of the recomputed quantile
Params == {<<5, 5, 10>>, <<40, 10, 100>>, <<300, 26, 1000>>, <<8, 9, 10>>, <<30, 2, 30>>, <<7, 12, 12>>}
Bases == { [k |-> k, sd |-> sd, ix |-> ix, st |-> st, w |-> p[1], a |-> p[2], b |-> p[3]] :
              k \in {1, 2}, sd \in {1, 2}, ix \in {1, 2}, st \in {1, 3}, p \in Params }
BindingPerts == {"key", "seed", "seed_first8", "seed_byte8", "seed_last", "index", "step", "j+1", "j-1", "proof_first", "proof_mid", "proof_last", "proof_trunc"}
ParamPerts == {"stake+1", "stake-1", "stake*2", "total+1", "total*2", "th+1", "th-1", "th*2"}
PrioPerts == {"prio_flip", "prio_seat"}
Expect(p) == IF p = "none" THEN "issued" ELSE IF p \in ParamPerts THEN "recompute" ELSE "reject"     \* "j+2", "j=stake": reject
CredCases == { [kind |-> "C", fn |-> fn, base |-> bs, pert |-> p, expect |-> Expect(p)] :
                 fn \in {"sortition", "priority"}, bs \in Bases, p \in {"none"} \cup BindingPerts \cup ParamPerts }
             \cup { [kind |-> "C", fn |-> "priority", base |-> bs, pert |-> p, expect |-> "reject"] : bs \in Bases, p \in PrioPerts }

\* credentials whose VRF output lies in the top 1% of the range (sd = 0: the driver searches such a seed): the claimed seat count
\* inflated by one, by two and up to the whole stake must be rejected there as anywhere else
TailBases == { [k |-> k, sd |-> 0, ix |-> ix, st |-> st, w |-> p[1], a |-> p[2], b |-> p[3]] :
                 k \in {1, 2}, ix \in {1, 2}, st \in {1, 3}, p \in {<<40, 10, 100>>, <<300, 26, 1000>>, <<8, 9, 10>>, <<12, 20, 30>>} }
TailCases == { [kind |-> "C", fn |-> fn, base |-> bs, pert |-> p, expect |-> Expect(p)] :
                 fn \in {"sortition", "priority"}, bs \in TailBases, p \in {"none", "j+1", "j+2", "j=stake", "j-1", "seed_first8"} }
\* a winner of several hundred seats (stake 1000, p = 1/2): the priority ranges over seat indices that need two bytes
BigBases == { [k |-> 1, sd |-> sd, ix |-> 1, st |-> 1, w |-> 1000, a |-> 1000, b |-> 2000] : sd \in {1, 2} }
BigCases == { [kind |-> "C", fn |-> "priority", base |-> bs, pert |-> p, expect |-> Expect(p)] :
                 bs \in BigBases, p \in {"none", "j+1", "prio_flip", "prio_seat"} }
\* priority cases: computePriority(hash, j) for chosen seat counts around the one-byte / two-byte boundary of the seat index.
\* PROTOCOL DEFINITION of the per-seat hash (transcribed from the unchanged computePriority, which prover and verifier share):
\*   seat i of a winner with VRF output `hash` has the hash keccak256(hash || I2OSP(i)) where I2OSP(i) is the MINIMAL BIG-ENDIAN
\*   byte string of i (big.Int.Bytes(): empty for i = 0, one byte up to 255, two bytes 0x01 0x00 for 256, ...);
\*   the priority is the largest of these over i = 0..j, compared as 256-bit big-endian integers.
PrioSeats == {0, 1, 2, 255, 256, 257, 300, 500, 511, 512, 513, 600}
PrioCases == { [kind |-> "Q", hid |-> x, j |-> j] : x \in 1..PrioHashes, j \in PrioSeats }

\* window points of the current step (Cdf(j-1), Cdf(j)] of a scan
SPt(tag, h) == [kind |-> "P", tag |-> tag, h |-> BigToHex(h), w |-> s.w, a |-> s.a, b |-> s.b, ej |-> s.j]
ScanPoints ==
   LET D == Den(s.w, s.b)
       K == BigOfInt(1000)
       \* the step meets the window: prev < hi/1000 and lo/1000 <= cum
       inWin == BigLt(BigMul(K, s.prev), BigMul(BigOfInt(s.hi), D)) /\ BigLeq(BigMul(BigOfInt(s.lo), D), BigMul(K, s.cum))
       at(n, d) == Floor(BigMul(BigAdd(BigMul(BigOfInt(d - n), s.prev), BigMul(BigOfInt(n), s.cum)), HMax), BigMul(BigOfInt(d), D))  \* prev + n/d of the step
       \* 0.99 strictly inside the step
       has99 == BigLt(BigMul(BigOfInt(100), s.prev), BigMul(BigOfInt(99), D)) /\ BigLt(BigMul(BigOfInt(99), D), BigMul(BigOfInt(100), s.cum))
       lo99 == Floor(BigMul(BigAdd(BigMul(BigOfInt(100), s.prev), BigMul(BigOfInt(99), D)), HMax), BigMul(BigOfInt(200), D))     \* (prev + 0.99) / 2
       hi99 == Floor(BigMul(BigAdd(BigMul(BigOfInt(100), s.cum), BigMul(BigOfInt(99), D)), HMax), BigMul(BigOfInt(200), D)) IN   \* (0.99 + cum) / 2
   IF ~inWin \/ s.term = Zero THEN {}
   ELSE {SPt("win_mid", at(1, 2))} \cup (IF s.hi - s.lo < 100 THEN {SPt("win_q1", at(1, 4)), SPt("win_q3", at(3, 4)), SPt("win_low", at(1, 50))} ELSE {})
        \cup (IF has99 THEN {SPt("win_below_switch", lo99), SPt("win_above_switch", hi99), SPt("win_at_switch", Switch),
                              SPt("win_at_switch", BigAdd(Switch, Two(236)))} ELSE {})
\* self-check: the points of a step are strictly inside it
ScanPointsInside == IsScan => \A r \in ScanPoints : LET hh == BigOfHex(r.h) D == Den(s.w, s.b) IN
                                  /\ Strict(hh, D, s.prev, s.cum, s.j) \/ r.tag = "win_at_switch"
                                  /\ IsExact(hh, D, s.prev, s.cum, s.j) \/ r.tag = "win_at_switch"

\* the VRF output must be unique per (key, message): cases for the malicious-prover part of the driver (encoding malleations)
UniqueCases == { [kind |-> "U", k |-> k, sd |-> sd, ix |-> ix, st |-> st] : k \in {1, 2}, sd \in {1, 2}, ix \in {1, 2}, st \in {1, 3, 5} }

\* argmax stage of the priority: VRF outputs are searched (by the driver, deterministically) until the seat with the LARGEST hash is a given
\* seat index -- 0, the one-byte / two-byte boundary of the index encoding (255, 256, 257), other multiples of 256 and their neighbours --
\* for 1100 and for 600 seats; and real credentials (stake 2200, p = 1/2) whose largest seat hash sits on a positive multiple of 256.
\* (An index >= 65536 as argmax is out of reach of a search: probability 1/65537 per output at 65537 hashes each; stated in the evidence.)
ArgmaxCases == { [kind |-> "X", jmax |-> 1100, targets |-> {0, 1, 255, 256, 257, 511, 512, 513, 768, 1024}],
                 [kind |-> "XC", w |-> 2200, a |-> 1, b |-> 2] }

\* ISSUER stage: the issuing side (SortitionManager.isProposer / isValidator) bound to the verifying side.  For every step kind the
\* credential is drawn through the real SortitionManager over look-back functions whose seed / stake / threshold DIFFER per look-back
\* class (ordinary: SeedLookBack / StakeLookBack; certificate: the ACoCHTFrequency look-backs), and verified with the verifier's own
\* selection for that step (statement: "the verifier recomputes the same j and accepts a credential only for the exact key, seed, round
\* index, step and seat count it was issued for" -- seen from the issuer: an honestly issued credential verifies with the seed / stake /
\* threshold of its own look-back class and does not verify under the other class's seed)
IssuerCases == { [kind |-> "I", role |-> r, k |-> k, ix |-> ix, pset |-> ps] :
                   r \in {"proposal", "prevote", "precommit", "nextindex", "certificate"}, k \in {1, 2}, ix \in {1, 2}, ps \in {1, 2} }

Leaf == (GenMode = "all") =>
          IF IsPt THEN \A r \in Points : PrintT("@@J " \o ToJson(r))
          ELSE IF IsScan THEN \A r \in ScanPoints : PrintT("@@J " \o ToJson(r))
          ELSE IF IsSeq THEN (Len(s.hist) = SeqDepth => PrintT("@@J " \o ToJson([kind |-> "S", ops |-> s.hist])))
          ELSE IF IsAlias THEN (Len(s.ops) = AliasDepth => PrintT("@@J " \o ToJson([kind |-> "A", aops |-> s.ops])))
          ELSE \A r \in CredCases \cup TailCases \cup BigCases \cup PrioCases \cup UniqueCases \cup ArgmaxCases \cup IssuerCases : PrintT("@@J " \o ToJson(r))
=============================================================================
