------------------------------ MODULE Sortition ------------------------------
(***************************************************************************)
(* C04 -- small-scope enumeration and self-check of the specification.     *)
(* For tiny parameters (w <= WMax, p from a small set, including p = 1)    *)
(* TLC walks j = 0..w and                                                  *)
(*  (M) checks the definitions against each other: the closed form against *)
(*      the recurrence the trace monitor uses (RecurrenceExact), the total *)
(*      mass (CdfTotal), monotonicity, the quantile of every CDF midpoint  *)
(*      and boundary (MidpointQuantile, BoundaryQuantile), range and       *)
(*      monotonicity of Quantile;                                          *)
(*  (G) prints the points to present to the real choose(): midpoints       *)
(*      between consecutive CDF values, the boundary targets themselves    *)
(*      and their successors, the end points 0, 1, 2^256-2, 2^256-1, and   *)
(*      targets around the 0.99 switch-over -- each with its exact         *)
(*      quantile -- and the credential cases: every base credential x      *)
(*      every single-field perturbation with the expected verdict.         *)
(***************************************************************************)
EXTENDS SortitionDefs

CONSTANTS WMax,      \* largest stake of the enumeration
          GenMode,   \* "none" | "all"
          SeqDepth,  \* length of the generated Issue / Verify sequences
          PrioHashes \* number of hashes per seat count of the priority cases

Ps == {<<1, 10>>, <<1, 4>>, <<1, 2>>, <<9, 10>>, <<1, 1>>, <<99, 100>>, <<1, 1000>>}

VARIABLES s   \* [w, a, b, j] or [mode |-> "cred"]
vars == <<s>>

RECURSIVE Binom(_, _)
Binom(n, k) == IF k = 0 THEN 1 ELSE (Binom(n, k - 1) * (n - k + 1)) \div k
Term(i, w, a, b) == BigMul(BigMul(BigOfInt(Binom(w, i)), BigPow(BigOfInt(a), i)), BigPow(BigOfInt(b - a), w - i))
RECURSIVE Cdf(_, _, _, _)
Cdf(j, w, a, b) == IF j < 0 THEN Zero ELSE BigAdd(Cdf(j - 1, w, a, b), Term(j, w, a, b))

Reaches(h, j, w, a, b) == BigLeq(BigMul(h, Den(w, b)), BigMul(Cdf(j, w, a, b), HMax))
Quantile(h, w, a, b) == CHOOSE j \in 0..w : Reaches(h, j, w, a, b) /\ \A k \in 0..(j - 1) : ~Reaches(h, k, w, a, b)

\* targets as 256-bit integers
Floor(num, den) == BigDivMod(num, den)[1]
Boundary(j, w, a, b) == Floor(BigMul(Cdf(j, w, a, b), HMax), Den(w, b))                  \* largest h with t <= Cdf(j)
Mid(j, w, a, b) == Floor(BigMul(BigAdd(Cdf(j - 1, w, a, b), Cdf(j, w, a, b)), HMax), BigMul(BigOfInt(2), Den(w, b)))
Switch == Floor(BigMul(BigOfInt(99), HMax), BigOfInt(100))                                \* floor(0.99 * HMax)
Two(k) == BigPow(BigOfInt(2), k)

(***************************************************************************)
(* Sequences (one process of the real code, in this order): the state is   *)
(* the set of (key, seed, index, step) tuples for which a credential has   *)
(* been issued; Issue(t) evaluates the VRF for t, Verify(c, t) presents    *)
(* the credential issued for c to the verifier with the inputs t.  Seeds   *)
(* are variants of one seed A: "first8" differs from A in bytes 0..7 only, *)
(* "byte8" in byte 8, "last" in byte 31, "other" everywhere.  The verifier *)
(* must accept exactly when t = c WHATEVER has been evaluated or verified  *)
(* before (no state may leak between evaluations), and two different       *)
(* tuples must never get the same VRF output.                              *)
(***************************************************************************)
SeedVars == {"A", "first8", "byte8", "last", "other"}
BaseTup == [k |-> 1, sv |-> "A", ix |-> 1, st |-> 3]
\* t and its single-field variants
Near(t) == {t} \cup {[t EXCEPT !.k = 3 - t.k], [t EXCEPT !.ix = 3 - t.ix], [t EXCEPT !.st = 4 - t.st]}
               \cup { [t EXCEPT !.sv = v] : v \in SeedVars }

Init == \/ \E w \in 1..WMax, p \in Ps : s = [w |-> w, a |-> p[1], b |-> p[2], j |-> 0]
        \/ s = [mode |-> "cred"]
        \/ s = [mode |-> "seq", hist |-> <<>>, issued |-> {}]
NextPt == /\ "j" \in DOMAIN s
          /\ s.j < s.w
          /\ s' = [s EXCEPT !.j = s.j + 1]
IsSeq == "hist" \in DOMAIN s
Issue(t) == /\ IsSeq /\ Len(s.hist) < SeqDepth
            /\ s' = [s EXCEPT !.hist = Append(s.hist, [op |-> "issue", t |-> t]), !.issued = s.issued \cup {t}]
Verify(c, t) == /\ IsSeq /\ Len(s.hist) < SeqDepth /\ c \in s.issued
                /\ s' = [s EXCEPT !.hist = Append(s.hist, [op |-> "verify", c |-> c, t |-> t])]
NextSeq == \/ \E t \in Near(BaseTup) : Issue(t)
           \/ \E c \in (IF IsSeq THEN s.issued ELSE {}) : \E t \in Near(c) : Verify(c, t)
Next == NextPt \/ NextSeq
Spec == Init /\ [][Next]_vars

IsPt == "j" \in DOMAIN s

\* ---------------------------------------------------------------- (M) self-check of the definitions
CdfTotal == IsPt => Cdf(s.w, s.w, s.a, s.b) = Den(s.w, s.b)
CdfMonotone == IsPt => BigLeq(Cdf(s.j - 1, s.w, s.a, s.b), Cdf(s.j, s.w, s.a, s.b))
\* the recurrence of the trace monitor reproduces the closed form, and its division is exact
RecurrenceExact == (IsPt /\ s.j < s.w /\ s.a < s.b) =>
                      NextTerm(Term(s.j, s.w, s.a, s.b), s.j, s.w, s.a, s.b) = <<Term(s.j + 1, s.w, s.a, s.b), Zero>>
Term0OK == IsPt => Term0(s.w, s.a, s.b) = Term(0, s.w, s.a, s.b)
Positive(j, w, a, b) == Term(j, w, a, b) # Zero
MidpointQuantile == (IsPt /\ Positive(s.j, s.w, s.a, s.b)) => Quantile(Mid(s.j, s.w, s.a, s.b), s.w, s.a, s.b) = s.j
BoundaryQuantile == (IsPt /\ Positive(s.j, s.w, s.a, s.b)) =>
                       /\ Quantile(Boundary(s.j, s.w, s.a, s.b), s.w, s.a, s.b) = s.j
                       /\ (s.j < s.w /\ Positive(s.j + 1, s.w, s.a, s.b)) => Quantile(BigAdd(Boundary(s.j, s.w, s.a, s.b), BigOfInt(1)), s.w, s.a, s.b) = s.j + 1
EndPoints == IsPt => /\ Quantile(Zero, s.w, s.a, s.b) = 0
                     /\ Quantile(HMax, s.w, s.a, s.b) = s.w          \* a > 0: the last seat has positive probability
QuantileMonotone == (IsPt /\ s.j > 0 /\ Positive(s.j, s.w, s.a, s.b) /\ Positive(s.j - 1, s.w, s.a, s.b)) =>
                       Quantile(Mid(s.j - 1, s.w, s.a, s.b), s.w, s.a, s.b) <= Quantile(Mid(s.j, s.w, s.a, s.b), s.w, s.a, s.b)
\* the three judgements agree on exact data: the exact quantile is in the band; a midpoint is strictly inside
BandSound == (IsPt /\ Positive(s.j, s.w, s.a, s.b)) =>
                LET D == Den(s.w, s.b) prev == Cdf(s.j - 1, s.w, s.a, s.b) cum == Cdf(s.j, s.w, s.a, s.b) m == Mid(s.j, s.w, s.a, s.b) IN
                /\ IsExact(m, D, prev, cum, s.j) /\ InBand(m, D, prev, cum, s.j) /\ Strict(m, D, prev, cum, s.j)
                /\ InBand(Boundary(s.j, s.w, s.a, s.b), D, prev, cum, s.j)
                /\ (s.j < s.w) => ~InBand(m, D, cum, Cdf(s.j + 1, s.w, s.a, s.b), s.j + 1)      \* an off-by-one is outside the band
                /\ (s.j > 0 /\ Positive(s.j - 1, s.w, s.a, s.b)) => ~InBand(m, D, Cdf(s.j - 2, s.w, s.a, s.b), prev, s.j - 1)

\* ---------------------------------------------------------------- (G) points for the real choose()
Pt(tag, h) == [kind |-> "P", tag |-> tag, h |-> BigToHex(h), w |-> s.w, a |-> s.a, b |-> s.b, ej |-> Quantile(h, s.w, s.a, s.b)]
Points ==
   (IF Positive(s.j, s.w, s.a, s.b)
    THEN {Pt("mid", Mid(s.j, s.w, s.a, s.b)), Pt("boundary", Boundary(s.j, s.w, s.a, s.b))}
         \cup (IF s.j < s.w THEN {Pt("boundary", BigAdd(Boundary(s.j, s.w, s.a, s.b), BigOfInt(1)))} ELSE {})
    ELSE {})
   \cup (IF s.j = 0
         THEN {Pt("end", Zero), Pt("end", BigOfInt(1)), Pt("end", HMax), Pt("end", BigSub(HMax, BigOfInt(1))),
               Pt("switch", Switch), Pt("switch", BigAdd(Switch, BigOfInt(1))), Pt("switch", BigSub(Switch, Two(200))),
               Pt("switch", BigAdd(Switch, Two(200))), Pt("switch", BigAdd(Switch, Two(245))), Pt("switch", BigSub(HMax, Two(240))),
               Pt("switch", BigSub(HMax, Two(200)))}
         ELSE {})

\* credential cases: base credential x single-field perturbation, with the expected verdict
\*   "issued"    : the credential as issued        -> accepted exactly when it selects (j > 0; a priority also with j = 0)
\*   "reject"    : a bound field was changed       -> rejected
\*   "recompute" : stake / total stake / threshold presented to the verifier differ -> the verdict is that of the recomputed quantile
Params == {<<5, 5, 10>>, <<40, 10, 100>>, <<300, 26, 1000>>, <<8, 9, 10>>, <<30, 2, 30>>, <<7, 12, 12>>}
Bases == { [k |-> k, sd |-> sd, ix |-> ix, st |-> st, w |-> p[1], a |-> p[2], b |-> p[3]] :
              k \in {1, 2}, sd \in {1, 2}, ix \in {1, 2}, st \in {1, 3}, p \in Params }
BindingPerts == {"key", "seed", "seed_first8", "seed_byte8", "seed_last", "index", "step", "j+1", "j-1", "proof_first", "proof_mid", "proof_last", "proof_trunc"}
ParamPerts == {"stake+1", "stake-1", "stake*2", "total+1", "total*2", "th+1", "th-1", "th*2"}
PrioPerts == {"prio_flip", "prio_seat"}
Expect(p) == IF p = "none" THEN "issued" ELSE IF p \in ParamPerts THEN "recompute" ELSE "reject"     \* "j+2", "j=stake": reject
CredCases == { [kind |-> "C", fn |-> fn, base |-> bs, pert |-> p, expect |-> Expect(p)] :
                 fn \in {"sortition", "priority"}, bs \in Bases, p \in {"none"} \cup BindingPerts \cup ParamPerts }
             \cup { [kind |-> "C", fn |-> "priority", base |-> bs, pert |-> p, expect |-> "reject"] : bs \in Bases, p \in PrioPerts }

\* credentials whose VRF output lies in the top 1% of the range (sd = 0: the driver searches such a seed): the claimed seat count
\* inflated by one, by two and up to the whole stake must be rejected there as anywhere else
TailBases == { [k |-> k, sd |-> 0, ix |-> ix, st |-> st, w |-> p[1], a |-> p[2], b |-> p[3]] :
                 k \in {1, 2}, ix \in {1, 2}, st \in {1, 3}, p \in {<<40, 10, 100>>, <<300, 26, 1000>>, <<8, 9, 10>>, <<12, 20, 30>>} }
TailCases == { [kind |-> "C", fn |-> fn, base |-> bs, pert |-> p, expect |-> Expect(p)] :
                 fn \in {"sortition", "priority"}, bs \in TailBases, p \in {"none", "j+1", "j+2", "j=stake", "j-1", "seed_first8"} }
\* a winner of several hundred seats (stake 1000, p = 1/2): the priority ranges over seat indices that need two bytes
BigBases == { [k |-> 1, sd |-> sd, ix |-> 1, st |-> 1, w |-> 1000, a |-> 1000, b |-> 2000] : sd \in {1, 2} }
BigCases == { [kind |-> "C", fn |-> "priority", base |-> bs, pert |-> p, expect |-> Expect(p)] :
                 bs \in BigBases, p \in {"none", "j+1", "prio_flip", "prio_seat"} }
\* priority cases: computePriority(hash, j) for chosen seat counts around the one-byte / two-byte boundary of the seat index.
\* PROTOCOL DEFINITION of the per-seat hash (transcribed from the unchanged computePriority, which prover and verifier share):
\*   seat i of a winner with VRF output `hash` has the hash keccak256(hash || I2OSP(i)) where I2OSP(i) is the MINIMAL BIG-ENDIAN
\*   byte string of i (big.Int.Bytes(): empty for i = 0, one byte up to 255, two bytes 0x01 0x00 for 256, ...);
\*   the priority is the largest of these over i = 0..j, compared as 256-bit big-endian integers.
PrioSeats == {0, 1, 2, 255, 256, 257, 300, 500, 511, 512, 513, 600}
PrioCases == { [kind |-> "Q", hid |-> x, j |-> j] : x \in 1..PrioHashes, j \in PrioSeats }

Leaf == (GenMode = "all") =>
          IF IsPt THEN \A r \in Points : PrintT("@@J " \o ToJson(r))
          ELSE IF IsSeq THEN (Len(s.hist) = SeqDepth => PrintT("@@J " \o ToJson([kind |-> "S", ops |-> s.hist])))
          ELSE \A r \in CredCases \cup TailCases \cup BigCases \cup PrioCases : PrintT("@@J " \o ToJson(r))
=============================================================================
