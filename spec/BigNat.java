import java.math.BigInteger;

import tlc2.value.impl.BoolValue;
import tlc2.value.impl.IntValue;
import tlc2.value.impl.StringValue;
import tlc2.value.impl.TupleValue;
import tlc2.value.impl.Value;

/**
 * TLC module override for spec/BigNat.tla (C04): unbounded NATURAL numbers, evaluated with
 * java.math.BigInteger.  Values travel between TLC operators in a PACKED string encoding: the
 * letter 'N' followed by the base-2^15 digits, most significant first, each digit d as the char
 * (0x100 + d); zero is "N".  (Decimal or hexadecimal strings make BigInteger parsing/printing
 * super-linear; exact binomial tails have denominators of 10^4 .. 10^5 bits.)  The encoding is
 * canonical, so TLA+ equality of two encoded values is numeric equality.
 * Only integer arithmetic lives here; the quantile definition and every sortition rule is TLA+.
 */
public class BigNat {
  private static final int B = 15;
  private static final int OFF = 0x100;

  private static BigInteger bi(Value v) {
    String s = ((StringValue) v).val.toString();
    if (s.isEmpty() || s.charAt(0) != 'N') {
      throw new IllegalArgumentException("BigNat: not a packed natural: " + (s.length() > 40 ? s.substring(0, 40) + "..." : s));
    }
    int n = s.length() - 1;
    if (n == 0) {
      return BigInteger.ZERO;
    }
    long bits = (long) n * B;
    int nbytes = (int) ((bits + 7) / 8);
    byte[] out = new byte[nbytes];
    // fill from the least significant digit
    long acc = 0;
    int accBits = 0;
    int pos = nbytes - 1;
    for (int i = n; i >= 1; i--) {
      acc |= ((long) (s.charAt(i) - OFF)) << accBits;
      accBits += B;
      while (accBits >= 8) {
        out[pos--] = (byte) (acc & 0xff);
        acc >>>= 8;
        accBits -= 8;
      }
    }
    if (accBits > 0 && pos >= 0) {
      out[pos--] = (byte) (acc & 0xff);
    }
    return new BigInteger(1, out);
  }

  private static Value sv(BigInteger b) {
    if (b.signum() < 0) {
      throw new IllegalArgumentException("BigNat: negative result");
    }
    if (b.signum() == 0) {
      return new StringValue("N");
    }
    byte[] mag = b.toByteArray(); // big-endian, possibly with a leading zero byte
    int nbits = b.bitLength();
    int n = (nbits + B - 1) / B;
    char[] cs = new char[n + 1];
    cs[0] = 'N';
    long acc = 0;
    int accBits = 0;
    int bp = mag.length - 1;
    for (int i = n; i >= 1; i--) {
      while (accBits < B && bp >= 0) {
        acc |= ((long) (mag[bp--] & 0xff)) << accBits;
        accBits += 8;
      }
      cs[i] = (char) (OFF + (int) (acc & ((1 << B) - 1)));
      acc >>>= B;
      accBits -= B;
      if (accBits < 0) {
        accBits = 0;
      }
    }
    return new StringValue(new String(cs));
  }

  public static Value BigAdd(Value a, Value b) {
    return sv(bi(a).add(bi(b)));
  }

  /** a - b, an error when negative. */
  public static Value BigSub(Value a, Value b) {
    return sv(bi(a).subtract(bi(b)));
  }

  public static Value BigMul(Value a, Value b) {
    return sv(bi(a).multiply(bi(b)));
  }

  public static Value BigDivMod(Value a, Value b) {
    BigInteger y = bi(b);
    if (y.signum() == 0) {
      throw new IllegalArgumentException("BigNat: division by zero");
    }
    BigInteger[] qr = bi(a).divideAndRemainder(y);
    return new TupleValue(sv(qr[0]), sv(qr[1]));
  }

  public static Value BigLeq(Value a, Value b) {
    return bi(a).compareTo(bi(b)) <= 0 ? BoolValue.ValTrue : BoolValue.ValFalse;
  }

  public static Value BigLt(Value a, Value b) {
    return bi(a).compareTo(bi(b)) < 0 ? BoolValue.ValTrue : BoolValue.ValFalse;
  }

  public static Value BigPow(Value a, Value n) {
    int k = ((IntValue) n).val;
    if (k < 0) {
      throw new IllegalArgumentException("BigNat: negative exponent");
    }
    return sv(bi(a).pow(k));
  }

  public static Value BigOfInt(Value n) {
    int k = ((IntValue) n).val;
    if (k < 0) {
      throw new IllegalArgumentException("BigNat: negative integer");
    }
    return sv(BigInteger.valueOf(k));
  }

  public static Value BigOfHex(Value s) {
    String t = ((StringValue) s).val.toString();
    return sv(t.isEmpty() ? BigInteger.ZERO : new BigInteger(t, 16));
  }

  public static Value BigOfDec(Value s) {
    return sv(new BigInteger(((StringValue) s).val.toString(), 10));
  }

  public static Value BigToHex(Value a) {
    return new StringValue(bi(a).toString(16));
  }

  public static Value BigToDec(Value a) {
    return new StringValue(bi(a).toString(10));
  }

  /** Number of bits of a (0 for zero): lets the specs report the size of what they computed. */
  public static Value BigBits(Value a) {
    return IntValue.gen(bi(a).bitLength());
  }
}
