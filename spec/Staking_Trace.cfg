SPECIFICATION TSpec
CONSTANTS
  Users = {"u1"}
  GenVals = {"g1", "g2", "g3"}
  NewVals = {"n1"}
  Unit = 10
  Amts = {15}
  Period = 2
  MaxBlocks = 1000000
  MaxTx = 1000
  MaxTxTotal = 1000000
  MRP = 1
  Fee = 13
  Refund = 5
  Threshold = 40
  Wait = 2
  Delay = 1
  StaleSettle = TRUE
  RefundAfterGasUsed = TRUE
  DropRemovedRewards = TRUE
  Alphabet = "small"
  GenMode = "none"
CONSTRAINT HighWater
POSTCONDITION Accepted
CHECK_DEADLOCK FALSE
