-------------------------- MODULE VersionChain_Mon --------------------------
(***************************************************************************)
(* C12 chain-level monitor over a REAL core.BlockChain (driver             *)
(* `versionchain`).  It cannot reject a trace.  Every event carries the    *)
(* observed canonical chain (walked from CurrentBlock through parent       *)
(* hashes): names, version fields.  Clauses:                               *)
(*  ActiveVersionIsCanonical  each answer of VersionForRound(r) is the     *)
(*      CurrVersion of the observed canonical header at                    *)
(*      max(0, r - lookback), for every r whose looked-back height is on   *)
(*      the canonical chain                                                *)
(*  Canon<Clause>  the C12 statement over the observed canonical headers:  *)
(*      every consecutive pair is a SafeStep (pairwise clauses of          *)
(*      VersionUpgradeProp), every version change satisfies the            *)
(*      chain-level clauses.                                               *)
(*  ImportAppliesVerifier  InsertChain rejects a segment for its version   *)
(*      state exactly when the PURE verifier (the real                     *)
(*      core.VerifyYouVersionState, called by the driver on the same       *)
(*      headers along the segment's real parent chain) rejects one of its  *)
(*      headers, and at the same header; for probes: the set of single     *)
(*      headers InsertChain accepts on a parent equals the set the pure    *)
(*      verifier accepts.                                                  *)
(***************************************************************************)
EXTENDS VersionUpgradeProp, TLC, Json

TraceLog == ndJsonDeserialize("trace.ndjson")

VARIABLES l, T, prev, viol, fired
vars == <<l, T, prev, viol, fired>>

NoTree == [P |-> [vr |-> 1, th |-> 1, minw |-> 0, maxw |-> 0], lookback |-> 8, num |-> [x \in {} |-> 0], ver |-> [x \in {} |-> <<>>],
           par |-> [x \in {} |-> ""]]
AddNew(vs, new) == vs \cup { v \in new : ~\E w \in vs : w[1] = v[1] /\ w[2] = v[2] }
T2H(n, t) == Hdr(n, t[1], t[2], t[3], t[4], t[5])
TreeHd(b) == T2H(T.num[b], T.ver[b])

SiblingDisc(p, c) == IF \E x \in DOMAIN T.num : T.num[x] = p.n /\ TreeHd(x) # p /\ SafeStep(T.P, TreeHd(x), c)
                     THEN {"valid_after_sibling_of_parent"} ELSE {"not_valid_after_any_sibling"}
RECURSIVE FoldCanon(_, _, _, _, _)
FoldCanon(vs, i, H, acc, line) ==
   IF i > Len(vs) THEN acc
   ELSE LET p == T2H(i - 2, vs[i - 1])  c == T2H(i - 1, vs[i]) IN
        FoldCanon(vs, i + 1, Fold(T.P, H, p, c),
                  acc \cup { <<"Canon" \o nm, Disc(nm, T.P, p, c) \cup SiblingDisc(p, c), line>> : nm \in FailingPair(T.P, p, c) }
                      \cup { <<"Canon" \o nm, ChainDisc(T.P, H, p, c), line>> : nm \in FailingChain(T.P, H, p, c) }, line)

Back(r) == IF r > T.lookback THEN r - T.lookback ELSE 0
SpecAnswer(o, r) == IF Back(r) <= o.hn THEN o.vers[Back(r) + 1][1] ELSE 0
PrevAnswer(r) == IF prev # <<>> /\ Back(r) + 1 \in DOMAIN prev THEN prev[Back(r) + 1][1] ELSE 0
\* class of a wrong answer
AnsDisc(o, r, a) == {IF a = 0 THEN "no_answer" ELSE "wrong_version"}
                    \cup (IF a # 0 /\ a = PrevAnswer(r) THEN {"value_of_the_abandoned_chain"} ELSE {})
\* judged for the rounds whose looked-back height lies on the canonical chain (production asks for rounds <= head + 1);
\* what the number index holds ABOVE the head is not part of the canonical chain and is not judged
QueryViol(e, line) == { <<"ActiveVersionIsCanonical", AnsDisc(e.obs, e.lo + i - 1, e.ans[i]), line>> :
                           i \in { k \in DOMAIN e.ans : Back(e.lo + k - 1) <= e.obs.hn /\ e.ans[k] # SpecAnswer(e.obs, e.lo + k - 1) } }

\* class of a header the two disagree on: c on top of p
DisagreeDisc(p, c, dir) ==
   {dir, IF <<c.cv, c.nv, c.ap, c.vb, c.so>> = <<p.cv, p.nv, p.ap, p.vb, p.so>> THEN "copy_of_parent_fields" ELSE "changed_fields",
    IF p.nv # 0 /\ c.n = p.vb THEN "at_window_close" ELSE IF p.nv # 0 /\ c.n > p.vb THEN "after_window_close" ELSE "other_round"}
\* import event: e.pure = index (from 0) of the first header the pure verifier rejects, -1 none, -2 real parent unknown;
\* e.vidx = index InsertChain reports for a version-state failure, -1 none
ImportViol(e, line) ==
   IF e.pure = -2 \/ e.pure = e.vidx THEN {}
   ELSE LET k == IF e.vidx = -1 \/ (e.pure # -1 /\ e.pure < e.vidx) THEN e.pure ELSE e.vidx     \* first disagreement
            c == TreeHd(e.seg[k + 1])
            p == TreeHd(T.par[e.seg[k + 1]]) IN
        { <<"ImportAppliesVerifier", DisagreeDisc(p, c, IF k = e.pure THEN "import_accepts_rejected_header" ELSE "import_rejects_valid_header"), line>> }
ProbeViol(e, line) ==
   LET p == T2H(e.pn, e.pv)
       pure == { e.pure[i] : i \in DOMAIN e.pure }
       imp == { e.imp[i] : i \in DOMAIN e.imp } IN
   { <<"ImportAppliesVerifier", DisagreeDisc(p, T2H(e.pn + 1, e.cands[k + 1]), "import_accepts_rejected_header"), line>> : k \in imp \ pure }
   \cup { <<"ImportAppliesVerifier", DisagreeDisc(p, T2H(e.pn + 1, e.cands[k + 1]), "import_rejects_valid_header"), line>> : k \in pure \ imp }

Switches(vs) == Cardinality({ i \in 2..Len(vs) : vs[i][1] # vs[i - 1][1] })
Before(k) == IF k > 1 /\ "obs" \in DOMAIN TraceLog[k - 1] THEN TraceLog[k - 1].obs.vers ELSE <<>>
\* the canonical chain changed below its old head (not a mere extension)
IsReorg(b, o) == b # <<>> /\ \E i \in DOMAIN b : i \in DOMAIN o.vers /\ b[i] # o.vers[i]
Zero == [Observations |-> 0, Queries |-> 0, Reorgs |-> 0, SetHeads |-> 0, Switches |-> 0, QueriesAfterReorg |-> 0,
         ImportsJudged |-> 0, PureRejected |-> 0, Probes |-> 0]

Init == l = 1 /\ T = NoTree /\ prev = <<>> /\ viol = {} /\ fired = Zero

Step ==
   /\ l <= Len(TraceLog)
   /\ l' = l + 1
   /\ LET e == TraceLog[l] IN
      CASE e.ev = "tree" -> T' = [P |-> e.P, lookback |-> e.lookback, num |-> e.num, ver |-> e.ver, par |-> e.par] /\ prev' = <<>> /\ UNCHANGED <<viol, fired>>
        [] e.ev \in {"import", "sethead", "query"} ->
             /\ viol' = AddNew(viol, FoldCanon(e.obs.vers, 2, H0, {}, l) \cup (IF e.ev = "query" THEN QueryViol(e, l) ELSE {})
                                     \cup (IF e.ev = "import" THEN ImportViol(e, l) ELSE {}))
             /\ fired' = [fired EXCEPT !.Observations = @ + 1,
                                       !.Queries = @ + (IF e.ev = "query" THEN 1 ELSE 0),
                                       !.ImportsJudged = @ + (IF e.ev = "import" /\ e.pure # -2 THEN 1 ELSE 0),
                                       !.PureRejected = @ + (IF e.ev = "import" /\ e.pure >= 0 THEN 1 ELSE 0),
                                       !.Reorgs = @ + (IF e.ev = "import" /\ IsReorg(Before(l), e.obs) THEN 1 ELSE 0),
                                       !.SetHeads = @ + (IF e.ev = "sethead" /\ e.err = "" THEN 1 ELSE 0),
                                       !.Switches = @ + Switches(e.obs.vers),
                                       !.QueriesAfterReorg = @ + (IF e.ev = "query" /\ IsReorg(prev, e.obs) THEN 1 ELSE 0)]
             \* prev = the version fields of the canonical chain before the last import / rewind
             /\ prev' = IF e.ev = "query" THEN prev ELSE Before(l)
             /\ UNCHANGED T
        [] e.ev = "probe" ->
             /\ viol' = AddNew(viol, ProbeViol(e, l))
             /\ fired' = [fired EXCEPT !.Probes = @ + Len(e.cands)]
             /\ UNCHANGED <<T, prev>>
        [] OTHER -> UNCHANGED <<T, prev, viol, fired>>

Spec == Init /\ [][Step]_vars
Done == (l = Len(TraceLog) + 1) =>
          PrintT("@@J " \o ToJson([kind |-> "RESULT", events |-> Len(TraceLog), viol |-> viol, fired |-> fired]))
=============================================================================
