---------------------------- MODULE Fetcher_Trace ----------------------------
(***************************************************************************)
(* Conformance of the real fetcher to the design layer of Fetcher.tla:     *)
(* every recorded event (one loop event followed by quiescence) is         *)
(* re-executed as the model action of the same name; the model's next      *)
(* state -- any of them for the timer wave, whose choice of origin is      *)
(* random -- must project onto the snapshot taken on the loop goroutine:   *)
(* per-peer announce and queue counters, pending announces per block in    *)
(* arrival order, the origin being fetched from, queued blocks with their  *)
(* origin, junk counters, and the set of imported blocks.  The completion  *)
(* loop ("Complete") belongs to the monitor only.                          *)
(***************************************************************************)
EXTENDS Fetcher

TraceLog == ndJsonDeserialize("trace.ndjson")
VARIABLE l
tvars == <<vars, l>>

SetOf(q) == { q[i] : i \in DOMAIN q }

Matches(e) ==
   LET o == e.obs IN
   /\ \A p \in Peers : /\ s'.ann[p] = o.ann[p] /\ s'.qs[p] = o.qs[p]
                       /\ s'.junkA[p] = o.junkA[p] /\ s'.junkF[p] = o.junkF[p]
   /\ \A b \in Blocks : /\ s'.anns[b] = o.anns[b] /\ s'.fet[b] = o.fet[b] /\ s'.qd[b].o = o.qd[b]
   /\ s'.known = SetOf(o.known) \cup {0}
   /\ o.other = 0

IsEvent(name) == l <= Len(TraceLog) /\ TraceLog[l].ev = name /\ l' = l + 1

InitS == [known |-> {0}, ann |-> [p \in Peers |-> 0], anns |-> [b \in Blocks |-> <<>>], fet |-> [b \in Blocks |-> None],
          junkA |-> [p \in Peers |-> 0], junkF |-> [p \in Peers |-> 0],
          qd |-> [b \in Blocks |-> NoQ], qs |-> [p \in Peers |-> 0], fl |-> {},
          handed |-> {}, bc |-> {}, dropped |-> {}, nacc |-> [b \in Blocks |-> 0]]

TReset == /\ (IsEvent("reset") \/ IsEvent("abort"))
          /\ s' = InitS /\ nops' = 0 /\ hist' = <<>>

TInit == /\ IsEvent("Init")
         /\ LET a == TraceLog[l].args IN
            /\ a.n = N /\ a.forkat = ForkAt /\ SetOf(a.bad) = BadHdr /\ SetOf(a.peers) = Peers
            /\ a.hl = HL /\ a.bl = BL /\ a.ud = UD /\ a.qd = QD
         /\ UNCHANGED vars

TSkip == /\ IsEvent("Complete") /\ UNCHANGED vars

Act(e) == LET a == e.args IN
   CASE e.ev = "Notify"  -> Notify(a.p, a.b, a.nk)
     [] e.ev = "Wave"    -> Wave
     [] e.ev = "Expire"  -> Expire
     [] e.ev = "Deliver" -> Deliver(a.p, a.b, a.ok)
     [] OTHER -> FALSE

\* the driver performs Wave / Expire also when nothing is pending (the model's guard): then nothing may change
NoOp(e) == /\ e.ev \in {"Wave", "Expire"} /\ ~ENABLED Act(e) /\ UNCHANGED vars

TStep == /\ l <= Len(TraceLog)
         /\ TraceLog[l].ev \notin {"reset", "abort", "Init", "Complete"}
         /\ l' = l + 1
         /\ LET e == TraceLog[l] IN
            /\ (Act(e) \/ NoOp(e))
            /\ Matches(e)

TInitState == Init /\ l = 1 /\ TLCSet(1, 0)
TNext == TReset \/ TInit \/ TSkip \/ TStep
TSpec == TInitState /\ [][TNext]_tvars

HighWater == /\ TLCSet(1, IF TLCGet(1) < l THEN l ELSE TLCGet(1))
             /\ ((l = Len(TraceLog) + 1) => PrintT("@@J " \o ToJson([kind |-> "ACCEPTED", events |-> Len(TraceLog)])))
Accepted == IF TLCGet(1) = Len(TraceLog) + 1 THEN TRUE
            ELSE PrintT("@@J " \o ToJson([kind |-> "REJECTED", line |-> TLCGet(1), event |-> TraceLog[TLCGet(1)]]))
=============================================================================
