------------------------------ MODULE EvmWord ------------------------------
(***************************************************************************)
(* C15 -- the EVM's computational opcodes as functions on W-bit words.     *)
(*                                                                         *)
(* A word is a natural number below 2^W written as a canonical decimal     *)
(* string (BigWord).  The module is parameterised by the word width W and  *)
(* the width B of a "byte" (W = 256, B = 8 is the EVM; W = 8, B = 2 and    *)
(* W = 4, B = 1 are the small scopes in which TLC checks the definitions   *)
(* exhaustively against bit-level characterisations and algebraic laws --  *)
(* module EvmWord_Laws.  Every EVM-specific rule is written here: wrap     *)
(* modulo 2^W, two's-complement interpretation, division by zero = 0,      *)
(* SDIV(-2^(W-1), -1), shifts >= W, BYTE index >= W/B, SIGNEXTEND index >= *)
(* W/B - 1, the gas of EXP.  BigWord supplies integer arithmetic only.     *)
(*                                                                         *)
(* The second part is the stack discipline: what one step of a             *)
(* straight-line program does to the operand stack (pops its arity, pushes *)
(* one result, leaves every other item alone) and the gas it costs.  The   *)
(* trace monitor EvmWord_Mon judges recorded interpreter steps with it.    *)
(***************************************************************************)
EXTENDS Integers, Sequences, FiniteSets, BigWord

CONSTANTS W,     \* word width in bits
          B      \* bits per byte; W is a multiple of B

ASSUME BigWordLoaded
ASSUME W \in Nat /\ B \in Nat /\ B >= 1 /\ W >= 2 * B /\ W % B = 0

NB   == W \div B           \* bytes per word
Zero == "0"
One  == "1"
Two  == "2"
TwoW == BigPow2(W)         \* 2^W
Half == BigPow2(W - 1)     \* 2^(W-1): the smallest word that is negative in two's complement
MaxW == BigSub(TwoW, One)  \* 2^W - 1: all ones, i.e. -1

Lt(a, b)  == ~BigLeq(b, a)
IsWord(a) == BigLeq(Zero, a) /\ Lt(a, TwoW)
Div(a, b) == BigDivMod(a, b)[1]         \* a >= 0, b > 0
Rem(a, b) == BigDivMod(a, b)[2]
IsNeg(x)  == Lt(x, Zero)
Neg(x)    == BigSub(Zero, x)
Abs(x)    == IF IsNeg(x) THEN Neg(x) ELSE x
Bool(p)   == IF p THEN One ELSE Zero

\* the unique word congruent to the integer x modulo 2^W
Wrap(x) == IF ~IsNeg(x) THEN Rem(x, TwoW)
           ELSE LET r == Rem(Neg(x), TwoW) IN IF r = Zero THEN Zero ELSE BigSub(TwoW, r)

\* two's-complement reading of a word: an integer in -2^(W-1) .. 2^(W-1)-1
Signed(a) == IF Lt(a, Half) THEN a ELSE BigSub(a, TwoW)

\* a word used as a count (shift amount, byte index): its integer value when below `bound`
SmallerThan(a, bound) == Lt(a, BigOfInt(bound))

---------------------------------------------------------------------------
(* Arithmetic *)
ADD(a, b) == Wrap(BigAdd(a, b))
SUB(a, b) == Wrap(BigSub(a, b))
MUL(a, b) == Wrap(BigMul(a, b))
DIV(a, b) == IF b = Zero THEN Zero ELSE Div(a, b)                 \* division by zero yields zero
MOD(a, b) == IF b = Zero THEN Zero ELSE Rem(a, b)

\* signed division truncates towards zero; -2^(W-1) / -1 is not representable and yields -2^(W-1)
SDIV(a, b) ==
   IF b = Zero THEN Zero
   ELSE IF a = Half /\ b = MaxW THEN Half
   ELSE LET sa == Signed(a)
            sb == Signed(b)
            q  == Div(Abs(sa), Abs(sb))
        IN  Wrap(IF IsNeg(sa) # IsNeg(sb) THEN Neg(q) ELSE q)

\* signed remainder takes the sign of the dividend
SMOD(a, b) ==
   IF b = Zero THEN Zero
   ELSE LET sa == Signed(a)
            sb == Signed(b)
            r  == Rem(Abs(sa), Abs(sb))
        IN  Wrap(IF IsNeg(sa) THEN Neg(r) ELSE r)

\* the intermediate sum/product is NOT reduced modulo 2^W
ADDMOD(a, b, n) == IF n = Zero THEN Zero ELSE Rem(BigAdd(a, b), n)
MULMOD(a, b, n) == IF n = Zero THEN Zero ELSE Rem(BigMul(a, b), n)

\* a^e modulo 2^W by repeated squaring over the binary digits of e (0^0 = 1)
RECURSIVE ExpSq(_, _)
ExpSq(a, e) == IF e = Zero THEN One
               ELSE LET qr == BigDivMod(e, Two)
                        h  == ExpSq(MUL(a, a), qr[1])
                    IN  IF qr[2] = One THEN MUL(a, h) ELSE h
EXP(a, e) == ExpSq(a, e)

\* x is read as a (k+1)-byte two's-complement number and extended to the full width; k >= NB-1 changes nothing
SIGNEXTEND(k, x) ==
   IF ~SmallerThan(k, NB - 1) THEN x
   ELSE LET n   == B * (BigToInt(k) + 1)
            low == Rem(x, BigPow2(n))
        IN  IF Lt(low, BigPow2(n - 1)) THEN low ELSE BigAdd(low, BigSub(TwoW, BigPow2(n)))

---------------------------------------------------------------------------
(* Comparison *)
LT(a, b)  == Bool(Lt(a, b))
GT(a, b)  == Bool(Lt(b, a))
SLT(a, b) == Bool(Lt(Signed(a), Signed(b)))
SGT(a, b) == Bool(Lt(Signed(b), Signed(a)))
EQ(a, b)  == Bool(a = b)
ISZERO(a) == Bool(a = Zero)

---------------------------------------------------------------------------
(* Bitwise: digit by digit in base 2 *)
BitF(f, x, y) == CASE f = "and" -> IF x = One /\ y = One THEN One ELSE Zero
                   [] f = "or"  -> IF x = One \/ y = One THEN One ELSE Zero
                   [] f = "xor" -> IF x # y THEN One ELSE Zero

RECURSIVE BitRec(_, _, _)
BitRec(f, a, b) == IF a = Zero /\ b = Zero THEN Zero
                   ELSE LET qa == BigDivMod(a, Two)
                            qb == BigDivMod(b, Two)
                        IN  BigAdd(BigMul(Two, BitRec(f, qa[1], qb[1])), BitF(f, qa[2], qb[2]))
AND(a, b) == BitRec("and", a, b)
OR(a, b)  == BitRec("or", a, b)
XOR(a, b) == BitRec("xor", a, b)
NOT(a)    == BigSub(MaxW, a)

\* byte i counted from the most significant end; an index >= NB yields zero
BYTE(i, x) == IF ~SmallerThan(i, NB) THEN Zero
              ELSE Rem(Div(x, BigPow2(B * (NB - 1 - BigToInt(i)))), BigPow2(B))

---------------------------------------------------------------------------
(* Shifts: the amount is the first operand; amounts >= W saturate *)
SHL(s, x) == IF ~SmallerThan(s, W) THEN Zero ELSE Wrap(BigMul(x, BigPow2(BigToInt(s))))
SHR(s, x) == IF ~SmallerThan(s, W) THEN Zero ELSE Div(x, BigPow2(BigToInt(s)))
\* arithmetic shift = floor division of the signed value by 2^s; saturates to 0 or -1
SAR(s, x) ==
   LET sx == Signed(x) IN
   IF ~SmallerThan(s, W) THEN (IF IsNeg(sx) THEN MaxW ELSE Zero)
   ELSE LET p == BigPow2(BigToInt(s)) IN
        IF ~IsNeg(sx) THEN Div(sx, p)
        ELSE Wrap(Neg(Div(BigAdd(Abs(sx), BigSub(p, One)), p)))     \* floor(-m / p) = -ceil(m / p)

---------------------------------------------------------------------------
(* The opcode table.  p is the tuple of popped operands, p[1] = top of the  *)
(* stack (popped first).                                                    *)
UnaryOps   == {"ISZERO", "NOT"}
TernaryOps == {"ADDMOD", "MULMOD"}
BinaryOps  == {"ADD", "MUL", "SUB", "DIV", "SDIV", "MOD", "SMOD", "EXP", "SIGNEXTEND", "LT", "GT", "SLT", "SGT", "EQ",
               "AND", "OR", "XOR", "BYTE", "SHL", "SHR", "SAR"}
CompOps    == UnaryOps \cup BinaryOps \cup TernaryOps

Arity(op) == IF op \in UnaryOps THEN 1 ELSE IF op \in TernaryOps THEN 3 ELSE 2

Result(op, p) ==
   CASE op = "ADD"        -> ADD(p[1], p[2])
     [] op = "MUL"        -> MUL(p[1], p[2])
     [] op = "SUB"        -> SUB(p[1], p[2])
     [] op = "DIV"        -> DIV(p[1], p[2])
     [] op = "SDIV"       -> SDIV(p[1], p[2])
     [] op = "MOD"        -> MOD(p[1], p[2])
     [] op = "SMOD"       -> SMOD(p[1], p[2])
     [] op = "ADDMOD"     -> ADDMOD(p[1], p[2], p[3])
     [] op = "MULMOD"     -> MULMOD(p[1], p[2], p[3])
     [] op = "EXP"        -> EXP(p[1], p[2])               \* base on top, exponent below
     [] op = "SIGNEXTEND" -> SIGNEXTEND(p[1], p[2])        \* byte index on top
     [] op = "LT"         -> LT(p[1], p[2])
     [] op = "GT"         -> GT(p[1], p[2])
     [] op = "SLT"        -> SLT(p[1], p[2])
     [] op = "SGT"        -> SGT(p[1], p[2])
     [] op = "EQ"         -> EQ(p[1], p[2])
     [] op = "ISZERO"     -> ISZERO(p[1])
     [] op = "AND"        -> AND(p[1], p[2])
     [] op = "OR"         -> OR(p[1], p[2])
     [] op = "XOR"        -> XOR(p[1], p[2])
     [] op = "NOT"        -> NOT(p[1])
     [] op = "BYTE"       -> BYTE(p[1], p[2])              \* index on top
     [] op = "SHL"        -> SHL(p[1], p[2])               \* amount on top
     [] op = "SHR"        -> SHR(p[1], p[2])
     [] op = "SAR"        -> SAR(p[1], p[2])

\* gas schedule (Yellow Paper appendix G with EIP-160 for EXP; shifts: EIP-145): very low 3, low 5, mid 8
StaticGas(op) ==
   CASE op \in {"ADD", "SUB", "LT", "GT", "SLT", "SGT", "EQ", "ISZERO", "AND", "OR", "XOR", "NOT", "BYTE",
                "SHL", "SHR", "SAR"}                                   -> 3
     [] op \in {"MUL", "DIV", "SDIV", "MOD", "SMOD", "SIGNEXTEND"}      -> 5
     [] op \in {"ADDMOD", "MULMOD"}                                    -> 8
     [] op = "EXP"                                                     -> 10

\* number of 8-bit bytes needed to write e (0 for e = 0)
RECURSIVE Octets(_)
Octets(e) == IF e = Zero THEN 0 ELSE 1 + Octets(Div(e, "256"))

Gas(op, p) == IF op = "EXP" THEN StaticGas(op) + 50 * Octets(p[2]) ELSE StaticGas(op)

---------------------------------------------------------------------------
(* Stack discipline.  A stack is a sequence of words, top = last element.  *)
TopN(s, n)  == [i \in 1..n |-> s[Len(s) + 1 - i]]      \* the n top items, topmost first
Below(s, n) == SubSeq(s, 1, Len(s) - n)                \* everything under them

\* a computational step pops Arity(op) operands and pushes the result ...
ResultOK(op, before, after) ==
   /\ Len(before) >= Arity(op) /\ Len(after) >= 1
   /\ after[Len(after)] = Result(op, TopN(before, Arity(op)))
\* ... and never disturbs the other items
RestOK(n, before, after) ==
   /\ Len(before) >= n
   /\ Len(after) = Len(before) - n + 1
   /\ Below(after, 1) = Below(before, n)

\* pure stack operations used by the generated programs (k = immediate: n of DUPn / SWAPn; v = pushed constant)
PushOK(v, before, after) == after = Append(before, v)
PopOK(before, after)     == Len(before) >= 1 /\ after = Below(before, 1)
DupOK(k, before, after)  == Len(before) >= k /\ after = Append(before, before[Len(before) + 1 - k])
SwapOK(k, before, after) ==
   /\ Len(before) >= k + 1
   /\ after = [i \in 1..Len(before) |-> IF i = Len(before) THEN before[Len(before) - k]
                                        ELSE IF i = Len(before) - k THEN before[Len(before)]
                                        ELSE before[i]]

---------------------------------------------------------------------------
(* Byte-addressed memory and word-addressed storage, as maps with default 0 *)
MemRd(m, a)     == IF a \in DOMAIN m THEN m[a] ELSE 0
\* big-endian: byte k (0..31) of a 256-bit word (memory opcodes are meaningful for W = 256, B = 8 only)
WordByte(v, k)  == BigToInt(Rem(Div(v, BigPow2(8 * (31 - k))), "256"))
MemStore(m, off, v)  == [a \in DOMAIN m \cup (off..off + 31) |-> IF a \in off..off + 31 THEN WordByte(v, a - off) ELSE m[a]]
MemStore8(m, off, v) == [a \in DOMAIN m \cup {off} |-> IF a = off THEN BigToInt(Rem(v, "256")) ELSE m[a]]
RECURSIVE MemWordRec(_, _, _, _)
MemWordRec(m, off, k, acc) == IF k = 32 THEN acc
                              ELSE MemWordRec(m, off, k + 1, BigAdd(BigMul(acc, "256"), BigOfInt(MemRd(m, off + k))))
MemLoad(m, off) == MemWordRec(m, off, 0, Zero)
StoRd(s, k)     == IF k \in DOMAIN s THEN s[k] ELSE Zero
StoWr(s, k, v)  == [kk \in DOMAIN s \cup {k} |-> IF kk = k THEN v ELSE s[kk]]

---------------------------------------------------------------------------
(* Gas of the memory and storage opcodes (W = 256).                         *)
(* Memory (Yellow Paper, C_mem): a frame whose memory is a words long has   *)
(* paid 3a + floor(a^2 / 512) in total; an access that needs more words     *)
(* pays the difference to the new total, an access inside the allocated     *)
(* words pays nothing.  MLOAD / MSTORE touch 32 bytes, MSTORE8 one byte;    *)
(* each also costs the "very low" 3.                                        *)
MemTotal(a)        == 3 * a + (a * a) \div 512
WordsFor(off, len) == (off + len + 31) \div 32
MemExpand(have, need) == IF need > have THEN MemTotal(need) - MemTotal(have) ELSE 0
MaxI(a, b) == IF a > b THEN a ELSE b
MemOpLen(op) == IF op = "MSTORE8" THEN 1 ELSE 32
MemOpGas(op, have, off) == 3 + MemExpand(have, WordsFor(off, MemOpLen(op)))

(* Storage, Istanbul: SLOAD costs 800 (EIP-1884).  SSTORE is net-metered    *)
(* (EIP-2200, with SLOAD_GAS = 800, SSTORE_SET_GAS = 20000,                 *)
(* SSTORE_RESET_GAS = 5000); original = the slot's value before the         *)
(* transaction, current = its value now, new = the value being stored:      *)
(*   - current = new (no-op): SLOAD_GAS;                                    *)
(*   - current # new and original = current (slot not yet changed in this   *)
(*     transaction): SSTORE_SET_GAS if original = 0, else SSTORE_RESET_GAS; *)
(*   - current # new and original # current (dirty slot): SLOAD_GAS.        *)
(* (The rule "fail when gas left <= 2300" never applies to the generated    *)
(* programs; refunds are not part of the charged cost.)                     *)
SloadGas == 800
SstoreGas(original, current, new) ==
   IF current = new THEN 800
   ELSE IF original = current THEN (IF original = Zero THEN 20000 ELSE 5000)
   ELSE 800
=============================================================================
