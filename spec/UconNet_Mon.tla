---------------------------- MODULE UconNet_Mon ----------------------------
(***************************************************************************)
(* Monitor over the merged event trace of the repository's own six-node    *)
(* tests (consensus/ucon TestUcon / TestFork: real timers, goroutines and  *)
(* message delays), recorded by the verifTrace hooks in voter.go under     *)
(* v.lock.  The events of a node are in the order of its sequence numbers; *)
(* across nodes the merge only guarantees that a vote is emitted before it *)
(* is counted anywhere (message causality).  It cannot reject a trace.     *)
(*                                                                         *)
(* Clauses (per node n unless said otherwise):                             *)
(*  OnePrevote, OnePrecommit, OneCertificate, AtMostTwoNext                *)
(*      HonestNoDoubleVote = the C02 clauses on the votes n emitted        *)
(*  PrecommitOnlyAfterPrevoteQuorum                                        *)
(*      n emits a precommit for b at (r, i) only when the prevotes n has   *)
(*      COUNTED for b at (r, i) -- distinct senders, senders n has caught  *)
(*      voting twice excluded, its own prevote included -- weigh at least  *)
(*      floor(0.685 * threshold)                                           *)
(*  CommitOnlyAfterQuorums                                                 *)
(*      n announces a commit of b at (r, i) only when the precommits it    *)
(*      has counted for b at (r, i) reach that quorum                      *)
(*  CountedVoteWasSent                                                     *)
(*      a vote n counts from another traced node was emitted by that node  *)
(*      (kind, round, index, block)                                        *)
(*  Agreement (across nodes)                                               *)
(*      two commits of the same round are for the same block               *)
(***************************************************************************)
EXTENDS Integers, Sequences, FiniteSets, TLC, Json

TraceLog == ndJsonDeserialize("trace.ndjson")

VARIABLES l,
          sent,     \* node -> set of <<k, r, i, b>> emitted
          tally,    \* node -> set of [s, k, r, i, b, w] counted (own votes with s = node)
          dbl,      \* node -> set of <<s, k, r, i>>: senders caught with a second block
          th,       \* node -> last committee threshold seen
          commits,  \* set of <<r, b>> over all nodes
          viol, fired
vars == <<l, sent, tally, dbl, th, commits, viol, fired>>

NodeIds == 1..12
Clause == [Prevote |-> "OnePrevote", Precommit |-> "OnePrecommit", Certificate |-> "OneCertificate", Next |-> "AtMostTwoNext"]
Limit(k) == IF k = "Next" THEN 2 ELSE 1
Quorum(k, t) == IF k = "Certificate" THEN (585 * t) \div 1000 ELSE (685 * t) \div 1000
Keep == 6     \* rounds of history kept per node

ZeroFired == [HonestNoDoubleVote |-> 0, PrecommitOnlyAfterPrevoteQuorum |-> 0, CommitOnlyAfterQuorums |-> 0,
              CountedVoteWasSent |-> 0, Agreement |-> 0]
Init == /\ l = 1 /\ sent = [n \in NodeIds |-> {}] /\ tally = [n \in NodeIds |-> {}] /\ dbl = [n \in NodeIds |-> {}]
        /\ th = [n \in NodeIds |-> 0] /\ commits = {} /\ viol = {} /\ fired = ZeroFired

\* weight n has counted for (k, r, i, b): one entry per sender, caught senders excluded
Counted(n, k, r, i, b) ==
   LET es == { e \in tally[n] : e.k = k /\ e.r = r /\ e.i = i /\ e.b = b /\ <<e.s, k, r, i>> \notin dbl[n] }
       ss == { e.s : e \in es }
       wOf(s) == (CHOOSE e \in es : e.s = s).w
       RECURSIVE F(_)
       F(X) == IF X = {} THEN 0 ELSE LET x == CHOOSE y \in X : TRUE IN wOf(x) + F(X \ {x})
   IN F(ss)

Step ==
   /\ l <= Len(TraceLog)
   /\ l' = l + 1
   /\ LET e == TraceLog[l]  n == e.node IN
      CASE e.ev = "reset" ->
             /\ sent' = [x \in NodeIds |-> {}] /\ tally' = [x \in NodeIds |-> {}] /\ dbl' = [x \in NodeIds |-> {}]
             /\ th' = [x \in NodeIds |-> 0] /\ commits' = {} /\ UNCHANGED <<viol, fired>>
        [] e.ev = "ctx" ->       \* forget what is older than Keep rounds
             /\ sent' = [sent EXCEPT ![n] = { v \in @ : v[2] + Keep >= e.r }]
             /\ tally' = [tally EXCEPT ![n] = { v \in @ : v.r + Keep >= e.r }]
             /\ dbl' = [dbl EXCEPT ![n] = { v \in @ : v[3] + Keep >= e.r }]
             /\ UNCHANGED <<th, commits, viol, fired>>
        [] e.ev = "vote" ->
             LET same == { v \in sent[n] : v[1] = e.k /\ v[2] = e.r /\ v[3] = e.i }
                 blocks == { v[4] : v \in same } \cup {e.b}
                 v1 == IF e.k \in DOMAIN Clause /\ Cardinality(blocks) > Limit(e.k) THEN {<<Clause[e.k], {"six_nodes"}, l>>} ELSE {}
                 tl == tally[n] \cup {[s |-> n, k |-> e.k, r |-> e.r, i |-> e.i, b |-> e.b, w |-> e.w]}
                 v2 == IF e.k = "Precommit" /\ Counted(n, "Prevote", e.r, e.i, e.b) < Quorum("Prevote", e.th)
                       THEN {<<"PrecommitOnlyAfterPrevoteQuorum", {"six_nodes"}, l>>} ELSE {}
             IN /\ sent' = [sent EXCEPT ![n] = @ \cup {<<e.k, e.r, e.i, e.b>>}]
                /\ tally' = [tally EXCEPT ![n] = tl]
                /\ th' = [th EXCEPT ![n] = e.th]
                /\ viol' = viol \cup v1 \cup v2
                /\ fired' = [fired EXCEPT !.HonestNoDoubleVote = @ + 1,
                                          !.PrecommitOnlyAfterPrevoteQuorum = @ + (IF e.k = "Precommit" THEN 1 ELSE 0)]
                /\ UNCHANGED <<dbl, commits>>
        [] e.ev = "count" ->
             LET traced == e.s # n /\ sent[e.s] # {}            \* the sender is one of the traced nodes
                 recent == \A v \in sent[e.s] : e.r + Keep - 2 >= v[2]     \* not older than what is still remembered of the sender
                 v1 == IF traced /\ recent /\ <<e.k, e.r, e.i, e.b>> \notin sent[e.s]
                       THEN {<<"CountedVoteWasSent", {"six_nodes"}, l>>} ELSE {}
             IN /\ tally' = [tally EXCEPT ![n] = @ \cup {[s |-> e.s, k |-> e.k, r |-> e.r, i |-> e.i, b |-> e.b, w |-> e.w]}]
                /\ th' = [th EXCEPT ![n] = e.th]
                /\ viol' = viol \cup v1
                /\ fired' = [fired EXCEPT !.CountedVoteWasSent = @ + (IF traced THEN 1 ELSE 0)]
                /\ UNCHANGED <<sent, dbl, commits>>
        [] e.ev = "double" ->
             /\ dbl' = [dbl EXCEPT ![n] = @ \cup {<<e.s, e.k, e.r, e.i>>}]
             /\ UNCHANGED <<sent, tally, th, commits, viol, fired>>
        [] e.ev = "commit" ->
             LET v1 == IF Counted(n, "Precommit", e.r, e.i, e.b) < Quorum("Precommit", th[n])
                       THEN {<<"CommitOnlyAfterQuorums", {"six_nodes"}, l>>} ELSE {}
                 v2 == IF \E c \in commits : c[1] = e.r /\ c[2] # e.b THEN {<<"Agreement", {"six_nodes"}, l>>} ELSE {}
             IN /\ commits' = { c \in commits : c[1] + Keep >= e.r } \cup {<<e.r, e.b>>}
                /\ viol' = viol \cup v1 \cup v2
                /\ fired' = [fired EXCEPT !.CommitOnlyAfterQuorums = @ + 1, !.Agreement = @ + 1]
                /\ UNCHANGED <<sent, tally, dbl, th>>
        [] OTHER -> UNCHANGED <<sent, tally, dbl, th, commits, viol, fired>>

Spec == Init /\ [][Step]_vars

Done == (l = Len(TraceLog) + 1) =>
          PrintT("@@J " \o ToJson([kind |-> "RESULT", events |-> Len(TraceLog), viol |-> viol, fired |-> fired]))
=============================================================================
