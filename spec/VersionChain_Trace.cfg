SPECIFICATION TSpec
CONSTANTS
  MaxActs = 100
  FixParent = FALSE
  AutoQuery = FALSE
  GenMode = "none"
CONSTRAINT HighWater
POSTCONDITION Accepted
CHECK_DEADLOCK FALSE
