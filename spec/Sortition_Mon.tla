---------------------------- MODULE Sortition_Mon ----------------------------
(***************************************************************************)
(* C04 monitor (the verdict) over recorded I/O of the real sortition       *)
(* functions.  It cannot reject a trace.  Lines:                           *)
(*   choose   : q = [h, w, a, b, j] -- choose()/VrfSortition returned j    *)
(*              for VRF output h, stake w, threshold a, total stake b      *)
(*   verify   : VrfVerifySortition / VrfVerifyPriority on the credential   *)
(*              issued for a base, with one field perturbed; q carries the *)
(*              inputs the verifier saw (h = the VRF value of the proof,   *)
(*              j = the claimed seat count)                                *)
(*   priority : the per-seat hashes, i = 0..j, and what computePriority    *)
(*              returned.  PROTOCOL DEFINITION of the per-seat hash        *)
(*              (transcribed from the unchanged computePriority, shared by *)
(*              prover and verifier): seat i has keccak256(h || I2OSP(i)), *)
(*              I2OSP(i) = the minimal BIG-ENDIAN bytes of i (empty for 0, *)
(*              one byte up to 255, 0x01 0x00 for 256, ...); the driver    *)
(*              computes these reference hashes itself                     *)
(*   seq_issue / seq_verify : operations of a generated sequence, executed *)
(*              in one process in this order (Sortition.tla, NextSeq): a   *)
(*              credential issued for tuple c = (key, seed, index, step)   *)
(*              is presented with the inputs of tuple `as`                 *)
(* Exact binomial tails: the scan over the seats 0..j is done as TLC       *)
(* TRANSITIONS (one state per seat: term, cum), so every big value is      *)
(* computed once.                                                          *)
(* Clauses (one per sentence of the statement):                            *)
(*   QuantileExact       j is a delta-approximate quantile (delta = 1e-6)  *)
(*   JWithinStake        0 <= j <= stake                                   *)
(*   VerifierRecomputes  the verifier accepts the credential as issued     *)
(*                       (when it selects), and with other stake/total/    *)
(*                       threshold it decides by the recomputed quantile   *)
(*   PerturbationRejected  any other key, seed, index, step, seat count or *)
(*                       proof is rejected                                 *)
(*   PriorityIsMax       the priority is the largest hash over the seats   *)
(*   IssuerBindsLookBack a credential issued by the real SortitionManager  *)
(*                       for a step verifies with the seed / stake /       *)
(*                       threshold of its own look-back class (when it     *)
(*                       selects; a proposer credential always) and not    *)
(*                       under the other class's seed (line issuer)        *)
(*   OutputUniquePerKeyMessage  among all proofs the real ProofToHash      *)
(*                       accepts for one (key, message) -- honest ones and *)
(*                       those a malicious key holder makes with other     *)
(*                       encodings (line vrf_unique) -- there is exactly   *)
(*                       one output, Evaluate's: otherwise one credential  *)
(*                       slot verifies with several seat counts            *)
(***************************************************************************)
EXTENDS SortitionDefs

TraceLog == ndJsonDeserialize("trace.ndjson")

VARIABLES l, pc, i, term, cum, prev, den, viol, fired, inexact,
          iss      \* sequences: the <<tuple, VRF output>> pairs issued so far in the current behaviour
vars == <<l, pc, i, term, cum, prev, den, viol, fired, inexact, iss>>

Keys == {"QuantileExact", "QuantileExact_endpoint", "QuantileExact_upper_tail", "QuantileExact_small_mean", "QuantileExact_large_mean",
         "QuantileExact_p_is_1", "JWithinStake", "VerifierRecomputes", "VerifierRecomputes_issued_selected", "VerifierRecomputes_recompute_accepted",
         "VerifierRecomputes_recompute_rejected", "PerturbationRejected", "PerturbationRejected_selected", "PriorityIsMax", "PriorityIsMax_several_seats",
         "PerturbationRejected_tail", "PriorityIsMax_two_byte_seats", "SeqIssue", "SeqVerify_as_issued", "SeqVerify_perturbed",
         "OutputUniquePerKeyMessage", "OutputUnique_malleations_presented", "OutputUnique_malleations_accepted", "unique_transcription_rejected",
         "QuantileExact_window", "Alias_calls", "IssuerBindsLookBack", "IssuerBindsLookBack_certificate", "IssuerBindsLookBack_selected", "PriorityIsMax_argmax_on_multiple_of_256", "PriorityIsMax_argmax_searched",
         "skipped", "scan_steps", "max_bits"}

Live(e) == "skip" \notin DOMAIN e /\ "panic" \notin DOMAIN e
HasQ(e) == "q" \in DOMAIN e
InRange(q) == q.j >= 0 /\ q.j <= q.w
Domain(q) == q.w >= 1 /\ q.a >= 1 /\ q.a <= q.b
\* lines whose judgement needs Cdf(j-1), Cdf(j)
NeedsTail(e) == /\ Live(e) /\ HasQ(e) /\ Domain(e.q) /\ InRange(e.q)
                /\ (e.ev = "choose" \/ (e.ev = "verify" /\ e.expect = "recompute"))

H(e) == BigOfHex(e.q.h)
Bump(ks) == [k \in Keys |-> fired[k] + (IF k \in ks THEN 1 ELSE 0)]
Bump2(ks, steps, bits) == [k \in Keys |-> IF k = "scan_steps" THEN fired[k] + steps
                                          ELSE IF k = "max_bits" THEN (IF bits > fired[k] THEN bits ELSE fired[k])
                                          ELSE fired[k] + (IF k \in ks THEN 1 ELSE 0)]

Selects(e) == e.fn = "priority" \/ e.q.j > 0       \* VrfVerifySortition refuses j = 0; a priority may have no seat beyond seat 0

\* judgement of a line that needed the tails: inb / str / exa are InBand / Strict / IsExact of the claimed or returned j
JudgeTail(e, inb, str, exa, upperFail) ==
   LET q == e.q
       reg == IF q.a = q.b THEN "p_is_1" ELSE Regime(H(e), q.w, q.a, q.b) IN
   IF e.ev = "choose"
   THEN [v |-> IF inb THEN {} ELSE { <<"QuantileExact", {reg, IF upperFail THEN "j_too_small" ELSE "j_too_large"}>> },
         f |-> {"QuantileExact", "QuantileExact_" \o reg, "JWithinStake"} \cup (IF e.src = "alias" THEN {"Alias_calls"} ELSE {})
               \cup (IF e.tag \in {"win_mid", "win_q1", "win_q3", "win_low", "win_below_switch", "win_above_switch", "win_at_switch"} THEN {"QuantileExact_window"} ELSE {}),
         x |-> inb /\ ~exa /\ e.tag \notin {"boundary", "switch", "win_at_switch"}]
   ELSE \* verify, expect = "recompute"
        [v |-> IF e.accept
               THEN (IF inb /\ Selects(e) THEN {} ELSE { <<"VerifierRecomputes", {e.fn, e.pert, "accepted"}>> })
               ELSE (IF str /\ Selects(e) THEN { <<"VerifierRecomputes", {e.fn, e.pert, "rejected"}>> } ELSE {}),
         f |-> {"VerifierRecomputes", IF e.accept THEN "VerifierRecomputes_recompute_accepted" ELSE "VerifierRecomputes_recompute_rejected"}
               \cup (IF e.pert \in {"alias_now", "alias_prev"} THEN {"Alias_calls"} ELSE {}),
         x |-> FALSE]

IsMax(e) ==
   LET p == BigOfHex(e.prio) ss == [n \in DOMAIN e.seats |-> BigOfHex(e.seats[n])] IN
   /\ Len(e.seats) = e.j + 1
   /\ \E n \in DOMAIN ss : ss[n] = p
   /\ \A n \in DOMAIN ss : BigLeq(ss[n], p)
   /\ e.prio2 = e.prio

DiffField(c, t) == IF c.k # t.k THEN "key" ELSE IF c.ix # t.ix THEN "index" ELSE IF c.st # t.st THEN "step"
                   ELSE "seed_" \o (IF c.sv = "A" THEN t.sv ELSE IF t.sv = "A" THEN c.sv ELSE "variants")

\* judgement of a line that does not need the tails
JudgePlain(e) ==
   IF "skip" \in DOMAIN e THEN [v |-> {}, f |-> {"skipped"}]
   ELSE IF e.ev = "choose"
   THEN (IF "panic" \in DOMAIN e THEN [v |-> { <<"JWithinStake", {e.src, "panic"}>> }, f |-> {"JWithinStake"}]
         ELSE IF ~Domain(e.q) THEN [v |-> {}, f |-> {"skipped"}]
         ELSE [v |-> { <<"JWithinStake", {e.src, IF e.q.j < 0 THEN "negative" ELSE "above_stake"}>> }, f |-> {"JWithinStake"}])   \* ~InRange
   ELSE IF e.ev = "verify"
   THEN (IF "panic" \in DOMAIN e THEN [v |-> { <<"VerifierRecomputes", {e.fn, e.pert, "panic"}>> }, f |-> {"VerifierRecomputes"}]
         ELSE IF e.expect = "issued"
         THEN [v |-> IF e.accept = (e.fn = "priority" \/ e.ji > 0) THEN {} ELSE { <<"VerifierRecomputes", {e.fn, "issued", IF e.accept THEN "accepted" ELSE "rejected"}>> },
               f |-> {"VerifierRecomputes"} \cup (IF e.ji > 0 THEN {"VerifierRecomputes_issued_selected"} ELSE {})]
         ELSE IF e.expect = "reject"
         THEN [v |-> IF e.accept THEN { <<"PerturbationRejected", {e.fn, e.pert} \cup (IF "tail" \in DOMAIN e THEN {"upper_tail"} ELSE {})>> } ELSE {},
               f |-> {"PerturbationRejected"} \cup (IF e.ji > 0 \/ e.fn = "priority" THEN {"PerturbationRejected_selected"} ELSE {})
                     \cup (IF "tail" \in DOMAIN e THEN {"PerturbationRejected_tail"} ELSE {})]
         ELSE \* recompute with a claimed j outside 0..w' (or outside the domain): it cannot be the quantile
              [v |-> IF e.accept /\ Domain(e.q) THEN { <<"VerifierRecomputes", {e.fn, e.pert, "accepted"}>> } ELSE {},
               f |-> {"VerifierRecomputes", IF e.accept THEN "VerifierRecomputes_recompute_accepted" ELSE "VerifierRecomputes_recompute_rejected"}])
   ELSE IF e.ev = "priority"
   THEN [v |-> IF IsMax(e) THEN {} ELSE { <<"PriorityIsMax", {"computePriority"}>> },
         f |-> {"PriorityIsMax"} \cup (IF e.j >= 1 THEN {"PriorityIsMax_several_seats"} ELSE {})
                                 \cup (IF e.j >= 256 THEN {"PriorityIsMax_two_byte_seats"} ELSE {})]
   ELSE IF e.ev = "issuer"
   THEN (IF "panic" \in DOMAIN e \/ "noview" \in DOMAIN e THEN [v |-> { <<"IssuerBindsLookBack", {e.role, "no_credential"}>> }, f |-> {"IssuerBindsLookBack"}]
         ELSE [v |-> (IF e.own = (e.role = "proposal" \/ e.j > 0) THEN {} ELSE { <<"IssuerBindsLookBack", {e.role, "own_look_back", IF e.own THEN "accepted" ELSE "rejected"}>> })
                     \cup (IF e.other THEN { <<"IssuerBindsLookBack", {e.role, "other_look_back_seed_accepted"}>> } ELSE {}),
               f |-> {"IssuerBindsLookBack"} \cup (IF e.role = "certificate" THEN {"IssuerBindsLookBack_certificate"} ELSE {})
                     \cup (IF e.j > 0 THEN {"IssuerBindsLookBack_selected"} ELSE {})])
   ELSE IF e.ev = "argmax"      \* bookkeeping of the argmax stage (the verdict is the PriorityIsMax line before it)
   THEN [v |-> {}, f |-> {"PriorityIsMax_argmax_searched"} \cup (IF e.argmax > 0 /\ e.argmax % 256 = 0 THEN {"PriorityIsMax_argmax_on_multiple_of_256"} ELSE {})]
   ELSE IF e.ev = "vrf_unique"
   THEN LET T == { e.tries[n] : n \in DOMAIN e.tries }
            mal == { t \in T : t.mal \notin {"evaluate", "transcribed_honest"} } IN
        [v |-> { <<"OutputUniquePerKeyMessage", {t.mal}>> : t \in { x \in T : x.accept /\ x.out # e.eval } }
               \cup { <<"VerifierRecomputes", {"vrf", "evaluate", "rejected"}>> : t \in { x \in T : x.mal = "evaluate" /\ ~x.accept } },
         f |-> {"OutputUniquePerKeyMessage"} \cup (IF mal # {} THEN {"OutputUnique_malleations_presented"} ELSE {})
               \cup (IF \E t \in mal : t.accept THEN {"OutputUnique_malleations_accepted"} ELSE {})
               \cup (IF \E t \in T : t.mal = "transcribed_honest" /\ ~t.accept THEN {"unique_transcription_rejected"} ELSE {})]
   ELSE IF e.ev = "seq_issue"
   \* "its proofs bind all inputs": the VRF output depends on all of key, seed, index, step (two different tuples never get the same
   \* output -- otherwise the credential of one is a credential of the other), and it is a function of them
   THEN [v |-> { <<"PerturbationRejected", {"issue", "same_output", DiffField(p[1], e.tup)}>> : p \in { x \in iss : x[1] # e.tup /\ x[2] = e.h } }
               \cup { <<"VerifierRecomputes", {"issue", "output_changed"}>> : p \in { x \in iss : x[1] = e.tup /\ x[2] # e.h } },
         f |-> {"SeqIssue"}]
   ELSE IF e.ev = "seq_verify"
   \* "accepts a credential only for the exact key, seed, round index, step ... it was issued for" -- whatever was evaluated before
   THEN (IF "panic" \in DOMAIN e THEN [v |-> { <<"VerifierRecomputes", {"sequence", "panic"}>> }, f |-> {}]
         ELSE IF e.c = e.as
         THEN [v |-> IF e.accept = (e.ji > 0) THEN {} ELSE { <<"VerifierRecomputes", {"sortition", "issued", "sequence", IF e.accept THEN "accepted" ELSE "rejected"}>> },
               f |-> {"SeqVerify_as_issued"}]
         ELSE [v |-> IF e.accept THEN { <<"PerturbationRejected", {"sortition", "sequence", DiffField(e.c, e.as)}>> } ELSE {},
               f |-> {"SeqVerify_perturbed"}])
   ELSE [v |-> {}, f |-> {}]

Init == /\ l = 1 /\ pc = "next" /\ i = 0 /\ term = Zero /\ cum = Zero /\ prev = Zero /\ den = Zero
        /\ viol = {} /\ fired = [k \in Keys |-> 0] /\ inexact = {} /\ iss = {}

Finish(r, steps, bits) ==
   /\ viol' = viol \cup { <<x[1], x[2], l>> : x \in r.v }
   /\ fired' = Bump2(r.f, steps, bits)
   /\ l' = l + 1 /\ pc' = "next" /\ i' = 0 /\ term' = Zero /\ cum' = Zero /\ prev' = Zero /\ den' = Zero
   /\ iss' = LET e == TraceLog[l] IN
             IF e.ev \in {"reset", "abort"} THEN {} ELSE IF e.ev = "seq_issue" THEN iss \cup {<<e.tup, e.h>>} ELSE iss

Tails(e, D, pv, cm) ==
   LET h == H(e) j == e.q.j
       inb == InBand(h, D, pv, cm, j)
       m == BigMin(h, BigSub(HMax, h))
       upperFail == ~BigLeq(BigMul(BigSub(BigMul(h, Mil), m), D), BigMul(BigMul(cm, Mil), HMax)) IN
   JudgeTail(e, inb, Strict(h, D, pv, cm, j), IsExact(h, D, pv, cm, j), upperFail)

Step ==
   \/ /\ pc = "next" /\ l <= Len(TraceLog)
      /\ LET e == TraceLog[l] IN
         IF e.ev \in {"choose", "verify", "priority"} /\ NeedsTail(e)
         THEN IF e.q.a = e.q.b
              THEN \* p = 1: all of the mass is on j = w
                   LET D == Den(e.q.w, e.q.b)
                       r == Tails(e, D, Zero, IF e.q.j = e.q.w THEN D ELSE Zero) IN
                   /\ Finish(r, 0, 0)
                   /\ inexact' = IF r.x THEN inexact \cup {l} ELSE inexact
              ELSE /\ pc' = "scan" /\ i' = 0 /\ den' = Den(e.q.w, e.q.b)
                   /\ term' = Term0(e.q.w, e.q.a, e.q.b) /\ cum' = Term0(e.q.w, e.q.a, e.q.b) /\ prev' = Zero
                   /\ UNCHANGED <<l, viol, fired, inexact, iss>>
         ELSE /\ Finish(IF e.ev \in {"choose", "verify", "priority", "seq_issue", "seq_verify", "vrf_unique", "argmax", "issuer"} THEN JudgePlain(e) ELSE [v |-> {}, f |-> {}], 0, 0)
              /\ UNCHANGED inexact
   \/ /\ pc = "scan"
      /\ LET e == TraceLog[l] q == e.q IN
         IF i = q.j
         THEN LET r == Tails(e, den, prev, cum) IN
              /\ Finish(r, q.j, BigBits(den))
              /\ inexact' = IF r.x THEN inexact \cup {l} ELSE inexact
         ELSE LET nt == NextTerm(term, i, q.w, q.a, q.b)[1] IN
              /\ i' = i + 1 /\ term' = nt /\ prev' = cum /\ cum' = BigAdd(cum, nt)
              /\ UNCHANGED <<l, pc, den, viol, fired, inexact, iss>>

Spec == Init /\ [][Step]_vars

Done == (l = Len(TraceLog) + 1) =>
          PrintT("@@J " \o ToJson([kind |-> "RESULT", events |-> Len(TraceLog), viol |-> viol, fired |-> fired,
                                   inexact |-> Cardinality(inexact), inexact_lines |-> { x \in inexact : Cardinality({ y \in inexact : y < x }) < 5 }]))
=============================================================================
