import java.math.BigInteger;

import tlc2.value.impl.BoolValue;
import tlc2.value.impl.IntValue;
import tlc2.value.impl.StringValue;
import tlc2.value.impl.TupleValue;
import tlc2.value.impl.Value;

/**
 * TLC module override for spec/BigWord.tla: unbounded integers as canonical decimal strings,
 * evaluated with java.math.BigInteger.  Only integer arithmetic lives here; every EVM rule
 * (wrap-around, two's complement, division by zero, shift saturation, ...) is TLA+ (EvmWord.tla).
 */
public class BigWord {
  private static BigInteger bi(Value v) {
    return new BigInteger(((StringValue) v).val.toString(), 10);
  }

  private static Value sv(BigInteger b) {
    return new StringValue(b.toString(10));
  }

  public static Value BigAdd(Value a, Value b) {
    return sv(bi(a).add(bi(b)));
  }

  public static Value BigSub(Value a, Value b) {
    return sv(bi(a).subtract(bi(b)));
  }

  public static Value BigMul(Value a, Value b) {
    return sv(bi(a).multiply(bi(b)));
  }

  /** Euclidean quotient and remainder; defined only for a >= 0 and b > 0 (signs are handled in TLA+). */
  public static Value BigDivMod(Value a, Value b) {
    BigInteger x = bi(a), y = bi(b);
    if (x.signum() < 0 || y.signum() <= 0) {
      throw new IllegalArgumentException("BigDivMod is defined for a >= 0, b > 0 only: " + x + " / " + y);
    }
    BigInteger[] qr = x.divideAndRemainder(y);
    return new TupleValue(sv(qr[0]), sv(qr[1]));
  }

  public static Value BigLeq(Value a, Value b) {
    return bi(a).compareTo(bi(b)) <= 0 ? BoolValue.ValTrue : BoolValue.ValFalse;
  }

  public static Value BigPow2(Value n) {
    int k = ((IntValue) n).val;
    if (k < 0) {
      throw new IllegalArgumentException("BigPow2 of a negative exponent");
    }
    return sv(BigInteger.ONE.shiftLeft(k));
  }

  public static Value BigOfInt(Value n) {
    return new StringValue(Integer.toString(((IntValue) n).val, 10));
  }

  /** Back to a TLC integer; the caller guarantees the magnitude (checked). */
  public static Value BigToInt(Value s) {
    return IntValue.gen(bi(s).intValueExact());
  }
}
