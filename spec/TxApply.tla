------------------------------ MODULE TxApply ------------------------------
(***************************************************************************)
(* C17 -- applying a transaction to the state inside a block.              *)
(*                                                                         *)
(* Design layer (implementation shaped): one action Apply per call of      *)
(* core.StateProcessor.ApplyTransaction, following the code step by step:  *)
(*   message_context.go preCheck   (nonce comparison, then buyGas: balance *)
(*                                  against limit*price, then GasPool.SubGas)*)
(*   state_processor.go ApplyMessageEntry (intrinsic gas AFTER gas was     *)
(*                                  bought, converter dispatch, refundGas) *)
(*   state_transition.go TransitionDb / staking tx_converter.go            *)
(*                                  (nonce+1, value transfer, failed-but-  *)
(*                                  included semantics)                    *)
(*   message_context.go refundGas  (refund counter capped at half of the   *)
(*                                  used gas, returned to sender AND pool  *)
(*                                  after `gasUsed` was taken)             *)
(* in the two ways production calls it: `process` (StateProcessor.Process: *)
(* an error ends the block) and `miner` (worker.commitTransaction:         *)
(* Snapshot before, RevertToSnapshot on error, the gas pool is NOT part of *)
(* the snapshot).  Deliberate deviations of the code from the ideal are    *)
(* modelled as coded and named: IntrinsicAfterBuy, PoolLeakOnError,        *)
(* GasUsedBeforeRefund.                                                    *)
(*                                                                         *)
(* A transaction is a record of CLASSES (cls); Conc turns it into concrete *)
(* numbers relative to the current state.  The driver concretises the same *)
(* classes against the REAL state; the trace spec re-executes Apply with   *)
(* the logged concrete numbers.                                            *)
(*                                                                         *)
(* Property layer: invariants over `last` (what the last step was given    *)
(* and what it observed before) and the current state, written from the    *)
(* statement only.                                                         *)
(***************************************************************************)
EXTENDS Integers, Sequences, FiniteSets, TLC, Json

CONSTANTS MaxTx,      \* behaviour length
          Alphabet,   \* "full" (every class combination) | "seq" (reduced alphabet for sequences) | "sig" (signature part)
          Pool0,      \* initial block gas pool
          GasMode,    \* "all" (M: every representative gas outcome) | "one" (G: one outcome per class, no duplicates)
          Modes,      \* subset of {"process", "miner"}
          Prices,     \* e.g. {1, 2, 3}
          KnownRefund,\* TRUE: search past the known findings (refund accounting; legacy gas of failed staking transactions before YouV4)
          Versions,   \* protocol versions to run under, subset of 1..5
          RlpKeepsCaches, \* TRUE: the code has the deviation DecodeRLPKeepsCaches (see the signature part); set by the check from
                      \* the replay of the stored witness, so that a repair or a revert of the repair needs no edit here
          AllFull,    \* TRUE: every class combination under every version; FALSE: under versions < 5 only ClsOK
          GenMode     \* "none" | "leaf"

VARIABLES nonce, bal,    \* per sender
          pool,          \* block gas pool
          gu, gr,        \* header.GasUsed, header.GasRewards
          mode,          \* how this block calls ApplyTransaction
          dead,          \* process mode: an error ended the block
          last,          \* property layer: the last step (tx, outcome, observables before)
          hist,
          ver,           \* protocol version (YouV1..YouV5) of the block
          sig            \* signature part: the transaction object under resolution (its sender cache, the answers so far)

vars == <<nonce, bal, pool, gu, gr, mode, dead, last, hist, ver, sig>>

Senders == {1, 2}
Bal0 == <<5000000, 60000>>     \* a1 rich, a2 poor
Nonce0 == <<5, 5>>
Ample == 100000
RefundSStoreClear == 15000

\* ---------------------------------------------------------------- classes
ToPay == { <<"acct", "none">>, <<"acct", "data">>, <<"contract", "set">>, <<"contract", "clear">>, <<"contract", "revert">>,
           <<"contract", "burn">>, <<"create", "ok">>, <<"create", "fail">>, <<"staking", "delegate">>, <<"staking", "deposit">>,
           <<"staking", "garbage">>, <<"staking", "unauth">> }
NonceCls == {"low", "eq", "high"}
LimitCls == {"below", "exact", "ample", "huge", "allfunds", "over1funds"}
ValueCls == {"zero", "some", "edge", "over1"}

FullCls == [s : Senders, nc : NonceCls, lim : LimitCls, val : ValueCls, tp : ToPay, price : Prices]

C(s, nc, lim, val, to, pay, price) == [s |-> s, nc |-> nc, lim |-> lim, val |-> val, tp |-> <<to, pay>>, price |-> price]
\* reduced alphabet for sequences: the shapes that interact through nonce, balance, pool and storage
SeqCls == { C(1, "eq", "ample", "some", "acct", "none", 2),
            C(1, "eq", "ample", "zero", "contract", "set", 1),
            C(1, "eq", "ample", "zero", "contract", "clear", 3),
            C(1, "eq", "ample", "some", "contract", "burn", 1),
            C(1, "eq", "ample", "zero", "contract", "revert", 2),
            C(1, "eq", "ample", "zero", "create", "ok", 1),
            C(1, "eq", "exact", "zero", "staking", "delegate", 1),
            C(1, "eq", "ample", "zero", "staking", "garbage", 2),
            C(1, "eq", "ample", "zero", "staking", "unauth", 1),
            C(1, "replay", "ample", "some", "acct", "none", 2),
            C(1, "high", "ample", "zero", "acct", "none", 1),
            C(2, "eq", "exact", "some", "acct", "none", 1),
            C(2, "eq", "ample", "zero", "acct", "none", 1),
            C(1, "eq", "below", "zero", "acct", "data", 1),
            C(1, "eq", "exact", "over1", "acct", "none", 1) }

Cls == IF Alphabet = "full" THEN FullCls ELSE IF Alphabet \in {"sig", "obj"} THEN {} ELSE SeqCls
\* under the older protocol versions the quick configuration keeps the classes with the next nonce that go to the staking
\* module (every limit / value / payload / price / sender), and a thin slice of the others
ClsOK(c) == \/ Alphabet # "full" \/ ver = 5 \/ AllFull
            \/ c.nc = "eq" /\ (c.tp[1] = "staking" \/ (c.lim = "ample" /\ c.val = "zero"))

\* ---------------------------------------------------------------- concretisation (the driver uses the same table)
\* data sizes of the model's payloads (non-zero, zero bytes); the real payload sizes are logged by the driver
DataNZ(tp) == CASE tp = <<"acct", "data">> -> 2 [] tp = <<"contract", "clear">> -> 1 [] tp[1] = "create" -> 5
                [] tp[1] = "staking" -> 30 [] OTHER -> 0
DataZ(tp)  == CASE tp = <<"acct", "data">> -> 2 [] tp[1] = "staking" -> 4 [] OTHER -> 0
BaseGas(to) == CASE to = "create" -> 53000 [] to = "staking" -> 100000 [] OTHER -> 21000
Intrinsic(to, nz, z) == BaseGas(to) + 16 * nz + 4 * z

\* value the transaction names: msg.Value for EVM transactions, the payload's value for staking transactions
StakeValue(pay) == CASE pay = "delegate" -> 10 [] pay \in {"deposit", "unauth"} -> 20 [] OTHER -> 0

Conc(c) ==
   LET s == c.s
       to == c.tp[1]
       I == Intrinsic(to, DataNZ(c.tp), DataZ(c.tp))
       L == CASE c.lim = "below" -> I - 1
              [] c.lim = "exact" -> I
              [] c.lim = "ample" -> I + Ample
              [] c.lim = "huge"  -> pool + 1
              [] c.lim = "allfunds" -> bal[s] \div c.price
              [] c.lim = "over1funds" -> (bal[s] \div c.price) + 1
       afford == bal[s] - L * c.price
       v == CASE c.val = "zero" -> 0
              [] c.val = "some" -> 7
              [] c.val = "edge" -> IF afford > 0 THEN afford ELSE 0
              [] c.val = "over1" -> IF afford >= 0 THEN afford + 1 ELSE 1
       n == CASE c.nc = "low" -> nonce[s] - 1 [] c.nc = "replay" -> nonce[s] - 1 [] c.nc = "eq" -> nonce[s] [] c.nc = "high" -> nonce[s] + 1
   IN [s |-> s, nonce |-> n, price |-> c.price, limit |-> L, value |-> v, to |-> to, pay |-> c.tp[2], intr |-> I,
       mv |-> IF to = "staking" THEN StakeValue(c.tp[2]) ELSE v]

\* ---------------------------------------------------------------- signature part
\* A signature binds (key, the six fields, network id).  Recover yields the key only for exactly what was signed, with
\* the canonical (low-s) encoding; anything else yields another address ("other") or an error.
Fields == {"nonce", "price", "limit", "to", "value", "data"}
Mutations == {"none", "nonce", "price", "limit", "to", "value", "data", "data_trunc", "netid_v", "netid_signer", "netid_replay",
              "highs", "highs_flipv", "flipv", "unprotected", "r"}
Touches(m) == CASE m \in Fields -> {m} [] m = "data_trunc" -> {"data"} [] m \in {"netid_v", "netid_signer", "unprotected"} -> {"net"}
                [] m = "netid_replay" -> {"net", "hash"} [] m \in {"highs", "highs_flipv"} -> {"s"} [] m = "flipv" -> {"v"} [] m = "r" -> {"r"} [] OTHER -> {}
Recover(m) == IF Touches(m) = {} THEN "same" ELSE IF Touches(m) \subseteq {"net", "s"} THEN "err" ELSE "other"
SenderAuthenticModel == \A m \in Mutations : (m = "none") <=> (Recover(m) = "same")
ASSUME SenderAuthenticModel
SigCls == { C(1, "eq", "ample", v, tp[1], tp[2], p) : v \in {"zero", "some"}, tp \in ToPay, p \in Prices }

\* The V of a signature (YouSigner.Sender, transaction_signing.go:117, as coded): V = 27/28 is not replay protected; the
\* network id derived from V, (V - 35) div 2, must be the signer's; what is left, V - 2*net - 8, is 27 or 28 and selects the
\* recovery id.  Of all V values only the one the signature was made with yields the key holder; the other parity recovers
\* another key.  RecoverV(net, v, orig) is the answer for V = v when the signature was made with V = orig.
NetIds == {1, 2, 99}
VRange(n) == 0..(2 * n + 40)
RecoverV(n, v, orig) == IF v \in {27, 28} THEN "err"                             \* ErrNotProtected
                        ELSE IF v < 35 \/ (v - 35) \div 2 # n THEN "err"        \* ErrInvalidNetworkId
                        ELSE IF v = orig THEN "same" ELSE "other"
OnlyOriginalV == \A n \in NetIds, par \in {0, 1} : \A v \in VRange(n) : (RecoverV(n, v, 35 + 2 * n + par) = "same") <=> (v = 35 + 2 * n + par)
ASSUME OnlyOriginalV

\* The sender CACHE inside the transaction object (types.Sender, transaction_signing.go:65): one decoded transaction
\* object is resolved several times, under the signer of this network ("home") and under a signer for another network
\* id ("foreign").  As coded: a cached (signer, address) pair answers when the cached signer Equals the asking one;
\* otherwise the signer derives the sender and a successful derivation is stored.  `sig` is the object under resolution.
Signers == {"home", "foreign"}
SeqMutations == Mutations \ {"netid_signer"}            \* (that one IS "ask the foreign signer")
\* what deriving the sender from scratch yields.  Foreign signer: the V of every case names the home network
\* (ErrInvalidNetworkId / ErrNotProtected), except netid_v, whose V names the foreign network while the signed hash does not
RecoverUnder(m, sg) == IF sg = "home" THEN Recover(m) ELSE IF m = "netid_v" THEN "other" ELSE "err"
\* The object also caches its HASH (Transaction.Hash), and it can be RE-USED: another transaction ("B": a plain transfer signed by
\* the second key) is decoded into the same value after the caches were filled.  As coded: UnmarshalJSON replaces the whole
\* object (`*tx = Transaction{data: dec}`: caches gone); DecodeRLP -- reached through rlp.DecodeBytes(b, &obj) ("rlp") or called
\* on a stream ("rlpstream") -- does the same since /repo 3cbc2eb; before that it replaced tx.data only and KEPT the cached hash
\* and sender (named deviation DecodeRLPKeepsCaches, modelled when the constant RlpKeepsCaches is TRUE).  A decode that FAILS
\* ("badjson", "badrlp": a damaged encoding of B) returns an error and leaves the value as it was.  content: whose fields the object holds now ("A": the case,
\* "B"); via: how they got there; hashc: the cached hash ("none" / "A" / "B").
Decoders == {"json", "rlp", "rlpstream"}
BadDecoders == {"badjson", "badrlp"}
Ops == Signers \cup {"hash", "apply"} \cup Decoders \cup BadDecoders
SigOff == [on |-> FALSE, cls |-> C(1, "eq", "ample", "zero", "acct", "none", 1), mut |-> "none", cache |-> <<>>, res |-> <<>>,
           content |-> "A", via |-> "new", hashc |-> "none"]
NewObject(c, m) == [SigOff EXCEPT !.on = TRUE, !.cls = c, !.mut = m]                         \* decoded from RLP into a fresh value: no cache
\* what a fresh object with this content answers
FreshAns(m, content, op) ==
   CASE op = "hash" -> content
     [] op \in {"home", "apply"} -> IF content = "A" THEN RecoverUnder(m, "home") ELSE "B"    \* apply: who is charged (AsMessage -> Sender)
     [] op = "foreign" -> IF content = "A" THEN RecoverUnder(m, "foreign") ELSE "err"
     [] op \in BadDecoders -> "err"
     [] OTHER -> "ok"
ResolveAs(s, sg, op) ==
   LET hit == s.cache # <<>> /\ s.cache[1].signer = sg                                   \* sigCache.signer.Equal(signer)
       ans == IF hit THEN s.cache[1].from ELSE FreshAns(s.mut, s.content, sg)
   IN [s EXCEPT !.res = Append(@, [signer |-> op, ans |-> ans, content |-> s.content, via |-> s.via]),
                !.cache = IF ~hit /\ ans # "err" THEN <<[signer |-> sg, from |-> ans]>> ELSE @,
                \* the sender is asked for through AsMessage as well, which takes tx.Hash() first: the hash cache is filled
                !.hashc = IF @ = "none" THEN s.content ELSE @]
ResolveOn(s, sg) == ResolveAs(s, sg, sg)
HashOn(s) == LET ans == IF s.hashc # "none" THEN s.hashc ELSE s.content IN
             [s EXCEPT !.res = Append(@, [signer |-> "hash", ans |-> ans, content |-> s.content, via |-> s.via]), !.hashc = ans]
DecodeInto(s, dec) ==
   LET t == [s EXCEPT !.content = "B", !.via = dec, !.res = Append(@, [signer |-> dec, ans |-> "ok", content |-> "B", via |-> dec])] IN
   IF dec = "json" \/ ~RlpKeepsCaches THEN [t EXCEPT !.cache = <<>>, !.hashc = "none"] ELSE t     \* ELSE: DecodeRLPKeepsCaches
\* a failed decode: error, the value (fields and caches) unchanged
DecodeBad(s, dec) == [s EXCEPT !.res = Append(@, [signer |-> dec, ans |-> "err", content |-> s.content, via |-> s.via])]
OpOn(s, op) == CASE op \in Signers -> ResolveOn(s, op)
                 [] op = "apply" -> ResolveAs(s, "home", "apply")
                 [] op = "hash" -> HashOn(s)
                 [] op \in BadDecoders -> DecodeBad(s, op)
                 [] OTHER -> DecodeInto(s, op)
SigCases == IF Alphabet = "sig" THEN { c \in SigCls : c.price = 1 } ELSE {}
ObjCases == IF Alphabet = "obj" THEN { c \in SigCls : c.price = 1 /\ c.val = "zero" /\ c.tp \in { <<"acct", "none">>, <<"create", "ok">>,
                                                                                                <<"staking", "delegate">>, <<"contract", "clear">> } }
            ELSE {}
SigNext == /\ \/ ~sig.on /\ \E c \in SigCases, m \in SeqMutations : sig' = NewObject(c, m)
              \/ ~sig.on /\ \E c \in ObjCases : sig' = NewObject(c, "none")
              \/ sig.on /\ Alphabet = "sig" /\ Len(sig.res) < MaxTx /\ \E sg \in Signers : sig' = ResolveOn(sig, sg)
              \/ sig.on /\ Alphabet = "obj" /\ Len(sig.res) < MaxTx
                        /\ \E op \in Ops : (op \in Decoders => sig.content = "A") /\ sig' = OpOn(sig, op)
           /\ UNCHANGED <<nonce, bal, pool, gu, gr, mode, dead, last, hist, ver>>
\* property layer: "A transaction's sender is the holder of the key that signed exactly its fields for this network" --
\* whatever was asked of the same object before and however its present fields got into it: every answer (sender, hash, who
\* is charged when it is applied) is the answer a fresh object with these fields gives
CacheTransparent ==
   \A i \in DOMAIN sig.res : \/ sig.res[i].ans = FreshAns(sig.mut, sig.res[i].content, sig.res[i].signer)
                              \/ (RlpKeepsCaches /\ sig.res[i].via \in {"rlp", "rlpstream"})  \* the deviation, when the code has it, is
                                                                                               \* reported from the real code by the monitor
SenderAuthenticSeq ==
   \A i \in DOMAIN sig.res : sig.res[i].content = "A" /\ sig.res[i].signer \in Signers =>
                                 ((sig.res[i].ans = "same") <=> (sig.res[i].signer = "home" /\ sig.mut = "none"))

\* ---------------------------------------------------------------- design layer
Init == /\ nonce = Nonce0 /\ bal = Bal0 /\ pool = Pool0 /\ gu = 0 /\ gr = 0
        /\ mode \in Modes /\ dead = FALSE
        /\ last = [kind |-> "none"] /\ hist = <<>> /\ sig = SigOff /\ ver \in Versions

Pre == [nonce |-> nonce, bal |-> bal, pool |-> pool, gu |-> gu, gr |-> gr]

\* representative gas outcomes of an execution with limit L and intrinsic I
GasChoices(t) ==
   LET I == t.intr  L == t.limit  mid == (I + L) \div 2 IN
   CASE t.to = "acct" -> {[g |-> I, failed |-> FALSE]}
     [] t.pay \in {"burn", "fail", "garbage", "unauth"} -> {[g |-> L, failed |-> TRUE]}
     [] t.to = "staking" -> {[g |-> I, failed |-> FALSE], [g |-> L, failed |-> TRUE]}
     [] OTHER -> IF GasMode = "one" THEN {[g |-> mid, failed |-> FALSE]}
                 ELSE {[g |-> I, failed |-> FALSE], [g |-> mid, failed |-> FALSE], [g |-> L, failed |-> FALSE],
                       [g |-> mid, failed |-> TRUE], [g |-> L, failed |-> TRUE]}

RefundChoices(t, o) ==
   IF t.pay = "clear" /\ ~o.failed
   THEN LET cap == o.g \div 2  r == IF cap < RefundSStoreClear THEN cap ELSE RefundSStoreClear IN
        IF GasMode = "one" THEN {r} ELSE {0, r}
   ELSE {0}

\* outcome "refused": nothing was touched (preCheck returned before any write)
Refuse(t, c, reason) ==
   /\ last' = [kind |-> "refused", reason |-> reason, tx |-> t, pre |-> Pre]
   /\ dead' = (mode = "process")
   /\ UNCHANGED <<nonce, bal, pool, gu, gr>>

\* outcome "error" after gas was bought.  miner: RevertToSnapshot restores the accounts, but the gas pool is not part of
\* the snapshot (PoolLeakOnError).  process: Process returns the error, the block is invalid; the state is left dirty
\* as coded (gas bought, for a call the nonce already raised) and dropped with the block.
Error(t, c, reason, leak, bump) ==
   /\ last' = [kind |-> "error", reason |-> reason, tx |-> t, pre |-> Pre]
   /\ dead' = (mode = "process")
   /\ pool' = pool - leak
   /\ IF mode = "miner" THEN UNCHANGED <<nonce, bal>>
      ELSE /\ bal' = [bal EXCEPT ![t.s] = @ - leak * t.price]
           /\ nonce' = [nonce EXCEPT ![t.s] = @ + bump]
   /\ UNCHANGED <<gu, gr>>

\* LegacyFailedStakingGas (staking/tx_converter.go:85,100): a failed staking action REPORTS the whole limit as gas used under
\* every version, but only from YouV4 on is the available gas really consumed (`Version >= YouV4 => UseGas(AvailableGas)`);
\* under YouV1..YouV3 the sender and the pool are charged the intrinsic gas only ("YouV4 fixes a bug on gas used for a failed
\* staking-transaction", params/all_versions.go) -- kept as it is because the old blocks were made with it
LegacyFailed(t, o) == t.to = "staking" /\ o.failed /\ ver < 4
Applied(t, c, o) ==
   LET moved == IF o.failed THEN 0 ELSE t.mv
       consumed == IF LegacyFailed(t, o) THEN t.intr ELSE o.g IN
   /\ last' = [kind |-> "applied", tx |-> t, g |-> o.g, failed |-> o.failed, r |-> o.r, moved |-> moved, pre |-> Pre,
               legacy |-> LegacyFailed(t, o) /\ t.limit > t.intr]
   /\ nonce' = [nonce EXCEPT ![t.s] = @ + 1]
   \* GasUsedBeforeRefund: the receipt, the header and the rewards are charged o.g, the sender and the pool consumed - o.r
   /\ bal' = [bal EXCEPT ![t.s] = @ - moved - (consumed - o.r) * t.price]
   /\ pool' = pool - (consumed - o.r)
   /\ gu' = gu + o.g
   /\ gr' = gr + o.g * t.price
   /\ UNCHANGED dead

\* what the design layer allows an execution to report (used by the conformance spec on logged outcomes)
OutcomeAllowed(t, o) ==
   /\ t.intr <= o.g /\ o.g <= t.limit
   /\ (t.to = "acct" /\ t.pay # "replayed") => (o.g = t.intr /\ ~o.failed)
   /\ t.pay \in {"burn", "fail", "garbage", "unauth"} => (o.failed /\ o.g = t.limit)
   /\ (t.to = "staking" /\ o.failed) => o.g = t.limit          \* YouV4+: a failed staking action burns the whole limit
   /\ 0 <= o.r /\ o.r <= o.g \div 2                            \* refundGas: capped at half of the used gas
   /\ o.r > 0 => (t.pay = "clear" /\ ~o.failed)

ModelOutcomes(t) == UNION { { [g |-> o.g, failed |-> o.failed, r |-> r] : r \in RefundChoices(t, o) } : o \in GasChoices(t) }

\* Apply with a concrete transaction t (c is the class record it came from, kept for the history only); Outs is the
\* set of execution outcomes to consider (the model's representatives, or the single logged one)
ApplyWith(t, c, Outs) ==
   /\ ~dead /\ Len(hist) < MaxTx
   /\ hist' = Append(hist, c)
   /\ UNCHANGED <<mode, sig, ver>>
   /\ IF t.nonce # nonce[t.s] THEN Refuse(t, c, "nonce")                              \* preCheck: ErrNonceTooHigh / ErrNonceTooLow
      ELSE IF bal[t.s] < t.limit * t.price THEN Refuse(t, c, "funds")                 \* buyGas: errInsufficientBalanceForGas
      ELSE IF pool < t.limit THEN Refuse(t, c, "pool")                                \* GasPool.SubGas: ErrGasLimitReached
      ELSE IF t.limit < t.intr THEN Error(t, c, "intrinsic", t.limit, 0)               \* IntrinsicAfterBuy: UseGas fails, no refundGas
      ELSE IF t.to # "staking" /\ t.value > bal[t.s] - t.limit * t.price
           THEN Error(t, c, "transfer", t.intr, IF t.to = "create" THEN 0 ELSE 1)      \* vm.ErrInsufficientBalance, refundGas ran
      ELSE \E o \in Outs : Applied(t, c, o)

ApplyConc(t, c) == ApplyWith(t, c, ModelOutcomes(t))

Next == \/ \E c \in Cls : ClsOK(c) /\ ApplyConc(Conc(c), c)
        \/ Alphabet \in {"sig", "obj"} /\ SigNext
Spec == Init /\ [][Next]_vars

\* ---------------------------------------------------------------- property layer
\* (each clause quotes the sentence of the statement it restates)
Cex(name) == PrintT("@@J " \o ToJson([kind |-> "CEX", clause |-> name, mode |-> mode, pool |-> Pool0, ver |-> ver, h |-> hist])) /\ FALSE

IsApplied == last.kind = "applied"
UpFront == last.kind # "none" /\ LET t == last.tx p == last.pre IN
             t.nonce # p.nonce[t.s] \/ p.bal[t.s] < t.limit * t.price \/ p.pool < t.limit

\* "a transaction refused up front (wrong nonce, cannot pay for its gas, block gas exhausted) changes nothing"
RefusedChangesNothing ==
   UpFront => \/ (~IsApplied /\ nonce = last.pre.nonce /\ bal = last.pre.bal /\ pool = last.pre.pool /\ gu = last.pre.gu /\ gr = last.pre.gr)
              \/ Cex("RefusedChangesNothing")
\* "An applied transaction requires the account's next nonce and sufficient funds, raises the nonce by one"
NonceExactlyNext ==
   IsApplied => \/ (LET t == last.tx IN t.nonce = last.pre.nonce[t.s] /\ nonce[t.s] = t.nonce + 1
                                      /\ \A o \in Senders \ {t.s} : nonce[o] = last.pre.nonce[o])
                \/ Cex("NonceExactlyNext")
SufficientFunds ==
   IsApplied => \/ (LET t == last.tx IN last.pre.bal[t.s] >= t.limit * t.price + (IF t.to = "staking" THEN 0 ELSE t.value))
                \/ Cex("SufficientFunds")
\* "changes the sender's balance by exactly the value it transfers or stakes plus gas used times price"
ChargedExactly ==
   IsApplied => \/ (LET t == last.tx IN bal[t.s] = last.pre.bal[t.s] - (last.moved + last.g * t.price))
                \/ (KnownRefund /\ (last.r > 0 \/ last.legacy))
                \/ Cex("ChargedExactly")
\* "with gas used between the intrinsic cost and the limit"
GasWithinBounds ==
   IsApplied => \/ (last.tx.intr <= last.g /\ last.g <= last.tx.limit)
                \/ Cex("GasWithinBounds")
\* "every sequence of such applications within a block gas pool": the pool pays exactly the gas used
PoolAccounting ==
   IsApplied => \/ (last.pre.pool >= last.tx.limit /\ pool = last.pre.pool - last.g /\ gu = last.pre.gu + last.g)
                \/ (KnownRefund /\ (last.r > 0 \/ last.legacy))
                \/ Cex("PoolAccounting")
\* the miner's wrapper: a transaction that was not applied leaves the accounts untouched
RevertedUnchanged ==
   (mode = "miner" /\ last.kind \in {"refused", "error"}) => (nonce = last.pre.nonce /\ bal = last.pre.bal) \/ Cex("RevertedUnchanged")

\* ---------------------------------------------------------------- big-number stage
\* The statement quantifies over any price, value and balance (256-bit); TLC's integers are 32-bit.  Here a transaction is a
\* plain transfer whose magnitudes are CLASSES; the driver picks the concrete numbers (they travel as decimal strings, the
\* monitor judges them with exact arithmetic through the BigWord override) and the class decides the outcome symbolically,
\* following preCheck/buyGas/CanTransfer as coded with exact (big.Int) arithmetic:
\*   balance = limit*price - 1                (below_gas)    cannot pay for its gas                      -> refused
\*   balance = limit*price                    (exact_gas)    pays the gas, nothing left for a value      -> applied iff value = 0
\*   balance = limit*price + value - 1        (below_total)  value = 0: as below_gas; else value not affordable -> error after purchase
\*   balance = limit*price + value            (exact_total)                                              -> applied
\*   balance = limit*price + value + 12345    (above)                                                    -> applied
BigPrices == {"p3", "p2e32", "p1e15", "p2e53", "p2e63", "p2e64m1", "p2e64", "p2e70"}
BigLimits == {"g21000", "g2e20", "gblock"}
BigAfford == {"below_gas", "exact_gas", "below_total", "exact_total", "above"}
BigValues == {"zero", "v2e64", "v2e128", "v2e255"}
BigCls == [price : BigPrices, lim : BigLimits, afford : BigAfford, val : BigValues]
BigExpect(c) == CASE c.afford = "below_gas" -> "refused_funds"
                  [] c.afford = "exact_gas" -> IF c.val = "zero" THEN "applied" ELSE "error_transfer"
                  [] c.afford = "below_total" -> IF c.val = "zero" THEN "refused_funds" ELSE "error_transfer"
                  [] OTHER -> "applied"
\* an applied plain transfer: gas used = intrinsic = 21000, nonce + 1, sender pays value + 21000 * price exactly

\* ---------------------------------------------------------------- generation
Leaf == /\ (GenMode = "leaf" /\ (Len(hist) = MaxTx \/ dead) /\ Len(hist) > 0) =>
              PrintT("@@J " \o ToJson([kind |-> "B", h |-> [kind |-> "apply", mode |-> mode, pool |-> Pool0, ver |-> ver, txs |-> hist]]))
        /\ (GenMode = "sig" /\ hist = <<>> /\ mode = "miner") =>
              \A c \in SigCls : PrintT("@@J " \o ToJson([kind |-> "B", h |-> [kind |-> "sig", tx |-> c, muts |-> Mutations]]))
        \* resolution sequences on one object: every sequence of 1..MaxTx signers
        /\ (GenMode = "sigseq" /\ sig.on /\ Len(sig.res) > 0 /\ mode = "miner") =>
              PrintT("@@J " \o ToJson([kind |-> "B", h |-> [kind |-> "sigseq", tx |-> sig.cls, mut |-> sig.mut,
                                                            seq |-> [i \in DOMAIN sig.res |-> sig.res[i].signer]]]))
        \* V sweep: every class, every network id, every V of the range
        /\ (GenMode = "vsweep" /\ hist = <<>> /\ ~sig.on /\ mode = "miner") =>
              \A c \in { x \in SigCls : x.price = 1 /\ x.val = "zero" }, n \in NetIds :
                 PrintT("@@J " \o ToJson([kind |-> "B", h |-> [kind |-> "vsweep", tx |-> c, net |-> n,
                                                               vs |-> [i \in 1..(2 * n + 41) |-> i - 1]]]))
        \* object re-use: every sequence of 1..MaxTx operations on one object
        /\ (GenMode = "objseq" /\ sig.on /\ Len(sig.res) > 0 /\ mode = "miner") =>
              PrintT("@@J " \o ToJson([kind |-> "B", h |-> [kind |-> "objseq", tx |-> sig.cls,
                                                            seq |-> [i \in DOMAIN sig.res |-> sig.res[i].signer]]]))
        /\ (GenMode = "big" /\ hist = <<>> /\ ~sig.on) =>
              \A c \in BigCls : PrintT("@@J " \o ToJson([kind |-> "B", h |-> [kind |-> "applybig", mode |-> mode, ver |-> ver, cls |-> c,
                                                                              expect |-> BigExpect(c)]]))
View == <<nonce, bal, pool, gu, gr, mode, dead, last, ver, sig>>
=============================================================================
