SPECIFICATION MonSpec
CONSTANTS
  Keys = {1}
  Vals = {1}
  MaxOps = 0
  MaxRoots = 0
  MaxRefs = 0
  Alphabet = "full"
  GenMode = "none"
CONSTRAINT Done
CHECK_DEADLOCK FALSE
