------------------------------- MODULE BigNat -------------------------------
EXTENDS Integers
(***************************************************************************)
(* Unbounded natural numbers for C04 (exact binomial tails).  Values are   *)
(* opaque packed strings (see BigNat.java: 'N' + base-2^15 digits); the    *)
(* operators are overridden by BigNat.class (java.math.BigInteger).  The   *)
(* bodies here are placeholders that make a missing override visible       *)
(* (BigNatLoaded fails).  Only integer arithmetic is delegated.            *)
(***************************************************************************)
BigAdd(a, b)    == "override-missing"     \* a + b
BigSub(a, b)    == "override-missing"     \* a - b, error when negative
BigMul(a, b)    == "override-missing"     \* a * b
BigDivMod(a, b) == <<"override-missing", "override-missing">>   \* <<a div b, a mod b>>, b > 0
BigLeq(a, b)    == FALSE                  \* a <= b
BigLt(a, b)     == FALSE                  \* a < b
BigPow(a, n)    == "override-missing"     \* a^n for a TLC integer n >= 0
BigOfInt(n)     == "override-missing"     \* TLC integer >= 0
BigOfHex(s)     == "override-missing"     \* hexadecimal string (no prefix)
BigOfDec(s)     == "override-missing"     \* decimal string
BigToHex(a)     == "override-missing"
BigToDec(a)     == "override-missing"
BigBits(a)      == 0 - 1                  \* bit length

BigNatLoaded ==
   /\ BigToDec(BigAdd(BigOfDec("99999999999999999999"), BigOfInt(1))) = "100000000000000000000"
   /\ BigToDec(BigSub(BigOfInt(7), BigOfInt(5))) = "2"
   /\ BigToDec(BigMul(BigOfDec("4294967296"), BigOfDec("4294967296"))) = "18446744073709551616"
   /\ BigDivMod(BigOfInt(17), BigOfInt(5)) = <<BigOfInt(3), BigOfInt(2)>>
   /\ BigLeq(BigOfInt(0), BigOfInt(0)) /\ ~BigLeq(BigOfInt(10), BigOfInt(9)) /\ BigLt(BigOfInt(9), BigOfInt(10)) /\ ~BigLt(BigOfInt(9), BigOfInt(9))
   /\ BigToDec(BigPow(BigOfInt(2), 70)) = "1180591620717411303424"
   /\ BigOfHex("ff") = BigOfInt(255) /\ BigToHex(BigOfInt(4095)) = "fff"
   /\ BigOfHex(BigToHex(BigPow(BigOfInt(3), 500))) = BigPow(BigOfInt(3), 500)
   /\ BigBits(BigPow(BigOfInt(2), 256)) = 257 /\ BigBits(BigOfInt(0)) = 0
   /\ BigSub(BigPow(BigOfInt(2), 256), BigOfInt(1)) = BigOfHex("ffffffffffffffffffffffffffffffffffffffffffffffffffffffffffffffff")
=============================================================================
