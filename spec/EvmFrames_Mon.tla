--------------------------- MODULE EvmFrames_Mon ---------------------------
(***************************************************************************)
(* C16 property-layer monitor over transactions recorded from the real EVM *)
(* (driver evmframes).  One "Run" line per executed program:               *)
(*   calls  one record per call / create site that executed, in order of   *)
(*          execution: site (token index), op, parent (index of the        *)
(*          enclosing site's record, -1 for the transaction's own call),   *)
(*          static (executed beneath a STATICCALL), ok (what the caller    *)
(*          saw on its stack / the transaction's error), entered, the      *)
(*          world projection before the instruction (pre) and when the     *)
(*          caller continued (post), the caller's gas g0 after paying for  *)
(*          the instruction, g1 when it continued, and the callee's gas at *)
(*          its first instruction (gin) -- gas as decimal strings          *)
(*   sds    executed SELFDESTRUCTs: frame (record of the site whose callee *)
(*          executed it), self, ben, amt (balance destroyed / moved)       *)
(*   fin    the world after StateDB.Finalise(true)                         *)
(*   exp    the world EvmFrames.tla predicts for the program (from G)      *)
(*   panic, err                                                            *)
(*   sweep  (only in re-runs of a gas sweep) which site's gas was replaced *)
(* A world projection: bal, sto (two slots), code, ex, dead per account    *)
(* name, and the log list.                                                 *)
(*                                                                         *)
(* The monitor cannot reject a trace; clause failures are accumulated as   *)
(* <<clause, discriminator set, line>>.                                    *)
(***************************************************************************)
EXTENDS Integers, Sequences, FiniteSets, TLC, Json, BigWord

ASSUME BigWordLoaded

TraceLog == ndJsonDeserialize("trace.ndjson")

VARIABLES l, viol, fired
mvars == <<l, viol, fired>>

Clauses == {"NoPanic", "WorldEqualsModel", "FailedFrameLeavesNoTrace", "StaticChangesNothing", "ValueConserved",
            "GasReturnedLeqSupplied", "ErrorFrameReturnsNoGas"}

MonInit == l = 1 /\ viol = {} /\ fired = [c \in Clauses |-> 0]

Accts(w) == DOMAIN w.bal
RECURSIVE SumOver(_, _)
SumOver(f, S) == IF S = {} THEN 0 ELSE LET a == CHOOSE v \in S : TRUE IN f[a] + SumOver(f, S \ {a})
TotalBal(w) == SumOver(w.bal, Accts(w))

\* the components in which two projections differ ("balances, storage, code, logs and created accounts");
\* a change of existence that only concerns accounts with no balance, code or storage is named "emptyacct"
ExDiff(w1, w2) == { a \in Accts(w1) : w1.ex[a] # w2.ex[a] }
Hollow(w, a)   == w.bal[a] = 0 /\ w.code[a] = "" /\ w.sto[a] = <<0, 0>>
Diff(w1, w2) ==
   {c \in {"bal"}  : w1.bal # w2.bal}   \cup {c \in {"sto"} : w1.sto # w2.sto} \cup
   {c \in {"code"} : w1.code # w2.code} \cup
   {c \in {"ex"}   : \E a \in ExDiff(w1, w2) : ~(Hollow(w1, a) /\ Hollow(w2, a))} \cup
   {c \in {"emptyacct"} : ExDiff(w1, w2) # {} /\ \A a \in ExDiff(w1, w2) : Hollow(w1, a) /\ Hollow(w2, a)} \cup
   {c \in {"dead"} : w1.dead # w2.dead} \cup {c \in {"logs"} : w1.logs # w2.logs}

Kind(c) == IF c.parent = -1 THEN "TX" ELSE c.op

\* a site's effects are part of the final state only if it and every enclosing site succeeded
RECURSIVE Committed(_, _)
Committed(calls, i) == i = -1 \/ (calls[i + 1].ok /\ Committed(calls, calls[i + 1].parent))

\* --- "a call frame that ends in an error or revert leaves balances, storage, code, logs and created accounts
\*      exactly as they were before the frame"
FailedLeaves(e) ==
   { <<"FailedFrameLeavesNoTrace", {Kind(e.calls[i])} \cup Diff(e.calls[i].pre, e.calls[i].post), l>> :
        i \in { n \in DOMAIN e.calls : e.calls[n].closed /\ ~e.calls[n].ok /\ Diff(e.calls[n].pre, e.calls[n].post) # {} } }
NFailed(e) == Cardinality({ n \in DOMAIN e.calls : e.calls[n].closed /\ ~e.calls[n].ok })

\* --- "a static call and everything beneath it changes nothing"
IsStatic(c) == c.op = "STATICCALL" \/ c.static
\* one entry PER differing component, so that a listed finding about one component never hides another one
StaticLeaves(e) ==
   LET S == { n \in DOMAIN e.calls : e.calls[n].closed /\ IsStatic(e.calls[n]) } IN
   { <<"StaticChangesNothing", {c}, l>> : c \in UNION { Diff(e.calls[n].pre, e.calls[n].post) : n \in S } }
NStatic(e) == Cardinality({ n \in DOMAIN e.calls : e.calls[n].closed /\ IsStatic(e.calls[n]) })

\* --- "the total of all balances is unchanged by execution except for self-destructed accounts' burnt value":
\*     value burnt = what an account held when it self-destructed to itself (in frames that were not undone), and what
\*     a self-destructed account still holds when the transaction is finalised
BurntToSelf(e) ==
   LET S == { n \in DOMAIN e.sds : e.sds[n].self = e.sds[n].ben /\ Committed(e.calls, e.sds[n].frame) }
   IN  SumOver([n \in S |-> e.sds[n].amt], S)
HeldByDead(w) == LET S == { a \in Accts(w) : w.dead[a] } IN SumOver(w.bal, S)
ValueBad(e) ==
   LET pre  == e.calls[1].pre
       post == e.calls[1].post
       bad1 == TotalBal(pre) # TotalBal(post) + BurntToSelf(e)
       bad2 == TotalBal(e.fin) # TotalBal(post) - HeldByDead(post)
       neg  == \E a \in Accts(post) : post.bal[a] < 0
   IN  (IF bad1 \/ neg THEN { <<"ValueConserved", {"execution"}, l>> } ELSE {}) \cup
       (IF bad2 THEN { <<"ValueConserved", {"finalise"}, l>> } ELSE {})

\* --- "gas returned never exceeds gas supplied at any depth".  For the CALL family the forwarded gas is already
\*     deducted at g0, so g1 - g0 is what came back and gin (forwarded + stipend) what was supplied; CREATE and CREATE2
\*     deduct the forwarded gas inside the instruction, so what came back minus what was supplied is g1 - g0.
IsCreate(c) == c.op \in {"CREATE", "CREATE2"}
GasBad(c) == IF IsCreate(c) THEN ~BigLeq(c.g1, c.g0)
             ELSE IF c.entered THEN ~BigLeq(BigSub(c.g1, c.g0), c.gin)
             ELSE FALSE
GasJudged(c) == c.closed /\ (IsCreate(c) \/ c.entered)
GasLeaves(e) == { <<"GasReturnedLeqSupplied", {Kind(e.calls[i])}, l>> :
                     i \in { n \in DOMAIN e.calls : GasJudged(e.calls[n]) /\ GasBad(e.calls[n]) } }
NGas(e) == Cardinality({ n \in DOMAIN e.calls : GasJudged(e.calls[n]) })

\* --- "(only gas is consumed)": a frame that ends in an error other than REVERT hands no gas back -- the caller continues
\*     with what it had after paying for the instruction and the forwarded gas.  rev = the callee's last instruction was an
\*     executed REVERT (such a frame keeps its unused gas).  A creation whose init code finished but whose code deposit
\*     could not be paid is an error frame too.
\*     coll = a creation refused because its address is taken (no instruction of the init code runs): what was forwarded
\*     -- everything for CREATE as coded here, all but 1/64 for CREATE2 -- is gone as well.
ErrFrame(c) == c.closed /\ ~c.ok /\ ((c.entered /\ ~c.rev) \/ c.coll)
NoGasBack(c) == IF c.coll THEN c.g1 = (IF c.op = "CREATE2" THEN BigDivMod(c.g0, "64")[1] ELSE "0")
                ELSE IF IsCreate(c) THEN c.g1 = BigSub(c.g0, c.gin) ELSE c.g1 = c.g0
ErrGasLeaves(e) == { <<"ErrorFrameReturnsNoGas", {Kind(e.calls[i])}, l>> :
                        i \in { n \in DOMAIN e.calls : ErrFrame(e.calls[n]) /\ ~NoGasBack(e.calls[n]) } }
NErr(e) == Cardinality({ n \in DOMAIN e.calls : ErrFrame(e.calls[n]) })

\* --- the model predicts the final world and the fate of every site.  A run of a gas sweep ("sweep" field: the gas
\*     forwarded to one frame was replaced by a boundary amount) may legitimately end differently from the ample-gas
\*     prediction; it is compared with the prediction only when every site ended as predicted (then gas played no role
\*     and the world must be the predicted one); otherwise only the clauses above judge it.
IsSweep(e) == "sweep" \in DOMAIN e
Obs(e)  == { <<e.calls[n].site, e.calls[n].ok>> : n \in { k \in DOMAIN e.calls : e.calls[k].closed } }
Pred(e) == { <<e.exp.frames[n].site, e.exp.frames[n].res = "ok">> : n \in DOMAIN e.exp.frames }
Proj(w, f, S) == [a \in S |-> w[f][a]]
WorldDiff(e) ==
   LET S == DOMAIN e.exp.bal
       O == Accts(e.fin) \ S              \* accounts the model does not talk about: untouched
   IN  {c \in {"bal"}  : Proj(e.fin, "bal", S) # e.exp.bal}   \cup {c \in {"sto"} : Proj(e.fin, "sto", S) # e.exp.sto} \cup
       {c \in {"code"} : Proj(e.fin, "code", S) # e.exp.code} \cup {c \in {"ex"}  : Proj(e.fin, "ex", S) # e.exp.ex}   \cup
       {c \in {"logs"} : e.fin.logs # e.exp.logs} \cup {c \in {"frames"} : Obs(e) # Pred(e)} \cup
       \* the recursion of DEEP ("deep": call sites seen inside the recursive helper, deepest executing frame): no frame
       \* runs below depth 1025, and when the model says the limit was reached and recorded, it was reached exactly there
       {c \in {"depth"} : "deep" \in DOMAIN e /\ (e.deep.maxdepth > 1025 \/
                              ("R" \in S /\ e.exp.sto["R"][1] = 1 /\ e.deep.maxdepth # 1025))} \cup
       {c \in {"others"} : \E a \in O : e.fin.bal[a] # e.calls[1].pre.bal[a] \/ e.fin.sto[a] # e.calls[1].pre.sto[a]
                                        \/ e.fin.code[a] # e.calls[1].pre.code[a]}
WorldJudged(e) == ~IsSweep(e) \/ Obs(e) = Pred(e)
WorldLeaves(e) == IF WorldJudged(e) /\ WorldDiff(e) # {} THEN { <<"WorldEqualsModel", WorldDiff(e), l>> } ELSE {}

\* every failing clause is kept; of several failures with the same clause and discriminator only the first line is
\* kept (the report is per signature)
Fresh(new) == { v \in new : ~\E u \in viol : u[1] = v[1] /\ u[2] = v[2] }

RunEv(e) ==
   IF e.panic # "" \/ Len(e.calls) = 0
   THEN /\ viol' = viol \cup Fresh({ <<"NoPanic", {"panic"}, l>> })
        /\ fired' = [fired EXCEPT !["NoPanic"] = @ + 1]
   ELSE /\ viol' = viol \cup Fresh(FailedLeaves(e) \cup StaticLeaves(e) \cup ValueBad(e) \cup GasLeaves(e) \cup ErrGasLeaves(e)
                                     \cup WorldLeaves(e))
        /\ fired' = [fired EXCEPT !["NoPanic"] = @ + 1, !["WorldEqualsModel"] = @ + (IF WorldJudged(e) THEN 1 ELSE 0),
                                  !["ValueConserved"] = @ + 1, !["ErrorFrameReturnsNoGas"] = @ + NErr(e),
                                  !["FailedFrameLeavesNoTrace"] = @ + NFailed(e), !["StaticChangesNothing"] = @ + NStatic(e),
                                  !["GasReturnedLeqSupplied"] = @ + NGas(e)]

MonStep ==
   /\ l <= Len(TraceLog)
   /\ l' = l + 1
   /\ LET e == TraceLog[l] IN
      CASE e.ev = "Run" -> RunEv(e)
        \* a process abort inside a program is reported by the orchestrator (NoPanic)
        [] OTHER -> UNCHANGED <<viol, fired>>

MonSpec == MonInit /\ [][MonStep]_mvars

Done == (l = Len(TraceLog) + 1) =>
          PrintT("@@J " \o ToJson([kind |-> "RESULT", events |-> Len(TraceLog), viol |-> viol, fired |-> fired]))
=============================================================================
