SPECIFICATION TSpec
CONSTANTS
  Scope = "none"
  Large = FALSE
  NV = 1
  NodeCap = 1
  MaxMut = 0
  GenMode = "none"
CONSTRAINT Done
CHECK_DEADLOCK FALSE
