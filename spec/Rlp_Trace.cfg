SPECIFICATION TSpec
CONSTANTS
  Scope = "none"
  Large = FALSE
  NV = 1
  NodeCap = 1
  PairK = 0
  SeqDepth = 0
  MaxMut = 0
  GenMode = "none"
CONSTRAINT Done
VIEW TView
CHECK_DEADLOCK FALSE
