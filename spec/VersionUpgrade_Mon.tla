------------------------- MODULE VersionUpgrade_Mon -------------------------
(***************************************************************************)
(* C12 property-layer monitor over what the REAL verifier accepted and the *)
(* REAL builder produced (driver `versionupgrade`).  It cannot reject a    *)
(* trace.  Events:                                                         *)
(*   explore : chain (each step accepted by the real verifier, okn of them)*)
(*             from genesis to a header p; acc = every candidate successor *)
(*             of p the real verifier accepted; blds = the real builder's  *)
(*             headers for p with the real verifier's verdicts.            *)
(*   step    : one more header c accepted by the real verifier on top of   *)
(*             the walk's previous header.                                 *)
(* For every accepted pair (p, c) each pairwise clause of                  *)
(* VersionUpgradeProp is evaluated; along chains the chain-level clauses   *)
(* are evaluated on the history H of accepted headers (also for every      *)
(* accepted candidate as a one-step extension of the explored chain).      *)
(* viol = set of <<clause, discriminator set, line>>.                       *)
(***************************************************************************)
EXTENDS VersionUpgradeProp, TLC, Json

TraceLog == ndJsonDeserialize("trace.ndjson")

VARIABLES l,      \* next line
          hp,     \* last header of the current walk
          H,      \* chain-level observable of the current walk
          viol,
          fired   \* antecedent counters
vars == <<l, hp, H, viol, fired>>

T2H(n, t) == Hdr(n, t[1], t[2], t[3], t[4], t[5])

\* violations of one accepted pair p -> c with history H up to p
\* PP = the recorded parameter set; the clauses use the parameters of the ACTIVE version, PV(PP, p.cv)
PairViol(PP, Hh, p, c, line) ==
   LET P == PV(PP, p.cv) IN
   { <<name, Disc(name, P, p, c), line>> : name \in FailingPair(P, p, c) }
   \cup { <<name, ChainDisc(P, Hh, p, c), line>> : name \in FailingChain(P, Hh, p, c) }

\* fold an accepted chain from genesis: <<last header, H, violations>>
RECURSIVE FoldChain(_, _, _, _, _, _, _)
FoldChain(P, chain, i, p, Hh, vs, line) ==
   IF i > Len(chain) THEN <<p, Hh, vs>>
   ELSE LET c == T2H(p.n + 1, chain[i]) IN
        FoldChain(P, chain, i + 1, c, Fold(PV(P, p.cv), Hh, p, c), vs \cup PairViol(P, Hh, p, c, line), line)

BuilderViol(PP, Hh, p, b, line) ==
   IF Len(b.out) = 0 THEN {}
   ELSE LET out == T2H(p.n + 1, b.out)  P == PV(PP, p.cv) IN
        (IF BuilderAccepted(b.own, b.full) THEN {} ELSE { <<"BuilderAccepted", BuilderDisc(p, out), line>> })
        \* an accepted builder header is an accepted pair like any other, reported under its own clause names so that a
        \* known deviation of the verifier never hides an unsafe header of the honest builder
        \* (pairwise clauses only: the chain-level ones depend on the adversarial history and are judged on `acc`)
        \cup (IF b.full = "ok" THEN { <<"Builder" \o name, Disc(name, P, p, out), line>> : name \in FailingPair(P, p, out) } ELSE {})

\* one entry per (clause, discriminator): the first line where it was seen (keeps the state small on long traces)
AddNew(vs, new) == vs \cup { v \in new : ~\E w \in vs : w[1] = v[1] /\ w[2] = v[2] }

Count(S) == Cardinality(S)
ZeroFired == [Pairs |-> 0, Switch |-> 0, Birth |-> 0, Cont |-> 0, Approval |-> 0, WindowClosedBelow |-> 0, Builder |-> 0,
              Chains |-> 0]
\* antecedent counters of a set of accepted successors of p
Bump(f, P, p, cs, nb, nchain) ==
   [f EXCEPT !.Pairs = @ + Count(cs),
             !.Switch = @ + Count({c \in cs : Switch(p, c)}),
             !.Birth = @ + Count({c \in cs : Birth(p, c)}),
             !.Cont = @ + Count({c \in cs : Cont(p, c)}),
             !.Approval = @ + Count({c \in cs : Cont(p, c) /\ c.ap > p.ap}),
             !.WindowClosedBelow = @ + Count({c \in cs : ~Switch(p, c) /\ p.nv # 0 /\ c.n >= p.vb /\ p.ap < PV(P, p.cv).th}),
             !.Builder = @ + nb,
             !.Chains = @ + nchain]

Init == l = 1 /\ hp = Genesis /\ H = H0 /\ viol = {} /\ fired = ZeroFired

Step ==
   /\ l <= Len(TraceLog)
   /\ l' = l + 1
   /\ LET e == TraceLog[l] IN
      CASE e.ev \in {"reset", "abort"} -> hp' = Genesis /\ H' = H0 /\ UNCHANGED <<viol, fired>>
        [] e.ev = "explore" ->
             LET P == e.P
                 r == FoldChain(P, SubSeq(e.chain, 1, e.okn), 1, Genesis, H0, {}, l)
                 p == r[1]  Hh == r[2]
                 complete == e.okn = Len(e.chain)
                 cs == IF complete THEN { T2H(p.n + 1, e.acc[i]) : i \in DOMAIN e.acc } ELSE {}
                 bs == IF complete THEN { e.blds[i] : i \in DOMAIN e.blds } ELSE {}
             IN /\ viol' = AddNew(viol, r[3] \cup UNION { PairViol(P, Hh, p, c, l) : c \in cs }
                                          \cup UNION { BuilderViol(P, Hh, p, b, l) : b \in bs })
                /\ fired' = Bump(fired, P, p, cs, Count({b \in bs : Len(b.out) > 0}), 1)
                /\ UNCHANGED <<hp, H>>
        [] e.ev = "step" ->
             LET P == e.P
                 c == T2H(hp.n + 1, e.c)
             IN /\ viol' = AddNew(viol, PairViol(P, H, hp, c, l))
                /\ fired' = Bump(fired, P, hp, {c}, 0, 0)
                /\ hp' = c
                /\ H' = Fold(PV(P, hp.cv), H, hp, c)
        [] OTHER -> UNCHANGED <<hp, H, viol, fired>>

Spec == Init /\ [][Step]_vars

Done == (l = Len(TraceLog) + 1) =>
          PrintT("@@J " \o ToJson([kind |-> "RESULT", events |-> Len(TraceLog), viol |-> viol, fired |-> fired]))
=============================================================================
