---------------------------- MODULE Journal_Mon ----------------------------
(***************************************************************************)
(* C09 property-layer monitor over traces recorded from the real StateDB.  *)
(* It cannot reject a trace: it folds the recorded events into the         *)
(* observable `snap` (id -> projection of the real state when the id was   *)
(* issued) and evaluates one named clause per observable of the statement  *)
(* at every Revert of an id that is valid by the PROPERTY's definition     *)
(* (issued in the current transaction, not invalidated by an outer         *)
(* revert).  Clause failures are accumulated with the trace line and a     *)
(* discriminator (the mutation kinds in the reverted window that touch the *)
(* clause's observable); the search never stops early.                     *)
(***************************************************************************)
EXTENDS Integers, Sequences, FiniteSets, TLC, Json

TraceLog == ndJsonDeserialize("trace.ndjson")

\* operation kinds that leave residue in the live object until the end of the transaction; when one of them
\* happened in the current transaction BEFORE the snapshot it is part of the discriminator ("pre:<op>")
PreOps == {"RemoveValidator"}

VARIABLES l,       \* next line
          tx,      \* PreOps seen in the current transaction
          snap,    \* sequence of [id, obs, ops]: live snapshots, innermost last; ops = mutation kinds seen since
          viol,    \* set of <<clause, discriminator set, line>>
          fired    \* number of Revert events judged
vars == <<l, tx, snap, viol, fired>>

Touch == [ Accounts      |-> {"AddBalance", "SubBalance", "SetNonce", "SetCode", "Suicide", "CreateAccount"},
           Storage       |-> {"SetState", "CreateAccount"},
           Logs          |-> {"AddLog"},
           Preimages     |-> {"AddPreimage"},
           Refund        |-> {"AddRefund", "SubRefund"},
           Validators    |-> {"CreateValidator", "UpdateValidator", "RemoveValidator", "UpdateDelegation"},
           Stats         |-> {"CreateValidator", "UpdateValidator", "RemoveValidator", "UpdateDelegation"},
           Index         |-> {"CreateValidator", "RemoveValidator"},
           WithdrawQueue |-> {"AddWithdraw", "RemoveWithdraw"},
           Delegations   |-> {"UpdateDelegation", "CreateAccount"},
           Roots         |-> {"AddBalance", "SubBalance", "SetNonce", "SetCode", "SetState", "Suicide", "CreateAccount", "CreateValidator", "UpdateValidator",
                              "RemoveValidator", "UpdateDelegation", "AddWithdraw", "RemoveWithdraw", "AddStakingRecord"},
           NoPanic       |-> {"Snapshot", "Finalise", "Revert"} ]
Clauses == DOMAIN Touch

AcctView(o, fs) == [a \in DOMAIN o.accts |-> [f \in fs |-> o.accts[a][f]]]

\* each clause restates one observable of the statement: "equal to what it was when the snapshot was taken"
Holds(c, e, s) ==
   CASE c = "Accounts"      -> AcctView(e.obs, {"exists", "sui", "bal", "nonce", "code"}) = AcctView(s.obs, {"exists", "sui", "bal", "nonce", "code"})
     [] c = "Storage"       -> AcctView(e.obs, {"s1", "s2"}) = AcctView(s.obs, {"s1", "s2"})
     [] c = "Logs"          -> e.obs.logs = s.obs.logs
     [] c = "Preimages"     -> e.obs.pre = s.obs.pre
     [] c = "Refund"        -> e.obs.refund = s.obs.refund
     [] c = "Validators"    -> e.obs.vals = s.obs.vals
     [] c = "Stats"         -> e.obs.stat = s.obs.stat
     [] c = "Index"         -> e.obs.index = s.obs.index
     [] c = "WithdrawQueue" -> e.obs.wq = s.obs.wq
     [] c = "Delegations"   -> AcctView(e.obs, {"dbal", "dlgs"}) = AcctView(s.obs, {"dbal", "dlgs"})
     [] c = "Roots"         -> ("rootsAfter" \in DOMAIN e) => (e.rootsAfter = e.rootsAtSnap)
     [] c = "NoPanic"       -> TRUE

Pos(id) == IF \E n \in DOMAIN snap : snap[n].id = id THEN CHOOSE n \in DOMAIN snap : snap[n].id = id ELSE 0
Panicked(e) == "panic" \in DOMAIN e

\* ops relevant to the revision bookkeeping, used as discriminator of NoPanic
Disc(c, s) == (s.ops \cap Touch[c]) \cup { "pre:" \o o : o \in s.pre }

Init == l = 1 /\ tx = {} /\ snap = <<>> /\ viol = {} /\ fired = 0

Note(ops, name) == [n \in DOMAIN ops |-> [ops[n] EXCEPT !.ops = @ \cup {name}]]

Step ==
   /\ l <= Len(TraceLog)
   /\ l' = l + 1
   /\ tx' = IF TraceLog[l].ev \in {"reset", "abort", "Finalise"} THEN {}
            ELSE IF TraceLog[l].ev \in PreOps THEN tx \cup {TraceLog[l].ev} ELSE tx
   /\ LET e == TraceLog[l] IN
      CASE e.ev = "reset" -> snap' = <<>> /\ UNCHANGED <<viol, fired>>
        [] e.ev = "abort" -> snap' = <<>> /\ UNCHANGED <<viol, fired>>
        [] e.ev = "Finalise" -> snap' = <<>> /\ UNCHANGED <<viol, fired>>
        [] e.ev = "Snapshot" /\ ~Panicked(e) ->
              /\ snap' = Append(Note(snap, "Snapshot"), [id |-> e.args.id, obs |-> e.obs, ops |-> {}, pre |-> tx])
              /\ UNCHANGED <<viol, fired>>
        [] e.ev = "Revert" ->
              LET p == Pos(e.args.id) IN
              IF p = 0 THEN UNCHANGED <<snap, viol, fired>>          \* not a valid id by the property's definition: no obligation
              ELSE /\ fired' = fired + 1
                   /\ snap' = Note(SubSeq(snap, 1, p - 1), "Revert")
                   /\ IF Panicked(e)
                      THEN viol' = viol \cup { <<"NoPanic", {"Revert"} \cup (UNION { snap[n].ops : n \in 1..p } \cap Touch["NoPanic"]), l>> }
                      ELSE viol' = viol \cup { <<c, Disc(c, snap[p]), l>> : c \in { k \in Clauses : ~Holds(k, e, snap[p]) } }
        [] OTHER -> /\ snap' = IF Panicked(e) THEN <<>> ELSE Note(snap, e.ev)
                    /\ UNCHANGED <<viol, fired>>

Spec == Init /\ [][Step]_vars

Done == (l = Len(TraceLog) + 1) =>
          PrintT("@@J " \o ToJson([kind |-> "RESULT", events |-> Len(TraceLog), viol |-> viol,
                                   fired |-> [Reverts |-> fired]]))
=============================================================================
