SPECIFICATION Spec
CONSTRAINT Done
VIEW MonView
CHECK_DEADLOCK FALSE
