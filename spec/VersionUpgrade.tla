--------------------------- MODULE VersionUpgrade ---------------------------
(***************************************************************************)
(* C12 -- the on-chain protocol-upgrade state machine                      *)
(* (core/protocol_version_processor.go: ProcessYouVersionState = honest    *)
(* builder, VerifyYouVersionState = verifier called for every imported     *)
(* block).                                                                 *)
(*                                                                         *)
(* Design layer: Verify and BuilderNext of VersionUpgradeProp, transcribed  *)
(* from the two Go functions.  Mode "verifier": an adversarial proposer     *)
(* extends the chain with ANY header (all fields in 0..FldMax) the verifier *)
(* accepts.  Mode "safe": chains are built with the property layer's        *)
(* SafeStep instead (to show that the pairwise envelope implies the         *)
(* chain-level statement).                                                  *)
(* Property layer: SafeStep's named clauses and the chain-level clauses of  *)
(* VersionUpgradeProp.  Confirmed defects of the code are named deviations: *)
(* a failing clause whose (clause, discriminators) is listed in             *)
(* known_c12.json does not stop the search.                                 *)
(*                                                                         *)
(* The parameter set is chosen in Init from params.json, so one run covers  *)
(* all of them; a set may give every version its own four parameters --    *)
(* both functions take them from the ACTIVE version (P below).             *)
(***************************************************************************)
EXTENDS VersionUpgradeProp, TLC, Json

CONSTANTS MaxRound,   \* chains of at most this many headers after genesis
          FldMax,     \* candidate header fields range over 0..FldMax
          Mode,       \* "verifier" | "safe"
          Fixed,      \* TRUE: the verifier with the proposed repair
          Tight,      \* TRUE: bound rounds and fields per parameter set by vr + maxw + 3 (two complete proposal lifetimes)
          GenMode     \* "none" | "states": print one witness chain per distinct reachable header state

PS     == JsonDeserialize("params.json")       \* sequence of [vr, th, minw, maxw]
KnownF == JsonDeserialize("known_c12.json")    \* sequence of [clause, disc]

VARIABLES ps,     \* index of the parameter set
          h,      \* last accepted header
          seen,   \* versions that were active along the chain (a node must know all of them)
          H,      \* chain-level observable (see VersionUpgradeProp)
          bad,    \* chain-level clauses that failed on the last step
          pbad,   \* pairwise clauses that failed on the last step and are not known deviations
          hist    \* the chain after genesis (generation only; not part of the VIEW)
vars == <<ps, h, seen, H, bad, pbad, hist>>

PP == PS[ps]
P == PV(PP, h.cv)      \* the parameters of the ACTIVE version of the last accepted header (prevProto in both Go functions)
Min(a, b) == IF a < b THEN a ELSE b
Max(a, b) == IF a > b THEN a ELSE b
Span == LET sp(v) == PV(PP, v).vr + PV(PP, v).maxw IN Max(sp(1), Max(sp(2), sp(9)))
MaxWaitAll == Max(PV(PP, 1).maxw, Max(PV(PP, 2).maxw, PV(PP, 9).maxw))
MaxR == IF Tight THEN Min(MaxRound, Span + 3) ELSE MaxRound
FMax == IF Tight THEN Min(FldMax, Span + 3) ELSE FldMax

Init == ps \in DOMAIN PS /\ h = Genesis /\ seen = {1} /\ H = H0 /\ bad = {} /\ pbad = {} /\ hist = <<>>

\* mode "safe" explores well-formed headers only (no proposal => the three proposal fields are zero): the statement does
\* not mention those fields, they are inert (a switch needs a live proposal, a birth announces fresh values)
Accept(c) == IF Mode = "safe" THEN SafeStep(P, h, c) /\ (c.nv = 0 => Cleared(c))
                              ELSE Verify(P, Vers, h, c, Fixed) = "ok"

Step(c) == /\ h.n < MaxR
           /\ Accept(c)
           /\ h' = c
           /\ seen' = seen \cup {c.cv}
           /\ H' = Fold(P, H, h, c)
           /\ bad' = FailingChain(P, H, h, c)
           /\ pbad' = { name \in FailingPair(P, h, c) : ~IsKnown(KnownF, name, Disc(name, P, h, c)) }
           /\ hist' = Append(hist, <<c.cv, c.nv, c.ap, c.vb, c.so>>)
           /\ UNCHANGED ps
Next == \E c \in Cand(h, FMax) : Step(c)
Spec == Init /\ [][Next]_vars

\* ---------------------------------------------------------------- what TLC checks
Cex(clause, c) == PrintT("@@J " \o ToJson([kind |-> "CEX", clause |-> clause,
                                           h |-> [P |-> PP, chain |-> Append(hist, <<c.cv, c.nv, c.ap, c.vb, c.so>>)]])) /\ FALSE

\* (c) every header the verifier accepts on a reachable prev is a SafeStep (or a named, known deviation).  Every candidate
\* with fields in 0..FMax is tried by Next; pbad is part of the VIEW, so every accepted transition is judged.
VerifierSafe == pbad = {} \/ (PrintT("@@J " \o ToJson([kind |-> "CEX", clause |-> pbad, h |-> [P |-> PP, chain |-> hist]])) /\ FALSE)

\* (b) every header the builder derives is accepted by the verifier and is a SafeStep, for every table a live node can have
KnownSets == { K \in SUBSET Vers : seen \subseteq K }
BuilderOk ==
   \A K \in KnownSets, appr \in {0, 1}, wait \in 0..(MaxWaitAll + 1) :
      LET out == BuilderNext(P, K, appr, wait, h) IN
      out # NoHdr =>
         /\ \/ BuilderAccepted(Verify(P, K, h, out, Fixed), Verify(P, Vers, h, out, Fixed))
            \/ IsKnown(KnownF, "BuilderAccepted", BuilderDisc(h, out))
            \/ Cex("BuilderAccepted", out)
         /\ Verify(P, Vers, h, out, Fixed) = "ok" =>
               \A name \in FailingPair(P, h, out) :
                  IsKnown(KnownF, "Builder" \o name, Disc(name, P, h, out)) \/ Cex("Builder" \o name, out)

\* (a) Mode = "safe": chains built with SafeStep satisfy the chain-level statement
ChainStatement == bad = {}
\* ---------------------------------------------------------------- generation
\* an INVARIANT (evaluated once per distinct state of the VIEW): one witness chain per reachable header state
GenStates == (GenMode = "states") => PrintT("@@J " \o ToJson([kind |-> "B", h |-> [P |-> PP, chain |-> hist]]))

ViewV == <<ps, h, seen, pbad>>
ViewS == <<ps, h, seen, H, bad>>
=============================================================================
