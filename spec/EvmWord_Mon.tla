---------------------------- MODULE EvmWord_Mon ----------------------------
(***************************************************************************)
(* C15 property-layer monitor over interpreter steps recorded from the     *)
(* real EVM (core/vm, through runtime.Execute with a tracer).              *)
(*                                                                         *)
(* One "Step" line per executed instruction of a straight-line program:    *)
(*   op   abstract opcode (computational opcode name, PUSH, DUP, SWAP, POP,*)
(*        MSTORE, MLOAD, MSTORE8, SSTORE, SLOAD)                           *)
(*   v    the constant of a PUSH;  k  the n of DUPn / SWAPn                *)
(*   b    the operand stack BEFORE the instruction (bottom first), words   *)
(*        as decimal strings;  the stack AFTER it is the b of the next line*)
(*   cost the gas the interpreter charged for the instruction              *)
(* preceded by one "Begin" line (sto0: the storage committed before the    *)
(* program's transaction)                                                  *)
(* and one "End" line per program: final stack, error text, the memory and *)
(* the storage slots read back from the real objects.                      *)
(*                                                                         *)
(* The monitor cannot reject a trace.  It folds memory and storage writes  *)
(* into its own maps and evaluates one named clause per sentence of the    *)
(* property; failures are accumulated as <<clause, {opcode}, line>>.       *)
(***************************************************************************)
EXTENDS EvmWord, TLC, Json

TraceLog == ndJsonDeserialize("trace.ndjson")

VARIABLES l,      \* next line
          mem,    \* model memory of the running program: byte address -> byte
          msize,  \* words of memory the running program has allocated (and paid for) so far
          sto,    \* model storage of the running program: key word -> value word
          orig,   \* storage committed before the program's transaction ("original" values of net gas metering)
          envv,   \* what the nullary environment opcodes are specified to return in the program's set-up: name -> word
          accts,  \* known accounts: address word -> [bal, size, hash] (what BALANCE / EXTCODESIZE / EXTCODEHASH return)
          viol,   \* set of <<clause, {opcode}, line>>
          fired   \* per clause: how many times it was evaluated
mvars == <<l, mem, msize, sto, orig, envv, accts, viol, fired>>

Clauses == {"Result", "RestUnchanged", "Cost", "StackOp", "MemReadBack", "StorageReadBack", "Executes", "FinalMemory",
            "FinalStorage", "EnvOpsReadOnly", "StackValidity"}
AcctOps == {"BALANCE", "EXTCODESIZE", "EXTCODEHASH"}

\* Stack validity (Yellow Paper, exceptional halting): an instruction that removes delta items and adds alpha items executes
\* on a stack of d items iff delta <= d and d - delta + alpha <= 1024; otherwise the frame halts exceptionally.  k = the n of
\* DUPn / SWAPn.  The items further down (a program may start on a pre-filled stack) change neither result nor cost.
StackLimit == 1024
Delta(op, k) == CASE op \in CompOps -> Arity(op)
                  [] op = "DUP" -> k          [] op = "SWAP" -> k + 1
                  [] op \in {"POP", "MLOAD", "SLOAD"} \cup AcctOps -> 1
                  [] op \in {"MSTORE", "MSTORE8", "SSTORE"} -> 2
                  [] OTHER -> 0                              \* PUSH, the nullary state-reading opcodes, STOP
Alpha(op, k) == CASE op \in CompOps \cup {"PUSH", "MLOAD", "SLOAD"} \cup AcctOps -> 1
                  [] op = "DUP" -> k + 1      [] op = "SWAP" -> k + 1
                  [] op \in {"POP", "MSTORE", "MSTORE8", "SSTORE", "STOP", "NONE", "FILL"} -> 0
                  [] OTHER -> 1                              \* the nullary state-reading opcodes
ValidAt(op, k, d) == Delta(op, k) <= d /\ d - Delta(op, k) + Alpha(op, k) <= StackLimit
KOf(e) == IF "k" \in DOMAIN e THEN e.k ELSE 0
Empty == [a \in {} |-> 0]

MonInit == l = 1 /\ mem = Empty /\ msize = 0 /\ sto = Empty /\ orig = Empty /\ envv = Empty /\ accts = Empty /\ viol = {} /\ fired = [c \in Clauses |-> 0]

\* judged: set of clause names evaluated; bad: subset that failed
Judge(op, judged, bad) ==
   /\ fired' = [c \in Clauses |-> IF c \in judged THEN fired[c] + 1 ELSE fired[c]]
   \* of several failures with the same clause and opcode only the first line is kept (the report is per signature)
   /\ viol'  = viol \cup { <<c, {op}, l>> : c \in { b \in bad : ~\E u \in viol : u[1] = b /\ u[2] = {op} } }

Small(w) == Lt(w, "65536") /\ BigLeq(Zero, w)     \* an offset the generator may use

\* a stack item that is not a word (negative, or 2^256 and above) is a wrong result of the step that produced it;
\* later steps that would compute with it are not judged
AllWords(s) == \A i \in DOMAIN s : IsWord(s[i])

StepEv0(e, after) ==
   LET before == e.b
       op     == e.op
       n      == Len(before)
   IN
   IF ~AllWords(before) THEN UNCHANGED <<mem, msize, sto, orig, viol, fired>>
   ELSE IF ~AllWords(after) THEN Judge(op, {"Result"}, {"Result"}) /\ UNCHANGED <<mem, msize, sto, orig>>
   ELSE
   CASE op \in CompOps ->
          \* "returns the result defined by the EVM specification modulo 2^256",
          \* "never disturbs other stack items", "charges the specified gas"
          LET okR == ResultOK(op, before, after)
              okS == RestOK(Arity(op), before, after)
              okC == n >= Arity(op) /\ e.cost = Gas(op, TopN(before, Arity(op)))
          IN  /\ Judge(op, {"Result", "RestUnchanged", "Cost"},
                       {c \in {"Result"} : ~okR} \cup {c \in {"RestUnchanged"} : ~okS} \cup {c \in {"Cost"} : ~okC})
              /\ UNCHANGED <<mem, msize, sto, orig>>
     [] op = "PUSH" -> Judge(op, {"StackOp"}, {c \in {"StackOp"} : ~PushOK(e.v, before, after)}) /\ UNCHANGED <<mem, msize, sto, orig>>
     [] op = "POP"  -> Judge(op, {"StackOp"}, {c \in {"StackOp"} : ~PopOK(before, after)}) /\ UNCHANGED <<mem, msize, sto, orig>>
     [] op = "DUP"  -> Judge(op, {"StackOp"}, {c \in {"StackOp"} : ~DupOK(e.k, before, after)}) /\ UNCHANGED <<mem, msize, sto, orig>>
     [] op = "SWAP" -> Judge(op, {"StackOp"}, {c \in {"StackOp"} : ~SwapOK(e.k, before, after)}) /\ UNCHANGED <<mem, msize, sto, orig>>
     \* state-reading opcodes push what the environment defines and leave everything else alone
     [] op \in DOMAIN envv ->
          LET okS == Len(after) = n + 1 /\ Below(after, 1) = before
              okR == Len(after) >= 1 /\ after[Len(after)] = envv[op]
          IN  /\ Judge(op, {"Result", "RestUnchanged"}, {c \in {"Result"} : ~okR} \cup {c \in {"RestUnchanged"} : ~okS})
              /\ UNCHANGED <<mem, msize, sto, orig>>
     [] op \in AcctOps ->
          LET okS == RestOK(1, before, after)
              kn  == n >= 1 /\ before[n] \in DOMAIN accts
              f   == IF op = "BALANCE" THEN "bal" ELSE IF op = "EXTCODESIZE" THEN "size" ELSE "hash"
              okR == kn => (Len(after) >= 1 /\ after[Len(after)] = accts[before[n]][f])
          IN  /\ Judge(op, {"Result", "RestUnchanged"}, {c \in {"Result"} : ~okR} \cup {c \in {"RestUnchanged"} : ~okS})
              /\ UNCHANGED <<mem, msize, sto, orig>>
     \* "memory and storage opcodes read back what was written"
     \* "charges the specified gas": 3 + the memory expansion; the frame's allocated words are monitor state
     [] op \in {"MSTORE", "MSTORE8"} ->
          LET okS  == n >= 2 /\ after = Below(before, 2)
              sm   == n >= 2 /\ Small(before[n])
              off  == BigToInt(before[n])
              okC  == sm => e.cost = MemOpGas(op, msize, off)
          IN  /\ Judge(op, {"RestUnchanged", "Cost"}, {c \in {"RestUnchanged"} : ~okS} \cup {c \in {"Cost"} : ~okC})
              /\ mem' = IF ~sm THEN mem
                        ELSE IF op = "MSTORE" THEN MemStore(mem, off, before[n - 1]) ELSE MemStore8(mem, off, before[n - 1])
              /\ msize' = IF sm THEN MaxI(msize, WordsFor(off, MemOpLen(op))) ELSE msize
              /\ UNCHANGED <<sto, orig>>
     [] op = "MLOAD" ->
          LET okS == RestOK(1, before, after)
              sm  == n >= 1 /\ Small(before[n])
              off == BigToInt(before[n])
              okM == n >= 1 /\ Len(after) >= 1 /\ (sm => after[Len(after)] = MemLoad(mem, off))
              okC == sm => e.cost = MemOpGas(op, msize, off)
          IN  /\ Judge(op, {"RestUnchanged", "MemReadBack", "Cost"},
                       {c \in {"RestUnchanged"} : ~okS} \cup {c \in {"MemReadBack"} : ~okM} \cup {c \in {"Cost"} : ~okC})
              /\ msize' = IF sm THEN MaxI(msize, WordsFor(off, 32)) ELSE msize
              /\ UNCHANGED <<mem, sto, orig>>
     \* storage: read-back, and the gas of the jump table in use (Istanbul: SLOAD 800, SSTORE net-metered)
     [] op = "SSTORE" ->
          LET okS == n >= 2 /\ after = Below(before, 2)
              okC == n >= 2 => e.cost = SstoreGas(StoRd(orig, before[n]), StoRd(sto, before[n]), before[n - 1])
          IN  /\ Judge(op, {"RestUnchanged", "Cost"}, {c \in {"RestUnchanged"} : ~okS} \cup {c \in {"Cost"} : ~okC})
              /\ sto' = IF n >= 2 THEN StoWr(sto, before[n], before[n - 1]) ELSE sto
              /\ UNCHANGED <<mem, msize, orig>>
     [] op = "SLOAD" ->
          LET okS == RestOK(1, before, after)
              okM == n >= 1 /\ Len(after) >= 1 /\ after[Len(after)] = StoRd(sto, before[n])
              okC == e.cost = SloadGas
          IN  /\ Judge(op, {"RestUnchanged", "StorageReadBack", "Cost"},
                       {c \in {"RestUnchanged"} : ~okS} \cup {c \in {"StorageReadBack"} : ~okM} \cup {c \in {"Cost"} : ~okC})
              /\ UNCHANGED <<mem, msize, sto, orig>>
     [] OTHER -> UNCHANGED <<mem, msize, sto, orig, viol, fired>>

\* an instruction that executed although the stack did not allow it
StepEv(e, after) ==
   /\ UNCHANGED <<envv, accts>>
   /\ IF ValidAt(e.op, KOf(e), Len(e.b)) THEN StepEv0(e, after)
      ELSE Judge(e.op, {"StackValidity"}, {"StackValidity"}) /\ UNCHANGED <<mem, msize, sto, orig>>

\* the program ran to its STOP, and what the real memory / storage hold at the end is what the program wrote
EndEv(e) ==
   LET halt == ~ValidAt(e.op, KOf(e), Len(e.b))      \* the last instruction must halt exceptionally: an error is right
       okX == ~e.panic /\ (e.err = "" \/ halt)      \* a Go panic is never a proper halt
       okV == halt => e.err # ""
       okM == /\ \A a \in DOMAIN mem : (IF a + 1 <= Len(e.mem) THEN e.mem[a + 1] ELSE 0) = mem[a]
              /\ \A i \in 1..Len(e.mem) : (i - 1) \notin DOMAIN mem => e.mem[i] = 0
       okS == /\ \A i \in 1..Len(e.sto) : StoRd(sto, e.sto[i][1]) = e.sto[i][2]
              /\ \A k \in DOMAIN sto : \E i \in 1..Len(e.sto) : e.sto[i][1] = k
       \* a straight-line program of computational, stack, memory, storage and state-READING opcodes moves no value:
       \* the balances of the known accounts after it are those at its first instruction
       okB == e.bal0 = e.bal1
   IN  /\ Judge(e.op, {"Executes", "FinalMemory", "FinalStorage", "EnvOpsReadOnly"} \cup {c \in {"StackValidity"} : halt},
                {c \in {"Executes"} : ~okX} \cup {c \in {"StackValidity"} : ~okV} \cup {c \in {"FinalMemory"} : e.err = "" /\ ~okM} \cup {c \in {"FinalStorage"} : e.err = "" /\ ~okS}
                \cup {c \in {"EnvOpsReadOnly"} : e.err = "" /\ ~okB})
       /\ mem' = Empty /\ msize' = 0 /\ sto' = Empty /\ orig' = Empty /\ envv' = Empty /\ accts' = Empty

\* the storage the program's contract was deployed with
BeginEv(e) ==
   LET S == { e.sto0[i][1] : i \in DOMAIN e.sto0 }
       f == [k \in S |-> (CHOOSE i \in DOMAIN e.sto0 : e.sto0[i][1] = k)]
       m0 == [k \in S |-> e.sto0[f[k]][2]]
       A  == { e.accts[i][1] : i \in DOMAIN e.accts }
       ai == [a \in A |-> (CHOOSE i \in DOMAIN e.accts : e.accts[i][1] = a)]
   IN  /\ orig' = m0 /\ sto' = m0 /\ mem' = Empty /\ msize' = 0 /\ UNCHANGED <<viol, fired>>
       /\ envv' = e.env
       /\ accts' = [a \in A |-> [bal |-> e.accts[ai[a]][2], size |-> e.accts[ai[a]][3], hash |-> e.accts[ai[a]][4]]]

MonStep ==
   /\ l <= Len(TraceLog)
   /\ l' = l + 1
   /\ LET e == TraceLog[l] IN
      CASE e.ev = "Step" /\ l < Len(TraceLog) -> StepEv(e, TraceLog[l + 1].b)
        [] e.ev = "End" -> EndEv(e)
        [] e.ev = "Begin" -> BeginEv(e)
        [] OTHER -> mem' = Empty /\ msize' = 0 /\ sto' = Empty /\ orig' = Empty /\ envv' = Empty /\ accts' = Empty /\ UNCHANGED <<viol, fired>>       \* reset / abort markers

MonSpec == MonInit /\ [][MonStep]_mvars

Done == (l = Len(TraceLog) + 1) =>
          PrintT("@@J " \o ToJson([kind |-> "RESULT", events |-> Len(TraceLog), viol |-> viol, fired |-> fired]))
=============================================================================
