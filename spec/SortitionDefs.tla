---------------------------- MODULE SortitionDefs ----------------------------
(***************************************************************************)
(* C04 -- constant-level definitions: the binomial quantile in exact       *)
(* integer arithmetic (BigNat), written from the statement:                *)
(*   "The number of committee seats a validator wins is the smallest j     *)
(*    whose binomial(stake, committee/total) cumulative probability        *)
(*    reaches the VRF output read as a fraction of 2^256, always between   *)
(*    0 and its stake."                                                    *)
(* With w = stake, p = a/b (a = committee size/threshold, b = total stake):*)
(*   Term(i) = C(w,i) a^i (b-a)^(w-i),  Cdf(j) = sum_{i<=j} Term(i),       *)
(*   all over the common denominator D = b^w;                              *)
(*   target t = h / HMax with HMax = 2^256 - 1 (the code divides by        *)
(*   2^256 - 1; the difference to 2^256 is far below the tolerance);       *)
(*   Quantile(h) = least j with h * D <= Cdf(j) * HMax.                    *)
(* The code computes in float64, so a recorded j is judged as a            *)
(* delta-APPROXIMATE quantile: j is the exact quantile of some target t'   *)
(* with |t' - t| <= delta * min(t, 1 - t), delta = 10^-6 (relative         *)
(* perturbation of the target towards either tail).                        *)
(***************************************************************************)
EXTENDS Integers, Sequences, FiniteSets, TLC, Json, BigNat

ASSUME BigNatLoaded

Zero == BigOfInt(0)
HMax == BigSub(BigPow(BigOfInt(2), 256), BigOfInt(1))
Mil  == BigOfInt(1000000)           \* 1 / delta

Den(w, b) == BigPow(BigOfInt(b), w)
Term0(w, a, b) == BigPow(BigOfInt(b - a), w)
\* Term(i+1) from Term(i); the division is exact (checked by the enumerator's invariant RecurrenceExact)
NextTerm(term, i, w, a, b) == BigDivMod(BigMul(BigMul(term, BigOfInt(w - i)), BigOfInt(a)), BigMul(BigOfInt(i + 1), BigOfInt(b - a)))

BigMin(x, y) == IF BigLeq(x, y) THEN x ELSE y

\* with prev = Cdf(j-1) * 1, cum = Cdf(j) (numerators over D), D = b^w:
\* exact: Cdf(j-1) < t <= Cdf(j)
IsExact(h, D, prev, cum, j) ==
   /\ (j = 0 \/ BigLt(BigMul(prev, HMax), BigMul(h, D)))
   /\ BigLeq(BigMul(h, D), BigMul(cum, HMax))
\* eps = delta * min(t, 1-t) = m / (Mil * HMax) with m = min(h, HMax - h)
\* in band:  Cdf(j-1) < t + eps  /\  t - eps <= Cdf(j)
InBand(h, D, prev, cum, j) ==
   LET m == BigMin(h, BigSub(HMax, h))
       hi == BigMul(BigAdd(BigMul(h, Mil), m), D)
       lo == BigMul(BigSub(BigMul(h, Mil), m), D) IN
   /\ (j = 0 \/ BigLt(BigMul(BigMul(prev, Mil), HMax), hi))
   /\ BigLeq(lo, BigMul(BigMul(cum, Mil), HMax))
\* strictly inside: j is the quantile of EVERY target of the band
Strict(h, D, prev, cum, j) ==
   LET m == BigMin(h, BigSub(HMax, h))
       hi == BigMul(BigAdd(BigMul(h, Mil), m), D)
       lo == BigMul(BigSub(BigMul(h, Mil), m), D) IN
   /\ (j = 0 \/ BigLt(BigMul(BigMul(prev, Mil), HMax), lo))
   /\ BigLeq(hi, BigMul(BigMul(cum, Mil), HMax))

\* class attributes of an input (discriminators): which regime of the search it falls in
Upper(h) == BigLt(BigMul(BigOfInt(99), HMax), BigMul(BigOfInt(100), h))        \* t > 0.99
Regime(h, w, a, b) == IF h = Zero \/ h = HMax THEN "endpoint"
                      ELSE IF Upper(h) THEN "upper_tail"
                      ELSE IF w * a < 20 * b THEN "small_mean" ELSE "large_mean"
=============================================================================
