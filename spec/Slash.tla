------------------------------- MODULE Slash -------------------------------
(***************************************************************************)
(* C05 -- double-sign evidences: acceptance and penalty.                   *)
(*                                                                         *)
(* A signed vote is [signer, hash, round, index]: the vote KIND is not     *)
(* part of the signed payload (consensus/ucon/voter.go signVote signs      *)
(* blockHash || round || roundIndex), so a signature obtained from a vote  *)
(* of one kind verifies for every kind.  An evidence case is               *)
(*   [signer  : whose key produced the signatures,                         *)
(*    target  : which validator the SignerIdx points to in the look-back   *)
(*              set (0: out of range),                                     *)
(*    kind    : the DECLARED vote kind,                                    *)
(*    roff    : round, as an offset from the parent of the first block,    *)
(*    pairs   : sequence of [src, h] -- src is the kind of the vote the    *)
(*              signature was taken from, or "forged" / "otherkey" /       *)
(*              "garbage" for pairs that are not the signer's signature    *)
(*              over (h, round, index)]                                    *)
(*                                                                         *)
(* Design layer (implementation shaped): ProcessEvidences follows          *)
(* staking/slash.go processEvidences and slash_youv5.go                    *)
(* processDoubleSignV5 step by step (>= 2 pairs, round = parent height,    *)
(* index lookup, every pair verifies, once-per-validator map, validator    *)
(* exists now, penalty = token * fraction / 100); TakePenalty transcribes  *)
(* slash.go takePenalty with the code's integer arithmetic (risk           *)
(* obligation, per-stake quotient and remainder, withdraw records first,   *)
(* then self stake, then delegations); DoPenalize sets offline/expelled.   *)
(* The builder (slashing: local list, confirmed evidences go to            *)
(* header.SlashData, the rest stays pending) and the validator             *)
(* (replaySlashing over header.SlashData) are two uses of it.              *)
(*                                                                         *)
(* Property layer: written from the statement over the cases submitted     *)
(* and the observable deltas.                                              *)
(***************************************************************************)
EXTENDS Integers, Sequences, FiniteSets, TLC, Json

CONSTANTS Frac,        \* PenaltyFractionForDoubleSign (percent)
          Blocks,      \* 1 | 2: blocks per behaviour
          MaxEv1, MaxEv2, \* evidences submitted with block 1 / block 2
          Alphabet,    \* "pairs" (every pair combination, one evidence) | "lists" (reduced alphabet, lists, two blocks)
          Known,       \* TRUE: search past the known finding (vote kind not bound / no distinct-hash check)
          GenMode      \* "none" | "leaf"

NV == 7
Unit == 10
MaxAge == 3            \* MaxEvidenceExpiredIn of the fixture
ExpelRounds == 8       \* ExpelledRoundForDoubleSign of the fixture
Parent0 == 13          \* height of the parent of the first block (fixture base chain)
Base == 10000          \* CommissionRateBase

VoteKinds == {"prevote", "precommit", "nextindex", "certificate"}
\* (reuseA / reuseB: the BYTES of the signer's genuine signature over hash A / B of this round and index, attached to a pair
\*  that names another hash -- signature bytes of a genuine vote on a different payload)
NotVotes == {"forged", "otherkey", "garbage", "otherindex", "otherround", "reuseA", "reuseB"}

VARIABLES vals, wq, pen,     \* builder chain state: validator records, withdraw queue, penalty account
          k,                 \* number of blocks built
          pending,           \* builder's local evidence list
          last,              \* property layer: [pre, list, seal, raw, imp, confirmed] of the last block
          all,               \* property layer: every case submitted so far
          hist
vars == <<vals, wq, pen, k, pending, last, all, hist>>

\* ---------------------------------------------------------------- fixture state (mirrors the driver's base chain)
V(tok, self, ro, dl) == [token |-> tok, stake |-> tok \div Unit, selfToken |-> self, selfStake |-> self \div Unit, ro |-> ro,
                         status |-> 1, expelled |-> FALSE, expelExp |-> 0, exists |-> TRUE, dl |-> dl]
D(d, tok) == [d |-> d, token |-> tok, stake |-> tok \div Unit]
\* v1..v5 and v7 are genesis validators (tokens 1230, 1000, 300, 2000, 600, 400), v6 is created by a transaction.  At the end
\* of the second period (block 8) two delegations to v2 and v6's creation take effect and v7's complete withdrawal removes
\* it; at block 12 v5's complete withdrawal removes it, v2's partial withdrawal and a partial undelegation take effect.
Gone == [V(0, 0, 0, <<>>) EXCEPT !.status = 0, !.exists = FALSE]
\* Delegator d1 delegates to TWO validators (v2 and v1) and holds an unfinished withdraw record against each; its record
\* against v1 precedes its record against v2 in the queue.
InitVals == << V(1290, 1230, 0, << D(1, 60) >>), V(1050, 770, 2000, << D(2, 130), D(1, 150) >>), V(300, 300, 0, <<>>), V(2000, 2000, 0, <<>>),
               Gone, [V(1500, 1500, 0, <<>>) EXCEPT !.status = 0], Gone >>
\* (ch: completion height = height at which the withdrawal took effect + WithdrawDelay 6)
InitWq == << [v |-> 7, d |-> 0, fin |-> 400, done |-> 0, ch |-> 13], [v |-> 1, d |-> 1, fin |-> 40, done |-> 0, ch |-> 17],
             [v |-> 5, d |-> 0, fin |-> 600, done |-> 0, ch |-> 17],
             [v |-> 2, d |-> 0, fin |-> 230, done |-> 0, ch |-> 17], [v |-> 2, d |-> 1, fin |-> 100, done |-> 0, ch |-> 17] >>
Period == 4
\* processWithdrawQueue (endblock.go:490), run AFTER the slashing phase at the end of a staking period ((number + 1) % period = 0):
\* an unfinished record whose completion height is below the block number is released (finished)
Release(q, blockNo) == IF (blockNo + 1) % Period # 0 THEN q
                       ELSE [i \in DOMAIN q |-> IF q[i].done = 0 /\ q[i].fin > 0 /\ q[i].ch < blockNo THEN [q[i] EXCEPT !.done = 1] ELSE q[i]]
\* The two look-back validator sets of the evidence round (13), ordered by stake as the code orders them; the signer index of
\* an evidence is a position in one of them.  Certificate votes are cast by the certificate committee, drawn from the
\* certificate look-back set (the genesis set: ACoCHTFrequency is 32768); every other vote from the stake look-back set
\* (block 9).  Between the two: the stake order changed (v2 above v1), v6 is new, v7 is gone.
CertOrder  == <<4, 1, 2, 5, 7, 3>>
StakeOrder == <<4, 6, 2, 1, 5, 3>>
OrderFor(kind) == IF kind = "certificate" THEN CertOrder ELSE StakeOrder
OtherOrder(kind) == IF kind = "certificate" THEN StakeOrder ELSE CertOrder
PosIn(ord, v) == IF \E i \in DOMAIN ord : ord[i] = v THEN CHOOSE i \in DOMAIN ord : ord[i] = v ELSE 0
At(ord, i) == IF i \in DOMAIN ord THEN ord[i] ELSE 0

\* ---------------------------------------------------------------- takePenalty (slash.go:379), integer arithmetic as coded
Min(a, b) == IF a < b THEN a ELSE b
DlPos(val, d) == IF \E i \in DOMAIN val.dl : val.dl[i].d = d THEN CHOOSE i \in DOMAIN val.dl : val.dl[i].d = d ELSE 0

\* first phase: unfinished withdraw records of the validator, in queue order
RECURSIVE WFold(_, _, _, _)
WFold(val, v, i, a) ==
   IF i > Len(a.q) \/ a.P <= 0 THEN a
   ELSE LET r == a.q[i] IN
        IF r.v # v \/ r.done # 0 THEN WFold(val, v, i + 1, a)
        ELSE LET pos == IF r.d = 0 THEN 0 ELSE DlPos(val, r.d)
                 rest == IF r.d = 0 THEN a.self ELSE IF pos = 0 THEN 0 ELSE a.dp[pos]
                 take == Min(r.fin, rest) IN
             IF rest <= 0 \/ take <= 0 THEN WFold(val, v, i + 1, a)
             ELSE WFold(val, v, i + 1,
                        [a EXCEPT !.P = @ - take, !.total = @ + take, !.q[i].fin = @ - take,
                                  !.self = IF r.d = 0 THEN @ - take ELSE @,
                                  !.dp = IF r.d # 0 THEN [@ EXCEPT ![pos] = @ - take] ELSE @])

Take(rec, amount) == \* updateCounter on a (token, stake) pair
   LET nt == rec.token - amount IN [rec EXCEPT !.token = nt, !.stake = nt \div Unit]

\* second phase, delegations in list order
RECURSIVE DFold(_, _)
DFold(i, a) ==
   IF i > Len(a.val.dl) \/ a.P <= 0 THEN a
   ELSE LET d == a.val.dl[i]  rest == a.dp[i]  take == Min(d.token, rest) IN
        IF rest <= 0 \/ take <= 0 THEN DFold(i + 1, a)
        ELSE LET nd == Take(d, take) IN
             DFold(i + 1, [a EXCEPT !.P = @ - take, !.total = @ + take,
                                    !.val.dl[i] = nd, !.val.token = @ - take, !.val.stake = @ - (d.stake - nd.stake)])

TakePenalty(val, queue, v, amount) ==
   LET ob   == IF val.ro > 0 /\ val.ro <= Base THEN (amount * val.ro) \div Base ELSE 0
       cur  == amount - ob
       per  == cur \div val.stake
       rem  == cur % val.stake
       self == per * val.selfStake + rem + ob
       dp   == [i \in DOMAIN val.dl |-> per * val.dl[i].stake]
       w    == WFold(val, v, 1, [P |-> amount, total |-> 0, q |-> queue, self |-> self, dp |-> dp])
       st   == IF w.P > 0 /\ w.self > 0 THEN Min(val.selfToken, w.self) ELSE 0
       nself == val.selfToken - st
       v1   == [val EXCEPT !.selfToken = nself, !.selfStake = nself \div Unit, !.token = @ - st,
                           !.stake = @ - (val.selfStake - nself \div Unit)]
       d    == IF w.P > 0 THEN DFold(1, [P |-> w.P - st, total |-> w.total + st, val |-> v1, dp |-> w.dp])
               ELSE [P |-> w.P, total |-> w.total, val |-> val, dp |-> w.dp]
   IN [val |-> d.val, q |-> w.q, total |-> d.total]

\* doPenalize (slash.go:346)
DoPenalize(s, v, blockNo) ==
   LET val == s.vals[v]
       amount == (val.token * Frac) \div 100
       tp == IF amount > 0 THEN TakePenalty(val, s.wq, v, amount) ELSE [val |-> val, q |-> s.wq, total |-> 0]
       exp == blockNo + ExpelRounds
       nv == [tp.val EXCEPT !.status = 0, !.expelled = TRUE, !.expelExp = IF exp > @ THEN exp ELSE @]
   IN [s EXCEPT !.vals[v] = nv, !.wq = tp.q, !.pen = @ + tp.total,
                !.logs = IF tp.total > 0 THEN Append(@, [val |-> v, total |-> tp.total]) ELSE @,
                !.done = @ \cup {v},
                !.confirmed = IF tp.total > 0 THEN @ + 1 ELSE @]

\* ---------------------------------------------------------------- processDoubleSignV5 (slash_youv5.go:112)
PairVerifies(c, p) == p.src \in VoteKinds /\ c.target = c.signer     \* the signer's signature over (h, round, index), any kind
Verifies(c) == c.target # 0 /\ \A i \in DOMAIN c.pairs : PairVerifies(c, c.pairs[i])

\* what the code does with one evidence when the parent of the block is at offset kk
ProcessOne(s, c, kk) ==
   IF Len(c.pairs) < 2 THEN s                                                   \* dropped silently
   ELSE IF c.roff > kk THEN [s EXCEPT !.pend = Append(@, c)]                     \* future round: stays pending
   ELSE IF c.roff < kk THEN (IF kk - c.roff <= MaxAge THEN [s EXCEPT !.pend = Append(@, c)] ELSE s)
   ELSE IF ~Verifies(c) THEN s                                                   \* index out of range / a pair does not verify
   ELSE IF c.target \in s.done THEN s                                            \* once-per-validator map
   ELSE IF ~s.vals[c.target].exists THEN s
   ELSE DoPenalize(s, c.target, Parent0 + kk + 1)

RECURSIVE ProcessFrom(_, _, _, _)
ProcessFrom(s, list, i, kk) == IF i > Len(list) THEN s ELSE ProcessFrom(ProcessOne(s, list[i], kk), list, i + 1, kk)
ProcessEvidences(vs, q, p, list, kk) ==
   ProcessFrom([vals |-> vs, wq |-> q, pen |-> p, done |-> {}, pend |-> <<>>, logs |-> <<>>, confirmed |-> 0], list, 1, kk)

Proj(s) == [vals |-> s.vals, wq |-> s.wq, pen |-> s.pen]

\* the evidences the builder confirmed (total penalty > 0), in order: what goes into header.SlashData
RECURSIVE ConfirmedOf(_, _, _, _)
ConfirmedOf(s, list, i, kk) ==
   IF i > Len(list) THEN <<>>
   ELSE LET s2 == ProcessOne(s, list[i], kk) IN
        (IF s2.confirmed > s.confirmed THEN <<list[i]>> ELSE <<>>) \o ConfirmedOf(s2, list, i + 1, kk)

\* ---------------------------------------------------------------- one block: builder, raw validator, import
\* BlockOn: the block on top of the state (vs, q, p); Block: on top of the model's own state
BlockOn(vs, q, p, new) ==
   LET list == pending \o new
       s0   == [vals |-> vs, wq |-> q, pen |-> p, done |-> {}, pend |-> <<>>, logs |-> <<>>, confirmed |-> 0]
       Rel(r) == [r EXCEPT !.wq = Release(@, Parent0 + k + 1)]
       seal == Rel(ProcessEvidences(vs, q, p, list, k))                          \* slashing(): the local list
       conf == ConfirmedOf(s0, list, 1, k)
       raw  == Rel(ProcessEvidences(vs, q, p, list, k))                          \* replaySlashing() over the unfiltered list
       imp  == Rel(ProcessEvidences(vs, q, p, conf, k))                          \* replaySlashing() over header.SlashData
   IN /\ last' = [pre |-> [vals |-> vs, wq |-> q, pen |-> p], list |-> list, kk |-> k,
                  seal |-> Proj(seal), raw |-> Proj(raw), imp |-> Proj(imp), logs |-> seal.logs, rawLogs |-> raw.logs]
      /\ vals' = seal.vals /\ wq' = seal.wq /\ pen' = seal.pen
      /\ pending' = seal.pend
      /\ k' = k + 1
      /\ all' = all \o new
      /\ hist' = Append(hist, new)
Block(new) == BlockOn(vals, wq, pen, new)

\* ---------------------------------------------------------------- case alphabets
Case(signer, idx, kind, roff, pairs) ==
   [signer |-> signer, idx |-> idx, kind |-> kind, roff |-> roff, ri |-> 1, pairs |-> pairs,
    \* whom the signer index names in the set the protocol prescribes for the declared kind: "right" = the signer's own
    \* position there (none if it was no member), "wrongset" = its position in the OTHER look-back set, "wrong" = the
    \* position of another validator, "oor" = out of range
    target |-> CASE idx = "right" -> At(OrderFor(kind), PosIn(OrderFor(kind), signer))
                 [] idx = "wrongset" -> At(OrderFor(kind), PosIn(OtherOrder(kind), signer))
                 [] idx = "wrong" -> (signer % 4) + 1
                 [] OTHER -> 0]
P(src, h) == [src |-> src, h |-> h]

\* every (source, hash) a pair can be made of
PairAlphabet == { P(s, h) : s \in VoteKinds, h \in {"A", "B", "E"} } \cup { P("forged", "A"), P("otherkey", "A"), P("garbage", "B"), P("otherindex", "B"), P("otherround", "B"),
                      P("reuseA", "B"), P("reuseA", "E"), P("reuseB", "A") }
\* a total order on the pair alphabet, to enumerate unordered pairs once
SrcNo(s) == CASE s = "prevote" -> 1 [] s = "precommit" -> 2 [] s = "nextindex" -> 3 [] s = "certificate" -> 4 [] s = "forged" -> 5
              [] s = "otherkey" -> 6 [] s = "garbage" -> 7 [] s = "otherindex" -> 8 [] s = "otherround" -> 9 [] s = "reuseA" -> 10 [] OTHER -> 11
HNo(h) == CASE h = "A" -> 1 [] h = "B" -> 2 [] OTHER -> 3
Ord(p) == SrcNo(p.src) * 10 + HNo(p.h)
PairCases == { Case(sg, "right", kd, 0, pq) : sg \in {1, 2}, kd \in VoteKinds,
                                               pq \in { x \in PairAlphabet \X PairAlphabet : Ord(x[1]) <= Ord(x[2]) } }
\* shapes that vary everything else
Shapes == { <<P("prevote", "A"), P("prevote", "B")>>,                 \* real equivocation
            <<P("prevote", "A"), P("nextindex", "E")>>,               \* honest prevote + honest next-index vote
            <<P("precommit", "B"), P("precommit", "B")>>,             \* one vote listed twice
            <<P("prevote", "A")>>,                                    \* a single pair
            <<P("prevote", "A"), P("prevote", "B"), P("forged", "A")>>,
            <<P("certificate", "A"), P("certificate", "B"), P("certificate", "A")>> }
VaryCases == { Case(sg, ix, kd, ro, sh) : sg \in {1, 2, 3}, ix \in {"right", "wrong", "oor", "wrongset"}, kd \in {"prevote", "certificate"},
                                           ro \in {-4, -1, 0, 1}, sh \in Shapes }
ListCases == { Case(2, "right", "prevote", 0, <<P("prevote", "A"), P("prevote", "B")>>),
               Case(2, "right", "precommit", 0, <<P("precommit", "A"), P("precommit", "B")>>),
               Case(1, "right", "certificate", 0, <<P("certificate", "A"), P("certificate", "B")>>),
               Case(1, "right", "prevote", 0, <<P("prevote", "A"), P("nextindex", "E")>>),
               Case(2, "wrong", "prevote", 0, <<P("prevote", "A"), P("prevote", "B")>>),
               Case(2, "right", "prevote", 1, <<P("prevote", "A"), P("prevote", "B")>>),
               Case(2, "right", "prevote", -1, <<P("prevote", "A"), P("prevote", "B")>>),
               Case(3, "right", "prevote", 0, <<P("prevote", "B"), P("forged", "A")>>),
               Case(2, "right", "prevote", 1, <<P("precommit", "A"), P("precommit", "B")>>),
               \* decoys: bogus evidences that name a validator's index without proving anything against it; lists put them
               \* before and after a genuine evidence against the same validator (and against another one)
               Case(2, "right", "prevote", 0, <<P("prevote", "A"), P("forged", "B")>>),
               Case(2, "right", "precommit", 0, <<P("garbage", "A"), P("garbage", "B")>>),
               Case(1, "wrong", "prevote", 0, <<P("prevote", "A"), P("prevote", "B")>>),      \* v1's signatures, v2's index
               Case(1, "right", "certificate", 0, <<P("certificate", "A"), P("otherkey", "B")>>),
               \* signature bytes re-used: one honest vote and its own bytes under another hash in ONE blob; and a blob made only of
               \* re-used bytes, which lists put after an evidence (accepted or rejected) in which the genuine pair was verified --
               \* the verdict on an evidence must not depend on what the same verifier has seen before
               Case(1, "right", "prevote", 0, <<P("prevote", "A"), P("reuseA", "B")>>),
               Case(2, "right", "prevote", 0, <<P("reuseA", "B"), P("reuseA", "E")>>) }

\* validator-set changes: a genuine equivocation of every identity (incl. the new validator v6 and the removed v5, v7), for
\* every kind, with the index from the prescribed set and with the index from the other look-back set
SetCases == { Case(sg, ix, kd, 0, <<P(kd, "A"), P(kd, "B")>>) : sg \in 1..NV, ix \in {"right", "wrongset"}, kd \in {"prevote", "precommit", "certificate"} }
Cases == IF Alphabet = "pairs" THEN PairCases \cup VaryCases \cup SetCases ELSE IF Alphabet = "sets" THEN SetCases ELSE ListCases

SeqsUpTo(S, n) == UNION { [1..m -> S] : m \in 0..n }

Init == /\ vals = InitVals /\ wq = InitWq /\ pen = 0 /\ k = 0 /\ pending = <<>>
        /\ last = [kk |-> -1] /\ all = <<>> /\ hist = <<>>

Next == \/ k = 0 /\ \E new \in SeqsUpTo(Cases, MaxEv1) : (Alphabet \in {"pairs", "sets"} => Len(new) = 1) /\ Block(new)
        \/ k = 1 /\ Blocks = 2 /\ \E new \in SeqsUpTo(Cases, MaxEv2) : Block(new)
Spec == Init /\ [][Next]_vars

\* ---------------------------------------------------------------- property layer
\* the votes the key holder v emitted, as far as the submitted cases show them: (kind, hash, round, index)
VotesOf(v, cs) == UNION { { [kd |-> cs[i].pairs[j].src, h |-> cs[i].pairs[j].h, r |-> cs[i].roff, ri |-> cs[i].ri] :
                                j \in { m \in DOMAIN cs[i].pairs : cs[i].pairs[m].src \in VoteKinds } } :
                            i \in { n \in DOMAIN cs : cs[n].signer = v } }
HashesOf(vs, kd, r, ri) == { x.h : x \in { y \in vs : y.kd = kd /\ y.r = r /\ y.ri = ri } }
\* an honest voter: at most one prevote, one precommit, one certificate vote per (round, index), each for a block; up to
\* two next-index votes, possibly for different hashes including the empty one
Honest(v, cs) == LET vs == VotesOf(v, cs) IN
   \A x \in vs : /\ (x.kd # "nextindex" => Cardinality(HashesOf(vs, x.kd, x.r, x.ri)) <= 1 /\ x.h # "E")
                 /\ (x.kd = "nextindex" => Cardinality(HashesOf(vs, x.kd, x.r, x.ri)) <= 2)
\* "Evidence of two different same-kind votes by one validator in one round/index"
RealEquivocation(c, kk) == /\ c.roff = kk /\ c.target = c.signer /\ c.target # 0 /\ c.kind \in {"prevote", "precommit", "certificate"}
                           /\ Len(c.pairs) = 2 /\ c.pairs[1].src = c.kind /\ c.pairs[2].src = c.kind
                           /\ c.pairs[1].h # c.pairs[2].h /\ c.pairs[1].h # "E" /\ c.pairs[2].h # "E"

RECURSIVE SumFin(_, _)
SumFin(q, T) == IF T = {} THEN 0 ELSE LET i == CHOOSE x \in T : TRUE IN q[i].fin + SumFin(q, T \ {i})
Pending(q, v) == SumFin(q, { i \in DOMAIN q : q[i].v = v /\ q[i].done = 0 })
\* per unfinished record of v the decrease of its balance (a record released at the end of the block lost nothing)
SameRec(a, b) == a.v = b.v /\ a.d = b.d /\ a.ch = b.ch
PostFin(r, postq) == IF \E j \in DOMAIN postq : SameRec(postq[j], r) THEN postq[CHOOSE j \in DOMAIN postq : SameRec(postq[j], r)].fin ELSE 0
RECURSIVE SumTaken(_, _, _)
SumTaken(q, T, postq) == IF T = {} THEN 0 ELSE LET i == CHOOSE x \in T : TRUE IN (q[i].fin - PostFin(q[i], postq)) + SumTaken(q, T \ {i}, postq)
TakenW(pre, post, v) == SumTaken(pre.wq, { i \in DOMAIN pre.wq : pre.wq[i].v = v /\ pre.wq[i].done = 0 }, post.wq)
Taken(pre, post, v) == (pre.vals[v].token - post.vals[v].token) + TakenW(pre, post, v)
Penalised(pre, post, v) == Taken(pre, post, v) > 0 \/ (post.vals[v].expelled /\ ~pre.vals[v].expelled) \/ post.vals[v].status # pre.vals[v].status
Paths == {"seal", "raw", "imp"}
PostOf(path) == CASE path = "seal" -> last.seal [] path = "raw" -> last.raw [] OTHER -> last.imp

Cex(name) == PrintT("@@J " \o ToJson([kind |-> "CEX", clause |-> name, frac |-> Frac, h |-> hist])) /\ FALSE
Judged == last.kk >= 0

\* "No double-sign evidence that can be assembled from the votes an honest validator emits is ever accepted, so a validator
\*  that follows the protocol never loses stake or gets expelled for double-signing"
HonestNeverSlashable ==
   Judged => \A v \in 1..NV : Honest(v, all) => \/ \A p \in Paths : ~Penalised(last.pre, PostOf(p), v)
                                                  \/ Known
                                                  \/ Cex("HonestNeverSlashable")
\* what remains of it when the known finding is searched past: only signatures of the accused validator's own key count
OnlyOwnSignatures ==
   Judged => \A v \in 1..NV : (\E p \in Paths : Penalised(last.pre, PostOf(p), v)) =>
                 \/ \E i \in DOMAIN last.list : LET c == last.list[i] IN c.target = v /\ c.signer = v /\ c.roff = last.kk /\ Len(c.pairs) >= 2
                                                                        /\ \A j \in DOMAIN c.pairs : c.pairs[j].src \in VoteKinds
                 \/ Cex("OnlyOwnSignatures")
\* "Evidence of two different same-kind votes ... is accepted by block builder and block validator alike"
RealEquivocationAccepted ==
   Judged => \A i \in DOMAIN last.list : RealEquivocation(last.list[i], last.kk) =>
                 \/ \A p \in Paths : LET post == PostOf(p) v == last.list[i].target IN
                                       post.vals[v].expelled /\ post.vals[v].status = 0 /\ Taken(last.pre, post, v) > 0
                 \* known finding: a validator removed since the look-back block (its withdrawal still pending) is not penalised
                 \/ (Known /\ ~last.pre.vals[last.list[i].target].exists)
                 \/ Cex("RealEquivocationAccepted")
\* "penalises that validator once"
SlashedOnce ==
   Judged => \/ \A v \in 1..NV : Cardinality({ i \in DOMAIN last.logs : last.logs[i].val = v }) <= 1
                               /\ Cardinality({ i \in DOMAIN last.rawLogs : last.rawLogs[i].val = v }) <= 1
             \/ Cex("SlashedOnce")
\* "never takes more than the configured fraction of its stake and pending withdrawals"
PenaltyBounded ==
   Judged => \/ \A v \in 1..NV : \A p \in Paths :
                   Taken(last.pre, PostOf(p), v) <= (Frac * (last.pre.vals[v].token + Pending(last.pre.wq, v))) \div 100
             \/ Cex("PenaltyBounded")
\* WHERE a penalty comes from ("its stake and pending withdrawals"): only what belongs to a validator against which an evidence
\* with its own signatures was presented -- its own stake and withdraw records, the delegations to it and the delegators'
\* withdraw records against IT -- compared per record; and, per owner (the validator itself / each delegator), the unfinished
\* withdraw records first: a stake or delegation is reduced only when all of that owner's records of the validator are empty
AccusedOwn == { last.list[i].target : i \in { n \in DOMAIN last.list : LET c == last.list[n] IN
                   c.roff = last.kk /\ c.target = c.signer /\ c.target # 0 /\ Len(c.pairs) >= 2 /\ \A j \in DOMAIN c.pairs : c.pairs[j].src \in VoteKinds } }
DlgTok(val, d) == IF \E i \in DOMAIN val.dl : val.dl[i].d = d THEN val.dl[CHOOSE i \in DOMAIN val.dl : val.dl[i].d = d].token ELSE 0
SourceOK(pre, post) ==
   /\ \A i \in DOMAIN pre.wq : (pre.wq[i].done = 0 /\ pre.wq[i].fin - PostFin(pre.wq[i], post.wq) > 0) => pre.wq[i].v \in AccusedOwn
   /\ \A v \in 1..NV : v \notin AccusedOwn => post.vals[v] = pre.vals[v]
   /\ \A v \in AccusedOwn :
         /\ (pre.vals[v].selfToken > post.vals[v].selfToken) =>
               \A i \in DOMAIN pre.wq : (pre.wq[i].v = v /\ pre.wq[i].d = 0 /\ pre.wq[i].done = 0) => PostFin(pre.wq[i], post.wq) = 0
         /\ \A n \in DOMAIN pre.vals[v].dl : LET d == pre.vals[v].dl[n].d IN
               (pre.vals[v].dl[n].token > DlgTok(post.vals[v], d)) =>
                  \A i \in DOMAIN pre.wq : (pre.wq[i].v = v /\ pre.wq[i].d = d /\ pre.wq[i].done = 0) => PostFin(pre.wq[i], post.wq) = 0
PenaltySource == Judged => (\A p \in Paths : SourceOK(last.pre, PostOf(p))) \/ Cex("PenaltySource")
\* "accepted by block builder and block validator alike"
BuilderEqualsValidator ==
   Judged => (last.seal = last.imp /\ last.seal = last.raw) \/ Cex("BuilderEqualsValidator")

\* ---------------------------------------------------------------- generation
Done == k = Blocks
Leaf == (GenMode = "leaf" /\ Done) => PrintT("@@J " \o ToJson([kind |-> "B", h |-> [frac |-> Frac, blocks |-> hist]]))
View == <<vals, wq, pen, k, pending, last, all>>
=============================================================================
