-------------------------- MODULE VoteCount_Trace --------------------------
(***************************************************************************)
(* Conformance of the real ucon engine to the design layer of              *)
(* VoteCount.tla (drift, never a verdict): every recorded event is         *)
(* re-executed as the model run of the same name with the logged arguments *)
(* and the model's next state must project onto the recorded projection of *)
(* the real voter: current index, step, the latches precommitted/committed,*)
(* the chamber tallies of the current wrapper for both proposals, the own  *)
(* votes that left the node during the event, the packed precommit sets   *)
(* of its CommitEvents and, at an index change, the cached vote messages   *)
(* the real handler replayed.                                              *)
(***************************************************************************)
EXTENDS VoteCount

TraceLog == ndJsonDeserialize("trace.ndjson")
VARIABLE l
tvars == <<vars, l>>
SetOf(q) == { q[n] : n \in DOMAIN q }
BSeq == <<"A", "B">>

Matches(e, x) ==
   LET o == e.obs IN
   /\ o.i = x.i /\ o.step = x.step /\ o.pc = x.pc /\ o.cm = x.cm /\ o.cd = x.cd
   /\ \A k \in K3 : \A n \in 1..2 : BSeq[n] \in Blocks => o.cnt[k][n] = x.wr[x.i].cnt[k][BSeq[n]]
   /\ { <<y.k, y.i, y.b>> : y \in { z \in SetOf(e.sent) : z.k \in K3 } }
        = { <<x.out[n].k, x.out[n].i, x.out[n].b>> : n \in { m \in DOMAIN x.out : x.out[m].t = "V" } }
   /\ { <<c.i, c.b, SetOf(c.pre)>> : c \in SetOf(e.commits) }
        = { <<x.out[n].i, x.out[n].b, x.out[n].pre>> : n \in { m \in DOMAIN x.out : x.out[m].t = "C" } }

IsEvent(name) == l <= Len(TraceLog) /\ TraceLog[l].ev = name /\ l' = l + 1
Frame == UNCHANGED <<dl, dln, df, ownv, flags, nmsg, nlost, justc, hist>>
Take(e, x) == Matches(e, x) /\ v' = [x EXCEPT !.out = <<>>]

FreshV == [i |-> 1, step |-> 0, pc |-> FALSE, cd |-> FALSE, cm |-> FALSE, over |-> {}, wr |-> [ii \in 1..MaxI |-> EmptyWrapper],
           gone |-> [ii \in 1..MaxI |-> EmptyWrapper],
           cache |-> [ii \in 1..MaxI |-> <<>>], out |-> <<>>]
TReset == (IsEvent("reset") \/ IsEvent("abort")) /\ v' = FreshV /\ Frame
TCfg == IsEvent("Cfg") /\ Take(TraceLog[l], FreshV) /\ Frame
TStep == /\ IsEvent("Step") /\ LET e == TraceLog[l] IN
            IF e.st = 2 THEN Take(e, OwnVote([v EXCEPT !.step = 2], "Prevote", e.best)) ELSE Take(e, [v EXCEPT !.step = e.st])
         /\ Frame
TNextIdx == /\ IsEvent("NextIdx")
            /\ LET e == TraceLog[l]
                   x == Advance(v)
                   q == x.cache[x.i]
               IN /\ Take(e, ReplayCached(x))
                  \* the messages the real handler replayed, in the driver's order
                  /\ [n \in 1..Len(OfKind(q, "Prevote") \o OfKind(q, "Precommit")) |-> (OfKind(q, "Prevote") \o OfKind(q, "Precommit"))[n]]
                       = (IF "replayed" \in DOMAIN e THEN [n \in 1..Len(e.replayed) |-> [k |-> e.replayed[n].k, s |-> e.replayed[n].s, b |-> e.replayed[n].b]] ELSE <<>>)
            /\ Frame
TRecv == /\ IsEvent("Recv") /\ LET e == TraceLog[l] IN Take(e, RecvAs(v, e.s, e.k, e.b, e.i, e.cred, IF "as" \in DOMAIN e THEN e.as ELSE "judged"))
         /\ Frame

TInit == Init /\ l = 1 /\ TLCSet(1, 0)
TNext == TReset \/ TCfg \/ TStep \/ TNextIdx \/ TRecv
TSpec == TInit /\ [][TNext]_tvars

HighWater == /\ TLCSet(1, IF TLCGet(1) < l THEN l ELSE TLCGet(1))
             /\ ((l = Len(TraceLog) + 1) => PrintT("@@J " \o ToJson([kind |-> "ACCEPTED", events |-> Len(TraceLog)])))
Accepted == IF TLCGet(1) = Len(TraceLog) + 1 THEN TRUE
            ELSE PrintT("@@J " \o ToJson([kind |-> "REJECTED", line |-> TLCGet(1), event |-> TraceLog[TLCGet(1)]]))
=============================================================================
