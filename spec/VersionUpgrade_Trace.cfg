SPECIFICATION TSpec
CONSTANTS
  Fixed = FALSE
CONSTRAINT HighWater
POSTCONDITION Accepted
CHECK_DEADLOCK FALSE
