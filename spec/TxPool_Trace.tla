---------------------------- MODULE TxPool_Trace ----------------------------
(***************************************************************************)
(* Conformance of the real core.TxPool to the design layer of TxPool.tla:  *)
(* every recorded event is re-executed as the model action of the same     *)
(* name (synchronous alphabet) with the logged arguments; the model's next *)
(* state -- one of the outcomes where the code's choice depends on heap or *)
(* map order -- must project onto the logged views: pending and queued     *)
(* lists per account, virtual nonce, locals, price floor, chain state, size*)
(* of the lookup table, and the contents of the block a reset mined or     *)
(* abandoned.  Traces are concatenated; "reset" starts the next one.       *)
(***************************************************************************)
EXTENDS TxPool

TraceLog == ndJsonDeserialize("trace.ndjson")
VARIABLE l
tvars == <<vars, l>>

SetOf(q) == { q[i] : i \in DOMAIN q }
TxSetOf(a, q) == { [a |-> a, n |-> q[i][1], p |-> q[i][2], v |-> q[i][3]] : i \in DOMAIN q }
RecSet(q) == { [a |-> q[i].a, n |-> q[i].n, p |-> q[i].p, v |-> q[i].v] : i \in DOMAIN q }

Matches(e) ==
   LET o == e.obs IN
   /\ \A a \in Accts : /\ s'.pend[a] = TxSetOf(a, o.pend[a])
                       /\ s'.que[a] = TxSetOf(a, o.que[a])
                       /\ PN(s', a) = o.nonce[a]
                       /\ s'.sn[a] = o.sn[a] /\ s'.sb[a] = o.sb[a]
   /\ s'.loc = SetOf(o.loc)
   /\ s'.gp = o.gp
   /\ Cardinality(s'.all) = o.int[1]

IsEvent(name) == l <= Len(TraceLog) /\ TraceLog[l].ev = name /\ l' = l + 1

InitPool == [pend |-> [a \in Accts |-> {}], que |-> [a \in Accts |-> {}], all |-> {}, loc |-> {},
             pn |-> [a \in Accts |-> -1], sn |-> [a \in Accts |-> 0], sb |-> [a \in Accts |-> 4], gp |-> 1]

TReset == /\ (IsEvent("reset") \/ IsEvent("abort"))
          /\ s' = InitPool /\ work' = NoWork /\ last' = <<>> /\ nops' = 0 /\ goal' = FALSE /\ arr' = <<>>
          /\ dem' = [acc |-> {}, glob |-> FALSE, gap |-> {}] /\ hist' = <<>>

TInit == /\ IsEvent("Init")
         /\ LET a == TraceLog[l].args IN a.na = Cardinality(Accts) /\ a.as = AS /\ a.gs = GS /\ a.aq = AQ /\ a.gq = GQ /\ a.bump = Bump
         /\ UNCHANGED vars

Act(e) == LET a == e.args IN
   CASE e.ev = "AddSync"     -> AddSync(a.ts, a.local)
     [] e.ev = "ResetSync"   -> ResetSync(a.a, a.n, a.b) /\ (IF last' = <<>> THEN e.res.mined = <<>> ELSE RecSet(e.res.mined) = last'[2])
     [] e.ev = "ResetBack"   -> ResetBack /\ RecSet(e.res.reinj) = last[2]
     [] e.ev = "SetGasPrice" -> SetGasPrice(a.p)
     [] e.ev = "Evict"       -> Evict
     [] OTHER -> FALSE

TStep == /\ l <= Len(TraceLog)
         /\ TraceLog[l].ev \notin {"reset", "abort", "Init"}
         /\ l' = l + 1
         /\ LET e == TraceLog[l] IN
            /\ ~("panic" \in DOMAIN e)
            /\ Act(e)
            /\ Matches(e)

TInitState == Init /\ l = 1 /\ TLCSet(1, 0)
TNext == TReset \/ TInit \/ TStep
TSpec == TInitState /\ [][TNext]_tvars

HighWater == /\ TLCSet(1, IF TLCGet(1) < l THEN l ELSE TLCGet(1))
             /\ ((l = Len(TraceLog) + 1) => PrintT("@@J " \o ToJson([kind |-> "ACCEPTED", events |-> Len(TraceLog)])))
Accepted == IF TLCGet(1) = Len(TraceLog) + 1 THEN TRUE
            ELSE PrintT("@@J " \o ToJson([kind |-> "REJECTED", line |-> TLCGet(1), event |-> TraceLog[TLCGet(1)]]))
=============================================================================
