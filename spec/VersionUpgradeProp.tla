------------------------- MODULE VersionUpgradeProp -------------------------
(***************************************************************************)
(* C12 -- pure operators shared by VersionUpgrade (design checking and     *)
(* generation), VersionUpgrade_Mon (the verdict) and VersionUpgrade_Trace  *)
(* (conformance).  No variables, no constants.                             *)
(*                                                                         *)
(* A header is [n, cv, nv, ap, vb, so] = Number, CurrVersion, NextVersion, *)
(* NextApprovals, NextVoteBefore, NextSwitchOn of core/types.Header.        *)
(* A parameter set is P = [vr, th, minw, maxw] = UpgradeVoteRounds,         *)
(* UpgradeThreshold, MinUpgradeWaitRounds, MaxUpgradeWaitRounds of the      *)
(* protocol version of the PREVIOUS header (the fixtures give every version *)
(* the same four numbers).  K is the set of locally known versions (the    *)
(* keys of params.Versions).                                               *)
(***************************************************************************)
EXTENDS Integers, Sequences, FiniteSets

Vers  == {1, 2, 9}                \* version numbers used by the fixtures
Vers0 == Vers \cup {0}
\* ApprovedUpgradeVersion of version v in the fixture's table when the node approves upgrades
Approved(v) == IF v = 1 THEN 2 ELSE IF v = 2 THEN 9 ELSE 0

\* the upgrade parameters are those of the ACTIVE version (prevProto = params.Versions[prev.CurrVersion] in both Go
\* functions).  A parameter set is either one record [vr, th, minw, maxw] for every version, or [p1, p2, p9] with one record
\* per version of the fixture.
PV(PP, cv) == IF "p1" \in DOMAIN PP THEN (CASE cv = 1 -> PP.p1 [] cv = 2 -> PP.p2 [] OTHER -> PP.p9) ELSE PP

Hdr(n, cv, nv, ap, vb, so) == [n |-> n, cv |-> cv, nv |-> nv, ap |-> ap, vb |-> vb, so |-> so]
Genesis == Hdr(0, 1, 0, 0, 0, 0)
NoHdr   == Hdr(0, 0, 0, 0, 0, 0)   \* "the builder returned an error" (cv = 0 is not a version)
Cleared(c) == c.nv = 0 /\ c.vb = 0 /\ c.so = 0 /\ c.ap = 0
Clear(c) == [c EXCEPT !.nv = 0, !.vb = 0, !.so = 0, !.ap = 0]

\* candidate successors of p with all fields in 0..F
Cand(p, F) == [n : {p.n + 1}, cv : Vers, nv : Vers0, ap : 0..F, vb : 0..F, so : 0..F]

(***************************************************************************)
(* DESIGN LAYER: the two Go functions as coded.                            *)
(***************************************************************************)
\* core.VerifyYouVersionState(prev, curr): "ok" (nil), "reject" (error) or "crit" (logging.Crit: the node halts).
\* fixed = TRUE models the repair proposed in the report (used to show that the repaired design has no deviation).
Verify(P, K, p, c, fixed) ==
  IF p.cv \notin K THEN "crit"
  ELSE IF p.so = c.n /\ (~fixed \/ p.ap >= P.th)
  THEN \* 1. an upgrade
       IF p.nv # c.cv THEN "reject"
       ELSE IF ~Cleared(c) THEN "reject"
       ELSE IF c.cv \notin K THEN "crit" ELSE "ok"
  ELSE IF c.cv # p.cv THEN "reject"
  ELSE IF p.nv # 0
  THEN IF c.nv = 0
       THEN \* 2.1 a failed proposal
            IF p.vb = c.n /\ p.ap < P.th /\ c.ap = 0 /\ c.vb = 0 /\ c.so = 0 THEN "ok" ELSE "reject"
       ELSE \* 2.2 still on-going
            IF ~fixed
            THEN IF /\ c.nv = p.nv
                    /\ (c.ap < P.th => (c.vb = p.vb /\ c.vb > c.n))
                    /\ c.ap \in {p.ap, p.ap + 1}
                    /\ c.so = p.so
                 THEN "ok" ELSE "reject"
            ELSE IF /\ c.nv = p.nv /\ c.vb = p.vb /\ c.so = p.so
                    /\ IF c.n < p.vb THEN c.ap \in {p.ap, p.ap + 1}
                                     ELSE c.ap = p.ap /\ p.ap >= P.th
                 THEN "ok" ELSE "reject"
  ELSE IF c.nv # 0
       THEN \* 3. a new proposal
            IF /\ c.vb = c.n + P.vr
               /\ c.so >= c.vb + P.minw
               /\ c.so <= c.vb + P.maxw
               /\ c.ap = 1
            THEN "ok" ELSE "reject"
       ELSE \* 4. no proposal
            IF c.ap = 0 /\ c.vb = 0 /\ c.so = 0 THEN "ok" ELSE "reject"

\* core.ProcessYouVersionState(prev, curr) on a fresh curr.  appr = 1: this node's table carries ApprovedUpgradeVersion;
\* wait = UpgradeWaitRounds of the proposed version.  NoHdr = the function returned an error.
BuilderNext(P, K, appr, wait, p) ==
  LET round == p.n + 1
      av == IF appr = 1 THEN Approved(p.cv) ELSE 0
      propose == p.nv = 0 /\ av > 0
  IN IF p.cv \notin K THEN NoHdr
     ELSE IF propose /\ av \notin K THEN NoHdr
     ELSE IF propose /\ wait > P.minw /\ wait > P.maxw THEN NoHdr
     ELSE LET w == IF wait > P.minw THEN wait ELSE P.minw
              approve == p.nv # 0 /\ round < p.vb /\ p.nv \in K
              c0 == IF propose
                    THEN Hdr(round, p.cv, av, 1, round + P.vr, round + P.vr + w)
                    ELSE IF p.nv # 0
                         THEN Hdr(round, p.cv, p.nv, IF approve THEN p.ap + 1 ELSE p.ap, p.vb, p.so)
                         ELSE Hdr(round, p.cv, 0, 0, 0, 0)
              c1 == IF round = c0.vb /\ c0.ap < P.th THEN Clear(c0) ELSE c0
              c2 == IF round = c1.so THEN [Clear(c1) EXCEPT !.cv = c1.nv] ELSE c1
          IN c2

(***************************************************************************)
(* PROPERTY LAYER, pairwise: SafeStep(P, p, c) for an accepted successor c *)
(* of p.  Each clause restates one phrase of the statement:                *)
(*  "the active protocol version changes only at the round announced by an *)
(*   upgrade proposal that collected at least the approval threshold       *)
(*   within its voting window, with each block adding at most one          *)
(*   approval, and never earlier than the minimum waiting period after the *)
(*   window closes."                                                       *)
(* The voting window of a proposal first seen in round b is the rounds     *)
(* b .. vb-1 with vb = b + vote rounds ("NextVoteBefore").                  *)
(***************************************************************************)
Switch(p, c) == c.cv # p.cv
Birth(p, c)  == c.nv # 0 /\ (p.nv = 0 \/ Switch(p, c))   \* c is the first header carrying a proposal (a switch consumes p's)
Cont(p, c)   == ~Switch(p, c) /\ p.nv # 0 /\ c.nv # 0     \* the proposal of p is still alive in c

PairClauses == {"SwitchOnlyWithQuorum", "SwitchAtAnnouncedRound", "SwitchConsumesProposal", "MinWaitRespected", "WindowLength",
                "ApprovalStep", "ApprovalInWindow", "WindowImmutable", "FailedProposalDropped"}

\* "changes only ... [by] a proposal that collected at least the approval threshold"
SwitchOnlyWithQuorum(P, p, c)   == Switch(p, c) => (p.nv # 0 /\ c.cv = p.nv /\ p.ap >= P.th)
\* "changes only at the round announced"
SwitchAtAnnouncedRound(P, p, c) == Switch(p, c) => (p.nv # 0 /\ c.n = p.so)
\* the block that switches carries no proposal: "its voting window", "the minimum waiting period" are those of the version that
\* is active when the proposal is first seen; a proposal inside the switching block would belong to neither version's rules
\* (interpretation note; the verifier demands cleared fields there)
SwitchConsumesProposal(P, p, c) == Switch(p, c) => c.nv = 0
\* "never earlier than the minimum waiting period after the window closes": the announced switch round respects it
\* (with WindowImmutable and SwitchAtAnnouncedRound this gives the chain-level clause)
MinWaitRespected(P, p, c)       == Birth(p, c) => c.so >= c.vb + P.minw
\* "its voting window": vote-rounds rounds starting with the proposing block
WindowLength(P, p, c)           == Birth(p, c) => c.vb = c.n + P.vr
\* "each block adding at most one approval"
ApprovalStep(P, p, c)           == /\ Birth(p, c) => c.ap <= 1
                                   /\ Cont(p, c) => c.ap \in {p.ap, p.ap + 1}
\* "collected ... within its voting window"
ApprovalInWindow(P, p, c)       == (Cont(p, c) /\ c.ap > p.ap) => c.n < p.vb
\* "the round announced by an upgrade proposal", "its voting window": fixed by the proposal
WindowImmutable(P, p, c)        == Cont(p, c) => (c.nv = p.nv /\ c.vb = p.vb /\ c.so = p.so)
\* a proposal below the threshold when its window has closed cannot lead to a change: it is dropped
FailedProposalDropped(P, p, c)  == (~Switch(p, c) /\ p.nv # 0 /\ c.n >= p.vb /\ p.ap < P.th) => c.nv = 0

Holds(name, P, p, c) ==
  CASE name = "SwitchOnlyWithQuorum"   -> SwitchOnlyWithQuorum(P, p, c)
    [] name = "SwitchAtAnnouncedRound" -> SwitchAtAnnouncedRound(P, p, c)
    [] name = "SwitchConsumesProposal" -> SwitchConsumesProposal(P, p, c)
    [] name = "MinWaitRespected"       -> MinWaitRespected(P, p, c)
    [] name = "WindowLength"           -> WindowLength(P, p, c)
    [] name = "ApprovalStep"           -> ApprovalStep(P, p, c)
    [] name = "ApprovalInWindow"       -> ApprovalInWindow(P, p, c)
    [] name = "WindowImmutable"        -> WindowImmutable(P, p, c)
    [] name = "FailedProposalDropped"  -> FailedProposalDropped(P, p, c)

SafeStep(P, p, c) ==
   /\ SwitchOnlyWithQuorum(P, p, c) /\ SwitchAtAnnouncedRound(P, p, c) /\ SwitchConsumesProposal(P, p, c)
   /\ MinWaitRespected(P, p, c)
   /\ WindowLength(P, p, c) /\ ApprovalStep(P, p, c) /\ ApprovalInWindow(P, p, c)
   /\ WindowImmutable(P, p, c) /\ FailedProposalDropped(P, p, c)

\* discriminator: class attributes of the failing pair (a set of short strings; Python sorts and joins them)
Disc(name, P, p, c) ==
  CASE name = "SwitchOnlyWithQuorum" ->
          {IF p.nv = 0 THEN "no_proposal" ELSE IF c.cv # p.nv THEN "other_version" ELSE "below_threshold"}
          \cup (IF p.nv # 0 /\ p.so = p.vb THEN {"switch_on_equals_vote_before"} ELSE {})
    [] name = "SwitchAtAnnouncedRound" ->
          {IF p.nv = 0 THEN "no_proposal" ELSE IF c.n < p.so THEN "early" ELSE "late"}
    [] name = "MinWaitRespected" -> {"at_proposal"}
    [] name = "WindowLength" -> {IF c.vb < c.n + P.vr THEN "short" ELSE "long"}
    [] name = "ApprovalStep" ->
          {IF Birth(p, c) THEN "at_proposal" ELSE IF c.ap < p.ap THEN "decrease" ELSE "more_than_one"}
    [] name = "ApprovalInWindow" ->
          {IF c.n = p.vb THEN "at_vote_before" ELSE "after_vote_before",
           IF p.ap >= P.th THEN "already_passed" ELSE IF c.ap >= P.th THEN "reaches_threshold" ELSE "below_threshold"}
    [] name = "WindowImmutable" ->
          (IF c.nv # p.nv THEN {"version_changed"} ELSE {})
          \cup (IF c.vb # p.vb THEN {"vote_before_changed"} ELSE {})
          \cup (IF c.so # p.so THEN {"switch_on_changed"} ELSE {})
          \cup {IF c.ap >= P.th THEN "threshold_reached" ELSE "below_threshold"}
    [] name = "FailedProposalDropped" ->
          {IF c.n = p.vb THEN "at_vote_before" ELSE "after_vote_before",
           IF c.ap >= P.th THEN "approved_to_threshold" ELSE "kept_below_threshold"}
    [] OTHER -> {"any"}

FailingPair(P, p, c) == { name \in PairClauses : ~Holds(name, P, p, c) }

\* "Every header an honest block builder derives from its parent is accepted by the verifier."  own = verdict of the
\* verifier with the builder's own table, full = verdict of a verifier that knows every version.  A node whose table
\* lacks the version being switched to halts by design ("update the client", logging.Crit): that is neither acceptance
\* nor rejection of the header, so "crit" of the own verifier is exempt; the fully equipped verifier must accept.
BuilderAccepted(own, full) == own # "reject" /\ full = "ok"

\* "Every header an honest block builder derives from its parent is accepted by the verifier": class of what the builder
\* did, read off (p, out) only
BuilderDisc(p, out) ==
  {IF Switch(p, out) THEN "switch"
   ELSE IF p.nv = 0 THEN (IF out.nv # 0 THEN "propose" ELSE "idle")
   ELSE IF out.nv = 0 THEN "clear_failed"
   ELSE IF out.ap > p.ap THEN "approve" ELSE "carry"}
  \cup (IF p.nv # 0 /\ p.so = p.vb THEN {"switch_on_equals_vote_before"} ELSE {})

(***************************************************************************)
(* PROPERTY LAYER, chain level: the statement over a history of accepted   *)
(* headers.  The observable H records, for the proposal that is alive,     *)
(* what it announced in the block that first carried it and how many       *)
(* blocks inside the announced window added an approval; `dev` collects    *)
(* the pairwise clauses that failed while it was alive (the discriminator).*)
(***************************************************************************)
H0 == [born |-> 0, nv0 |-> 0, vb0 |-> 0, so0 |-> 0, inwin |-> 0, dev |-> {}]
BornAt(P, p, c) == [born |-> c.n, nv0 |-> c.nv, vb0 |-> c.vb, so0 |-> c.so,
                    inwin |-> IF c.ap >= 1 THEN 1 ELSE 0, dev |-> FailingPair(P, p, c)]

\* history after accepting c on top of p
Fold(P, H, p, c) ==
  IF Switch(p, c) THEN (IF c.nv # 0 THEN BornAt(P, p, c) ELSE H0)            \* the proposal is consumed
  ELSE IF p.nv = 0 THEN (IF c.nv # 0 THEN BornAt(P, p, c) ELSE H0)
  ELSE IF c.nv = 0 THEN H0                                                    \* dropped
  ELSE [H EXCEPT !.inwin = IF c.ap > p.ap /\ c.n < H.vb0 THEN @ + 1 ELSE @,
                 !.dev = @ \cup FailingPair(P, p, c)]

ChainClauses == {"ChainSwitchAnnounced", "ChainQuorumInWindow", "ChainMinWait"}
\* evaluated on a step p -> c that changes the version, H = history up to p
ChainHolds(name, P, H, p, c) ==
  CASE name = "ChainSwitchAnnounced" ->   \* "only at the round announced by an upgrade proposal"
          H.born # 0 /\ c.cv = H.nv0 /\ c.n = H.so0
    [] name = "ChainQuorumInWindow" ->    \* "that collected at least the approval threshold within its voting window,
                                          \*  with each block adding at most one approval" (blocks are counted)
          H.born # 0 /\ H.inwin >= P.th /\ H.vb0 = H.born + P.vr
    [] name = "ChainMinWait" ->           \* "never earlier than the minimum waiting period after the window closes"
          H.born # 0 /\ c.n >= H.vb0 + P.minw
FailingChain(P, H, p, c) == IF Switch(p, c) THEN { name \in ChainClauses : ~ChainHolds(name, P, H, p, c) } ELSE {}
ChainDisc(P, H, p, c) == LET d == H.dev \cup FailingPair(P, p, c) IN IF d = {} THEN {"no_pair_clause_failed"} ELSE d

\* ---------------------------------------------------------------- known findings (sets of discriminators per clause)
\* known = sequence of [clause |-> name, disc |-> sequence of strings]; a failure is known when a listed finding of the
\* same clause has all its discriminators among the observed ones (the rule of vlib.known_match)
SeqSet(q) == { q[i] : i \in DOMAIN q }
IsKnown(known, clause, D) == \E i \in DOMAIN known : known[i].clause = clause /\ SeqSet(known[i].disc) \subseteq D
=============================================================================
