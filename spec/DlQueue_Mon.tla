---------------------------- MODULE DlQueue_Mon ----------------------------
(***************************************************************************)
(* C18 property-layer monitor over traces recorded from the real           *)
(* you/downloader queue.  It cannot reject a trace: it folds the recorded  *)
(* events into the observables (how many headers were offered/accepted,    *)
(* which blocks Results handed out, in which order, with which body) and   *)
(* evaluates one named clause per sentence of the statement after every    *)
(* event.  Numbers are relative to the sync origin (first block = 1).      *)
(*                                                                         *)
(* Statement: "Whatever peers do, the download scheduler hands blocks to   *)
(* the importer strictly in ascending, gap-free order starting at the sync *)
(* origin [InOrderGapFree], each exactly once [EachOnce], and only with a  *)
(* transaction list that matches the header's transaction root             *)
(* [BodyMatchesHeader]; work taken by a peer that stalls, fails, lies or   *)
(* disconnects is handed to others [WorkNeverLost, NoDoubleAssign], so the *)
(* full range completes as long as some peer eventually answers honestly   *)
(* [CompletesWithHonestPeer]."                                             *)
(***************************************************************************)
EXTENDS Integers, Sequences, FiniteSets, TLC, Json

TraceLog == ndJsonDeserialize("trace.ndjson")

VARIABLES base,    \* origin of the current sync session (from the Reset events)
          l,       \* next line
          cfg,     \* the chain of the current trace: [n, body, w]
          sched,   \* ids of the headers the queue accepted for download
          nd,      \* number of results handed out
          dset,    \* ids of the headers handed out
          viol,    \* set of <<clause, discriminator set, line>>
          fired    \* per clause: how often its antecedent held
vars == <<base, l, cfg, sched, nd, dset, viol, fired>>

Clauses == {"InOrderGapFree", "EachOnce", "BodyMatchesHeader", "WorkNeverLost", "NoDoubleAssign", "CompletesWithHonestPeer", "NoPanic"}

Occ(s, h) == Cardinality({ n \in DOMAIN s : s[n] = h })
InFlight(pd, h) == LET F[ps \in SUBSET DOMAIN pd] ==
                          IF ps = {} THEN 0 ELSE LET p == CHOOSE x \in ps : TRUE IN Occ(pd[p], h) + F[ps \ {p}]
                   IN F[DOMAIN pd]

\* one batch of results r = sequence of <<number, body id, txroot matches, header is one of the chain's, header id, parent hash
\* is the hash of the header handed out just before (the origin for the first)>>, handed out when `have` results were out
\* already.  Each operator returns the set of discriminators of the failures.
OrderFails(r, have) == { IF r[i][1] > base + have + i THEN "gap" ELSE "back" : i \in { k \in DOMAIN r : r[k][1] # base + have + k } }
                       \cup { "link" : i \in { k \in DOMAIN r : ~r[k][6] } }
OnceFails(r, seen) == { "again" : i \in { k \in DOMAIN r : r[k][5] \in seen \/ \E m \in DOMAIN r : m # k /\ r[m][5] = r[k][5] } }
BodyFails(r) == { IF ~r[i][4] THEN "header" ELSE IF ~r[i][3] THEN "root" ELSE "body"
                    : i \in { k \in DOMAIN r : ~r[k][3] \/ ~r[k][4] \/ ~(r[k][5] \in DOMAIN cfg.body) \/ r[k][2] # cfg.body[r[k][5]] } }

\* "work ... is handed to others": every header accepted and not yet handed out is waiting in the task queue, in flight with
\* exactly one peer, or complete and waiting in the window -- exactly one of these
LostSet(o, sc, ds) == { h \in sc : h \notin ds /\ Occ(o.tq, h) + InFlight(o.pd, h) + (IF h \in { o.dn[i] : i \in DOMAIN o.dn } THEN 1 ELSE 0) # 1 }
DoubleSet(o) == { h \in DOMAIN cfg.body : InFlight(o.pd, h) > 1 }

EvDisc(e) == {e.ev} \cup (IF e.ev = "Deliver" THEN {e.args.v} ELSE {})

Init == base = 0 /\ l = 1 /\ cfg = [n |-> 0, body |-> <<>>, w |-> 0] /\ sched = {} /\ nd = 0 /\ dset = {} /\ viol = {}
        /\ fired = [c \in Clauses |-> 0]

\* a signature (clause, discriminator) is reported once, with the first line it failed at: the set stays small however
\* often a broken implementation fails
AddViol(new) == viol \cup { v \in new : ~\E w \in viol : w[1] = v[1] /\ w[2] = v[2] }

Bump(cs) == [c \in Clauses |-> IF c \in cs THEN fired[c] + 1 ELSE fired[c]]

\* fold a list of batches (the completion loop hands out several)
RECURSIVE FoldBatches(_, _, _, _)
FoldBatches(bs, i, have, acc) ==
   IF i > Len(bs) THEN [have |-> have, v |-> acc]
   ELSE LET r == bs[i] IN
        FoldBatches(bs, i + 1, have + Len(r),
                    acc \cup { <<"InOrderGapFree", {d}, l>> : d \in OrderFails(r, have) }
                        \cup { <<"BodyMatchesHeader", {d}, l>> : d \in BodyFails(r) })

AllNums(bs) == UNION { { bs[i][k][5] : k \in DOMAIN bs[i] } : i \in DOMAIN bs }
RECURSIVE Flatten(_, _)
Flatten(bs, i) == IF i > Len(bs) THEN <<>> ELSE bs[i] \o Flatten(bs, i + 1)

Step ==
   /\ l <= Len(TraceLog)
   /\ l' = l + 1
   /\ LET e == TraceLog[l] IN
      CASE e.ev = "reset" ->
              /\ cfg' = [n |-> 0, body |-> <<>>, w |-> 0] /\ sched' = {} /\ nd' = 0 /\ dset' = {} /\ base' = 0
              /\ UNCHANGED <<viol, fired>>
        [] e.ev = "Reset" ->
              \* a new session on the same queue: every clause is stated per session
              /\ base' = e.args.o /\ sched' = {} /\ nd' = 0 /\ dset' = {}
              /\ viol' = AddViol(IF "panic" \in DOMAIN e THEN { <<"NoPanic", {"Reset"}, l>> } ELSE {})
              /\ UNCHANGED <<cfg, fired>>
        [] e.ev = "abort" -> UNCHANGED <<base, cfg, sched, nd, dset, viol, fired>>
        [] e.ev = "Init" ->
              /\ cfg' = [n |-> e.args.n, body |-> e.args.body, w |-> e.args.w]
              /\ UNCHANGED <<base, sched, nd, dset, viol, fired>>
        [] "panic" \in DOMAIN e ->
              /\ viol' = AddViol({ <<"NoPanic", EvDisc(e), l>> })
              /\ fired' = Bump({"NoPanic"})
              /\ UNCHANGED <<base, cfg, sched, nd, dset>>
        [] e.ev = "Complete" /\ ~("panic" \in DOMAIN e) ->
              \* bounded liveness: timeouts fired and an honest peer kept answering; everything must have come out,
              \* in order, once, with the right bodies
              LET bs == e.res.b
                  f  == FoldBatches(bs, 1, nd, {})
                  fl == Flatten(bs, 1) IN
              /\ nd' = f.have
              /\ dset' = dset \cup AllNums(bs)
              /\ sched' = sched \cup ((base + 1)..cfg.n)
              /\ viol' = AddViol(f.v
                           \cup { <<"EachOnce", {d}, l>> : d \in OnceFails(fl, dset) }
                           \cup (IF f.have = cfg.n - base /\ ((base + 1)..cfg.n) \subseteq dset' THEN {} ELSE { <<"CompletesWithHonestPeer", {"incomplete"}, l>> })
                           \cup { <<"WorkNeverLost", {"Complete"}, l>> : h \in LostSet(e.obs, sched', dset') })
              /\ fired' = Bump({"CompletesWithHonestPeer"} \cup (IF Len(fl) > 0 THEN {"InOrderGapFree", "EachOnce", "BodyMatchesHeader"} ELSE {}))
              /\ UNCHANGED <<base, cfg>>
        [] e.ev = "LoopEnd" ->
              \* the real fetchBodies/fetchParts loop returned: with an honest peer connected it must not have given up, and
              \* the consumer must have received the whole range
              /\ viol' = AddViol(IF e.args.honest /\ (e.res.err # "nil" \/ nd # cfg.n - base \/ ~(((base + 1)..cfg.n) \subseteq dset))
                                 THEN { <<"CompletesWithHonestPeer", {"loop", e.res.err}, l>> } ELSE {})
              /\ fired' = Bump(IF e.args.honest THEN {"CompletesWithHonestPeer"} ELSE {})
              /\ UNCHANGED <<base, cfg, sched, nd, dset>>
        [] OTHER ->
              LET r   == IF e.ev \in {"Results", "LoopResults"} THEN e.res.r ELSE <<>>
                  hasObs == "obs" \in DOMAIN e
                  sc  == IF e.ev = "Schedule" THEN sched \cup { e.res.acc[i] : i \in DOMAIN e.res.acc } ELSE sched
                  ds  == dset \cup { r[i][5] : i \in DOMAIN r } IN
              /\ sched' = sc /\ nd' = nd + Len(r) /\ dset' = ds
              /\ viol' = AddViol(
                        { <<"InOrderGapFree", {d}, l>> : d \in OrderFails(r, nd) }
                   \cup { <<"EachOnce", {d}, l>> : d \in OnceFails(r, dset) }
                   \cup { <<"BodyMatchesHeader", {d}, l>> : d \in BodyFails(r) }
                   \* a chunk offered in chain order must be taken up entirely, otherwise the range cannot complete
                   \cup (IF e.ev = "Schedule" /\ e.args.v = "ok" /\ e.res.ins # Len(e.args.chunk) THEN { <<"WorkNeverLost", {"Schedule", "refused"}, l>> } ELSE {})
                   \cup (IF hasObs THEN { <<"WorkNeverLost", EvDisc(e), l>> : h \in LostSet(e.obs, sc, ds) } ELSE {})
                   \cup (IF hasObs THEN { <<"NoDoubleAssign", EvDisc(e), l>> : h \in DoubleSet(e.obs) } ELSE {}))
              /\ fired' = Bump((IF Len(r) > 0 THEN {"InOrderGapFree", "EachOnce", "BodyMatchesHeader"} ELSE {})
                               \cup (IF hasObs /\ sc \ ds # {} THEN {"WorkNeverLost"} ELSE {})
                               \cup (IF hasObs /\ \E p \in DOMAIN e.obs.pd : Len(e.obs.pd[p]) > 0 THEN {"NoDoubleAssign"} ELSE {}))
              /\ UNCHANGED <<base, cfg>>

Spec == Init /\ [][Step]_vars

Done == (l = Len(TraceLog) + 1) =>
          PrintT("@@J " \o ToJson([kind |-> "RESULT", events |-> Len(TraceLog), viol |-> viol, fired |-> fired]))
=============================================================================
