SPECIFICATION TSpec
CONSTANTS
  MaxR = 3
  MaxI = 3
  Blocks = {"A", "B"}
  MaxCrash = 100
  CertRounds = {}
  QKinds = {"Prevote", "Precommit", "Next", "Cert"}
  MaxQ = 100
  Repair = {"certReload", "replayMoves", "noBackward"}
  Mode = "G"
  MaxOps = 1000000
  GVAfter = 0
  StepSet = {2, 4, 5}
  Back = TRUE
  Weaken = FALSE
CONSTRAINT HighWater
POSTCONDITION Accepted
CHECK_DEADLOCK FALSE
