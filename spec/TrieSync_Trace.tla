--------------------------- MODULE TrieSync_Trace ---------------------------
(***************************************************************************)
(* Conformance of the real trie.Sync to the design layer of TrieSync.tla:  *)
(* every recorded call is re-executed as the model action of the same name *)
(* with the logged arguments (for Missing: the logged answer resolves the   *)
(* model's nondeterministic choice) and the model's next state must project *)
(* onto what was logged: Pending(), the error class/index and the committed *)
(* flag of Process, the number of entries written by Commit, and the set of *)
(* node ids in the destination database.  Failure is reported as DRIFT.     *)
(***************************************************************************)
EXTENDS TrieSync

TraceLog == ndJsonDeserialize("trace.ndjson")
VARIABLE l
tvars == <<vars, l>>

Has(e, f) == f \in DOMAIN e
Pending == Cardinality(reqd')
DestOk(e) == SetOf(e.dest) = SetOf(db')

TBegin ==
   /\ l <= Len(TraceLog) /\ TraceLog[l].ev \in {"reset", "Begin", "abort"} /\ l' = l + 1
   /\ LET e == TraceLog[l] IN
      IF e.ev = "Begin"
      THEN /\ d' = e.dag /\ db' = <<>> /\ faults' = 0 /\ hist' = <<>>
           /\ req' = [n \in 1..DagTable[e.dag].n |-> Blank] /\ reqd' = {Root} /\ queue' = {Root}
           /\ flight' = {} /\ mem' = <<>> /\ last' = NoResult
           /\ e.pending = 1
      ELSE UNCHANGED vars

TStep ==
   /\ l <= Len(TraceLog) /\ TraceLog[l].ev \notin {"reset", "Begin", "abort"} /\ l' = l + 1
   /\ hist' = hist
   /\ ~Has(TraceLog[l], "panic")
   /\ LET e == TraceLog[l] IN
      CASE e.ev = "Missing" ->
              IF queue = {} THEN e.res = <<>> /\ UNCHANGED <<d, req, reqd, queue, flight, mem, db, faults, last>>
              ELSE Missing(e.args.max, SetOf(e.res)) /\ e.pending = Pending
        [] e.ev = "Process" ->
              /\ Process(e.args.batch)
              /\ e.err = last'.err /\ e.errIdx = last'.idx - 1 /\ e.committed = last'.committed
              /\ e.pending = Pending
        [] e.ev = "Commit" ->
              /\ (Has(e, "written") => e.written = Len(mem))
              /\ IF mem = <<>> THEN UNCHANGED <<d, req, reqd, queue, flight, mem, db, faults, last>> ELSE Commit
              /\ DestOk(e) /\ e.pending = Pending
        [] e.ev = "CommitFail" -> CommitFail(e.args.j) /\ e.written = e.args.j /\ DestOk(e) /\ e.pending = Pending
        [] e.ev = "CommitCrash" -> Crash(e.args.j) /\ e.written = e.args.j /\ DestOk(e) /\ e.pending = Pending
        [] e.ev = "Interrupt" -> Crash(0) /\ DestOk(e) /\ e.pending = Pending
        [] e.ev = "Finish" -> Finish /\ DestOk(e) /\ e.pending = 0 /\ ~Has(e, "err")
        [] OTHER -> FALSE

TInit == Init /\ l = 1 /\ TLCSet(1, 0)
TNext == TBegin \/ TStep
TSpec == TInit /\ [][TNext]_tvars

HighWater == /\ TLCSet(1, IF TLCGet(1) < l THEN l ELSE TLCGet(1))
             /\ ((l = Len(TraceLog) + 1) => PrintT("@@J " \o ToJson([kind |-> "ACCEPTED", events |-> Len(TraceLog)])))
Accepted == IF TLCGet(1) = Len(TraceLog) + 1 THEN TRUE
            ELSE PrintT("@@J " \o ToJson([kind |-> "REJECTED", line |-> TLCGet(1), event |-> TraceLog[TLCGet(1)]]))
=============================================================================
