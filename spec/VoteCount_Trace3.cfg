SPECIFICATION TSpec
CONSTANTS
  WSel = "g"
  Blocks = {"A", "B"}
  MaxI = 6
  MaxMsgs = 1000000
  CertRound = FALSE
  Creds = {"ok", "bad"}
  Known = {}
  Replay = {}
  Skew = {"judged", "same"}
  KSet = {"Prevote", "Precommit", "Cert"}
  GVFocus = "recv"
  Ring = 4
  MaxLost = 1000000
  FutureJudged = FALSE
  Mode = "G"
  MaxOps = 1000000
CONSTRAINT HighWater
POSTCONDITION Accepted
CHECK_DEADLOCK FALSE
