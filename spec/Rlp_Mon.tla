------------------------------ MODULE Rlp_Mon ------------------------------
(***************************************************************************)
(* C14 property-layer monitor over what the real codecs did (the verdict). *)
(* It never rejects a trace: every recorded event is judged by the clauses *)
(* below, each restating one sentence of the property; failures are        *)
(* accumulated as <<clause, discriminator, line>>.  The discriminator is   *)
(* computed from the failing input: the owner type and class of the        *)
(* deviation (Defects of Rlp.tla) when the input is one the design layer   *)
(* knows to be accepted, the type and a generic class otherwise.           *)
(*                                                                         *)
(* Events (harness/drive/rlp):                                             *)
(*  rt  : a real value v was encoded to b; b was decoded (acc), the result *)
(*        re-encoded nre-fold distinct (same = all equal to b) and         *)
(*        compared with v (deq).                                           *)
(*  det : the same value was built and encoded in 20 fresh runs: nenc      *)
(*        distinct encodings.                                              *)
(*  dec : bytes b were decoded into type ty (acc), re-encoded (same, re,   *)
(*        nre), decoded as the first value of a stream the way p2p's       *)
(*        Msg.Decode and the database readers do (sacc, scons bytes        *)
(*        consumed, ssame), decoded by the generic decoder (gacc), driven  *)
(*        through the entry points (ent), with allocation and panic.       *)
(*  gen : bytes b were decoded by the generic decoder only.                *)
(*  encbig : a real object with a byte field of L bytes was encoded        *)
(*        (compressed encoding bc, length len), decoded and compared.      *)
(*  seqinit / seq : a step of a stateful sequence on a mutable container;  *)
(*        at check points the object's encoding and view next to those of  *)
(*        a fresh object built from the model's content.                   *)
(*  api : one call of an encoder entry point within a sequence: what it    *)
(*        returned (bytes, size, EOF).                                     *)
(*  big : a large input given by a descriptor was decoded into type ty by  *)
(*        DecodeBytes (d), by a stream without input limit (u) and by the  *)
(*        generic decoder (g): accepted, allocation, bytes consumed.       *)
(***************************************************************************)
EXTENDS Rlp

TraceLog == ndJsonDeserialize("trace.ndjson")

VARIABLES l, viol, fired,
          cont,     \* the model content of the container of the current stateful sequence (folded with SeqApply)
          rd        \* the model state of the readers of the current encoder-API sequence (folded with ApiNext)
mvars == <<c, l, viol, fired, cont, rd>>

\* "never allocates far beyond the input size": a measured resource bound.  What a decoder may spend is bounded by the
\* bytes it CONSUMED before it returned (for an accepted input: all of them; for a rejected one: the prefix it looked at),
\* so a size field that is merely announced buys nothing and an input rejected at its first element costs the fixed part
\* only.  Calibration on the unchanged tree (checks/C14.py writes the observed maxima of every run to the evidence):
\* accepted inputs cost at most 140 bytes per consumed byte (a list of one-byte items decoded into interface values;
\* 126 into byte slices, 11 for the node's struct types), rejected ones at most 19; the fixed cost of a decode stays below
\* 7 KiB.  The bound is the steepest honest rate with a margin of about a third, and 16 KiB.
AllocC == 192
AllocK == 16384
\* entry points that read the node's own database are not "hostile input" entry points: only NoPanic is asked of them
DiskEntry == {"ReadVoteData", "rawdb.ReadBody"}

Clauses == {"RoundTrip", "EncodeDeterministic", "EncodeCanonical", "OneEncoding", "EncoderStateless", "AcceptImpliesCanonical", "OneHash", "GenericAgrees", "NoPanic",
            "RejectNotCrash", "AllocBounded"}

\* discriminator of an input that was accepted although it is not THE encoding of a value
Class(ty, s, p) ==
   IF p.ok /\ Match(s, p.it, FALSE)
   THEN LET d == Defects(s, p.it) IN IF d = {} THEN {ty, "reencoding_differs"} ELSE d
   ELSE {ty, IF p.ok THEN "schema_mismatch" ELSE "noncanonical_rlp"}

\* "decoding arbitrary bytes never panics"
PanicV(e, ln) == IF e.pan # "" THEN {<<"NoPanic", {e.ty, e.ev}, ln>>} ELSE {}
\* "never allocates far beyond the input size"
Over(alloc, cons) == alloc > AllocC * cons + AllocK
AllocV(e, ln) == (IF e.ev = "dec" /\ Over(e.alloc, e.scons) THEN {<<"AllocBounded", {e.ty, IF e.acc THEN "accepted" ELSE "rejected"}, ln>>} ELSE {})
                 \cup (IF e.ev = "dec" /\ Over(e.galloc, e.gcons) THEN {<<"AllocBounded", {"generic", IF e.gacc THEN "accepted" ELSE "rejected"}, ln>>} ELSE {})
                 \cup (IF e.ev = "gen" /\ Over(e.alloc, e.cons) THEN {<<"AllocBounded", {"generic", IF e.gacc THEN "accepted" ELSE "rejected"}, ln>>} ELSE {})
\* the generic decoder accepts exactly the encodings
GenericV(e, p, ln) == IF e.gacc # p.ok THEN {<<"GenericAgrees", {IF e.gacc THEN "accepts_noncanonical" ELSE "rejects_canonical"}, ln>>} ELSE {}

\* "the consensus/sync message handlers built on it reject rather than crash"; and what such an entry point accepts
\* from the network or from a transaction is "a byte string accepted as a ... consensus payload, vote container, staking
\* message": it must be the encoding of a value (the second sentence of the property, AcceptImpliesCanonical)
\* When the entry point was handed an outer message (x.oty, x.ob: a signed consensus message, a staking message, a
\* log-data record built around the case and followed by junk) it is judged on that WHOLE input.
EntryV(e, s, p, x, ln) ==
   IF x.pan # "" THEN {<<"RejectNotCrash", {x.pt, "panic"}, ln>>}
   ELSE IF x.oty # "" THEN
        (IF ~x.err /\ ~TypedCanonical(Schema(x.oty), x.ob)
         THEN {<<"AcceptImpliesCanonical", {x.pt, "outer", x.oty, IF Canonical(x.ob) THEN "schema_mismatch" ELSE "noncanonical_rlp"}, ln>>}
         ELSE {})
   ELSE IF ~x.err /\ x.pt \notin DiskEntry /\ ~(p.ok /\ Match(s, p.it, TRUE))
        THEN {<<"AcceptImpliesCanonical", {x.pt} \cup (Class(e.ty, s, p) \ {"reencoding_differs"}), ln>>}
        ELSE {}

\* "any byte string accepted as a ... re-encodes to exactly those bytes, so equal objects have one encoding"
AcceptV(e, s, p, ln) ==
   IF e.acc /\ e.pan = "" /\ ~(e.same /\ e.nre = 1 /\ p.ok /\ Match(s, p.it, TRUE))
   THEN {<<"AcceptImpliesCanonical", Class(e.ty, s, p), ln>>} ELSE {}

\* the same sentence for the stream form of decoding (network messages, database records): the bytes CONSUMED are the
\* encoding of a value and the value re-encodes to them
StreamV(e, s, d, ln) ==
   IF e.sacc /\ e.pan = "" /\ ~(e.ssame /\ d.ok /\ d.nx = e.scons + 1 /\ Match(s, d.it, TRUE))
   THEN {<<"AcceptImpliesCanonical", {"stream"} \cup Class(e.ty, s, d), ln>>} ELSE {}

\* "equal objects have one encoding and one hash": the decoded object's Hash()/Size() (and those of the objects inside
\* it) are the ones of a fresh object built from its re-encoding -- whatever bytes it was received as.  Judged
\* independently of AcceptImpliesCanonical.
HashV(e, ln) == IF e.acc /\ e.pan = "" /\ e.oh1 # e.oh2 THEN {<<"OneHash", {e.ty, "hash_follows_received_bytes"}, ln>>} ELSE {}

\* large inputs, judged by their descriptor (Rlp.tla: Expand, BigAccept, BigGeneric)
BigV(e, ln) ==
   LET d == [ty |-> e.ty, kind |-> e.kind, cnt |-> e.cnt, present |-> e.present, elem |-> e.elem, pre |-> e.pre, post |-> e.post, j |-> e.j]
       forms == << <<"bytes", e.d>>, <<"unlimited_stream", e.u>> >>
   IN PanicV(e, ln)
      \cup UNION { IF forms[i][2].acc /\ ~BigAccept(d, TRUE) THEN {<<"AcceptImpliesCanonical", {e.ty, "big", e.kind, forms[i][1]}, ln>>} ELSE {} : i \in 1..2 }
      \cup (IF e.g.acc # BigGeneric(d) THEN {<<"GenericAgrees", {"big", IF e.g.acc THEN "accepts_noncanonical" ELSE "rejects_canonical"}, ln>>} ELSE {})
      \cup UNION { IF Over(x[2].alloc, x[2].cons) THEN {<<"AllocBounded", {e.ty, "big", e.kind, x[1], IF x[2].acc THEN "accepted" ELSE "rejected"}, ln>>} ELSE {}
                   : x \in { <<"bytes", e.d>>, <<"unlimited_stream", e.u>>, <<"generic", e.g>> } }

\* The encode side at the header-class boundaries.  b0 is the encoding of a real object whose byte field holds the marker
\* (three fill bytes); bc is the compressed encoding of the same object with L fill bytes in that field.
\* "equal objects have one encoding": the encoder's output is THE encoding of the value (EncC predicts it from b0 and L),
\* and "decoding its encoding yields an equal value".
EncBigV(e, ln) ==
   LET s == Schema(e.ty)
       p0 == Parse(e.b0)
       path == IF p0.ok THEN MarkerPath(p0.it, e.fill) ELSE <<0>>
   IN PanicV(e, ln) \cup
      (IF e.pan # "" \/ ~p0.ok \/ path = <<0>> \/ ~Match(s, p0.it, TRUE) THEN {}     \* not a usable descriptor: nothing is claimed
       ELSE LET big == Subst(p0.it, path, Virt(e.fill, e.L)) IN
            (IF e.bc # EncC(big) \/ e.len # SizeC(big) THEN {<<"EncodeCanonical", {e.ty, "string_of_" \o ToString(e.L)}, ln>>} ELSE {})
            \cup (IF ~(e.acc /\ e.same /\ e.deq # "no")
                  THEN {<<"RoundTrip", {e.ty, "string_of_" \o ToString(e.L), IF ~e.acc THEN "rejected" ELSE IF ~e.same THEN "reencoding_differs" ELSE "not_equal"}, ln>>}
                  ELSE {}))

\* Stateful sequences: at a check point the object that went through the sequence encodes (and lists) exactly as a fresh
\* object with the model's content q ("equal objects have one encoding").
SetOfSeq2(q) == { q[i] : i \in DOMAIN q }
SeqV(e, q, ln) ==
   PanicV(e, ln) \cup
   (IF e.chk /\ e.pan = "" /\ e.enc # e.fenc THEN {<<"OneEncoding", {e.ty, "stateful", "encoding_differs_from_fresh"}, ln>>} ELSE {})
   \cup (IF e.chk /\ e.pan = "" /\ e.hasview /\ ~(e.view = e.fview /\ SetOfSeq2(e.view) = SetOfSeq2(q))
         THEN {<<"OneEncoding", {e.ty, "stateful", "view_differs_from_content"}, ln>>} ELSE {})

DecV(e, ln) == LET s == Schema(e.ty)
                   d == ParseFirst(e.b)                                     \* first item
                   p == IF d.ok /\ d.nx = Len(e.b) + 1 THEN d ELSE BadDec   \* = Parse(e.b)
               IN
   PanicV(e, ln) \cup AllocV(e, ln) \cup GenericV(e, p, ln) \cup AcceptV(e, s, p, ln) \cup StreamV(e, s, d, ln) \cup HashV(e, ln)
   \cup UNION { EntryV(e, s, p, e.ent[i], ln) : i \in DOMAIN e.ent }

GenV(e, ln) == PanicV(e, ln) \cup AllocV(e, ln) \cup GenericV(e, Parse(e.b), ln)

\* "for every value of every type ..., decoding its encoding yields an equal value"
RtV(e, ln) == LET s == Schema(e.ty) p == Parse(e.b) IN
   PanicV(e, ln) \cup
   (IF e.pan = "" /\ ~(e.acc /\ e.same /\ e.nre = 1 /\ e.deq # "no")
    THEN {<<"RoundTrip", IF ~e.acc THEN {e.ty, "rejected"}
                         ELSE IF ~(e.same /\ e.nre = 1) THEN Class(e.ty, s, p)
                         ELSE {e.ty, "not_equal"}, ln>>}
    ELSE {})

\* "equal objects have one encoding and one hash": the same value always encodes to the same bytes
DetV(e, ln) == LET s == Schema(e.ty) p == Parse(e.b) IN
   PanicV(e, ln) \cup (IF e.pan = "" /\ e.nenc # 1 THEN {<<"EncodeDeterministic", Class(e.ty, s, p) \ {"reencoding_differs"}, ln>>} ELSE {})

\* The encoder entry points share a buffer pool: every call returns what the model says -- a reader the next bytes of
\* Enc(ITS value) (and EOF exactly at their end), an immediate encoding Enc(its value), EncodeToReader the size of it --
\* whatever was interleaved ("equal objects have one encoding": the bytes that leave belong to the value that was encoded).
ApiOp(e) == [op |-> e.op, v |-> e.v, s |-> e.s]
ApiV(e, ln) == PanicV(e, ln) \cup
   (IF e.pan = "" /\ ~(e.out = ApiOut(rd, ApiOp(e)) /\ e.size = ApiSize(ApiOp(e)) /\ e.eof = ApiEof(rd, ApiOp(e)))
    THEN {<<"EncoderStateless", {e.op, IF e.out # ApiOut(rd, ApiOp(e)) THEN "bytes_of_another_value" ELSE "size_or_eof"}, ln>>} ELSE {})
NextRd(e) == CASE e.ev = "reset" -> ApiInit
                [] e.ev = "api" -> ApiNext(rd, ApiOp(e))
                [] OTHER -> rd
NextCont(e) == CASE e.ev = "seqinit" -> e.init
                  [] e.ev = "seq" -> SeqApply(e.op, e.x, cont)
                  [] OTHER -> cont
Judge(e, ln) == CASE e.ev = "dec" -> DecV(e, ln)
                  [] e.ev = "encbig" -> EncBigV(e, ln)
                  [] e.ev = "seq" -> SeqV(e, NextCont(e), ln)
                  [] e.ev = "api" -> ApiV(e, ln)
                  [] e.ev = "gen" -> GenV(e, ln)
                  [] e.ev = "rt"  -> RtV(e, ln)
                  [] e.ev = "det" -> DetV(e, ln)
                  [] e.ev = "big" -> BigV(e, ln)
                  [] OTHER -> {}

\* how often the antecedent of each clause held
Fire(e) == [k \in Clauses |->
   CASE k = "RoundTrip" -> IF e.ev \in {"rt", "encbig"} THEN 1 ELSE 0
     [] k = "EncodeCanonical" -> IF e.ev = "encbig" THEN 1 ELSE 0
     [] k = "OneEncoding" -> IF e.ev = "seq" /\ e.chk THEN 1 ELSE 0
     [] k = "EncoderStateless" -> IF e.ev = "api" THEN 1 ELSE 0
     [] k = "EncodeDeterministic" -> IF e.ev = "det" THEN 1 ELSE 0
     [] k = "AcceptImpliesCanonical" -> IF e.ev = "dec" THEN (IF e.acc THEN 1 ELSE 0) + (IF e.sacc THEN 1 ELSE 0)
                                        ELSE IF e.ev = "big" THEN (IF e.d.acc THEN 1 ELSE 0) + (IF e.u.acc THEN 1 ELSE 0) ELSE 0
     [] k = "OneHash" -> IF e.ev = "dec" /\ e.acc /\ e.oh1 # "" THEN 1 ELSE 0
     [] k = "GenericAgrees" -> IF e.ev \in {"dec", "gen", "big"} THEN 1 ELSE 0
     [] k = "NoPanic" -> IF e.ev \in {"dec", "gen", "rt", "det", "big", "encbig", "seq", "api"} THEN 1 ELSE 0
     [] k = "RejectNotCrash" -> IF e.ev = "dec" THEN Len(e.ent) ELSE 0
     [] k = "AllocBounded" -> IF e.ev = "dec" THEN 2 ELSE IF e.ev = "gen" THEN 1 ELSE IF e.ev = "big" THEN 3 ELSE 0]

MInit == c = 0 /\ l = 1 /\ viol = {} /\ fired = [k \in Clauses |-> 0] /\ cont = <<>> /\ rd = ApiInit
Step == /\ l <= Len(TraceLog)
        /\ l' = l + 1
        /\ viol' = viol \cup Judge(TraceLog[l], l)
        /\ fired' = LET f == Fire(TraceLog[l]) IN [k \in Clauses |-> fired[k] + f[k]]
        /\ cont' = NextCont(TraceLog[l])
        /\ rd' = NextRd(TraceLog[l])
        /\ UNCHANGED c
MSpec == MInit /\ [][Step]_mvars
\* the trace is one linear behaviour: the line number identifies the state (keeps the growing `viol` out of the fingerprint)
MView == l

Done == (l = Len(TraceLog) + 1) =>
          PrintT("@@J " \o ToJson([kind |-> "RESULT", events |-> Len(TraceLog), viol |-> viol, fired |-> fired]))
=============================================================================
