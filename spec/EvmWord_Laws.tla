---------------------------- MODULE EvmWord_Laws ----------------------------
EXTENDS EvmWord

(***************************************************************************)
(* Laws: small-scope validation of the definitions above (mode M).        *)
(* x, y, z range over all words of a small width as TLC integers; the     *)
(* operators are evaluated on their decimal strings and compared with     *)
(* (a) characterisations written directly over the integers / bits, in    *)
(* the style of the Yellow Paper, and (b) algebraic identities between    *)
(* the operators.  Every invariant is evaluated on every operand tuple.   *)
(***************************************************************************)
CONSTANTS ZSet      \* values of the third operand (all words for W = 4; a boundary set for W = 8)
VARIABLES x, y, z
lawVars == <<x, y, z>>

R     == 2 ^ W                      \* small scopes only
Words == 0..(R - 1)
S(n)  == BigOfInt(n)
N(s)  == BigToInt(s)
Sg(n) == IF n >= R \div 2 THEN n - R ELSE n            \* two's complement over the integers
Un(i) == (i + R) % R                                   \* back to a word, for -R < i < R
AbsI(i) == IF i < 0 THEN -i ELSE i
Bit(n, i) == IF i < 0 \/ i >= W THEN 0 ELSE (n \div (2 ^ i)) % 2

LawInit == x \in Words /\ y = 0 /\ z \in ZSet
LawNext == y < R - 1 /\ y' = y + 1 /\ UNCHANGED <<x, z>>
LawSpec == LawInit /\ [][LawNext]_lawVars

Z0 == CHOOSE v \in ZSet : \A u \in ZSet : v <= u      \* binary laws are evaluated once per pair
Binary(P) == (z = Z0) => P

WellFormed == Binary(
   /\ \A op \in BinaryOps : IsWord(Result(op, <<S(x), S(y)>>))
   /\ \A op \in UnaryOps : IsWord(Result(op, <<S(x)>>)))

LawArith == Binary(
   /\ N(ADD(S(x), S(y))) = (x + y) % R
   /\ N(SUB(S(x), S(y))) = (x - y + R) % R
   /\ N(MUL(S(x), S(y))) = (x * y) % R
   /\ N(DIV(S(x), S(y))) = (IF y = 0 THEN 0 ELSE x \div y)
   /\ N(MOD(S(x), S(y))) = (IF y = 0 THEN 0 ELSE x % y)
   \* identities
   /\ SUB(ADD(S(x), S(y)), S(y)) = S(x)
   /\ ADD(S(x), S(y)) = ADD(S(y), S(x)) /\ MUL(S(x), S(y)) = MUL(S(y), S(x))
   /\ ADD(S(x), NOT(S(x))) = MaxW
   /\ SUB(Zero, S(x)) = ADD(NOT(S(x)), One)                                      \* two's-complement negation
   /\ (y # 0 => S(x) = ADD(MUL(S(y), DIV(S(x), S(y))), MOD(S(x), S(y))) /\ N(MOD(S(x), S(y))) < y))

LawSigned == Binary(
   LET q == N(SDIV(S(x), S(y)))
       r == N(SMOD(S(x), S(y)))
   IN
   /\ (y = 0 => q = 0 /\ r = 0)
   /\ (y # 0 =>
         \* truncation towards zero, remainder with the sign of the dividend (over the integers)
         /\ q = Un((IF (Sg(x) < 0) # (Sg(y) < 0) THEN -1 ELSE 1) * (AbsI(Sg(x)) \div AbsI(Sg(y)))) % R
         /\ r = Un((IF Sg(x) < 0 THEN -1 ELSE 1) * (AbsI(Sg(x)) % AbsI(Sg(y))))
         \* x = y * q + r modulo 2^W, |r| < |y|, r = 0 or sign(r) = sign(x)
         /\ S(x) = ADD(MUL(S(y), S(q)), S(r))
         /\ AbsI(Sg(r)) < AbsI(Sg(y))
         /\ (Sg(r) = 0 \/ (Sg(r) < 0) = (Sg(x) < 0)))
   /\ (x = R \div 2 /\ y = R - 1 => q = R \div 2)                                   \* -2^(W-1) / -1
   /\ (Sg(x) >= 0 /\ Sg(y) > 0 => q = x \div y /\ r = x % y))

LawCompare == Binary(
   /\ LT(S(x), S(y)) = Bool(x < y) /\ GT(S(x), S(y)) = Bool(x > y) /\ EQ(S(x), S(y)) = Bool(x = y)
   /\ SLT(S(x), S(y)) = Bool(Sg(x) < Sg(y)) /\ SGT(S(x), S(y)) = Bool(Sg(x) > Sg(y))
   /\ ISZERO(S(x)) = Bool(x = 0) /\ ISZERO(S(x)) = EQ(S(x), Zero)
   /\ GT(S(x), S(y)) = LT(S(y), S(x)) /\ SGT(S(x), S(y)) = SLT(S(y), S(x))
   /\ N(LT(S(x), S(y))) + N(EQ(S(x), S(y))) + N(GT(S(x), S(y))) = 1
   /\ SLT(S(x), S(y)) = LT(ADD(S(x), Half), ADD(S(y), Half)))                   \* bias law

LawBitwise == Binary(
   LET a == N(AND(S(x), S(y)))  o == N(OR(S(x), S(y)))  e == N(XOR(S(x), S(y)))  n == N(NOT(S(x))) IN
   /\ \A i \in 0..(W - 1) :
         /\ Bit(a, i) = (IF Bit(x, i) = 1 /\ Bit(y, i) = 1 THEN 1 ELSE 0)
         /\ Bit(o, i) = (IF Bit(x, i) = 1 \/ Bit(y, i) = 1 THEN 1 ELSE 0)
         /\ Bit(e, i) = (IF Bit(x, i) # Bit(y, i) THEN 1 ELSE 0)
         /\ Bit(n, i) = 1 - Bit(x, i)
   /\ NOT(AND(S(x), S(y))) = OR(NOT(S(x)), NOT(S(y)))                           \* De Morgan
   /\ ADD(S(x), S(y)) = ADD(XOR(S(x), S(y)), MUL(Two, AND(S(x), S(y))))          \* carry identity
   /\ XOR(S(x), S(y)) = SUB(OR(S(x), S(y)), AND(S(x), S(y)))
   /\ NOT(S(x)) = XOR(S(x), MaxW))

\* x = amount / index, y = value
LawShift == Binary(
   LET l == N(SHL(S(x), S(y)))  r == N(SHR(S(x), S(y)))  s == N(SAR(S(x), S(y))) IN
   /\ \A j \in 0..(W - 1) :
         /\ Bit(l, j) = Bit(y, j - x)
         /\ Bit(r, j) = Bit(y, j + x)
         /\ Bit(s, j) = (IF j + x < W THEN Bit(y, j + x) ELSE Bit(y, W - 1))
   /\ SHL(S(x), S(y)) = MUL(S(y), EXP(Two, S(x)))                                \* SHL = multiplication by 2^x (0 for x >= W)
   /\ (x < W => SHR(S(x), S(y)) = DIV(S(y), EXP(Two, S(x))))
   /\ (x >= W => r = 0 /\ l = 0 /\ s = (IF Sg(y) < 0 THEN R - 1 ELSE 0))
   \* SAR is floor division of the signed value
   /\ (x < W => Sg(s) * (2 ^ x) <= Sg(y) /\ Sg(y) < (Sg(s) + 1) * (2 ^ x)))

LawByteSignext == Binary(
   LET b == N(BYTE(S(x), S(y)))
       e == N(SIGNEXTEND(S(x), S(y)))
   IN
   /\ (x >= NB => b = 0)
   /\ (x < NB => /\ b < 2 ^ B
                 /\ \A j \in 0..(B - 1) : Bit(b, j) = Bit(y, B * (NB - 1 - x) + j)
                 /\ S(b) = AND(SHR(S(B * (NB - 1 - x)), S(y)), S(2 ^ B - 1)))      \* BYTE / SHR relation
   /\ (x >= NB - 1 => e = y)
   /\ (x < NB - 1 =>
         LET n == B * (x + 1) IN
         /\ e % (2 ^ n) = y % (2 ^ n)                                           \* low bytes kept
         /\ - (2 ^ (n - 1)) <= Sg(e) /\ Sg(e) < 2 ^ (n - 1)                     \* value fits n bits, signed
         /\ S(e) = SAR(S(W - n), SHL(S(W - n), S(y))))                          \* = shift up, arithmetic shift down
   /\ SIGNEXTEND(S(x), S(e)) = S(e))                                            \* idempotent

RECURSIVE PowMod(_, _)
PowMod(a, e) == IF e = 0 THEN 1 % R ELSE (a * PowMod(a, e - 1)) % R
LawExp == Binary(
   /\ N(EXP(S(x), S(y))) = PowMod(x, y)
   /\ EXP(S(x), Zero) = One
   /\ (y < R - 1 => EXP(S(x), S(y + 1)) = MUL(S(x), EXP(S(x), S(y)))))

LawTernary ==
   /\ IsWord(ADDMOD(S(x), S(y), S(z))) /\ IsWord(MULMOD(S(x), S(y), S(z)))
   /\ N(ADDMOD(S(x), S(y), S(z))) = (IF z = 0 THEN 0 ELSE (x + y) % z)       \* no wrap at 2^W in between
   /\ N(MULMOD(S(x), S(y), S(z))) = (IF z = 0 THEN 0 ELSE (x * y) % z)
   /\ (z # 0 => ADDMOD(S(x), S(y), S(z)) = ADDMOD(S(y), S(x), S(z)) /\ N(ADDMOD(S(x), S(y), S(z))) < z)

\* the gas table is total on the computational opcodes; EXP costs 10 + 50 per exponent byte
LawGas == Binary(
   /\ \A op \in CompOps : StaticGas(op) \in {3, 5, 8, 10}
   /\ Octets(S(y)) = (IF y = 0 THEN 0 ELSE IF y < 256 THEN 1 ELSE 2)
   /\ Gas("EXP", <<S(x), S(y)>>) = 10 + 50 * Octets(S(y)))
=============================================================================
