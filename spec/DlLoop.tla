------------------------------- MODULE DlLoop -------------------------------
(***************************************************************************)
(* C18 -- the body-fetching loop of the downloader (downloader.go,         *)
(* fetchBodies -> fetchParts) on top of the queue of DlQueue.tla.          *)
(*                                                                         *)
(*   LSchedule / LHeadersDone   processHeaders: schedule a chunk and wake  *)
(*                the loop; the header stream ends (wakeCh <- false)       *)
(*   Round        case <-update: nothing pending -> finish or wait;        *)
(*                otherwise every idle peer in turn: stop when throttled or*)
(*                when nothing is pending, reserve, note `progress`, skip a*)
(*                nil request, fetch; afterwards give up with              *)
(*                errPeersUnavailable iff !progressed && !throttled &&     *)
(*                !running && every peer was idle && work is pending       *)
(*   Answer       case packet := <-deliveryCh: deliver, peer idle again    *)
(*                unless the delivery was stale                            *)
(*   Timeout      expire(): the request goes back; the peer is dropped, or *)
(*                (request of more than two items) marked idle again       *)
(*   Drain        the consumer takes results (processFullSyncContent)      *)
(* Honest peers (constant Honest) answer every request completely; they may*)
(* be slow on a large request (time-out without being dropped).            *)
(***************************************************************************)
EXTENDS DlQueue

VARIABLES reg,     \* registered peers
          busy,    \* peers whose blockIdle flag is set
          fin,     \* the header stream has ended
          out      \* "run" | "done" (loop returned nil) | "unavail" (errPeersUnavailable) | "nopeers"
lvars == <<vars, reg, busy, fin, out>>

LInit == Init /\ reg = Peers /\ busy = {} /\ fin = FALSE /\ out = "run"

Running == out = "run"
Frame == UNCHANGED <<reg, busy, fin, out>>

LSchedule == /\ Running /\ ~fin
             /\ \E o \in { x \in Offers : x[1] = "ok" } : Schedule(o[1], o[2], o[3])
             /\ Frame
LHeadersDone == /\ Running /\ ~fin /\ (1..N) \subseteq acc
                /\ fin' = TRUE /\ UNCHANGED <<vars, reg, busy, out>>

Perms(S) == { f \in [1..Cardinality(S) -> S] : \A i, j \in DOMAIN f : i # j => f[i] # f[j] }

RECURSIVE RoundFold(_, _, _)
RoundFold(order, i, st) ==
   IF i > Len(order) \/ st.stop THEN st
   ELSE LET p == order[i]
            space == SpaceOf(st.slot, st.done, st.pend) IN
        IF space <= 0 THEN [st EXCEPT !.throttled = TRUE, !.stop = TRUE]              \* throttle()
        ELSE IF EmptyQ(st.q) THEN [st EXCEPT !.stop = TRUE]                           \* pending() == 0
        ELSE LET r == Go(p, MaxCount, [q |-> st.q, send |-> <<>>, skip |-> <<>>, slot |-> st.slot, done |-> st.done, pool |-> st.pool,
                                       space |-> space, proc |-> 0, progress |-> FALSE, err |-> FALSE]) IN
             RoundFold(order, i + 1,
                       [st EXCEPT !.q = PushAll(r.q, r.skip), !.slot = r.slot, !.done = r.done, !.pool = r.pool,
                                  !.progressed = @ \/ r.progress,
                                  !.pend = IF r.send = <<>> THEN @ ELSE [@ EXCEPT ![p] = r.send],
                                  !.busy = IF r.send = <<>> THEN @ ELSE @ \cup {p},
                                  !.running = @ \/ (r.send # <<>>)])

InFlightNow == \E p \in Peers : pend[p] # <<>>

Round ==
   /\ Running
   /\ Tick([op |-> "Round"])
   /\ IF reg = {}
      THEN out' = "nopeers" /\ UNCHANGED <<lastsz, base, sess, head, acc, pool, queue, pend, done, slot, offset, lacks, faults, broken, delivered, old, reg, busy, fin>>
      ELSE IF EmptyQ(queue)
      THEN /\ out' = IF ~InFlightNow /\ fin THEN "done" ELSE "run"
           /\ UNCHANGED <<lastsz, base, sess, head, acc, pool, queue, pend, done, slot, offset, lacks, faults, broken, delivered, old, reg, busy, fin>>
      ELSE \E order \in Perms(reg \ busy) :
             LET st == RoundFold(order, 1, [q |-> queue, slot |-> slot, done |-> done, pool |-> pool, pend |-> pend, busy |-> busy,
                                            progressed |-> FALSE, throttled |-> FALSE, running |-> InFlightNow, stop |-> FALSE]) IN
             /\ queue' = st.q /\ slot' = st.slot /\ done' = st.done /\ pool' = st.pool /\ pend' = st.pend /\ busy' = st.busy
             /\ out' = IF ~st.progressed /\ ~st.throttled /\ ~st.running /\ busy = {} /\ ~EmptyQ(st.q) THEN "unavail" ELSE "run"
             /\ UNCHANGED <<lastsz, base, sess, head, acc, offset, lacks, faults, broken, delivered, old, reg, fin>>

Answer(p, v) ==
   /\ Running /\ p \in busy /\ pend[p] # <<>>
   /\ v \in Variants(p) /\ (p \in Honest => v[1] = "complete")
   /\ Tick([op |-> "Answer", p |-> p, v |-> v[1]])
   /\ IF IsFault(p, v) THEN Charge ELSE faults' = faults
   /\ LET stale == Matched(pend[p], v[2], 1) = 0 /\ v[2] # <<>> IN busy' = IF stale THEN busy ELSE busy \ {p}
   /\ DeliverCore(p, v[2])
   /\ UNCHANGED <<lastsz, base, sess, head, acc, offset, broken, delivered, old, reg, fin, out>>

\* expire(): the request goes back to the queue.  A request of more than two items that times out does not get the peer
\* dropped: it is marked idle again (setIdle(peer, 0)) -- also an honest peer may be slow like that; smaller requests
\* time out only for peers that are not honest, and those are dropped.
Timeout(p) ==
   /\ Running /\ p \in reg /\ pend[p] # <<>>
   /\ (p \in Honest => Len(pend[p]) > 2)
   /\ Tick([op |-> "Timeout", p |-> p])
   /\ Charge
   /\ queue' = PushAll(queue, pend[p]) /\ pend' = [pend EXCEPT ![p] = <<>>]
   /\ reg' = IF Len(pend[p]) > 2 THEN reg ELSE reg \ {p}
   /\ busy' = busy \ {p}
   /\ UNCHANGED <<lastsz, base, sess, head, acc, pool, done, slot, offset, lacks, broken, delivered, old, fin, out>>

Drain == /\ Processable(1) > 0 /\ Results /\ Frame        \* the consumer goes on after the loop returned

LNext == LSchedule \/ LHeadersDone \/ Round \/ Drain
         \/ \E p \in Peers : Timeout(p) \/ \E v \in Variants(p) : Answer(p, v)
LSpec == LInit /\ [][LNext]_lvars

\* "the full range completes as long as some peer eventually answers honestly": the loop never gives up while an honest
\* peer is connected
NeverGivesUp == out \in {"unavail", "nopeers"} => Honest \cap reg = {}
DoneMeansAll == out = "done" => (\A h \in (base + 1)..N : h \in DeliveredSet \/ h \in done)

LLive == /\ LSpec /\ WF_lvars(LSchedule) /\ WF_lvars(LHeadersDone) /\ WF_lvars(Round) /\ WF_lvars(Drain)
         /\ \A p \in Peers : WF_lvars(Timeout(p) \/ \E v \in Variants(p) : Answer(p, v))
LoopCompletes == <>(out = "done" /\ Len(delivered) = N)
=============================================================================
