------------------------------ MODULE BigWord ------------------------------
(***************************************************************************)
(* Unbounded integers as canonical decimal strings ("0", "17", "-3", a     *)
(* 78-digit 256-bit word, ...).  TLC integers are 32-bit, EVM words are    *)
(* not.  The operators below are overridden by BigWord.class               *)
(* (java.math.BigInteger, see BigWord.java); the bodies here are only      *)
(* placeholders that make a missing override visible (BigWordLoaded fails).*)
(* Only integer arithmetic is delegated -- no EVM rule lives in Java.      *)
(***************************************************************************)
BigAdd(a, b)    == "override-missing"     \* a + b
BigSub(a, b)    == "override-missing"     \* a - b   (may be negative)
BigMul(a, b)    == "override-missing"     \* a * b
BigDivMod(a, b) == <<"override-missing", "override-missing">>   \* <<a div b, a mod b>> for a >= 0, b > 0 (error otherwise)
BigLeq(a, b)    == FALSE                  \* a <= b
BigPow2(n)      == "override-missing"     \* 2^n for a TLC integer n >= 0
BigOfInt(n)     == "override-missing"     \* TLC integer -> decimal string
BigToInt(s)     == 0                      \* decimal string -> TLC integer (error when it does not fit)

\* evaluated as an ASSUME by every module that uses the override
BigWordLoaded ==
   /\ BigAdd("99999999999999999999", "1") = "100000000000000000000"
   /\ BigSub("5", "7") = "-2"
   /\ BigMul("4294967296", "4294967296") = "18446744073709551616"
   /\ BigDivMod("17", "5") = <<"3", "2">>
   /\ BigLeq("-1", "0") /\ ~BigLeq("10", "9")
   /\ BigPow2(70) = "1180591620717411303424"
   /\ BigOfInt(42) = "42" /\ BigToInt("42") = 42
=============================================================================
