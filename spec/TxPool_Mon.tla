----------------------------- MODULE TxPool_Mon -----------------------------
(***************************************************************************)
(* C20 property-layer monitor over traces recorded from the real           *)
(* core.TxPool.  It cannot reject a trace: every event carries the views   *)
(* of the pool read at quiescence through its exported API (Content,       *)
(* Pending, Stats, Nonce, Status, Locals) together with the chain state    *)
(* the pool was last reset to; one named clause per sentence of the        *)
(* statement is evaluated on every event.                                  *)
(*                                                                         *)
(* Statement: "At all times each pooled transaction is either pending or   *)
(* queued but not both [PendingQueueDisjoint, AllIsUnion], pending         *)
(* transactions of an account form a gap-free nonce sequence starting at   *)
(* the account's current nonce [PendingGapFreeFromStateNonce] and are      *)
(* affordable [PendingAffordable: each transaction's own cost], queued     *)
(* ones lie strictly above [QueuedStrictlyAbove], per-account and global   *)
(* limits are respected [LimitsRespected: at quiescence; accounts the pool *)
(* treats as local are exempt by configuration; AccountSlots is the        *)
(* guaranteed minimum the global pending limit may not cut into], and what *)
(* the pool reports as pending is what it hands to the block builder       *)
(* [PendingIsWhatMinerGets]; ... never corrupt these views [NoPanic]."     *)
(*                                                                         *)
(* A transaction in a per-account list is <<nonce, price, value class>>;   *)
(* its cost is price + value class (units of 21000 LU).                    *)
(***************************************************************************)
EXTENDS Integers, Sequences, FiniteSets, TLC, Json

TraceLog == ndJsonDeserialize("trace.ndjson")

VARIABLES l, cfg, prev, dem, viol, fired
vars == <<l, cfg, prev, dem, viol, fired>>

Clauses == {"PendingQueueDisjoint", "PendingGapFreeFromStateNonce", "PendingAffordable", "QueuedStrictlyAbove",
            "LimitsRespected", "AllIsUnion", "PendingIsWhatMinerGets", "NoPanic"}

SetOf(q) == { q[i] : i \in DOMAIN q }
Accts(o) == DOMAIN o.pend
NoDem == [acc |-> {}, glob |-> FALSE, gap |-> {}]
NoObs == [pend |-> <<>>, que |-> <<>>]

Total(lists) == LET F[i \in 0..Len(lists)] == IF i = 0 THEN 0 ELSE F[i - 1] + Len(lists[i]) IN F[Len(lists)]
MaxNonce(q) == LET S == { q[i][1] : i \in DOMAIN q } IN CHOOSE x \in S : \A y \in S : y <= x

\* ---- the clauses, per account where that makes sense; each returns a set of discriminator sets
GapFreeAt(o, a) == \A i \in DOMAIN o.pend[a] : o.pend[a][i][1] = o.sn[a] + i - 1
GapKind(o, a) == IF o.pend[a][1][1] # o.sn[a] THEN "front" ELSE "hole"

\* observation of the known-finding classes (see TxPool.tla, NewDemR)
DemotedIn(p, o) == IF p.pend = <<>> THEN {} ELSE { a \in Accts(o) : SetOf(p.pend[a]) \cap SetOf(o.que[a]) # {} }
KnownSet(o) == { <<k[1], k[2], k[3], k[4]>> : k \in SetOf(o.known) }
Dropped(e, o) == IF e.ev = "ResetBack" /\ "reinj" \in DOMAIN e.res
                 THEN { t.a : t \in { x \in SetOf(e.res.reinj) : <<x.a, x.n, x.p, x.v>> \notin KnownSet(o) } } ELSE {}
\* a sample of the concurrent driver sums up a whole round: when the round re-priced or moved the head, demotions may have
\* happened without being visible as such between two samples
Hidden(e) == e.ev = "Sample" /\ e.args.demoting
NewDem(e, o) ==
   [acc  |-> { a \in Accts(o) : Len(o.que[a]) > cfg.aq /\ (a \in dem.acc \/ a \in DemotedIn(prev, o) \/ Hidden(e)) },
    glob |-> Total(o.que) > cfg.gq /\ (dem.glob \/ DemotedIn(prev, o) # {} \/ Hidden(e)),
    gap  |-> { a \in Accts(o) : ~GapFreeAt(o, a) /\ (a \in dem.gap \/ a \in Dropped(e, o)) }]

Fails(e, o, d) ==
   LET A == Accts(o)
       loc == SetOf(o.loc)
       inPend == UNION { { <<a, t[1], t[2], t[3]>> : t \in SetOf(o.pend[a]) } : a \in A }
       inQue  == UNION { { <<a, t[1], t[2], t[3]>> : t \in SetOf(o.que[a]) } : a \in A }
       st(c)  == { <<k[1], k[2], k[3], k[4]>> : k \in { x \in SetOf(o.known) : x[5] = c } }
   IN
   \* "each pooled transaction is either pending or queued but not both"
      { <<"PendingQueueDisjoint", {e.ev}>> : x \in inPend \cap inQue }
   \* "pending transactions of an account form a gap-free nonce sequence starting at the account's current nonce"
   \cup { <<"PendingGapFreeFromStateNonce", {GapKind(o, a), IF a \in d.gap THEN "reinject_dropped" ELSE "plain"}>>
            : a \in { x \in A : ~GapFreeAt(o, x) } }
   \* "and are affordable"
   \cup { <<"PendingAffordable", {e.ev}>> : a \in { x \in A : \E t \in SetOf(o.pend[x]) : t[2] + t[3] > o.sb[x] } }
   \* "queued ones lie strictly above"
   \cup { <<"QueuedStrictlyAbove", {e.ev}>>
            : a \in { x \in A : \E t \in SetOf(o.que[x]) : t[1] < o.sn[x] \/ (Len(o.pend[x]) > 0 /\ t[1] <= MaxNonce(o.pend[x])) } }
   \* "per-account and global limits are respected"
   \cup { <<"LimitsRespected", {"AccountQueue", IF a \in d.acc THEN "demoted" ELSE "plain"}>>
            : a \in { x \in A \ loc : Len(o.que[x]) > cfg.aq } }
   \cup (IF Total(o.pend) > cfg.gs /\ \E a \in A \ loc : Len(o.pend[a]) > cfg.as THEN { <<"LimitsRespected", {"GlobalSlots", e.ev}>> } ELSE {})
   \cup (IF Total(o.que) > cfg.gq /\ \E a \in A \ loc : Len(o.que[a]) > 0
         THEN { <<"LimitsRespected", {"GlobalQueue", IF d.glob THEN "demoted" ELSE "plain"}>> } ELSE {})
   \* the pool's lookup (Status) and counters (Stats) describe exactly pending + queued
   \cup (IF st(2) = inPend /\ st(1) = inQue /\ Cardinality(SetOf(o.known)) = Cardinality(inPend) + Cardinality(inQue)
         THEN {} ELSE { <<"AllIsUnion", {"status", e.ev}>> })
   \cup (IF o.stats = <<Total(o.pend), Total(o.que)>> /\ o.foreign = 0 THEN {} ELSE { <<"AllIsUnion", {"stats", e.ev}>> })
   \* "what the pool reports as pending is what it hands to the block builder"
   \cup (IF o.miner = o.pend THEN {} ELSE { <<"PendingIsWhatMinerGets", {e.ev}>> })

AddViol(new) == viol \cup { v \in new : ~\E w \in viol : w[1] = v[1] /\ w[2] = v[2] }
Bump(cs) == [c \in Clauses |-> IF c \in cs THEN fired[c] + 1 ELSE fired[c]]

Init == l = 1 /\ cfg = [as |-> 0, gs |-> 0, aq |-> 0, gq |-> 0] /\ prev = NoObs /\ dem = NoDem /\ viol = {}
        /\ fired = [c \in Clauses |-> 0]

Step ==
   /\ l <= Len(TraceLog)
   /\ l' = l + 1
   /\ LET e == TraceLog[l] IN
      CASE e.ev \in {"reset", "abort"} ->
              /\ prev' = NoObs /\ dem' = NoDem /\ UNCHANGED <<cfg, viol, fired>>
        [] "panic" \in DOMAIN e ->
              /\ viol' = AddViol({ <<"NoPanic", {e.ev}, l>> }) /\ fired' = Bump({"NoPanic"})
              /\ UNCHANGED <<cfg, prev, dem>>
        [] OTHER ->
              LET o == e.obs
                  c == IF e.ev = "Init" THEN [as |-> e.args.as, gs |-> e.args.gs, aq |-> e.args.aq, gq |-> e.args.gq] ELSE cfg IN
              /\ cfg' = c
              /\ dem' = IF e.ev = "Init" THEN NoDem ELSE NewDem(e, o)
              /\ prev' = [pend |-> o.pend, que |-> o.que]
              /\ viol' = IF e.ev = "Init" THEN viol ELSE AddViol({ <<f[1], f[2], l>> : f \in Fails(e, o, dem') })
              /\ fired' = Bump((IF Total(o.pend) > 0 THEN {"PendingGapFreeFromStateNonce", "PendingAffordable", "PendingIsWhatMinerGets"} ELSE {})
                               \cup (IF Total(o.que) > 0 THEN {"QueuedStrictlyAbove"} ELSE {})
                               \cup (IF Total(o.pend) > 0 /\ Total(o.que) > 0 THEN {"PendingQueueDisjoint"} ELSE {})
                               \cup (IF Len(o.known) > 0 THEN {"AllIsUnion"} ELSE {})
                               \cup (IF e.ev # "Init" /\ (Total(o.pend) >= c.gs \/ Total(o.que) >= c.gq \/ \E a \in Accts(o) : Len(o.que[a]) >= c.aq)
                                     THEN {"LimitsRespected"} ELSE {}))

Spec == Init /\ [][Step]_vars

Done == (l = Len(TraceLog) + 1) =>
          PrintT("@@J " \o ToJson([kind |-> "RESULT", events |-> Len(TraceLog), viol |-> viol, fired |-> fired]))
=============================================================================
